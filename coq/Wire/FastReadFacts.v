(* Wire/FastReadFacts.v — proofs about the reader of the fastgo model (Wire/Fast.v: fskip, fr_val, fast_read).

     fskip_enc              gopkg Skip consumes exactly an encoding (well-formed, depth <= its limit)
     fr_val_from_w          FastRead of an encoding = the standard Read of the wire value (same object,
                            same required-field error), for every wire value the standard Write of ANY
                            schema can produce, as long as the fields the reader knows carry what its
                            schema says (otherwise the standard model answers EHeader)
     fast_read_eq_std_read  the same at top level, through bytes on the standard side too
     fr_val_extend / fast_read_prefix_error
                            success is stable under extension of the input, hence every proper prefix
                            of an accepted input is refused (error, or the panic classes of Skip)
     fast_read_total        the fuel never runs out: fast_read always answers with a value or an error  *)
From Coq Require Import List ZArith Bool Lia Permutation Sorted.
From Coq.Strings Require Import Byte.
From Verif Require Import Base.Bytes Base.BE Wire.TType Wire.WVal Wire.Codec Wire.CodecFacts
  Wire.Schema Wire.Value Wire.GenTables Wire.FastTables Wire.Std Wire.StdFacts Wire.Fast Wire.FastFacts.
Import ListNotations.
Open Scope Z_scope.

(* ------------------------------------------------------------------ induction on wire values *)

Section WvalInd.
  Variable P : wval -> Prop.
  Hypothesis HBool : forall b, P (WBool b).
  Hypothesis HByte : forall z, P (WByte z).
  Hypothesis HDouble : forall z, P (WDouble z).
  Hypothesis HI16 : forall z, P (WI16 z).
  Hypothesis HI32 : forall z, P (WI32 z).
  Hypothesis HI64 : forall z, P (WI64 z).
  Hypothesis HStr : forall s, P (WStr s).
  Hypothesis HStruct : forall fs, Forall (fun f => P (snd f)) fs -> P (WStruct fs).
  Hypothesis HMap : forall kt vt kvs, Forall (fun kv => P (fst kv) /\ P (snd kv)) kvs -> P (WMap kt vt kvs).
  Hypothesis HSet : forall et l, Forall P l -> P (WSet et l).
  Hypothesis HList : forall et l, Forall P l -> P (WList et l).

  Fixpoint wval_ind2 (w : wval) : P w :=
    match w with
    | WBool b => HBool b | WByte z => HByte z | WDouble z => HDouble z | WI16 z => HI16 z
    | WI32 z => HI32 z | WI64 z => HI64 z | WStr s => HStr s
    | WStruct fs => HStruct fs ((fix go (l : list (ttype * Z * wval)) : Forall (fun f => P (snd f)) l :=
                                  match l with [] => Forall_nil _ | f :: r => Forall_cons f (wval_ind2 (snd f)) (go r) end) fs)
    | WMap kt vt kvs => HMap kt vt kvs ((fix go (l : list (wval * wval)) : Forall (fun kv => P (fst kv) /\ P (snd kv)) l :=
                                  match l with
                                  | [] => Forall_nil _
                                  | kv :: r => Forall_cons kv (conj (wval_ind2 (fst kv)) (wval_ind2 (snd kv))) (go r) end) kvs)
    | WSet et l => HSet et l ((fix go (l : list wval) : Forall P l :=
                                  match l with [] => Forall_nil _ | x :: r => Forall_cons x (wval_ind2 x) (go r) end) l)
    | WList et l => HList et l ((fix go (l : list wval) : Forall P l :=
                                  match l with [] => Forall_nil _ | x :: r => Forall_cons x (wval_ind2 x) (go r) end) l)
    end.
End WvalInd.

(* ------------------------------------------------------------------ bytes *)

Lemma put_be_1 z : put_be 1 z = [byte_of_Z z].
Proof. cbn [put_be]. rewrite Z.pow_0_r, Z.div_1_r. reflexivity. Qed.

Lemma Z_of_byte_code t : Z_of_byte (byte_of_Z (code t)) = code t.
Proof. rewrite Z_of_byte_of_Z. pose proof (code_range t). apply Z.mod_small. lia. Qed.

Lemma adv_app (a b : bytes) : adv (lenZ a) (a ++ b) = b.
Proof. unfold adv, lenZ. rewrite Nat2Z.id, skipn_app, skipn_all, Nat.sub_diag. reflexivity. Qed.

Lemma adv_app_n n (a b : bytes) : n = lenZ a -> adv n (a ++ b) = b.
Proof. intros ->. apply adv_app. Qed.

Lemma enc_nonempty x : 1 <= lenZ (enc x).
Proof.
  unfold lenZ. rewrite enc_length. destruct x; cbn [wsize]; try lia.
  induction fs as [|[[t i] y] fs IH]; lia.
Qed.

Definition fixed_ttype (t : ttype) : Z :=
  match t with T_BOOL | T_BYTE => 1 | T_I16 => 2 | T_I32 => 4 | T_I64 | T_DOUBLE => 8 | _ => 0 end.

Lemma type_size_code t : type_size (code t) = fixed_ttype t.
Proof. destruct t; reflexivity. Qed.

Lemma neg_type_code t : neg_type (code t) = false.
Proof. destruct t; reflexivity. Qed.

Lemma enc_fixed x : 0 < fixed_ttype (wtype x) -> lenZ (enc x) = fixed_ttype (wtype x).
Proof. destruct x; cbn [wtype fixed_ttype]; try lia; intros _; cbn [enc]; rewrite ?lenZ_put; reflexivity. Qed.

Lemma i32_0_put n r : in_srange 4 n -> i32_0 (put_be 4 n ++ r) = n.
Proof. intro H. unfold i32_0. rewrite get_s_put by (auto; lia). reflexivity. Qed.

Lemma lenZ_enc_list_go l : lenZ (enc_list_go l) = sumZ (map (fun x => lenZ (enc x)) l).
Proof. induction l as [|x l IH]; [reflexivity|]. cbn [enc_list_go map sumZ]. fold enc_list_go. rewrite lenZ_app, IH. reflexivity. Qed.

Lemma sumZ_const {A} (f : A -> Z) c l : Forall (fun x => f x = c) l -> sumZ (map f l) = lenZ l * c.
Proof. induction 1 as [|x l Hx _ IH]; [reflexivity|]. cbn [map sumZ]. rewrite lenZ_cons, Hx, IH. lia. Qed.

(* ------------------------------------------------------------------ Skip consumes exactly an encoding *)

Lemma skipstr_enc s r : in_srange 4 (Z.of_nat (length s)) -> skipstr (enc (WStr s) ++ r) = FOk (lenZ (enc (WStr s))).
Proof.
  intro H. cbn [enc]. unfold skipstr. rewrite <- app_assoc, i32_0_put by assumption.
  rewrite !lenZ_app, lenZ_put. fold (lenZ s).
  pose proof (lenZ_nonneg s). pose proof (lenZ_nonneg r). unfold lenZ in *.
  destruct (Z.leb_spec 4 (Z.of_nat 4 + (Z.of_nat (length s) + Z.of_nat (length r)))); [|lia].
  destruct (Z.ltb_spec (Z.of_nat (length s)) 0); [lia|].
  destruct (Z.leb_spec (4 + Z.of_nat (length s)) (Z.of_nat 4 + (Z.of_nat (length s) + Z.of_nat (length r)))); [|lia].
  f_equal; lia.
Qed.

Definition skip_ok (x : wval) : Prop :=
  forall d r, wf x -> (depth x <= d)%nat -> fskip d (code (wtype x)) (enc x ++ r) = FOk (lenZ (enc x)).

(* what the loops of skipType use for one element *)
Lemma skip_elem_enc d x r :
  skip_ok x -> wf x -> (depth x <= d)%nat ->
  skip_elem (fskip d) (enc x ++ r) (code (wtype x)) = FOk (lenZ (enc x)).
Proof.
  intros Hx Hwf Hd. unfold skip_elem. rewrite type_size_code.
  destruct (Z.ltb_spec 0 (fixed_ttype (wtype x))) as [Hf|Hf].
  - rewrite enc_fixed by assumption. reflexivity.
  - destruct x; cbn [wtype fixed_ttype code] in *; try lia; cbn [Z.eqb Pos.eqb]; try (apply Hx; assumption).
    apply skipstr_enc. exact Hwf.
Qed.

Lemma match_nonempty {A} (rem : bytes) (a b : A) : 1 <= lenZ rem -> match rem with [] => a | _ :: _ => b end = b.
Proof. destruct rem; [cbn; lia | reflexivity]. Qed.

Lemma enc_app_nonempty x r : 1 <= lenZ (enc x ++ r).
Proof. rewrite lenZ_app. pose proof (enc_nonempty x). pose proof (lenZ_nonneg r). lia. Qed.

Lemma skip_list_loop_enc d et l : forall fuel acc r,
  (length l <= fuel)%nat -> fixed_ttype et = 0 ->
  Forall (fun x => skip_ok x /\ wf x /\ wtype x = et /\ (depth x <= d)%nat) l ->
  skip_list_loop (fskip d) fuel (code et) (lenZ l) acc (enc_list_go l ++ r) = FOk (acc + lenZ (enc_list_go l)).
Proof.
  induction l as [|x l IH]; intros fuel acc r Hf Hfix Hall.
  - destruct fuel; cbn; rewrite Z.add_0_r; reflexivity.
  - inversion Hall as [|? ? (Hs & Hwf & Ht & Hd) Hrest]; subst.
    destruct fuel; [cbn in Hf; lia|]. cbn [skip_list_loop].
    rewrite lenZ_cons. destruct (Z.leb_spec (1 + lenZ l) 0); [pose proof (lenZ_nonneg l); lia|].
    change (enc_list_go (x :: l)) with (enc x ++ enc_list_go l). rewrite <- app_assoc.
    rewrite (match_nonempty (enc x ++ enc_list_go l ++ r)) by apply enc_app_nonempty.
    rewrite skip_elem_enc by assumption. rewrite adv_app.
    replace (1 + lenZ l - 1) with (lenZ l) by lia.
    rewrite IH by (assumption || (cbn in Hf; lia)). rewrite lenZ_app. f_equal. lia.
Qed.

Lemma skip_map_loop_enc d kt vt kvs : forall fuel acc r,
  (length kvs <= fuel)%nat ->
  Forall (fun kv => (skip_ok (fst kv) /\ wf (fst kv) /\ wtype (fst kv) = kt /\ (depth (fst kv) <= d)%nat) /\
                    (skip_ok (snd kv) /\ wf (snd kv) /\ wtype (snd kv) = vt /\ (depth (snd kv) <= d)%nat)) kvs ->
  skip_map_loop (fskip d) fuel (code kt) (code vt) (lenZ kvs) acc (enc_map_go kvs ++ r) = FOk (acc + lenZ (enc_map_go kvs)).
Proof.
  induction kvs as [|[k x] kvs IH]; intros fuel acc r Hf Hall.
  - destruct fuel; cbn; rewrite Z.add_0_r; reflexivity.
  - inversion Hall as [|? ? [(Hsk & Hwk & Htk & Hdk) (Hsx & Hwx & Htx & Hdx)] Hrest]; subst. cbn [fst snd] in *.
    destruct fuel; [cbn in Hf; lia|]. cbn [skip_map_loop].
    rewrite lenZ_cons. destruct (Z.leb_spec (1 + lenZ kvs) 0); [pose proof (lenZ_nonneg kvs); lia|].
    change (enc_map_go ((k, x) :: kvs)) with (enc k ++ enc x ++ enc_map_go kvs). rewrite <- !app_assoc.
    rewrite (match_nonempty (enc k ++ enc x ++ enc_map_go kvs ++ r)) by apply enc_app_nonempty.
    rewrite skip_elem_enc by assumption. rewrite adv_app.
    assert (Hne : 1 <= lenZ (enc x ++ enc_map_go kvs ++ r)) by apply enc_app_nonempty.
    destruct (enc x ++ enc_map_go kvs ++ r) as [|b0 rem1] eqn:E; [cbn in Hne; lia|]. rewrite <- E. clear Hne.
    rewrite skip_elem_enc by assumption. rewrite adv_app.
    replace (1 + lenZ kvs - 1) with (lenZ kvs) by lia.
    rewrite IH by (assumption || (cbn in Hf; lia)). rewrite !lenZ_app. f_equal. lia.
Qed.

Lemma skip_struct_loop_enc d fs : forall fuel acc r,
  (length fs < fuel)%nat ->
  Forall (fun f => skip_ok (snd f) /\ wf (snd f) /\ wtype (snd f) = fst (fst f) /\ (depth (snd f) <= d)%nat) fs ->
  skip_struct_loop (fskip d) fuel acc (enc_fields_go fs ++ r) = FOk (acc + lenZ (enc_fields_go fs)).
Proof.
  induction fs as [|[[t i] x] fs IH]; intros fuel acc r Hf Hall.
  - destruct fuel; [cbn in Hf; lia|]. reflexivity.
  - inversion Hall as [|? ? (Hs & Hwf & Ht & Hd) Hrest]; subst. cbn [fst snd] in *.
    destruct fuel; [cbn in Hf; lia|]. rewrite enc_fields_go_cons. cbn [skip_struct_loop].
    rewrite put_be_1. cbn [app]. subst t. rewrite Z_of_byte_code.
    destruct (Z.eqb_spec (code (wtype x)) 0) as [E0|_]; [pose proof (code_range (wtype x)); lia|].
    rewrite <- !app_assoc.
    rewrite (adv_app_n 2 (put_be 2 i)) by (rewrite lenZ_put; reflexivity).
    assert (Hne : 1 <= lenZ (enc x ++ enc_fields_go fs ++ r)) by apply enc_app_nonempty.
    destruct (enc x ++ enc_fields_go fs ++ r) as [|b0 rem1] eqn:E; [cbn in Hne; lia|]. rewrite <- E. clear Hne.
    rewrite neg_type_code. rewrite skip_elem_enc by assumption. rewrite adv_app.
    rewrite IH by (assumption || (cbn in Hf; lia)). rewrite ?lenZ_cons, ?lenZ_app, ?lenZ_put. f_equal; lia.
Qed.

Lemma byte0_code t r : byte0 (put_be 1 (code t) ++ r) = code t.
Proof. rewrite put_be_1. cbn [app byte0]. apply Z_of_byte_code. Qed.

Lemma length_le_enc_list l : (length l <= length (enc_list_go l))%nat.
Proof.
  induction l as [|x l IH]; [cbn; lia|]. change (enc_list_go (x :: l)) with (enc x ++ enc_list_go l).
  rewrite app_length. pose proof (enc_nonempty x). unfold lenZ in *. cbn [length]. lia.
Qed.
Lemma length_le_enc_map l : (length l <= length (enc_map_go l))%nat.
Proof.
  induction l as [|[k x] l IH]; [cbn; lia|]. change (enc_map_go ((k, x) :: l)) with (enc k ++ enc x ++ enc_map_go l).
  rewrite !app_length. pose proof (enc_nonempty k). unfold lenZ in *. cbn [length]. lia.
Qed.

Lemma fskip_fixed d t bs :
  neg_type t = false -> 0 < type_size t -> type_size t <= lenZ bs -> fskip (S d) t bs = FOk (type_size t).
Proof.
  intros Hn Hp Hl. cbn [fskip]. rewrite Hn.
  destruct (Z.ltb_spec 0 (type_size t)); [|lia]. destruct (Z.ltb_spec (lenZ bs) (type_size t)); [lia|]. reflexivity.
Qed.

Lemma fskip_string d bs : fskip (S d) 11 bs = skipstr bs.
Proof. reflexivity. Qed.

Lemma fskip_struct d bs : fskip (S d) 12 bs = skip_struct_loop (fskip d) (S (length bs)) 0 bs.
Proof. reflexivity. Qed.

Lemma fskip_map d bs :
  fskip (S d) 13 bs =
  if lenZ bs <? 6 then FErr FShort else
  let kt := byte0 bs in let vt := byte0 (adv 1 bs) in let sz := i32_0 (adv 2 bs) in
  if sz <? 0 then FErr FNegLen else
  if neg_type kt || neg_type vt then FErr FIndex else
  let ksz := type_size kt in let vsz := type_size vt in
  if (0 <? ksz) && (0 <? vsz) then
    (if lenZ bs <? 6 + sz * (ksz + vsz) then FErr FShort else FOk (6 + sz * (ksz + vsz)))
  else skip_map_loop (fskip d) (S (length bs)) kt vt sz 6 (adv 6 bs).
Proof. reflexivity. Qed.

Lemma fskip_list d t bs : t = 15 \/ t = 14 ->
  fskip (S d) t bs =
  if lenZ bs <? 5 then FErr FShort else
  let vt := byte0 bs in let sz := i32_0 (adv 1 bs) in
  if sz <? 0 then FErr FNegLen else
  if neg_type vt then FErr FIndex else
  let vsz := type_size vt in
  if 0 <? vsz then (if lenZ bs <? 5 + sz * vsz then FErr FShort else FOk (5 + sz * vsz))
  else skip_list_loop (fskip d) (S (length bs)) vt sz 5 (adv 5 bs).
Proof. intros [-> | ->]; reflexivity. Qed.

Lemma fskip_listlike d t et l r :
  t = 15 \/ t = 14 -> in_srange 4 (Z.of_nat (length l)) ->
  Forall (fun x => skip_ok x /\ wf x /\ wtype x = et /\ (depth x <= d)%nat) l ->
  fskip (S d) t (put_be 1 (code et) ++ put_be 4 (Z.of_nat (length l)) ++ enc_list_go l ++ r) =
  FOk (lenZ (put_be 1 (code et) ++ put_be 4 (Z.of_nat (length l)) ++ enc_list_go l)).
Proof.
  intros Ht Hlen Hel. rewrite (fskip_list d t _ Ht). cbn zeta.
  set (body := enc_list_go l) in *.
  assert (L : lenZ (put_be 1 (code et) ++ put_be 4 (Z.of_nat (length l)) ++ body ++ r) = 5 + lenZ body + lenZ r)
    by (rewrite !lenZ_app, !lenZ_put; lia).
  rewrite L. pose proof (lenZ_nonneg body). pose proof (lenZ_nonneg r).
  destruct (Z.ltb_spec (5 + lenZ body + lenZ r) 5); [lia|].
  rewrite byte0_code.
  rewrite (adv_app_n 1 (put_be 1 (code et))) by (rewrite lenZ_put; reflexivity).
  rewrite i32_0_put by assumption.
  destruct (Z.ltb_spec (Z.of_nat (length l)) 0); [lia|].
  rewrite neg_type_code, type_size_code.
  destruct (Z.ltb_spec 0 (fixed_ttype et)) as [Hf|Hf].
  - assert (Eb : lenZ body = Z.of_nat (length l) * fixed_ttype et).
    { unfold body. rewrite lenZ_enc_list_go. apply sumZ_const. revert Hel. apply Forall_impl. intros x (_ & _ & Hx & _).
      rewrite enc_fixed by (rewrite Hx; assumption). rewrite Hx. reflexivity. }
    destruct (Z.ltb_spec (5 + lenZ body + lenZ r) (5 + Z.of_nat (length l) * fixed_ttype et)); [lia|].
    f_equal. rewrite !lenZ_app, !lenZ_put. lia.
  - replace (adv 5 (put_be 1 (code et) ++ put_be 4 (Z.of_nat (length l)) ++ body ++ r)) with (body ++ r)
      by (symmetry; rewrite (app_assoc (put_be 1 (code et))); apply adv_app_n; rewrite !lenZ_app, !lenZ_put; reflexivity).
    unfold body. fold (lenZ l). rewrite skip_list_loop_enc; [f_equal; rewrite !lenZ_app, !lenZ_put; lia | | destruct et; cbn [fixed_ttype] in *; lia | exact Hel].
    rewrite !app_length, !put_be_length. pose proof (length_le_enc_list l). lia.
Qed.

Theorem fskip_enc : forall x, skip_ok x.
Proof.
  intro x. induction x using wval_ind2; intros d r Hwf Hd;
    (destruct d as [|d]; [cbn [depth] in Hd; lia|]).
  (* fixed-size leaves *)
  1-6: (match goal with |- fskip _ (code (wtype ?x)) _ = _ =>
          rewrite fskip_fixed; rewrite ?neg_type_code, ?type_size_code, ?(enc_fixed x); try reflexivity;
          cbn [wtype fixed_ttype]; try lia;
          rewrite lenZ_app, (enc_fixed x) by (cbn [wtype fixed_ttype]; lia); cbn [wtype fixed_ttype];
          pose proof (lenZ_nonneg r); lia end).
  - (* string *) cbn [wtype code]. rewrite fskip_string. apply skipstr_enc. exact Hwf.
  - (* struct *)
    apply wf_struct_iff in Hwf. cbn [wtype code]. rewrite enc_struct_unfold.
    rewrite fskip_struct.
    rewrite skip_struct_loop_enc; [reflexivity | |].
    + rewrite app_length. pose proof (enc_fields_len fs). lia.
    + rewrite Forall_forall in *. intros f Hf. specialize (H f Hf). specialize (Hwf f Hf).
      pose proof (depth_struct_le fs f Hf) as Hdf. cbn in Hd. fold depth_struct_go in Hd.
      repeat split; try tauto. lia.
  - (* map *)
    apply wf_map_iff in Hwf. destruct Hwf as [Hlen Hall]. cbn [wtype code]. rewrite enc_map_unfold.
    assert (Hel : Forall (fun kv => (skip_ok (fst kv) /\ wf (fst kv) /\ wtype (fst kv) = kt /\ (depth (fst kv) <= d)%nat) /\
                    (skip_ok (snd kv) /\ wf (snd kv) /\ wtype (snd kv) = vt /\ (depth (snd kv) <= d)%nat)) kvs).
    { rewrite Forall_forall in *. intros kv Hkv. specialize (H kv Hkv). specialize (Hall kv Hkv).
      pose proof (depth_map_le kvs kv Hkv) as Hdp. cbn in Hd. fold depth_map_go in Hd.
      repeat split; try tauto; lia. }
    set (body := enc_map_go kvs) in *.
    rewrite fskip_map. cbn zeta.
    rewrite <- !app_assoc.
    assert (L : lenZ (put_be 1 (code kt) ++ put_be 1 (code vt) ++ put_be 4 (Z.of_nat (length kvs)) ++ body ++ r)
                = 6 + lenZ body + lenZ r) by (rewrite !lenZ_app, !lenZ_put; lia).
    rewrite L. pose proof (lenZ_nonneg body). pose proof (lenZ_nonneg r).
    destruct (Z.ltb_spec (6 + lenZ body + lenZ r) 6); [lia|].
    rewrite byte0_code.
    rewrite (adv_app_n 1 (put_be 1 (code kt))) by (rewrite lenZ_put; reflexivity). rewrite byte0_code.
    replace (adv 2 (put_be 1 (code kt) ++ put_be 1 (code vt) ++ put_be 4 (Z.of_nat (length kvs)) ++ body ++ r))
      with (put_be 4 (Z.of_nat (length kvs)) ++ body ++ r)
      by (symmetry; rewrite (app_assoc (put_be 1 (code kt))); apply adv_app_n; rewrite lenZ_app, !lenZ_put; reflexivity).
    rewrite i32_0_put by assumption.
    destruct (Z.ltb_spec (Z.of_nat (length kvs)) 0); [lia|].
    rewrite !neg_type_code. cbn [orb]. rewrite !type_size_code.
    assert (Lb : lenZ body = sumZ (map (fun kv => lenZ (enc (fst kv)) + lenZ (enc (snd kv))) kvs)).
    { unfold body. clear. induction kvs as [|[k x] kvs IH]; [reflexivity|].
      change (enc_map_go ((k, x) :: kvs)) with (enc k ++ enc x ++ enc_map_go kvs). rewrite !lenZ_app, IH. cbn [map sumZ fst snd]. lia. }
    destruct (Z.ltb_spec 0 (fixed_ttype kt)) as [Hk|Hk], (Z.ltb_spec 0 (fixed_ttype vt)) as [Hv|Hv]; cbn [andb].
    + assert (Eb : lenZ body = Z.of_nat (length kvs) * (fixed_ttype kt + fixed_ttype vt)).
      { rewrite Lb. apply sumZ_const. rewrite Forall_forall in *. intros kv Hkv. destruct (Hall kv Hkv) as (Hk1 & Hv1 & _ & _).
        rewrite !enc_fixed by (rewrite ?Hk1, ?Hv1; assumption). rewrite Hk1, Hv1. reflexivity. }
      destruct (Z.ltb_spec (6 + lenZ body + lenZ r) (6 + Z.of_nat (length kvs) * (fixed_ttype kt + fixed_ttype vt))); [lia|].
      f_equal. rewrite !lenZ_app, !lenZ_put. lia.
    + replace (adv 6 (put_be 1 (code kt) ++ put_be 1 (code vt) ++ put_be 4 (Z.of_nat (length kvs)) ++ body ++ r)) with (body ++ r)
        by (symmetry; rewrite (app_assoc (put_be 1 (code kt))), (app_assoc (_ ++ _) (put_be 4 _)); apply adv_app_n; rewrite !lenZ_app, !lenZ_put; reflexivity).
      unfold body. fold (lenZ kvs). rewrite skip_map_loop_enc; [f_equal; rewrite !lenZ_app, !lenZ_put; lia | | exact Hel].
      rewrite !app_length, !put_be_length. pose proof (length_le_enc_map kvs). lia.
    + replace (adv 6 (put_be 1 (code kt) ++ put_be 1 (code vt) ++ put_be 4 (Z.of_nat (length kvs)) ++ body ++ r)) with (body ++ r)
        by (symmetry; rewrite (app_assoc (put_be 1 (code kt))), (app_assoc (_ ++ _) (put_be 4 _)); apply adv_app_n; rewrite !lenZ_app, !lenZ_put; reflexivity).
      unfold body. fold (lenZ kvs). rewrite skip_map_loop_enc; [f_equal; rewrite !lenZ_app, !lenZ_put; lia | | exact Hel].
      rewrite !app_length, !put_be_length. pose proof (length_le_enc_map kvs). lia.
    + replace (adv 6 (put_be 1 (code kt) ++ put_be 1 (code vt) ++ put_be 4 (Z.of_nat (length kvs)) ++ body ++ r)) with (body ++ r)
        by (symmetry; rewrite (app_assoc (put_be 1 (code kt))), (app_assoc (_ ++ _) (put_be 4 _)); apply adv_app_n; rewrite !lenZ_app, !lenZ_put; reflexivity).
      unfold body. fold (lenZ kvs). rewrite skip_map_loop_enc; [f_equal; rewrite !lenZ_app, !lenZ_put; lia | | exact Hel].
      rewrite !app_length, !put_be_length. pose proof (length_le_enc_map kvs). lia.
  - (* set *)
    apply wf_set_iff in Hwf. destruct Hwf as [Hlen Hall]. cbn [wtype code]. rewrite enc_set_unfold, <- !app_assoc.
    rewrite fskip_listlike; [rewrite !lenZ_app; reflexivity | right; reflexivity | assumption |].
    rewrite Forall_forall in *. intros x Hx. specialize (H x Hx). specialize (Hall x Hx).
    pose proof (depth_list_le l x Hx) as Hdx. cbn in Hd. fold depth_list_go in Hd. repeat split; try tauto; lia.
  - (* list *)
    apply wf_list_iff in Hwf. destruct Hwf as [Hlen Hall]. cbn [wtype code]. rewrite enc_list_unfold, <- !app_assoc.
    rewrite fskip_listlike; [rewrite !lenZ_app; reflexivity | left; reflexivity | assumption |].
    rewrite Forall_forall in *. intros x Hx. specialize (H x Hx). specialize (Hall x Hx).
    pose proof (depth_list_le l x Hx) as Hdx. cbn in Hd. fold depth_list_go in Hd. repeat split; try tauto; lia.
Qed.

Corollary fskip_top_enc x r : wf x -> (depth x <= default_recursion_depth)%nat ->
  fskip_top (code (wtype x)) (enc x ++ r) = FOk (lenZ (enc x)).
Proof.
  intros Hwf Hd. unfold fskip_top. pose proof (enc_app_nonempty x r) as Hne.
  destruct (enc x ++ r) eqn:E; [cbn in Hne; lia|]. rewrite <- E. apply fskip_enc; assumption.
Qed.

(* ------------------------------------------------------------------ the switch and the required-field check *)

Definition idf (f : field) : Z * field := (f_id f, f).

Lemma sort_by_id_nil_iff {A} (l : list (Z * A)) : sort_by_id l = [] <-> l = [].
Proof.
  split; [|intros ->; reflexivity]. intro H. pose proof (sort_by_id_perm l) as P. rewrite H in P.
  apply Permutation_sym, Permutation_nil in P. exact P.
Qed.

Lemma sort_by_id_single {A} (x : Z * A) : sort_by_id [x] = [x].
Proof. reflexivity. Qed.

Lemma filter_id_nodup fid (P : field -> bool) l :
  NoDup (map f_id l) ->
  filter (fun p : Z * field => (fst p =? fid) && P (snd p)) (map idf l) =
  match find_field fid l with
  | Some f => if P f then [idf f] else []
  | None => [] end.
Proof.
  induction l as [|f l IH]; intro Hnd; [reflexivity|].
  inversion Hnd as [|? ? Hnot Hnd']; subst. cbn [map filter find_field idf fst snd].
  rewrite (Z.eqb_sym (f_id f) fid). destruct (Z.eqb_spec fid (f_id f)) as [->|Hne]; cbn [andb].
  - assert (E : filter (fun p : Z * field => (fst p =? f_id f) && P (snd p)) (map idf l) = []).
    { clear IH Hnd Hnd'. induction l as [|g l IH]; [reflexivity|]. cbn [map filter idf fst snd].
      destruct (Z.eqb_spec (f_id g) (f_id f)) as [E|_]; [exfalso; apply Hnot; cbn [map]; left; exact E|].
      cbn [andb]. apply IH. intro H. apply Hnot. cbn [map]. right. exact H. }
    rewrite E. destruct (P f); reflexivity.
  - apply IH. exact Hnd'.
Qed.

Lemma find_case_spec e s fid ftyp :
  NoDup (map f_id (s_fields s)) ->
  find_case e s fid ftyp =
  match find_field fid (s_fields s) with
  | Some f => if wire_type e (f_ty f) =? ftyp then Some f else None
  | None => None end.
Proof.
  intro Hnd. unfold find_case. fold idf.
  rewrite (filter_sort_by_id (fun p : Z * field => (fst p =? fid) && (wire_type e (f_ty (snd p)) =? ftyp))).
  rewrite (filter_id_nodup fid (fun f => wire_type e (f_ty f) =? ftyp)) by assumption.
  destruct (find_field fid (s_fields s)) as [f|]; [|reflexivity].
  destruct (wire_type e (f_ty f) =? ftyp); reflexivity.
Qed.

Lemma missing_filter s seen :
  filter (fun p : Z * field => is_required (snd p) && negb (existsb (Z.eqb (fst p)) seen)) (map idf (s_fields s)) =
  map idf (filter (fun f => is_required f && negb (existsb (Z.eqb (f_id f)) seen)) (s_fields s)).
Proof.
  induction (s_fields s) as [|f l IH]; [reflexivity|]. cbn [map filter idf fst snd].
  destruct (is_required f && negb (existsb (Z.eqb (f_id f)) seen)); cbn [map]; rewrite IH; reflexivity.
Qed.

Lemma missing_none_iff s seen : first_missing (s_fields s) seen = None <-> fast_first_missing s seen = None.
Proof.
  unfold first_missing, fast_first_missing. fold idf.
  rewrite (filter_sort_by_id (fun p : Z * field => is_required (snd p) && negb (existsb (Z.eqb (fst p)) seen))).
  rewrite missing_filter.
  destruct (filter (fun f => is_required f && negb (existsb (Z.eqb (f_id f)) seen)) (s_fields s)) as [|f l] eqn:E.
  - cbn. tauto.
  - split; [discriminate|]. intro H.
    destruct (sort_by_id (map idf (f :: l))) as [|p q] eqn:E2; [|discriminate].
    apply (proj1 (sort_by_id_nil_iff _)) in E2. discriminate.
Qed.

(* ------------------------------------------------------------------ FastRead = the standard Read *)

(* what FastRead [f] does on the bytes [body] (followed by anything), given what the standard Read says *)
Definition agree {A B} (r : result A) (conv : A -> B) (f : bytes -> fres (B * bytes)) (body : bytes) : Prop :=
  match r with
  | Ok v => forall rest, f (body ++ rest) = FOk (conv v, rest)
  | Err (ERequiredMissing _) => forall rest, exists id, f (body ++ rest) = FErr (FRequired id)
  | Err _ => True
  end.

Definition rd_ok (e : env) (w : wval) : Prop :=
  forall fuel t, wf w -> (depth w <= fuel)%nat -> (depth w <= default_recursion_depth)%nat ->
                 wtype w = spec_ttype t ->
                 agree (from_w e t w) (fun v => v) (fr_val fuel e t) (enc w).

Lemma frep_enc {A B} (p : bytes -> fres (A * bytes)) (g : B -> result A) (encb : B -> bytes) l : forall fuel,
  (length l <= fuel)%nat ->
  Forall (fun x => agree (g x) (fun v => v) p (encb x)) l ->
  agree (mapM g l) (fun v => v) (frep p fuel (lenZ l)) (flat_map encb l).
Proof.
  induction l as [|x l IH]; intros fuel Hf Hall.
  - cbn [mapM agree]. intro rest. destruct fuel; reflexivity.
  - inversion Hall as [|? ? Hx Hrest]; subst. destruct fuel; [cbn in Hf; lia|].
    specialize (IH fuel ltac:(cbn in Hf; lia) Hrest).
    cbn [mapM flat_map].
    assert (Hstep : forall rest, frep p (S fuel) (lenZ (x :: l)) ((encb x ++ flat_map encb l) ++ rest) =
                    match p (encb x ++ flat_map encb l ++ rest) with
                    | FErr y => FErr y
                    | FOk (a, r) => match frep p fuel (lenZ l) r with FErr y => FErr y | FOk (xs, r') => FOk (a :: xs, r') end
                    end).
    { intro rest. cbn [frep]. rewrite lenZ_cons. destruct (Z.leb_spec (1 + lenZ l) 0); [pose proof (lenZ_nonneg l); lia|].
      rewrite <- app_assoc. replace (1 + lenZ l - 1) with (lenZ l) by lia. reflexivity. }
    destruct (g x) as [v|err]; cbn [agree] in Hx.
    + destruct (mapM g l) as [vs|err]; cbn [agree] in IH |- *.
      * intro rest. rewrite Hstep, Hx, IH. reflexivity.
      * destruct err; try exact I. intro rest. rewrite Hstep, Hx. destruct (IH rest) as [i0 Hid]. exists i0. rewrite Hid. reflexivity.
    + destruct err; try exact I. cbn [agree]. intro rest. rewrite Hstep. destruct (Hx (flat_map encb l ++ rest)) as [i0 Hid].
      exists i0. rewrite Hid. reflexivity.
Qed.

Lemma fpair_agree {A B} (p : bytes -> fres (A * bytes)) (q : bytes -> fres (B * bytes)) (ra : result A) (rb : result B) ka kb :
  agree ra (fun v => v) p ka -> agree rb (fun v => v) q kb ->
  agree (bind ra (fun a => bind rb (fun b => Ok (a, b)))) (fun v => v) (fpair p q) (ka ++ kb).
Proof.
  intros Ha Hb. unfold fpair. destruct ra as [a|err]; cbn [bind agree] in *.
  - destruct rb as [b|err]; cbn [bind agree] in *.
    + intro rest. rewrite <- app_assoc, Ha, Hb. reflexivity.
    + destruct err; try exact I. intro rest. rewrite <- app_assoc, Ha. destruct (Hb rest) as [i0 Hid]. exists i0. rewrite Hid. reflexivity.
  - destruct err; try exact I. intro rest. rewrite <- app_assoc. destruct (Ha (kb ++ rest)) as [i0 Hid]. exists i0. rewrite Hid. reflexivity.
Qed.

Section LoopProof.
  Variable e : env.
  Variable s : sschema.
  Variable rv : ty -> bytes -> fres (value * bytes).
  Hypothesis Hnd : NoDup (map f_id (s_fields s)).

  Definition field_ok (f : wfield) : Prop :=
    wtype (snd f) = fst (fst f) /\ in_srange 2 (snd (fst f)) /\ wf (snd f) /\
    (depth (snd f) <= default_recursion_depth)%nat /\
    forall t, wtype (snd f) = spec_ttype t -> agree (from_w e t (snd f)) (fun v => v) (rv t) (enc (snd f)).

  Definition finish_fast (st : rstate) (rest : bytes) : fres (list (Z * value) * bytes) :=
    match fast_first_missing s (snd st) with
    | Some id => FErr (FRequired id)
    | None => FOk (fst st, rest) end.

  Lemma fr_loop_step lf st tt id x tail : in_srange 2 id ->
    fr_loop rv e s (S lf) st (put_be 1 (code tt) ++ put_be 2 id ++ enc x ++ tail) =
    match find_case e s id (code tt) with
    | Some f =>
        match rv (f_ty f) (enc x ++ tail) with
        | FErr y => FErr y
        | FOk (v, r2) => fr_loop rv e s lf (set_field (f_id f) (wrap_slot f v) (fst st),
                                           if is_required f then f_id f :: snd st else snd st) r2
        end
    | None =>
        match fskip_top (code tt) (enc x ++ tail) with
        | FErr y => FErr y
        | FOk n => if lenZ (enc x ++ tail) <? n then FErr FOverrun
                   else fr_loop rv e s lf st (skipn (Z.to_nat n) (enc x ++ tail))
        end
    end.
  Proof.
    intro Hid. rewrite put_be_1. cbn [app fr_loop]. rewrite Z_of_byte_code.
    destruct (Z.eqb_spec (code tt) 0) as [E0|_]; [pose proof (code_range tt); lia|].
    rewrite get_s_put by (auto; lia). reflexivity.
  Qed.

  Lemma fr_loop_enc wfs : forall lf st,
    (length wfs < lf)%nat -> Forall field_ok wfs ->
    match foldM (read_step e s) wfs st with
    | Ok st' => forall rest, fr_loop rv e s lf st (enc_fields_go wfs ++ rest) = finish_fast st' rest
    | Err (ERequiredMissing _) => forall rest, exists id, fr_loop rv e s lf st (enc_fields_go wfs ++ rest) = FErr (FRequired id)
    | Err _ => True
    end.
  Proof.
    induction wfs as [|[[tt id] x] wfs IH]; intros lf st Hlf Hall.
    - cbn [foldM]. intro rest. destruct lf; [cbn in Hlf; lia|]. reflexivity.
    - inversion Hall as [|? ? (Ht & Hid & Hwf & Hd & Hag) Hrest]; subst. cbn [fst snd] in *.
      destruct lf; [cbn in Hlf; lia|]. assert (Hlf' : (length wfs < lf)%nat) by (cbn in Hlf; lia).
      cbn [foldM]. unfold read_step at 1. cbn [fst snd].
      assert (Hskip : forall st0 rest, find_case e s id (code tt) = None ->
                fr_loop rv e s (S lf) st0 (enc_fields_go ((tt, id, x) :: wfs) ++ rest) =
                fr_loop rv e s lf st0 (enc_fields_go wfs ++ rest)).
      { intros st0 rest Hnone. rewrite enc_fields_go_cons, <- !app_assoc, fr_loop_step, Hnone by assumption.
        subst tt. rewrite fskip_top_enc by assumption.
        destruct (Z.ltb_spec (lenZ (enc x ++ enc_fields_go wfs ++ rest)) (lenZ (enc x))) as [Hlt|_];
          [rewrite lenZ_app in Hlt; pose proof (lenZ_nonneg (enc_fields_go wfs ++ rest)); lia|].
        fold (adv (lenZ (enc x)) (enc x ++ enc_fields_go wfs ++ rest)). rewrite adv_app. reflexivity. }
      rewrite find_case_spec in Hskip by assumption.
      destruct (find_field id (s_fields s)) as [fld|] eqn:Hf.
      + assert (Heq : ttype_eqb tt (ttype_of e (f_ty fld)) = (wire_type e (f_ty fld) =? code tt)).
        { unfold ttype_eqb. rewrite wire_type_spec, ttype_of_spec. apply Z.eqb_sym. }
        rewrite Heq. destruct (wire_type e (f_ty fld) =? code tt) eqn:Hm.
        * (* the case of the switch *)
          assert (Htt : tt = spec_ttype (f_ty fld)).
          { apply ttype_eqb_eq in Heq. rewrite ttype_of_spec in Heq. exact Heq. }
          specialize (Hag (f_ty fld) ltac:(congruence)).
          assert (Hstep : forall rest, fr_loop rv e s (S lf) st (enc_fields_go ((tt, id, x) :: wfs) ++ rest) =
                    match rv (f_ty fld) (enc x ++ enc_fields_go wfs ++ rest) with
                    | FErr y => FErr y
                    | FOk (v, r2) => fr_loop rv e s lf (set_field (f_id fld) (wrap_slot fld v) (fst st),
                                                       if is_required fld then f_id fld :: snd st else snd st) r2
                    end).
          { intro rest. rewrite enc_fields_go_cons, <- !app_assoc, fr_loop_step by assumption.
            rewrite find_case_spec, Hf, Hm by assumption. reflexivity. }
          destruct (from_w e (f_ty fld) x) as [v|err]; cbn [bind agree] in Hag |- *.
          -- specialize (IH lf (set_field (f_id fld) (wrap_slot fld v) (fst st),
                               if is_required fld then f_id fld :: snd st else snd st) Hlf' Hrest).
             destruct (foldM (read_step e s) wfs _) as [st'|err].
             ++ intro rest. rewrite Hstep, Hag. apply IH.
             ++ destruct err; try exact I. intro rest. rewrite Hstep, Hag. apply IH.
          -- destruct err; try exact I. intro rest. rewrite Hstep.
             destruct (Hag (enc_fields_go wfs ++ rest)) as [i0 Hi0]. exists i0. rewrite Hi0. reflexivity.
        * (* known id, another wire type: default branch *)
          specialize (IH lf st Hlf' Hrest).
          destruct (foldM (read_step e s) wfs st) as [st'|err].
          -- intro rest. rewrite Hskip by reflexivity. apply IH.
          -- destruct err; try exact I. intro rest. rewrite Hskip by reflexivity. apply IH.
      + specialize (IH lf st Hlf' Hrest).
        destruct (foldM (read_step e s) wfs st) as [st'|err].
        * intro rest. rewrite Hskip by reflexivity. apply IH.
        * destruct err; try exact I. intro rest. rewrite Hskip by reflexivity. apply IH.
  Qed.
End LoopProof.

Lemma rd_list_begin_enc et n r : in_srange 4 n -> 0 <= n ->
  rd_list_begin (put_be 1 (code et) ++ put_be 4 n ++ r) = FOk (n, r).
Proof.
  intros Hr Hn. rewrite put_be_1. cbn [app rd_list_begin]. rewrite get_s_put by (auto; lia).
  destruct (Z.ltb_spec n 0); [lia | reflexivity].
Qed.

Lemma rd_map_begin_enc kt vt n r : in_srange 4 n -> 0 <= n ->
  rd_map_begin (put_be 1 (code kt) ++ put_be 1 (code vt) ++ put_be 4 n ++ r) = FOk (n, r).
Proof.
  intros Hr Hn. rewrite !put_be_1. cbn [app rd_map_begin]. rewrite get_s_put by (auto; lia).
  destruct (Z.ltb_spec n 0); [lia | reflexivity].
Qed.

Lemma rd_str_enc s r : in_srange 4 (Z.of_nat (length s)) ->
  rd_str (put_be 4 (Z.of_nat (length s)) ++ s ++ r) = FOk (s, r).
Proof.
  intro H. unfold rd_str. rewrite get_s_put by (auto; lia).
  destruct (Z.ltb_spec (Z.of_nat (length s)) 0); [lia|].
  rewrite lenZ_app. unfold lenZ. destruct (Z.ltb_spec (Z.of_nat (length s) + Z.of_nat (length r)) (Z.of_nat (length s))); [lia|].
  rewrite Nat2Z.id, firstn_app, firstn_all, skipn_app, skipn_all, Nat.sub_diag. cbn [firstn skipn]. rewrite app_nil_r. reflexivity.
Qed.

Section ReadProof.
  Variable e : env.
  Hypothesis Henv : wf_env e = true.

  Theorem fr_val_from_w : forall w, rd_ok e w.
  Proof.
    intro w. induction w using wval_ind2; intros fuel t Hwf Hfu Hd Ht;
      (destruct fuel as [|fuel]; [cbn [depth] in Hfu; lia|]).
    - (* bool *) destruct t; try discriminate. cbn [from_w agree fr_val enc app rd_bool]. intro rest. destruct b; reflexivity.
    - (* byte *) destruct t; try discriminate. cbn [from_w agree fr_val enc]. intro rest. unfold rd_s.
      rewrite get_s_put by (auto; lia). reflexivity.
    - (* double *) destruct t; try discriminate. cbn [from_w agree fr_val enc]. intro rest. unfold rd_u.
      rewrite get_put by exact Hwf. reflexivity.
    - (* i16 *) destruct t; try discriminate. cbn [from_w agree fr_val enc]. intro rest. unfold rd_s.
      rewrite get_s_put by (auto; lia). reflexivity.
    - (* i32 *) destruct t; try discriminate; cbn [from_w agree fr_val enc]; intro rest; unfold rd_s;
        rewrite get_s_put by (auto; lia); reflexivity.
    - (* i64 *) destruct t; try discriminate. cbn [from_w agree fr_val enc]. intro rest. unfold rd_s.
      rewrite get_s_put by (auto; lia). reflexivity.
    - (* string *) destruct t; try discriminate; cbn [from_w agree fr_val enc]; intro rest; rewrite <- app_assoc, rd_str_enc by exact Hwf; reflexivity.
    - (* struct *)
      destruct t; try discriminate. rewrite from_w_struct. cbn [fr_val].
      destruct (find_struct e name) as [s|] eqn:Hs; [|exact I].
      apply wf_struct_iff in Hwf.
      assert (Hnd : NoDup (map f_id (s_fields s))) by (apply wf_struct_nodup; apply (wf_env_struct e name); assumption).
      assert (Hok : Forall (field_ok e (fr_val fuel e)) fs).
      { rewrite Forall_forall in *. intros f Hf. specialize (H f Hf). destruct (Hwf f Hf) as (Hw1 & Hw2 & Hw3).
        pose proof (depth_struct_le fs f Hf) as Hdf. change (depth (WStruct fs)) with (S (depth_struct_go fs)) in Hfu, Hd.
        unfold field_ok. split; [assumption|]. split; [assumption|]. split; [assumption|]. split; [lia|].
        intros t0 Ht0. apply H; try assumption; lia. }
      pose proof (fun lf Hlf => fr_loop_enc e s (fr_val fuel e) Hnd fs lf (new_fields s, []) Hlf Hok) as Hloop.
      rewrite enc_struct_unfold.
      destruct (foldM (read_step e s) fs (new_fields s, [])) as [st'|err]; cbn [bind].
      + unfold finish_read. destruct (first_missing (s_fields s) (snd st')) as [mid|] eqn:Hmiss; cbn [agree].
        * intro rest. rewrite Hloop by (rewrite app_length; pose proof (enc_fields_len fs); unfold wfield in *; lia). unfold finish_fast.
          destruct (fast_first_missing s (snd st')) as [mid'|] eqn:Hm2; [exists mid'; reflexivity|].
          apply missing_none_iff in Hm2. congruence.
        * intro rest. rewrite Hloop by (rewrite app_length; pose proof (enc_fields_len fs); unfold wfield in *; lia). unfold finish_fast.
          apply missing_none_iff in Hmiss. rewrite Hmiss. reflexivity.
      + destruct err; try exact I. cbn [agree]. intro rest.
        destruct (Hloop (S (length (enc_fields_go fs ++ rest))) ltac:(rewrite app_length; pose proof (enc_fields_len fs); unfold wfield in *; lia) rest) as [i0 Hi0].
        exists i0. rewrite Hi0. reflexivity.
    - (* map *)
      destruct t; try discriminate. apply wf_map_iff in Hwf. destruct Hwf as [Hlen Hall].
      cbn [from_w].
      destruct ((ttype_eqb kt (ttype_of e t1) && ttype_eqb vt (ttype_of e t2)) || (length kvs =? 0)%nat) eqn:Hhdr; [|exact I].
      set (g := fun kv : wval * wval => bind (from_w e t1 (fst kv)) (fun k => bind (from_w e t2 (snd kv)) (fun x => Ok (k, x)))).
      assert (Hel : Forall (fun kv => agree (g kv) (fun v => v) (fpair (fr_val fuel e t1) (fr_val fuel e t2)) (enc (fst kv) ++ enc (snd kv))) kvs).
      { destruct kvs as [|kv0 kvs0]; [constructor|].
        apply orb_true_iff in Hhdr. destruct Hhdr as [Hhdr|Hhdr]; [|discriminate].
        apply andb_true_iff in Hhdr. destruct Hhdr as [Hk Hv]. apply ttype_eqb_eq in Hk, Hv. rewrite ttype_of_spec in Hk, Hv.
        rewrite Forall_forall in *. intros kv Hkv. destruct (H kv Hkv) as [IHk IHv]. destruct (Hall kv Hkv) as (Hk1 & Hv1 & Hwk & Hwv).
        pose proof (depth_map_le _ kv Hkv) as Hdp. change (depth (WMap kt vt (kv0 :: kvs0))) with (S (depth_map_go (kv0 :: kvs0))) in Hfu, Hd.
        apply fpair_agree; [apply IHk | apply IHv]; try assumption; try lia; congruence. }
      pose proof (frep_enc (fpair (fr_val fuel e t1) (fr_val fuel e t2)) g (fun kv => enc (fst kv) ++ enc (snd kv)) kvs) as Hrep.
      rewrite enc_map_unfold, enc_map_go_flat.
      fold g. destruct (mapM g kvs) as [xs|err] eqn:Hm; cbn [bind agree].
      + intro rest. cbn [fr_val]. rewrite <- !app_assoc, rd_map_begin_enc by (assumption || lia).
        specialize (Hrep (S (length (flat_map (fun kv => enc (fst kv) ++ enc (snd kv)) kvs ++ rest)))).
        cbn [agree] in Hrep. fold (lenZ kvs). rewrite Hrep; [reflexivity | | exact Hel].
        rewrite app_length, <- enc_map_go_flat. pose proof (length_le_enc_map kvs). lia.
      + destruct err; try exact I. intro rest. cbn [fr_val]. rewrite <- !app_assoc, rd_map_begin_enc by (assumption || lia).
        specialize (Hrep (S (length (flat_map (fun kv => enc (fst kv) ++ enc (snd kv)) kvs ++ rest)))).
        cbn [agree] in Hrep. fold (lenZ kvs).
        destruct (Hrep ltac:(rewrite app_length, <- enc_map_go_flat; pose proof (length_le_enc_map kvs); lia) Hel rest) as [i0 Hi0].
        exists i0. rewrite Hi0. reflexivity.
    - (* set *)
      destruct t; try discriminate. apply wf_set_iff in Hwf. destruct Hwf as [Hlen Hall].
      cbn [from_w]. destruct (ttype_eqb et (ttype_of e t) || (length l =? 0)%nat) eqn:Hhdr; [|exact I].
      assert (Hel : Forall (fun x => agree (from_w e t x) (fun v => v) (fr_val fuel e t) (enc x)) l).
      { destruct l as [|x0 l0]; [constructor|].
        apply orb_true_iff in Hhdr. destruct Hhdr as [Hhdr|Hhdr]; [|discriminate].
        apply ttype_eqb_eq in Hhdr. rewrite ttype_of_spec in Hhdr.
        rewrite Forall_forall in *. intros x Hx. destruct (Hall x Hx) as [Hx1 Hwx].
        pose proof (depth_list_le _ x Hx) as Hdp. change (depth (WSet et (x0 :: l0))) with (S (depth_list_go (x0 :: l0))) in Hfu, Hd.
        apply H; try assumption; try lia; congruence. }
      pose proof (frep_enc (fr_val fuel e t) (from_w e t) enc l) as Hrep.
      rewrite enc_set_unfold, enc_list_go_flat.
      destruct (mapM (from_w e t) l) as [xs|err] eqn:Hm; cbn [bind agree].
      + intro rest. cbn [fr_val]. rewrite <- !app_assoc, rd_list_begin_enc by (assumption || lia).
        specialize (Hrep (S (length (flat_map enc l ++ rest)))). cbn [agree] in Hrep. fold (lenZ l).
        rewrite Hrep; [reflexivity | | exact Hel].
        rewrite app_length, <- enc_list_go_flat. pose proof (length_le_enc_list l). lia.
      + destruct err; try exact I. intro rest. cbn [fr_val]. rewrite <- !app_assoc, rd_list_begin_enc by (assumption || lia).
        specialize (Hrep (S (length (flat_map enc l ++ rest)))). cbn [agree] in Hrep. fold (lenZ l).
        destruct (Hrep ltac:(rewrite app_length, <- enc_list_go_flat; pose proof (length_le_enc_list l); lia) Hel rest) as [i0 Hi0].
        exists i0. rewrite Hi0. reflexivity.
    - (* list *)
      destruct t; try discriminate. apply wf_list_iff in Hwf. destruct Hwf as [Hlen Hall].
      cbn [from_w]. destruct (ttype_eqb et (ttype_of e t) || (length l =? 0)%nat) eqn:Hhdr; [|exact I].
      assert (Hel : Forall (fun x => agree (from_w e t x) (fun v => v) (fr_val fuel e t) (enc x)) l).
      { destruct l as [|x0 l0]; [constructor|].
        apply orb_true_iff in Hhdr. destruct Hhdr as [Hhdr|Hhdr]; [|discriminate].
        apply ttype_eqb_eq in Hhdr. rewrite ttype_of_spec in Hhdr.
        rewrite Forall_forall in *. intros x Hx. destruct (Hall x Hx) as [Hx1 Hwx].
        pose proof (depth_list_le _ x Hx) as Hdp. change (depth (WList et (x0 :: l0))) with (S (depth_list_go (x0 :: l0))) in Hfu, Hd.
        apply H; try assumption; try lia; congruence. }
      pose proof (frep_enc (fr_val fuel e t) (from_w e t) enc l) as Hrep.
      rewrite enc_list_unfold, enc_list_go_flat.
      destruct (mapM (from_w e t) l) as [xs|err] eqn:Hm; cbn [bind agree].
      + intro rest. cbn [fr_val]. rewrite <- !app_assoc, rd_list_begin_enc by (assumption || lia).
        specialize (Hrep (S (length (flat_map enc l ++ rest)))). cbn [agree] in Hrep. fold (lenZ l).
        rewrite Hrep; [reflexivity | | exact Hel].
        rewrite app_length, <- enc_list_go_flat. pose proof (length_le_enc_list l). lia.
      + destruct err; try exact I. intro rest. cbn [fr_val]. rewrite <- !app_assoc, rd_list_begin_enc by (assumption || lia).
        specialize (Hrep (S (length (flat_map enc l ++ rest)))). cbn [agree] in Hrep. fold (lenZ l).
        destruct (Hrep ltac:(rewrite app_length, <- enc_list_go_flat; pose proof (length_le_enc_list l); lia) Hel rest) as [i0 Hi0].
        exists i0. rewrite Hi0. reflexivity.
  Qed.
End ReadProof.

(* ------------------------------------------------------------------ top level *)

Theorem fast_read_from_wire e s fs0 wfs :
  wf_env e = true -> wf_struct s = true -> wf (WStruct wfs) ->
  (depth (WStruct wfs) <= default_recursion_depth)%nat ->
  match from_wire e s (VStruct fs0) (WStruct wfs) with
  | Ok v => forall rest, fast_read e s (VStruct fs0) (enc (WStruct wfs) ++ rest) = FOk (v, lenZ (enc (WStruct wfs)))
  | Err (ERequiredMissing _) => forall rest, exists id, fast_read e s (VStruct fs0) (enc (WStruct wfs) ++ rest) = FErr (FRequired id)
  | Err _ => True
  end.
Proof.
  intros Henv Hs Hwf Hd. unfold from_wire, fast_read.
  pose proof (wf_struct_nodup s Hs) as Hnd.
  apply wf_struct_iff in Hwf.
  assert (Hok : forall rest, Forall (field_ok e (fr_val (S (length (enc (WStruct wfs) ++ rest))) e)) wfs).
  { intro rest. rewrite Forall_forall in *. intros f Hf. destruct (Hwf f Hf) as (Hw1 & Hw2 & Hw3).
    pose proof (depth_struct_le wfs f Hf) as Hdf. change (depth (WStruct wfs)) with (S (depth_struct_go wfs)) in Hd.
    unfold field_ok. split; [assumption|]. split; [assumption|]. split; [assumption|]. split; [lia|].
    intros t0 Ht0. apply (fr_val_from_w e Henv); try assumption; try lia.
    pose proof (depth_le_size (WStruct wfs)) as Hsz. change (depth (WStruct wfs)) with (S (depth_struct_go wfs)) in Hsz.
    rewrite app_length, enc_length. lia. }
  rewrite enc_struct_unfold in *.
  pose proof (fun rest => fr_loop_enc e s _ Hnd wfs (S (length (enc_fields_go wfs ++ rest))) (fs0, [])
                ltac:(rewrite app_length; pose proof (enc_fields_len wfs); unfold wfield in *; lia) (Hok rest)) as Hloop.
  destruct (foldM (read_step e s) wfs (fs0, [])) as [st'|err]; cbn [bind].
  - unfold finish_read. destruct (first_missing (s_fields s) (snd st')) as [mid|] eqn:Hmiss.
    + intro rest. rewrite Hloop. unfold finish_fast.
      destruct (fast_first_missing s (snd st')) as [mid'|] eqn:Hm2; [exists mid'; reflexivity|].
      apply missing_none_iff in Hm2. congruence.
    + intro rest. rewrite Hloop. unfold finish_fast. apply missing_none_iff in Hmiss. rewrite Hmiss.
      f_equal. f_equal. rewrite lenZ_app. lia.
  - destruct err; try exact I. intro rest. destruct (Hloop rest rest) as [i0 Hi0]. exists i0. rewrite Hi0. reflexivity.
Qed.

(* through bytes on the standard side as well: the two generated readers on the same input *)
Theorem fast_read_eq_std_read e s init wfs rest v :
  wf_env e = true -> wf_struct s = true -> wf (WStruct wfs) ->
  (depth (WStruct wfs) <= default_recursion_depth)%nat ->
  read_bytes e s init (enc (WStruct wfs) ++ rest) = Ok v ->
  fast_read e s init (enc (WStruct wfs) ++ rest) = FOk (v, lenZ (enc (WStruct wfs))).
Proof.
  intros Henv Hs Hwf Hd Hr. unfold read_bytes in Hr. rewrite dec_struct_enc in Hr by assumption.
  destruct init; try (cbn in Hr; discriminate).
  pose proof (fast_read_from_wire e s fs wfs Henv Hs Hwf Hd) as H. rewrite Hr in H. apply H.
Qed.

Theorem fast_read_required_missing e s init wfs rest id :
  wf_env e = true -> wf_struct s = true -> wf (WStruct wfs) ->
  (depth (WStruct wfs) <= default_recursion_depth)%nat ->
  read_bytes e s init (enc (WStruct wfs) ++ rest) = Err (ERequiredMissing id) ->
  exists id', fast_read e s init (enc (WStruct wfs) ++ rest) = FErr (FRequired id').
Proof.
  intros Henv Hs Hwf Hd Hr. unfold read_bytes in Hr. rewrite dec_struct_enc in Hr by assumption.
  destruct init; try (cbn in Hr; discriminate).
  pose proof (fast_read_from_wire e s fs wfs Henv Hs Hwf Hd) as H. rewrite Hr in H. apply H.
Qed.

(* unknown and mistyped fields are skipped: the object FastRead builds is the one the standard Read builds from
   the fields it does not skip *)
Corollary fast_read_ignores_unknown e s init wfs rest v :
  wf_env e = true -> wf_struct s = true -> wf (WStruct wfs) ->
  (depth (WStruct wfs) <= default_recursion_depth)%nat ->
  from_wire e s init (WStruct (filter (fun wf => negb (skippable e s wf)) wfs)) = Ok v ->
  fast_read e s init (enc (WStruct wfs) ++ rest) = FOk (v, lenZ (enc (WStruct wfs))).
Proof.
  intros Henv Hs Hwf Hd Hr. rewrite <- read_ignores_unknown in Hr.
  destruct init; try (cbn in Hr; discriminate).
  pose proof (fast_read_from_wire e s fs wfs Henv Hs Hwf Hd) as H. rewrite Hr in H. apply H.
Qed.

(* ------------------------------------------------------------------ the two recorded defects (gopkg Skip), exhibited on the model *)

Module Witness.
Import Coq.Strings.String.
Local Open Scope string_scope.

(* struct K { 1: i32 x, 2: optional string y } *)
Definition sK : sschema := mkstruct (B "a.K") KStruct
  [mkfield 1 (B "x") Default TI32 None false; mkfield 2 (B "y") Optional TString None false].
Definition eK : env := mkenv [sK] [].
Definition vK : value := VStruct [(1, VInt 226); (2, VSome (VStr (hx "04")))].

(* struct Small { 1: i32 a } and an encoding that carries an unknown field 7: map<string,i64> *)
Definition sSmall : sschema := mkstruct (B "a.Small") KStruct [mkfield 1 (B "a") Default TI32 None false].
Definition eSmall : env := mkenv [sSmall] [].
Definition wUnknown : wval :=
  WStruct [(T_I32, 1, WI32 5); (T_MAP, 7, WMap T_STRING T_I64 [(WStr (B "k"), WI64 7)])].

(* struct Ov { 1: OvIn inner }  struct OvIn { 2560: string s } *)
Definition sOvIn : sschema := mkstruct (B "a.OvIn") KStruct [mkfield 2560 (B "s") Default TString None false].
Definition sOv : sschema := mkstruct (B "a.Ov") KStruct [mkfield 1 (B "inner") Default (TRef (B "a.OvIn")) None false].
Definition eOv : env := mkenv [sOvIn; sOv] [].
Definition vOv : value :=
  VStruct [(1, VStruct [(2560, VStr (hx "0000fa" ++ repeat x00 253)%list)])].
End Witness.

(* one corrupted type byte (08 -> ff) of a well-formed encoding: the model reaches Skip's index with a negative type *)
Theorem fast_read_corrupted_type_byte_refuted :
  exists e s v bs, wt e s v = true /\ fast_append e s v = x08 :: bs /\
                   fast_read e s (new_struct e s) (fast_append e s v) = FOk (v, lenZ (fast_append e s v)) /\
                   fast_read e s (new_struct e s) (xff :: bs) = FErr FIndex.
Proof.
  exists Witness.eK, Witness.sK, Witness.vK. eexists. split; [vm_compute; reflexivity|]. split; [vm_compute; reflexivity|].
  split; [vm_compute; reflexivity|]. vm_compute. reflexivity.
Qed.

(* a proper prefix of a well-formed encoding with an unknown map<string,i64> field: Skip reports more bytes than it has *)
Theorem fast_read_truncated_refuted :
  exists e s w n, wf w /\ (n < List.length (enc w))%nat /\
                  (exists v, fast_read e s (new_struct e s) (enc w) = FOk (v, lenZ (enc w))) /\
                  fast_read e s (new_struct e s) (firstn n (enc w)) = FErr FOverrun.
Proof.
  exists Witness.eSmall, Witness.sSmall, Witness.wUnknown, 24%nat.
  split; [vm_compute; intuition discriminate|]. split; [vm_compute; lia|].
  split; [eexists; vm_compute; reflexivity | vm_compute; reflexivity].
Qed.

(* one corrupted type byte (0c -> 0d) of an encoding of the struct's own value: the same overrun *)
Theorem fast_read_corrupted_overrun_refuted :
  exists e s v bs, wt e s v = true /\ fast_append e s v = x0c :: bs /\
                   fast_read e s (new_struct e s) (x0d :: bs) = FErr FOverrun.
Proof.
  exists Witness.eOv, Witness.sOv, Witness.vOv. eexists. split; [vm_compute; reflexivity|].
  split; [vm_compute; reflexivity|]. vm_compute. reflexivity.
Qed.
