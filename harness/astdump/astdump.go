// Package astdump converts the real *parser.Thrift of /repo (after parsing, and
// optionally after semantic.ResolveSymbols) into the harness mirror idlast of
// /verif/coq/Idl/Ast.v.  Every field of every node is carried over, including the
// resolution info written by the semantic pass (Type.Category / Reference /
// IsTypedef, ConstValue.Extra, Include.Used, Service.Reference, Name2Category).
//
// The conversion is deterministic: Name2Category (a Go map) is sorted by name, and a
// program is listed main file first, then in the order the recursive parser reaches
// the includes (depth first, include order), each file once (keyed by Filename).
//
// Shapes of the Go AST that Idl/Ast.v cannot express (a nil pointer where the parser
// always sets one, an Extra on a non-identifier, an inconsistent ConstTypedValue) are
// reported by returning an error from the *Checked functions; the plain functions
// panic on them.  The real parser and semantic pass never produce such shapes; a
// plugin could (C11).
package astdump

import (
	"fmt"
	"math"
	"sort"

	"github.com/cloudwego/thriftgo/parser"

	"verif/harness/idlast"
)

type unrepresentable struct{ msg string }

func (u unrepresentable) Error() string { return "astdump: unrepresentable AST: " + u.msg }

func bad(format string, args ...interface{}) {
	panic(unrepresentable{fmt.Sprintf(format, args...)})
}

func catch(err *error) {
	if r := recover(); r != nil {
		if u, ok := r.(unrepresentable); ok {
			*err = u
			return
		}
		panic(r)
	}
}

func bs(ss []string) []idlast.B {
	out := make([]idlast.B, len(ss))
	for i, s := range ss {
		out[i] = idlast.B(s)
	}
	return out
}

func Annotations(as parser.Annotations) idlast.Annotations {
	if len(as) == 0 {
		return nil
	}
	out := make(idlast.Annotations, len(as))
	for i, a := range as {
		if a == nil {
			bad("nil annotation")
		}
		out[i] = idlast.Annotation{Key: idlast.B(a.Key), Values: bs(a.Values)}
	}
	return out
}

func Reference(r *parser.Reference) *idlast.Reference {
	if r == nil {
		return nil
	}
	return &idlast.Reference{Name: idlast.B(r.Name), Index: r.Index}
}

func optBool(b *bool) *bool {
	if b == nil {
		return nil
	}
	v := *b
	return &v
}

func Type(t *parser.Type) *idlast.Type {
	if t == nil {
		bad("nil Type")
	}
	out := &idlast.Type{
		Name:        idlast.B(t.Name),
		CppType:     idlast.B(t.CppType),
		Annotations: Annotations(t.Annotations),
		Category:    idlast.Category(t.Category),
		Reference:   Reference(t.Reference),
		IsTypedef:   optBool(t.IsTypedef),
	}
	if t.Category < 0 || t.Category > parser.Category_Service {
		bad("category %d out of range", int64(t.Category))
	}
	if t.KeyType != nil {
		out.KeyType = Type(t.KeyType)
	}
	if t.ValueType != nil {
		out.ValueType = Type(t.ValueType)
	}
	return out
}

func ConstValue(c *parser.ConstValue) *idlast.ConstValue {
	if c == nil {
		bad("nil ConstValue")
	}
	tv := c.TypedValue
	if tv == nil {
		bad("ConstValue without TypedValue")
	}
	out := &idlast.ConstValue{}
	set := 0
	for _, b := range []bool{tv.Double != nil, tv.Int != nil, tv.Literal != nil, tv.Identifier != nil, tv.List != nil, tv.Map != nil} {
		if b {
			set++
		}
	}
	if set != 1 {
		bad("ConstTypedValue with %d members set", set)
	}
	if c.Extra != nil && c.Type != parser.ConstType_ConstIdentifier {
		bad("Extra on a non-identifier constant")
	}
	switch c.Type {
	case parser.ConstType_ConstDouble:
		if tv.Double == nil {
			bad("ConstDouble without Double")
		}
		out.Kind, out.DoubleBits = idlast.ConstDouble, math.Float64bits(*tv.Double)
	case parser.ConstType_ConstInt:
		if tv.Int == nil {
			bad("ConstInt without Int")
		}
		out.Kind, out.Int = idlast.ConstInt, *tv.Int
	case parser.ConstType_ConstLiteral:
		if tv.Literal == nil {
			bad("ConstLiteral without Literal")
		}
		out.Kind, out.Literal = idlast.ConstLiteral, idlast.B(*tv.Literal)
	case parser.ConstType_ConstIdentifier:
		if tv.Identifier == nil {
			bad("ConstIdentifier without Identifier")
		}
		out.Kind, out.Identifier = idlast.ConstIdentifier, idlast.B(*tv.Identifier)
		if e := c.Extra; e != nil {
			out.Extra = &idlast.ConstExtra{IsEnum: e.IsEnum, Index: e.Index, Name: idlast.B(e.Name), Sel: idlast.B(e.Sel)}
		}
	case parser.ConstType_ConstList:
		if tv.List == nil {
			bad("ConstList without List")
		}
		out.Kind = idlast.ConstList
		out.List = make([]*idlast.ConstValue, len(tv.List))
		for i, x := range tv.List {
			out.List[i] = ConstValue(x)
		}
	case parser.ConstType_ConstMap:
		if tv.Map == nil {
			bad("ConstMap without Map")
		}
		out.Kind = idlast.ConstMap
		out.Map = make([]idlast.MapEntry, len(tv.Map))
		for i, kv := range tv.Map {
			if kv == nil {
				bad("nil map entry")
			}
			out.Map[i] = idlast.MapEntry{Key: ConstValue(kv.Key), Value: ConstValue(kv.Value)}
		}
	default:
		bad("const type %d", int64(c.Type))
	}
	return out
}

func Field(f *parser.Field) *idlast.Field {
	if f == nil {
		bad("nil Field")
	}
	out := &idlast.Field{
		ID:           f.ID,
		Name:         idlast.B(f.Name),
		Requiredness: idlast.Requiredness(f.Requiredness),
		Type:         Type(f.Type),
		Annotations:  Annotations(f.Annotations),
		Comments:     idlast.B(f.ReservedComments),
	}
	if f.Requiredness < 0 || f.Requiredness > parser.FieldType_Optional {
		bad("requiredness %d", int64(f.Requiredness))
	}
	if f.Default != nil {
		out.Default = ConstValue(f.Default)
	}
	return out
}

func fields(fs []*parser.Field) []*idlast.Field {
	out := make([]*idlast.Field, len(fs))
	for i, f := range fs {
		out[i] = Field(f)
	}
	return out
}

func StructLike(s *parser.StructLike) *idlast.StructLike {
	if s == nil {
		bad("nil StructLike")
	}
	out := &idlast.StructLike{Name: idlast.B(s.Name), Fields: fields(s.Fields), Annotations: Annotations(s.Annotations),
		Comments: idlast.B(s.ReservedComments)}
	switch s.Category {
	case "struct":
		out.Category = idlast.SKStruct
	case "union":
		out.Category = idlast.SKUnion
	case "exception":
		out.Category = idlast.SKException
	default:
		bad("struct-like category %q", s.Category)
	}
	return out
}

func structLikes(ss []*parser.StructLike) []*idlast.StructLike {
	out := make([]*idlast.StructLike, len(ss))
	for i, s := range ss {
		out[i] = StructLike(s)
	}
	return out
}

func Function(f *parser.Function) *idlast.Function {
	if f == nil {
		bad("nil Function")
	}
	return &idlast.Function{Name: idlast.B(f.Name), Oneway: f.Oneway, Void: f.Void, FunctionType: Type(f.FunctionType),
		Arguments: fields(f.Arguments), Throws: fields(f.Throws), Annotations: Annotations(f.Annotations),
		Comments: idlast.B(f.ReservedComments)}
}

func Service(s *parser.Service) *idlast.Service {
	if s == nil {
		bad("nil Service")
	}
	out := &idlast.Service{Name: idlast.B(s.Name), Extends: idlast.B(s.Extends), Annotations: Annotations(s.Annotations),
		Reference: Reference(s.Reference), Comments: idlast.B(s.ReservedComments)}
	out.Functions = make([]*idlast.Function, len(s.Functions))
	for i, f := range s.Functions {
		out.Functions[i] = Function(f)
	}
	return out
}

// File converts one AST node (includes are recorded by the Filename of their parsed
// reference; the referenced ASTs themselves are not followed — see Program).
func File(t *parser.Thrift) *idlast.File {
	if t == nil {
		bad("nil Thrift")
	}
	out := &idlast.File{Filename: idlast.B(t.Filename), CppIncludes: bs(t.CppIncludes)}
	out.Includes = make([]*idlast.Include, len(t.Includes))
	for i, inc := range t.Includes {
		if inc == nil {
			bad("nil Include")
		}
		x := &idlast.Include{Path: idlast.B(inc.Path), Used: optBool(inc.Used)}
		if inc.Reference != nil {
			fn := idlast.B(inc.Reference.Filename)
			x.Ref = &fn
		}
		out.Includes[i] = x
	}
	out.Namespaces = make([]*idlast.Namespace, len(t.Namespaces))
	for i, n := range t.Namespaces {
		if n == nil {
			bad("nil Namespace")
		}
		out.Namespaces[i] = &idlast.Namespace{Language: idlast.B(n.Language), Name: idlast.B(n.Name), Annotations: Annotations(n.Annotations)}
	}
	out.Typedefs = make([]*idlast.Typedef, len(t.Typedefs))
	for i, d := range t.Typedefs {
		if d == nil {
			bad("nil Typedef")
		}
		out.Typedefs[i] = &idlast.Typedef{Type: Type(d.Type), Alias: idlast.B(d.Alias), Annotations: Annotations(d.Annotations),
			Comments: idlast.B(d.ReservedComments)}
	}
	out.Constants = make([]*idlast.Constant, len(t.Constants))
	for i, c := range t.Constants {
		if c == nil {
			bad("nil Constant")
		}
		out.Constants[i] = &idlast.Constant{Name: idlast.B(c.Name), Type: Type(c.Type), Value: ConstValue(c.Value),
			Annotations: Annotations(c.Annotations), Comments: idlast.B(c.ReservedComments)}
	}
	out.Enums = make([]*idlast.Enum, len(t.Enums))
	for i, e := range t.Enums {
		if e == nil {
			bad("nil Enum")
		}
		x := &idlast.Enum{Name: idlast.B(e.Name), Annotations: Annotations(e.Annotations), Comments: idlast.B(e.ReservedComments)}
		x.Values = make([]*idlast.EnumValue, len(e.Values))
		for j, v := range e.Values {
			if v == nil {
				bad("nil EnumValue")
			}
			x.Values[j] = &idlast.EnumValue{Name: idlast.B(v.Name), Value: v.Value, Annotations: Annotations(v.Annotations),
				Comments: idlast.B(v.ReservedComments)}
		}
		out.Enums[i] = x
	}
	out.Structs = structLikes(t.Structs)
	out.Unions = structLikes(t.Unions)
	out.Exceptions = structLikes(t.Exceptions)
	out.Services = make([]*idlast.Service, len(t.Services))
	for i, s := range t.Services {
		out.Services[i] = Service(s)
	}
	if t.Name2Category != nil {
		out.HasName2Cat = true
		names := make([]string, 0, len(t.Name2Category))
		for n := range t.Name2Category {
			names = append(names, n)
		}
		sort.Strings(names)
		for _, n := range names {
			c := t.Name2Category[n]
			if c < 0 || c > parser.Category_Service {
				bad("category %d out of range", int64(c))
			}
			out.Name2Cat = append(out.Name2Cat, idlast.NameCat{Name: idlast.B(n), Category: idlast.Category(c)})
		}
	}
	return out
}

// Program converts the AST reachable from main through Include.Reference.
func Program(main *parser.Thrift) idlast.Program {
	var out idlast.Program
	seen := map[string]bool{}
	var walk func(t *parser.Thrift)
	walk = func(t *parser.Thrift) {
		if t == nil || seen[t.Filename] {
			return
		}
		seen[t.Filename] = true
		out = append(out, idlast.ProgramEntry{Filename: idlast.B(t.Filename), File: File(t)})
		for _, inc := range t.Includes {
			if inc != nil {
				walk(inc.Reference)
			}
		}
	}
	walk(main)
	return out
}

// FileChecked / ProgramChecked return an error instead of panicking on shapes that
// Idl/Ast.v cannot express.
func FileChecked(t *parser.Thrift) (f *idlast.File, err error) {
	defer catch(&err)
	return File(t), nil
}

func ProgramChecked(main *parser.Thrift) (p idlast.Program, err error) {
	defer catch(&err)
	return Program(main), nil
}

// CoqFile / CoqProgram / JSONFile / JSONProgram are shorthands.
func CoqFile(t *parser.Thrift) string     { return File(t).Coq() }
func CoqProgram(t *parser.Thrift) string  { return Program(t).Coq() }
func JSONFile(t *parser.Thrift) []byte    { return File(t).JSON() }
func JSONProgram(t *parser.Thrift) []byte { return Program(t).JSON() }
