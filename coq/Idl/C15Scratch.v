From Coq Require Import List Bool NArith ZArith Lia Permutation.
From Coq.Strings Require Import Byte String.
From Verif Require Import Base.Bytes Base.BE Wire.TType Wire.WVal Wire.Codec Wire.CodecFacts Wire.Schema Wire.SchemaDescriptor
  Idl.Ast Idl.AstUtil Idl.AstFacts Idl.Reflect Idl.ReflectFacts.
Import ListNotations.
Local Open Scope Z_scope.
Local Open Scope list_scope.






(* the unchanged descriptor format cannot state two includes of one base name *)
Local Open Scope string_scope.
Definition dup_file : file :=
  File (B "main.thrift")
       [Include (B "x/shared.thrift") (Some (B "x/shared.thrift")) None;
        Include (B "y/shared.thrift") (Some (B "y/shared.thrift")) None]
       [] [] [] [] [] [] [] [] [] None.
Local Close Scope string_scope.

Theorem includes_same_basename_refuted :
  exists f, file_annos_ok f = true /\ includes_plain f = true /\ distinct_basenames f = false /\
            x_includes (project_d (descriptor_of f)) <> x_includes (project_a f).
Proof.
  exists dup_file. repeat split; try (vm_compute; reflexivity). vm_compute. intro H. discriminate H.
Qed.

(* ================================================================ 4. lookups *)

(* a program as the parser delivers it: every file once, listed under its own Filename *)
Definition prog_ok (P : program) : bool :=
  nodupb (map fst P) && forallb (fun nf => beqb (fst nf) (f_filename (snd nf))) P.

Lemma lookup_fd_registry P path :
  prog_ok P = true -> lookup_fd (registry_of P) path = omap descriptor_of (prog_file P path).
Proof.
  unfold prog_ok. intro H. apply andb_true_iff in H as [_ H]. unfold lookup_fd, registry_of, prog_file.
  induction P as [|[k f] P IH]; [reflexivity|]. cbn [forallb fst snd] in H. apply andb_true_iff in H as [Hk HP].
  apply beqb_true in Hk. cbn [map find lookup snd]. unfold descriptor_of at 1. cbn [fdc_filepath].
  rewrite <- Hk, (beqb_sym k path). destruct (beqb path k); [reflexivity|]. apply IH. exact HP.
Qed.

Lemma parse_alias_plain n : no_byte dot n = true -> parse_alias n = ([], n).
Proof. intro H. unfold parse_alias. rewrite (last_index_split_none dot n H). reflexivity. Qed.

Lemma parse_alias_qualified pre n : no_byte dot n = true -> parse_alias (pre ++ dot :: n) = (pre, n).
Proof. intro H. unfold parse_alias. rewrite (last_index_split_last dot pre n H). reflexivity. Qed.

Lemma is_empty_false (s : bytes) : s <> [] -> is_empty s = false.
Proof. destruct s; [congruence|reflexivity]. Qed.

Lemma get_descriptor_local {A} (lk : fdesc -> bytes -> option A) reg f n :
  n <> [] -> no_byte dot n = true -> get_descriptor lk reg f n = lk f n.
Proof.
  intros Hn Hd. unfold get_descriptor. rewrite (is_empty_false n Hn), (parse_alias_plain n Hd). reflexivity.
Qed.

Lemma get_descriptor_qualified {A} (lk : fdesc -> bytes -> option A) reg f pre n :
  pre <> [] -> n <> [] -> no_byte dot n = true ->
  get_descriptor lk reg f (pre ++ dot :: n) =
  match get_include_fd reg f pre with Some g => lk g n | None => None end.
Proof.
  intros Hp Hn Hd. unfold get_descriptor.
  rewrite is_empty_false by (destruct pre; discriminate).
  rewrite (parse_alias_qualified pre n Hd), (is_empty_false pre Hp), (is_empty_false n Hn). reflexivity.
Qed.

Lemma lookup_map_unique {A B} (key : A -> bytes) (val : A -> B) l x :
  NoDup (map key l) -> In x l -> lookup (key x) (map (fun y => (key y, val y)) l) = Some (val x).
Proof.
  induction l as [|y l IH]; intros Hnd Hin; [destruct Hin|]. cbn [map lookup]. inversion Hnd as [|? ? Hy Hl]; subst.
  destruct Hin as [->|Hin]; [rewrite beqb_refl; reflexivity|].
  destruct (beqb (key x) (key y)) eqn:E; [|apply IH; assumption].
  apply beqb_true in E. exfalso. apply Hy. rewrite <- E. apply in_map. exact Hin.
Qed.

(* the descriptor of the file an include prefix stands for *)
Lemma include_fd_right P f i gname g :
  prog_ok P = true -> distinct_basenames f = true ->
  In i (f_includes f) -> in_ref i = Some gname -> gname <> [] -> include_alias gname <> [] ->
  prog_file P gname = Some g ->
  get_include_fd (registry_of P) (descriptor_of f) (include_alias gname) = Some (descriptor_of g).
Proof.
  intros HP Hd Hin Href Hg Ha Hfile. unfold get_include_fd. rewrite (is_empty_false _ Ha).
  unfold descriptor_of at 1. cbn [fdc_includes]. unfold includes_map, distinct_basenames in *.
  apply nodupb_NoDup in Hd. rewrite (fold_update_map _ _ _ Hd).
  assert (Ep : include_path i = gname) by (unfold include_path; rewrite Href; reflexivity).
  rewrite <- Ep at 1.
  rewrite (lookup_map_unique (fun i => include_alias (include_path i)) include_path (f_includes f) i Hd Hin).
  rewrite Ep, (is_empty_false _ Hg), (lookup_fd_registry P gname HP), Hfile. reflexivity.
Qed.

Section LookupByName.
  Context {A D : Type} (lk : fdesc -> bytes -> option D) (mk : bytes -> A -> D) (afind : file -> bytes -> option A).
  (* the descriptor-side search mirrors the AST-side search, file by file *)
  Hypothesis mirrors : forall g n, lk (descriptor_of g) n = omap (mk (f_filename g)) (afind g n).

  (* an unqualified name finds the definition of that name in the file itself *)
  Theorem lookup_local P f n :
    n <> [] -> no_byte dot n = true ->
    get_descriptor lk (registry_of P) (descriptor_of f) n = omap (mk (f_filename f)) (afind f n).
  Proof. intros Hn Hd. rewrite get_descriptor_local by assumption. apply mirrors. Qed.

  (* a name written through the prefix of an include finds the definition in the included file *)
  Theorem lookup_through_include P f i gname g n :
    prog_ok P = true -> distinct_basenames f = true ->
    In i (f_includes f) -> in_ref i = Some gname -> gname <> [] -> include_alias gname <> [] ->
    prog_file P gname = Some g -> n <> [] -> no_byte dot n = true ->
    get_descriptor lk (registry_of P) (descriptor_of f) (include_alias gname ++ dot :: n) =
    omap (mk (f_filename g)) (afind g n).
  Proof.
    intros HP Hd Hin Href Hg Ha Hfile Hn Hnd.
    rewrite get_descriptor_qualified by assumption.
    rewrite (include_fd_right P f i gname g HP Hd Hin Href Hg Ha Hfile). apply mirrors.
  Qed.
End LookupByName.

Lemma first_named_map {A D} (key : D -> bytes) (akey : A -> bytes) (mk : A -> D) l n :
  (forall x, key (mk x) = akey x) -> first_named key (map mk l) n = omap mk (find_by akey n l).
Proof.
  intro H. unfold first_named. induction l as [|x l IH]; [reflexivity|]. cbn [map find find_by].
  rewrite H. destruct (beqb (akey x) n); [reflexivity|exact IH].
Qed.

Lemma mirrors_struct g n :
  first_named sd_name (fdc_structs (descriptor_of g)) n = omap (struct_desc (f_filename g)) (find_struct g n).
Proof. apply first_named_map. reflexivity. Qed.
Lemma mirrors_union g n :
  first_named sd_name (fdc_unions (descriptor_of g)) n = omap (struct_desc (f_filename g)) (find_union g n).
Proof. apply first_named_map. reflexivity. Qed.
Lemma mirrors_exception g n :
  first_named sd_name (fdc_exceptions (descriptor_of g)) n = omap (struct_desc (f_filename g)) (find_exception g n).
Proof. apply first_named_map. reflexivity. Qed.
Lemma mirrors_enum g n :
  first_named ed_name (fdc_enums (descriptor_of g)) n = omap (enum_desc (f_filename g)) (find_enum g n).
Proof. apply first_named_map. reflexivity. Qed.
Lemma mirrors_typedef g n :
  first_named tdd_alias (fdc_typedefs (descriptor_of g)) n = omap (typedef_desc (f_filename g)) (find_typedef g n).
Proof. apply first_named_map. reflexivity. Qed.
Lemma mirrors_const g n :
  first_named cd_name (fdc_consts (descriptor_of g)) n = omap (const_desc (f_filename g)) (find_constant g n).
Proof. apply first_named_map. reflexivity. Qed.
Lemma mirrors_service g n :
  first_named svd_name (fdc_services (descriptor_of g)) n = omap (service_desc (f_filename g)) (find_service g n).
Proof. apply first_named_map. reflexivity. Qed.

(* fields by name and by id, methods by name: the first entry with that name / id, which is THE
   entry when names / ids are unique *)
Lemma field_by_name p s n :
  get_field_by_name (struct_desc p s) n = omap (field_desc p) (find_field s n).
Proof. unfold get_field_by_name, struct_desc, find_field. cbn [sd_fields]. apply first_named_map. reflexivity. Qed.

Lemma find_map_mirror {A D} (mk : A -> D) (q : D -> bool) (p : A -> bool) l :
  (forall x, q (mk x) = p x) -> find q (map mk l) = omap mk (find p l).
Proof. intro H. induction l as [|x l IH]; [reflexivity|]. cbn [map find]. rewrite H. destruct (p x); [reflexivity|exact IH]. Qed.

Lemma field_by_id p s id :
  get_field_by_id (struct_desc p s) id = omap (field_desc p) (find (fun x => fd_id x =? id) (sl_fields s)).
Proof. unfold get_field_by_id, struct_desc. cbn [sd_fields]. apply find_map_mirror. reflexivity. Qed.

Lemma find_unique {A} (p : A -> bool) (key : A -> Z) l x :
  NoDup (map key l) -> In x l -> (forall y, p y = (key y =? key x)) -> find p l = Some x.
Proof.
  induction l as [|y l IH]; intros Hnd Hin Hp; [destruct Hin|]. cbn [find map] in *. inversion Hnd as [|? ? Hy Hl]; subst.
  destruct Hin as [->|Hin]; [rewrite Hp, Z.eqb_refl; reflexivity|].
  rewrite Hp. destruct (Z.eqb_spec (key y) (key x)) as [E|E]; [|apply IH; assumption].
  exfalso. apply Hy. rewrite E. apply in_map. exact Hin.
Qed.

Theorem field_by_id_right p s x :
  NoDup (map fd_id (sl_fields s)) -> In x (sl_fields s) ->
  get_field_by_id (struct_desc p s) (fd_id x) = Some (field_desc p x).
Proof.
  intros Hnd Hin. rewrite field_by_id. rewrite (find_unique _ fd_id (sl_fields s) x Hnd Hin); [reflexivity|]. reflexivity.
Qed.

Lemma find_by_unique {A} (key : A -> bytes) l x :
  NoDup (map key l) -> In x l -> find_by key (key x) l = Some x.
Proof.
  induction l as [|y l IH]; intros Hnd Hin; [destruct Hin|]. cbn [find_by map] in *. inversion Hnd as [|? ? Hy Hl]; subst.
  destruct Hin as [->|Hin]; [rewrite beqb_refl; reflexivity|].
  destruct (beqb (key y) (key x)) eqn:E; [|apply IH; assumption].
  apply beqb_true in E. exfalso. apply Hy. rewrite E. apply in_map. exact Hin.
Qed.

Theorem field_by_name_right p s x :
  NoDup (map fd_name (sl_fields s)) -> In x (sl_fields s) ->
  get_field_by_name (struct_desc p s) (fd_name x) = Some (field_desc p x).
Proof.
  intros Hnd Hin. rewrite field_by_name. unfold find_field. rewrite (find_by_unique fd_name _ x Hnd Hin). reflexivity.
Qed.

Theorem method_by_name_right p s fn :
  NoDup (map fn_name (sv_functions s)) -> In fn (sv_functions s) ->
  get_method_by_name (service_desc p s) (fn_name fn) = Some (method_desc p fn).
Proof.
  intros Hnd Hin. unfold get_method_by_name, service_desc. cbn [svd_methods].
  rewrite (first_named_map md_name fn_name (method_desc p)) by reflexivity.
  rewrite (find_by_unique fn_name _ fn Hnd Hin). reflexivity.
Qed.

(* a lookup without a file path: when exactly one registered file answers, that answer is the
   result, wherever the file stands in the registry (the Go code ranges over a map) *)
Lemma lookup_first_unique {A} (get : registry -> fdesc -> bytes -> option A) reg name d0 x : forall regs,
  In d0 regs -> get reg d0 name = Some x ->
  (forall d, In d regs -> get reg d name <> None -> d = d0) ->
  (fix go (l : list fdesc) : option A :=
     match l with
     | [] => None
     | f :: r => match get reg f name with Some x => Some x | None => go r end
     end) regs = Some x.
Proof.
  induction regs as [|d r IH]; intros Hin H0 Huniq; [destruct Hin|].
  destruct (get reg d name) as [y|] eqn:E.
  - assert (d = d0) by (apply Huniq; [left; reflexivity|congruence]). subst d. congruence.
  - destruct Hin as [->|Hin]; [congruence|]. apply IH; [exact Hin|exact H0|]. intros d' Hd'. apply Huniq. right. exact Hd'.
Qed.

Theorem lookup_without_path {A} (get : registry -> fdesc -> bytes -> option A) reg name d0 x :
  In d0 reg -> get reg d0 name = Some x ->
  (forall d, In d reg -> get reg d name <> None -> d = d0) ->
  lookup_in get reg name [] = Some x.
Proof. intros Hin H0 Huniq. unfold lookup_in. cbn [is_empty]. apply (lookup_first_unique get reg name d0 x reg); assumption. Qed.

Theorem lookup_with_path {A} (get : registry -> fdesc -> bytes -> option A) P path f name :
  prog_ok P = true -> path <> [] -> prog_file P path = Some f ->
  lookup_in get (registry_of P) name path = get (registry_of P) (descriptor_of f) name.
Proof.
  intros HP Hp Hf. unfold lookup_in. rewrite (is_empty_false path Hp), (lookup_fd_registry P path HP), Hf. reflexivity.
Qed.
