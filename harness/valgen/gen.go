package valgen

import (
	"bytes"
	"math"

	"verif/harness/rng"
	"verif/harness/schemagen"
)

type Params struct {
	MaxElems int  // container elements
	MaxDepth int  // struct nesting / recursion depth
	MaxStr   int  // string / binary length
	Edge     bool // also produce shapes outside wt that the model still predicts (nil unions, union counts <> 1, duplicate set elements, nil structs with required fields)
}

func DefaultParams() Params { return Params{MaxElems: 4, MaxDepth: 3, MaxStr: 64} }

type G struct {
	R    *rng.R
	Prog *schemagen.Program
	P    Params
}

// BasePtr mirrors Schema.base_ptr: optional, no default, base type, not binary.
func BasePtr(f *schemagen.Field) bool {
	return f.Req == "optional" && f.Default == nil && IsBase(f.Type) && f.Type.Kind != "binary"
}

func IsBase(t *schemagen.Type) bool {
	switch t.Kind {
	case "struct", "list", "set", "map":
		return false
	}
	return true
}

// ValueOfLit mirrors Value.value_of_lit.
func ValueOfLit(l *schemagen.Lit) *Value {
	switch l.Kind {
	case "bool":
		return Bool(l.Bool)
	case "int":
		return Int(l.Int)
	case "double":
		return Dbl(l.Bits)
	case "string":
		return Str([]byte(l.Str))
	case "binary":
		return Bin([]byte(l.Str))
	case "list":
		out := make([]*Value, len(l.List))
		for i, x := range l.List {
			out[i] = ValueOfLit(x)
		}
		return List(out)
	case "map":
		out := make([][2]*Value, len(l.Map))
		for i, kv := range l.Map {
			out[i] = [2]*Value{ValueOfLit(kv[0]), ValueOfLit(kv[1])}
		}
		return Map(out)
	}
	return Nil()
}

func nanBits(x uint64) bool { return x&0x7fffffffffffffff > 0x7ff0000000000000 }
func zeroBits(x uint64) bool { return x&0x7fffffffffffffff == 0 }

// Feq: IEEE == on bit patterns.
func Feq(a, b uint64) bool {
	if nanBits(a) || nanBits(b) {
		return false
	}
	return a == b || (zeroBits(a) && zeroBits(b))
}

// KeyEq mirrors Value.go_key_eq.
func KeyEq(a, b *Value) bool {
	if a.K != b.K {
		return false
	}
	switch a.K {
	case "bool":
		return a.B == b.B
	case "int":
		return a.I == b.I
	case "dbl":
		return Feq(a.D, b.D)
	case "str", "bin":
		return bytes.Equal(a.S, b.S)
	case "nil":
		return true // two nil struct pointers are the same key
	}
	return false
}

// DeepEq mirrors Value.deep_eq (reflect.DeepEqual on distinct objects).
func DeepEq(a, b *Value) bool {
	if a.K != b.K {
		return false
	}
	switch a.K {
	case "nil":
		return true
	case "bool", "int", "dbl", "str", "bin":
		return KeyEq(a, b)
	case "some":
		return DeepEq(a.P, b.P)
	case "list":
		if len(a.L) != len(b.L) {
			return false
		}
		for i := range a.L {
			if !DeepEq(a.L[i], b.L[i]) {
				return false
			}
		}
		return true
	case "map":
		if len(a.M) != len(b.M) {
			return false
		}
		for _, kv := range a.M {
			found := false
			for _, kv2 := range b.M {
				if KeyEq(kv[0], kv2[0]) {
					if !DeepEq(kv[1], kv2[1]) {
						return false
					}
					found = true
					break
				}
			}
			if !found {
				return false
			}
		}
		return true
	case "struct":
		if len(a.F) != len(b.F) {
			return false
		}
		for i := range a.F {
			if a.F[i].ID != b.F[i].ID || !DeepEq(a.F[i].V, b.F[i].V) {
				return false
			}
		}
		return true
	}
	return false
}

// IsSet mirrors Value.isset.
func IsSet(f *schemagen.Field, v *Value) bool {
	if f.Default != nil && IsBase(f.Type) {
		d := ValueOfLit(f.Default)
		if f.Type.Kind == "binary" {
			return !bytes.Equal(v.S, d.S)
		}
		if v.K == "dbl" {
			return !Feq(v.D, d.D)
		}
		return !KeyEq(v, d)
	}
	return v.K != "nil"
}

func (g *G) hasRequired(s *schemagen.Struct) bool {
	for _, f := range s.Fields {
		if f.Req == "required" {
			return true
		}
	}
	return false
}

// Struct generates a non-nil value of struct-like s.
func (g *G) Struct(s *schemagen.Struct, depth int) *Value {
	r := g.R
	fs := make([]FieldVal, len(s.Fields))
	if s.Kind == "union" {
		pick := -1
		if len(s.Fields) > 0 {
			pick = r.Intn(len(s.Fields))
		}
		extra := -2
		if g.P.Edge && r.Chance(1, 4) {
			if r.Bool() {
				pick = -1 // none set
			} else if len(s.Fields) > 1 {
				extra = (pick + 1 + r.Intn(len(s.Fields)-1)) % len(s.Fields)
			}
		}
		for i, f := range s.Fields {
			fs[i] = FieldVal{ID: f.ID, V: g.unionSlot(f, i == pick || i == extra, depth)}
		}
		return Struct(fs)
	}
	for i, f := range s.Fields {
		fs[i] = FieldVal{ID: f.ID, V: g.Slot(f, depth)}
	}
	return Struct(fs)
}

func (g *G) unionSlot(f *schemagen.Field, set bool, depth int) *Value {
	if !set {
		if f.Default != nil {
			if IsBase(f.Type) {
				return ValueOfLit(f.Default)
			}
			return Nil()
		}
		return Nil()
	}
	for tries := 0; tries < 50; tries++ {
		var v *Value
		if BasePtr(f) {
			v = Some(g.Val(f.Type, depth, false))
		} else {
			v = g.Val(f.Type, depth, false)
			if v.K == "nil" {
				v = g.nonNil(f.Type, depth)
			}
		}
		if IsSet(f, v) {
			return v
		}
	}
	return g.nonNil(f.Type, depth)
}

// nonNil: a non-nil value of a pointer-ish type
func (g *G) nonNil(t *schemagen.Type, depth int) *Value {
	switch t.Kind {
	case "binary":
		return Bin([]byte{})
	case "list", "set":
		return List([]*Value{})
	case "map":
		return Map([][2]*Value{})
	case "struct":
		return g.Struct(g.Prog.Struct(t.Name), depth-1)
	}
	return g.Val(t, depth, false)
}

// Slot generates what a struct field holds.
func (g *G) Slot(f *schemagen.Field, depth int) *Value {
	r := g.R
	if f.Default != nil && r.Chance(3, 10) {
		return ValueOfLit(f.Default)
	}
	if BasePtr(f) {
		if r.Chance(3, 10) {
			return Nil()
		}
		return Some(g.Val(f.Type, depth, false))
	}
	if f.Req == "optional" && !IsBase(f.Type) || f.Req == "optional" && f.Type.Kind == "binary" {
		if r.Chance(35, 100) || (f.Type.Kind == "struct" && depth <= 0) {
			return Nil()
		}
	}
	return g.Val(f.Type, depth, false)
}

var intEdges = map[string][]int64{
	"byte": {0, 1, -1, 127, -128},
	"i16":  {0, 1, -1, 32767, -32768, 255, 256},
	"i32":  {0, 1, -1, math.MaxInt32, math.MinInt32, 65536},
	"i64":  {0, 1, -1, math.MaxInt64, math.MinInt64, 1 << 32, -(1 << 32)},
}
var intBits = map[string]uint{"byte": 8, "i16": 16, "i32": 32, "i64": 64}

var dblEdges = []uint64{
	0x0000000000000000, 0x8000000000000000, // +0 -0
	0x7ff0000000000000, 0xfff0000000000000, // +inf -inf
	0x7ff8000000000000, 0x7ff0000000000001, 0xfff8000000000001, 0x7fffffffffffffff, // NaNs
	0x3ff0000000000000, 0xbff0000000000000, 0x0000000000000001, 0x7fefffffffffffff, 0x4009_21fb_5444_2d18,
}

func (g *G) bytesVal(maxLen int, text bool) []byte {
	r := g.R
	n := 0
	switch r.Intn(5) {
	case 0:
		n = 0
	case 1:
		n = 1
	case 2:
		n = r.Range(2, 8)
	default:
		n = r.Range(0, maxLen)
	}
	b := make([]byte, n)
	for i := range b {
		if text && !r.Chance(1, 8) {
			b[i] = byte(r.Range(0x20, 0x7e))
		} else {
			b[i] = byte(r.Intn(256))
		}
	}
	if text && n >= 3 && r.Chance(1, 6) {
		copy(b, []byte("\xe4\xb8\x96")) // a 3-byte UTF-8 rune
	}
	return b
}

// Val generates the plain representation of type t (element / key / non-pointer slot).
func (g *G) Val(t *schemagen.Type, depth int, key bool) *Value {
	r := g.R
	switch t.Kind {
	case "bool":
		return Bool(r.Bool())
	case "byte", "i16", "i32", "i64":
		if r.Chance(2, 5) {
			return Int(rng.Pick(r, intEdges[t.Kind]))
		}
		bits := intBits[t.Kind]
		u := r.U64()
		if r.Bool() {
			u %= 1000
		}
		return Int(int64(u<<(64-bits)) >> (64 - bits))
	case "enum":
		e := g.Prog.Enum(t.Name)
		c := r.Intn(10)
		switch {
		case c < 7 && len(e.Values) > 0:
			return Int(rng.Pick(r, e.Values).Value)
		case c < 9:
			return Int(int64(int32(r.U64())))
		default: // outside int32: Write truncates
			return Int(rng.Pick(r, []int64{1 << 32, (1 << 32) + 1, -(1 << 33) + 5, math.MaxInt64, math.MinInt64, 1 << 31}))
		}
	case "double":
		if r.Chance(1, 2) {
			return Dbl(rng.Pick(r, dblEdges))
		}
		return Dbl(r.U64())
	case "string":
		return Str(g.bytesVal(g.P.MaxStr, !r.Chance(1, 10)))
	case "binary":
		if !key && r.Chance(1, 10) {
			return Nil()
		}
		return Bin(g.bytesVal(g.P.MaxStr, r.Chance(1, 3)))
	case "struct":
		s := g.Prog.Struct(t.Name)
		nilOK := s.Kind != "union" && !g.hasRequired(s)
		if depth <= 0 {
			if nilOK {
				return Nil()
			}
			return g.Struct(s, 0)
		}
		if nilOK && r.Chance(1, 10) {
			return Nil()
		}
		if !nilOK && g.P.Edge && r.Chance(1, 12) {
			return Nil() // nil union (panic) / nil struct whose empty encoding misses required fields
		}
		return g.Struct(s, depth-1)
	case "list", "set":
		switch r.Intn(10) {
		case 0:
			return Nil()
		case 1:
			return List([]*Value{})
		}
		n := r.Range(1, g.P.MaxElems)
		if depth <= 0 && t.Elem.Kind == "struct" {
			n = r.Range(0, 1)
		}
		out := make([]*Value, 0, n)
		for i := 0; i < n; i++ {
			x := g.Val(t.Elem, depth-1, false)
			if t.Kind == "set" {
				dup := false
				for _, y := range out {
					if DeepEq(x, y) {
						dup = true
					}
				}
				if dup && !(g.P.Edge && r.Chance(1, 3)) {
					continue
				}
			}
			out = append(out, x)
		}
		if t.Kind == "set" && g.P.Edge && len(out) > 0 && r.Chance(1, 10) {
			out = append(out, out[r.Intn(len(out))]) // exact duplicate
		}
		return List(out)
	case "map":
		switch r.Intn(10) {
		case 0:
			return Nil()
		case 1:
			return Map([][2]*Value{})
		}
		n := r.Range(1, g.P.MaxElems)
		if depth <= 0 && (t.Elem.Kind == "struct" || t.Key.Kind == "struct") {
			n = r.Range(0, 1)
		}
		out := make([][2]*Value, 0, n)
		for i := 0; i < n; i++ {
			k := g.Val(t.Key, depth-1, true)
			dup := false
			for _, kv := range out {
				if KeyEq(k, kv[0]) {
					dup = true
				}
			}
			if dup {
				continue
			}
			out = append(out, [2]*Value{k, g.Val(t.Elem, depth-1, false)})
		}
		return Map(out)
	}
	return Nil()
}

// Retype fixes the string/binary ambiguity of a driver dump using the schema: a Go string
// under a binary type (map keys) is VBin; anything that does not fit becomes Bad().
func Retype(p *schemagen.Program, t *schemagen.Type, v *Value) *Value {
	switch v.K {
	case "str":
		if t.Kind == "binary" {
			return Bin(v.S)
		}
		if t.Kind == "string" {
			return v
		}
		return Bad()
	case "bin":
		if t.Kind == "binary" {
			return v
		}
		return Bad()
	case "some":
		return Some(Retype(p, t, v.P))
	case "list":
		if t.Kind != "list" && t.Kind != "set" {
			return Bad()
		}
		out := make([]*Value, len(v.L))
		for i, x := range v.L {
			out[i] = Retype(p, t.Elem, x)
		}
		return List(out)
	case "map":
		if t.Kind != "map" {
			return Bad()
		}
		out := make([][2]*Value, len(v.M))
		for i, kv := range v.M {
			out[i] = [2]*Value{Retype(p, t.Key, kv[0]), Retype(p, t.Elem, kv[1])}
		}
		return Map(out)
	case "struct":
		if t.Kind != "struct" {
			return Bad()
		}
		return RetypeStruct(p, p.Struct(t.Name), v)
	}
	return v
}

func RetypeStruct(p *schemagen.Program, s *schemagen.Struct, v *Value) *Value {
	if v.K != "struct" || s == nil {
		return Bad()
	}
	out := make([]FieldVal, len(v.F))
	for i, fv := range v.F {
		var fld *schemagen.Field
		for _, f := range s.Fields {
			if f.ID == fv.ID {
				fld = f
			}
		}
		if fld == nil {
			out[i] = FieldVal{ID: fv.ID, V: Bad()}
			continue
		}
		out[i] = FieldVal{ID: fv.ID, V: Retype(p, fld.Type, fv.V)}
	}
	return Struct(out)
}
