// Package opttable extracts the go backend's option table from the freshly built
// thriftgo packages (GoBackend.Options, reflection over golang.Features,
// NewCodeUtils defaults) and cross-checks it against a go/ast read of
// generator/golang/option.go; it also parses the option documentation (README.md
// and the `thriftgo -h` text).  Used by the C20 translator and case producer.
package opttable

import (
	"fmt"
	"go/ast"
	"go/parser"
	"go/token"
	"os"
	"path/filepath"
	"reflect"
	"regexp"
	"sort"
	"strconv"
	"strings"

	"github.com/cloudwego/thriftgo/generator/backend"
	"github.com/cloudwego/thriftgo/generator/golang"
	"github.com/cloudwego/thriftgo/generator/golang/styles"
	"github.com/cloudwego/thriftgo/generator/golang/templates"
)

// Action kinds (Coq constructors of Gen/OptionsSyntax.v).
const (
	AImportPath    = "AImportPath"
	AUsePackage    = "AUsePackage"
	ANamingStyle   = "ANamingStyle"
	AIgnoreInit    = "AIgnoreInit"
	APackagePrefix = "APackagePrefix"
	ATemplate      = "ATemplate"
	AFeature       = "AFeature"
	AUnknown       = "AUnknown"
)

type Entry struct {
	Name    string `json:"name"`
	Action  string `json:"action"`
	FeatIdx int    `json:"feat_idx"` // valid when Action == AFeature
}

type Table struct {
	Entries         []Entry  `json:"entries"`
	FeatureTags     []string `json:"feature_tags"`     // option name per Features field, field order
	FeatureDefaults []bool   `json:"feature_defaults"` // NewCodeUtils().Features(), field order
	NamingStyles    []string `json:"naming_styles"`
	DefaultStyle    string   `json:"default_style"`
	Templates       []string `json:"templates"` // alternative template names, sorted
	DefaultTemplate string   `json:"default_template"`
	DefaultThrift   string   `json:"default_thrift_lib"`
	InitCurInit     bool     `json:"init_cur_init"` // fresh process: initialism correction of the initial style
	InitDoInit      bool     `json:"init_do_init"`  // fresh process: what re-selecting the default style yields
	// where the go/ast reading of option.go and the built package disagree (the package wins)
	Disagreements []string `json:"source_vs_package_disagreements,omitempty"`
}

// Probe is the identifier used to observe initialism correction.
const Probe = "user_url"
const ProbeOn = "UserURL"

// InitOn reports whether the naming style of cu currently corrects initialisms.
func InitOn(cu *golang.CodeUtils) bool {
	id, err := cu.NamingStyle().Identify(Probe)
	return err == nil && id == ProbeOn
}

func tagName(tag reflect.StructTag) string {
	return strings.SplitN(string(tag), ":", 2)[0]
}

// astInfo is what the go/ast read of option.go yields.
type astInfo struct {
	fieldTags []string        // Features struct, field order
	fieldName []string        // Go field names (only used to join with defaultFeatures)
	defaults  map[string]bool // defaultFeatures literal, by Go field name
	special   []Entry         // codeUtilsParams: name + classified action, order
}

func readAST(repo string) (*astInfo, error) {
	path := filepath.Join(repo, "generator", "golang", "option.go")
	fset := token.NewFileSet()
	f, err := parser.ParseFile(fset, path, nil, 0)
	if err != nil {
		return nil, err
	}
	info := &astInfo{defaults: map[string]bool{}}
	foundFeatures, foundDefaults, foundParams := false, false, false
	for _, d := range f.Decls {
		gd, ok := d.(*ast.GenDecl)
		if !ok {
			continue
		}
		for _, sp := range gd.Specs {
			switch s := sp.(type) {
			case *ast.TypeSpec:
				st, ok := s.Type.(*ast.StructType)
				if s.Name.Name != "Features" || !ok {
					continue
				}
				foundFeatures = true
				for _, fl := range st.Fields.List {
					if fl.Tag == nil {
						return nil, fmt.Errorf("option.go: Features field without tag")
					}
					raw, err := strconv.Unquote(fl.Tag.Value)
					if err != nil {
						return nil, err
					}
					for _, n := range fl.Names {
						info.fieldName = append(info.fieldName, n.Name)
						info.fieldTags = append(info.fieldTags, tagName(reflect.StructTag(raw)))
					}
				}
			case *ast.ValueSpec:
				for i, n := range s.Names {
					if i >= len(s.Values) {
						continue
					}
					cl, ok := s.Values[i].(*ast.CompositeLit)
					if !ok {
						continue
					}
					switch n.Name {
					case "defaultFeatures":
						foundDefaults = true
						for _, el := range cl.Elts {
							kv, ok := el.(*ast.KeyValueExpr)
							if !ok {
								return nil, fmt.Errorf("option.go: defaultFeatures is not a keyed literal")
							}
							k, ok1 := kv.Key.(*ast.Ident)
							v, ok2 := kv.Value.(*ast.Ident)
							if !ok1 || !ok2 || (v.Name != "true" && v.Name != "false") {
								return nil, fmt.Errorf("option.go: defaultFeatures entry is not `Field: true|false`")
							}
							info.defaults[k.Name] = v.Name == "true"
						}
					case "codeUtilsParams":
						foundParams = true
						for _, el := range cl.Elts {
							pl, ok := el.(*ast.CompositeLit)
							if !ok {
								return nil, fmt.Errorf("option.go: codeUtilsParams element is not a literal")
							}
							e := Entry{Action: AUnknown}
							for _, pe := range pl.Elts {
								kv, ok := pe.(*ast.KeyValueExpr)
								if !ok {
									continue
								}
								k, _ := kv.Key.(*ast.Ident)
								if k == nil {
									continue
								}
								switch k.Name {
								case "name":
									if bl, ok := kv.Value.(*ast.BasicLit); ok && bl.Kind == token.STRING {
										e.Name, _ = strconv.Unquote(bl.Value)
									}
								case "action":
									e.Action = classify(kv.Value)
								}
							}
							info.special = append(info.special, e)
						}
					}
				}
			}
		}
	}
	if !foundFeatures || !foundDefaults || !foundParams {
		return nil, fmt.Errorf("option.go: Features/defaultFeatures/codeUtilsParams not all found (%v %v %v)", foundFeatures, foundDefaults, foundParams)
	}
	return info, nil
}

// classify maps the body of a hand-written action closure to an action kind by the
// CodeUtils setters it calls.
func classify(fn ast.Expr) string {
	calls := map[string]bool{}
	firstArgIdent := ""
	ast.Inspect(fn, func(n ast.Node) bool {
		ce, ok := n.(*ast.CallExpr)
		if !ok {
			return true
		}
		if se, ok := ce.Fun.(*ast.SelectorExpr); ok {
			if x, ok := se.X.(*ast.Ident); ok {
				calls[x.Name+"."+se.Sel.Name] = true
				if x.Name == "cu" && se.Sel.Name == "UsePackage" && len(ce.Args) == 2 {
					if id, ok := ce.Args[0].(*ast.Ident); ok {
						firstArgIdent = id.Name
					}
				}
			}
		} else if id, ok := ce.Fun.(*ast.Ident); ok {
			calls[id.Name] = true
		}
		return true
	})
	var setters []string
	for k := range calls {
		if strings.HasPrefix(k, "cu.") && k != "cu.Info" && k != "cu.Warn" {
			setters = append(setters, k)
		}
	}
	if len(setters) != 1 {
		return AUnknown
	}
	switch setters[0] {
	case "cu.UsePackage":
		if calls["strings.SplitN"] {
			return AUsePackage
		}
		if firstArgIdent == "DefaultThriftLib" {
			return AImportPath
		}
	case "cu.SetNamingStyle":
		if calls["styles.NewNamingStyle"] {
			return ANamingStyle
		}
	case "cu.UseInitialisms":
		if calls["checkBool"] {
			return AIgnoreInit
		}
	case "cu.SetPackagePrefix":
		return APackagePrefix
	case "cu.UseTemplate":
		return ATemplate
	}
	return AUnknown
}

// Extract builds the table. It must run in a fresh process (before any
// HandleOptions call) because naming style objects are process-global.
func Extract(repo string) (*Table, error) {
	t := &Table{}
	// fresh-process probes first
	cu0 := golang.NewCodeUtils(backend.DummyLogFunc())
	t.InitCurInit = InitOn(cu0)
	t.DefaultStyle = cu0.NamingStyle().Name()
	t.DefaultTemplate = cu0.Template()
	t.DefaultThrift = golang.DefaultThriftLib
	t.NamingStyles = styles.NamingStyles()
	for k := range templates.Alternative() {
		t.Templates = append(t.Templates, k)
	}
	sort.Strings(t.Templates)
	fs := cu0.Features()
	rt := reflect.TypeOf(fs)
	rv := reflect.ValueOf(fs)
	for i := 0; i < rt.NumField(); i++ {
		f := rt.Field(i)
		if f.Type.Kind() != reflect.Bool {
			return nil, fmt.Errorf("Features.%s is not a bool", f.Name)
		}
		t.FeatureTags = append(t.FeatureTags, tagName(f.Tag))
		t.FeatureDefaults = append(t.FeatureDefaults, rv.Field(i).Bool())
	}
	{
		cu := golang.NewCodeUtils(backend.DummyLogFunc())
		if err := cu.HandleOptions([]string{"naming_style=" + t.DefaultStyle}); err != nil {
			return nil, fmt.Errorf("probe naming_style=%s: %v", t.DefaultStyle, err)
		}
		t.InitDoInit = InitOn(cu)
		ResetStyles(nil)
	}

	// The table of the freshly built package is authoritative: it is what the code does.  The
	// go/ast reading of option.go supplies (a) the classification of the hand-written closures and
	// (b) a cross-check; where it disagrees with the package (order, names, defaults) the
	// disagreement is recorded and the run continues with the package's table, so that the theorems
	// are checked against it and the correspondence / oracles still produce a failing input.
	note := func(format string, a ...interface{}) {
		t.Disagreements = append(t.Disagreements, fmt.Sprintf(format, a...))
	}
	info, err := readAST(repo)
	if err != nil {
		note("go/ast read of generator/golang/option.go failed (%v); hand-written parameters classified by their well-known names", err)
		info = &astInfo{defaults: map[string]bool{}}
		for _, e := range []Entry{{Name: "thrift_import_path", Action: AImportPath}, {Name: "use_package", Action: AUsePackage},
			{Name: "naming_style", Action: ANamingStyle}, {Name: "ignore_initialisms", Action: AIgnoreInit},
			{Name: "package_prefix", Action: APackagePrefix}, {Name: "template", Action: ATemplate}} {
			info.special = append(info.special, e)
		}
	} else {
		if !reflect.DeepEqual(info.fieldTags, t.FeatureTags) {
			note("Features tags: option.go source has %v, built package has %v", info.fieldTags, t.FeatureTags)
		}
		for i, fn := range info.fieldName {
			if i < len(t.FeatureDefaults) && i < len(info.fieldTags) && info.fieldTags[i] == t.FeatureTags[i] && info.defaults[fn] != t.FeatureDefaults[i] {
				note("default of Features.%s: source says %v, built package says %v (package value used)", fn, info.defaults[fn], t.FeatureDefaults[i])
			}
		}
		for k := range info.defaults {
			ok := false
			for _, fn := range info.fieldName {
				ok = ok || fn == k
			}
			if !ok {
				note("defaultFeatures names unknown field %s", k)
			}
		}
	}
	specialAction := map[string]string{}
	var expected []string // order the source suggests: codeUtilsParams, then one parameter per field
	for _, e := range info.special {
		if _, dup := specialAction[e.Name]; dup {
			note("hand-written parameter %q occurs twice in codeUtilsParams", e.Name)
			continue
		}
		specialAction[e.Name] = e.Action
		expected = append(expected, e.Name)
	}
	tagIdx := map[string]int{}
	for i, n := range t.FeatureTags {
		if _, dup := tagIdx[n]; dup {
			note("two Features fields carry the option name %q; the first one is taken as the documented feature", n)
		} else {
			tagIdx[n] = i
		}
		expected = append(expected, n)
	}
	opts := new(golang.GoBackend).Options()
	var got []string
	for _, o := range opts {
		got = append(got, o.Name)
	}
	if !reflect.DeepEqual(got, expected) {
		first := 0
		for first < len(got) && first < len(expected) && got[first] == expected[first] {
			first++
		}
		g, x := "(end)", "(end)"
		if first < len(got) {
			g = got[first]
		}
		if first < len(expected) {
			x = expected[first]
		}
		note("lookup order: GoBackend.Options() of the built package is not codeUtilsParams followed by the Features fields in source order "+
			"(%d vs %d entries, first difference at position %d: package %q, source %q); the package order is used", len(got), len(expected), first, g, x)
	}
	for _, o := range opts {
		e := Entry{Name: o.Name, Action: AUnknown}
		act, isSpecial := specialAction[o.Name]
		idx, isFeature := tagIdx[o.Name]
		switch {
		case isSpecial && isFeature:
			note("option name %q is both a hand-written parameter and a Features tag", o.Name)
			e.Action = act
		case isSpecial:
			e.Action = act
		case isFeature:
			// the feature an option documents is the field that carries its name as tag
			e.Action, e.FeatIdx = AFeature, idx
		default:
			note("option %q of the built package is neither in codeUtilsParams nor a Features tag", o.Name)
		}
		if e.Action == AUnknown && isSpecial {
			note("the action closure of hand-written parameter %q was not recognised", o.Name)
		}
		t.Entries = append(t.Entries, e)
	}
	return t, nil
}

// ResetStyles puts every (process-global) naming style object back into its
// fresh-process state: fresh[name] if given, else initialism correction on.
func ResetStyles(fresh map[string]bool) {
	for _, n := range styles.NamingStyles() {
		on, ok := fresh[n]
		if !ok {
			on = true
		}
		styles.NewNamingStyle(n).UseInitialisms(on)
	}
}

// FreshStyles records the fresh-process initialism state of every naming style.
// Call before anything else touches the styles.
func FreshStyles() map[string]bool {
	m := map[string]bool{}
	for _, n := range styles.NamingStyles() {
		id, err := styles.NewNamingStyle(n).Identify(Probe)
		m[n] = err == nil && id == ProbeOn
	}
	return m
}

// ---------------------------------------------------------------- documentation

type DocDefault struct {
	Kind string `json:"kind"` // "bool" | "str" | "none"
	Bool bool   `json:"bool,omitempty"`
	Str  string `json:"str,omitempty"`
}

type ReadmeOption struct {
	Name    string     `json:"name"`
	Default DocDefault `json:"default"`
}

type HelpOption struct {
	Name       string `json:"name"`
	EnabledDef bool   `json:"enabled_by_default"`
	Deprecated bool   `json:"deprecated"`
}

type Doc struct {
	Readme             []ReadmeOption `json:"readme"`
	ReadmeThriftLib    string         `json:"readme_thrift_lib"`
	ReadmeStyles       []string       `json:"readme_styles"`
	ReadmeTemplates    []string       `json:"readme_templates"`
	ReadmeBoolForms    []string       `json:"readme_bool_forms"`
	Help               []HelpOption   `json:"help"`
	HelpThriftLib      string         `json:"help_thrift_lib"`
	HelpStyleDefault   string         `json:"help_style_default"`
	HelpStyles         []string       `json:"help_styles"`
	HelpTemplates      []string       `json:"help_templates"`
	HelpBoolForms      []string       `json:"help_bool_forms"`
	HelpBackendHeading string         `json:"help_backend_heading"`
}

var backtick = regexp.MustCompile("`([^`]*)`")

// ParseReadme reads the "Go backend options" table of README.md.
func ParseReadme(repo string) (*Doc, error) {
	b, err := os.ReadFile(filepath.Join(repo, "README.md"))
	if err != nil {
		return nil, err
	}
	d := &Doc{}
	lines := strings.Split(string(b), "\n")
	in := false
	sawTable := false
	for _, ln := range lines {
		if strings.HasPrefix(ln, "#") {
			if in && sawTable {
				break
			}
			in = strings.Contains(ln, "Go backend options")
			continue
		}
		if !in {
			continue
		}
		if m := regexp.MustCompile("^Boolean options accept (.*)$").FindStringSubmatch(ln); m != nil {
			seen := map[string]bool{}
			for _, q := range backtick.FindAllStringSubmatch(m[1], -1) {
				if !seen[q[1]] {
					seen[q[1]] = true
					d.ReadmeBoolForms = append(d.ReadmeBoolForms, q[1])
				}
			}
			if strings.Contains(m[1], "empty") {
				d.ReadmeBoolForms = append(d.ReadmeBoolForms, "")
			}
		}
		if !strings.HasPrefix(ln, "|") {
			if sawTable && strings.TrimSpace(ln) == "" {
				break
			}
			continue
		}
		cells := strings.Split(strings.Trim(strings.TrimSpace(ln), "|"), "|")
		if len(cells) < 3 {
			continue
		}
		c0 := strings.TrimSpace(cells[0])
		if !strings.HasPrefix(c0, "`") {
			continue // header and separator rows
		}
		sawTable = true
		m := backtick.FindStringSubmatch(c0)
		if m == nil {
			return nil, fmt.Errorf("README option cell %q", c0)
		}
		name := strings.SplitN(m[1], "=", 2)[0]
		def := strings.TrimSpace(cells[1])
		desc := strings.TrimSpace(strings.Join(cells[2:], "|"))
		ro := ReadmeOption{Name: name}
		switch {
		case def == "":
			ro.Default = DocDefault{Kind: "none"}
		case strings.Trim(def, "*") == "true":
			ro.Default = DocDefault{Kind: "bool", Bool: true}
		case strings.Trim(def, "*") == "false":
			ro.Default = DocDefault{Kind: "bool", Bool: false}
		default:
			if q := backtick.FindStringSubmatch(def); q != nil {
				ro.Default = DocDefault{Kind: "str", Str: q[1]}
			} else {
				ro.Default = DocDefault{Kind: "str", Str: def}
			}
		}
		d.Readme = append(d.Readme, ro)
		switch name {
		case "thrift_import_path":
			if q := regexp.MustCompile("Default: `([^`]+)`").FindStringSubmatch(desc); q != nil {
				d.ReadmeThriftLib = q[1]
			}
		case "naming_style":
			for _, q := range backtick.FindAllStringSubmatch(desc, -1) {
				d.ReadmeStyles = append(d.ReadmeStyles, q[1])
			}
		case "template":
			for _, q := range backtick.FindAllStringSubmatch(desc, -1) {
				d.ReadmeTemplates = append(d.ReadmeTemplates, q[1])
			}
		}
	}
	if len(d.Readme) == 0 {
		return nil, fmt.Errorf("README.md: no go backend option table found")
	}
	return d, nil
}

var helpLine = regexp.MustCompile(`^    ([A-Za-z0-9_]+):\s+(.*)$`)

// ParseHelp reads the go backend block of the `thriftgo -h` text into d.
func ParseHelp(text string, d *Doc) error {
	lines := strings.Split(text, "\n")
	in := false
	for i, ln := range lines {
		if strings.Contains(ln, "Boolean options accept") {
			two := ln
			if i+1 < len(lines) {
				two += " " + lines[i+1]
			}
			seen := map[string]bool{}
			for _, q := range regexp.MustCompile(`"([^"]*)"`).FindAllStringSubmatch(two, -1) {
				if !seen[q[1]] {
					seen[q[1]] = true
					d.HelpBoolForms = append(d.HelpBoolForms, q[1])
				}
			}
		}
		if m := regexp.MustCompile(`^  (\S+) \((\S+)\):\s*$`).FindStringSubmatch(ln); m != nil {
			in = m[1] == "go"
			if in {
				d.HelpBackendHeading = strings.TrimSpace(ln)
			}
			continue
		}
		if !in {
			continue
		}
		m := helpLine.FindStringSubmatch(ln)
		if m == nil {
			continue
		}
		name, desc := m[1], m[2]
		d.Help = append(d.Help, HelpOption{
			Name:       name,
			EnabledDef: strings.Contains(desc, "(Enabled by default)"),
			Deprecated: strings.HasPrefix(desc, "Deprecated"),
		})
		switch name {
		case "thrift_import_path":
			if q := regexp.MustCompile(`\(default:\s*([^)]+)\)`).FindStringSubmatch(desc); q != nil {
				d.HelpThriftLib = strings.TrimSpace(q[1])
			}
		case "naming_style":
			if q := regexp.MustCompile(`Default is '([^']*)'`).FindStringSubmatch(desc); q != nil {
				d.HelpStyleDefault = q[1]
			}
			if q := regexp.MustCompile(`identifiers: ([^.]*)\.`).FindStringSubmatch(desc); q != nil {
				for _, s := range strings.Split(q[1], ",") {
					d.HelpStyles = append(d.HelpStyles, strings.TrimSpace(s))
				}
			}
		case "template":
			if q := regexp.MustCompile(`templates: ([^)]*)\)`).FindStringSubmatch(desc); q != nil {
				for _, s := range regexp.MustCompile(`'([^']*)'`).FindAllStringSubmatch(q[1], -1) {
					d.HelpTemplates = append(d.HelpTemplates, s[1])
				}
			}
		}
	}
	if len(d.Help) == 0 {
		return fmt.Errorf("help text: no `go (Go):` option block found")
	}
	return nil
}
