(* Corr/C18.v — correspondence record and oracles for property C18 (generated DeepEqual).

   A shard file defines  E : env  (the schema program) and a list of cases; every case carries the
   pair (or the single value) chosen by the harness and what the compiled generated code answered.

   [mismatches] returns (case index, code):
     1  model and implementation disagree (deq / sets_ok do not predict the observed answer),
        or the DeepEqual method is missing although gen_deep_equal was requested    (correspondence)
    10  the input is outside the modelled domain (ill-shaped value, inconsistent heap):
        the harness must not produce it                                              (correspondence)
     2  DeepEqual's answer differs from structural equality on a pair without struct-typed map
        keys (and without NaN under a shared pointer)                                      (oracle)
     3  DeepEqual's answer differs from structural equality, and a map of the pair has
        struct-typed keys (pointer keys: looked up by identity)                            (oracle)
     4  x.DeepEqual(y) and y.DeepEqual(x) differ                                           (oracle)
     5  x.DeepEqual(x) is not true                                                         (oracle)
     6  DeepEqual panicked (nil receiver / nil argument / nil field)                       (oracle)
     7  Write accepted a set with two structurally equal elements, or refused a value in which
        no set has two structurally equal elements (no struct-typed map keys involved)     (oracle)
     8  as 7, with struct-typed map keys inside the value                                  (oracle)  *)
From Coq Require Import List ZArith Bool NArith.
From Verif Require Import Base.Bytes Wire.TType Wire.Schema Wire.Value Wire.DeepEq.
Import ListNotations.
Open Scope Z_scope.

Inductive obs := OTrue | OFalse | OPanicked | OMissing.

(* error class of Write as the driver reports it: ok | any error value | panic *)
Inductive wobs := WOk | WErr | WPanic.

Inductive case :=
| CEq (sname : bytes) (x y : hval) (oxy oyx oxx oyy : obs)
| CWriteSet (sname : bytes) (x : hval) (oerr : wobs).

Definition is_nil_h (x : hval) : bool := match x with HNil => true | _ => false end.

Definition obs_is (o : obs) (b : bool) : bool :=
  match o, b with OTrue, true | OFalse, false => true | _, _ => false end.
Definition obs_panicked (o : obs) : bool := match o with OPanicked => true | _ => false end.
Definition obs_missing (o : obs) : bool := match o with OMissing => true | _ => false end.
Definition obs_eqb (a b : obs) : bool :=
  match a, b with OTrue, OTrue | OFalse, OFalse | OPanicked, OPanicked | OMissing, OMissing => true | _, _ => false end.

(* one address, one object: over all pointer nodes of the case *)
Definition consistent (ps : list (Z * hval)) : bool :=
  forallb (fun p => forallb (fun q => negb (fst p =? fst q) || heqb (snd p) (snd q)) ps) ps.

Definition oracle_pair (e : env) (t : ty) (x y : hval) (o : obs) : list N :=
  if obs_panicked o || obs_missing o then []
  else if obs_is o (same x y) then []
  else if eq_domain e t x y then [2%N]
  else if shape e false t x && shape e false t y && shared_okb x y then [3%N]    (* only struct keys keep it out of the domain *)
  else [].

Definition check (e : env) (c : case) : list N :=
  match c with
  | CEq sname x y oxy oyx oxx oyy =>
      match find_struct e sname with
      | None => [10%N]
      | Some s =>
          let t := TRef sname in
          if negb (shape e false t x && shape e false t y && consistent (ptrs x ++ ptrs y)) then [10%N]
          else
            (if existsb obs_missing [oxy; oyx; oxx; oyy] then [1%N] else []) ++
            (if existsb obs_panicked [oxy; oyx; oxx; oyy] then [6%N] else []) ++
            (* correspondence *)
            (if (obs_panicked oxy || obs_missing oxy || obs_is oxy (gen_deep_eq e s x y)) &&
                (obs_panicked oyx || obs_missing oyx || obs_is oyx (gen_deep_eq e s y x)) &&
                (obs_panicked oxx || obs_missing oxx || obs_is oxx (gen_deep_eq e s x x)) &&
                (obs_panicked oyy || obs_missing oyy || obs_is oyy (gen_deep_eq e s y y))
             then [] else [1%N]) ++
            (* property oracles on the observed answers *)
            oracle_pair e t x y oxy ++
            oracle_pair e t y x oyx ++
            (if obs_eqb oxy oyx then [] else [4%N]) ++
            (if (obs_is oxx true || obs_panicked oxx || obs_missing oxx) &&
                (obs_is oyy true || obs_panicked oyy || obs_missing oyy) then [] else [5%N])
      end
  | CWriteSet sname x oerr =>
      match find_struct e sname with
      | None => [10%N]
      | Some s =>
          let t := TRef sname in
          if negb (shape e false t x && negb (is_nil_h x) && consistent (ptrs x)) then [10%N]
          else
            let accepted := match oerr with WOk => true | _ => false end in
            let refused := match oerr with WErr => true | _ => false end in
            (if sets_ok true e t x then (if accepted then [] else [1%N])
             else (if refused then [] else [1%N])) ++
            (if (accepted && sets_distinct e t x) || (refused && negb (sets_distinct e t x)) then []
             else if no_struct_keys x && sets_shared_ok e t x then [7%N]
             else if sets_shared_ok e t x then [8%N]
             else [])
      end
  end.

Fixpoint mismatches_from (e : env) (i : N) (cs : list case) : list (N * N) :=
  match cs with
  | [] => []
  | c :: r => map (fun code => (i, code)) (check e c) ++ mismatches_from e (i + 1)%N r
  end.
