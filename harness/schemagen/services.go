package schemagen

// Services for schema programs (property C08). AddServices appends service definitions to the
// files of an already generated program: void / value / oneway functions, zero to many
// arguments (explicit, implicit and sparse ids, defaults, "required" / ignored "optional"),
// several declared exceptions per function, base services in the same or in an included file,
// and — with Collide — names that meet Go keywords or identifiers of the generated code.
//
// Envelope (things that belong to other properties): no two functions along one extends chain
// whose Go names coincide, every exception type at most once per throws list (the generated type
// switch would not compile otherwise), throws ids positive (0 is taken by "success"), no argument
// named "nil" and no throws field named exactly "success" (thriftgo accepts both and generates Go
// that does not compile: C01's business).

import (
	"fmt"
	"strings"

	"verif/harness/coqfmt"
	"verif/harness/rng"
)

type ServiceParams struct {
	MaxServices int // per file
	MaxFuncs    int // per service
	MaxArgs     int
	MaxThrows   int
	Collide     bool // use names that collide with Go keywords / generated identifiers
	TypeDepth   int  // container nesting of argument / return types
	Homonyms    bool // same-named services in different files, extended by qualified name (needs >= 2 files)
}

func DefaultServiceParams() ServiceParams {
	return ServiceParams{MaxServices: 2, MaxFuncs: 5, MaxArgs: 5, MaxThrows: 3, Collide: true, TypeDepth: 2}
}

var plainFuncNames = []string{"ping", "get", "put", "add", "list_items", "fetchAll", "do_it", "compute", "lookup", "store",
	"query", "send", "update", "remove", "count", "echo", "sum", "find", "check", "notify"}

// IDL names whose Go forms meet keywords, predeclared identifiers, or names the templates use
var collidingFuncNames = []string{"type", "func", "range", "select", "go", "map", "chan", "defer", "interface", "package",
	"NewThing", "New", "getArgs", "fooResult", "Args", "Result", "Client", "Processor", "Process", "process",
	"string", "error", "Read", "Write", "String", "Error", "InitDefault", "handler", "success", "GetSuccess",
	"p", "err", "ctx", "r", "AddToProcessorMap", "ProcessorMap", "len", "nil", "true", "int32"}

var plainArgNames = []string{"a", "b", "key", "value", "req", "item", "n", "who", "what", "flag", "payload", "idx"}

var collidingArgNames = []string{"p", "err", "ctx", "r", "_result", "type", "func", "args", "result", "self", "handler",
	"processor", "iprot", "oprot", "seqId", "retval", "err2", "x", "success", "Success", "v", "name", "client", "range",
	"_args", "thrift", "context", "fmt", "string", "error", "len", "Args", "Result", "stream", "method"}

var throwNames = []string{"e", "ex", "err", "failure", "oops", "Success", "p", "ctx", "r", "e2", "type", "error", "_result"}

// goCanon approximates "same Go name": thriftgo upper-cases the first letter and removes
// underscores followed by a letter (snake -> camel); comparing lower-cased, underscore-free forms
// is a conservative test for a clash.
func goCanon(s string) string {
	return strings.ToLower(strings.ReplaceAll(s, "_", ""))
}

// Services lists every service of the program (file order, then source order).
func (p *Program) Services() []*Service {
	var out []*Service
	for _, f := range p.Files {
		for _, d := range f.Defs {
			if d.Service != nil {
				out = append(out, d.Service)
			}
		}
	}
	return out
}

func (s *Service) QName() string { return s.File + "." + s.Name }

func (p *Program) Service(qname string) *Service {
	for _, s := range p.Services() {
		if s.QName() == qname {
			return s
		}
	}
	return nil
}

// Chain returns the service followed by its bases (nearest first).
func (p *Program) Chain(s *Service) []*Service {
	var out []*Service
	for s != nil && len(out) < 64 {
		out = append(out, s)
		if s.Extends == "" {
			break
		}
		s = p.Service(s.Extends)
	}
	return out
}

// Method is a function together with the service that declares it.
type Method struct {
	Owner *Service
	Fn    *Function
}

// Methods is the dispatch table of a service: own functions, then the base's.
func (p *Program) Methods(s *Service) []Method {
	var out []Method
	for _, sv := range p.Chain(s) {
		for _, fn := range sv.Functions {
			out = append(out, Method{sv, fn})
		}
	}
	return out
}

// AddServices appends services to the program's files. Deterministic in r.
func AddServices(r *rng.R, p *Program, sp ServiceParams) {
	g := &gen{r: r, p: DefaultParams(), prog: p, visible: map[string][]*File{},
		structs: map[string]*Struct{}, enums: map[string]*Enum{}, tdefs: map[string]*Typedef{}, counter: 5000}
	g.p.MaxDepth = sp.TypeDepth
	byName := map[string]*File{}
	for _, f := range p.Files {
		byName[f.Name] = f
	}
	hasStructKeys := p.HasStructKeys()
	g.p.StructKeys = hasStructKeys // do not introduce pointer-keyed maps into a program that has none
	g.p.BaseTypedefs = p.HasBaseTypedefs()
	for _, f := range p.Files {
		vis := []*File{f}
		for _, inc := range f.Includes {
			vis = append(vis, byName[inc])
		}
		g.visible[f.Name] = vis
		for _, d := range f.Defs {
			switch {
			case d.Struct != nil:
				g.structs[d.Struct.QName()] = d.Struct
			case d.Enum != nil:
				g.enums[d.Enum.QName()] = d.Enum
			case d.Typedef != nil:
				g.tdefs[d.Typedef.File+"."+d.Typedef.Name] = d.Typedef
			}
		}
	}
	for i := len(p.Files) - 1; i >= 0; i-- {
		f := p.Files[i]
		g.cur = f
		n := r.Range(0, sp.MaxServices)
		if i == 0 && n == 0 {
			n = 1
		}
		if i > 0 && n == 0 && r.Chance(1, 2) {
			n = 1 // included files mostly have a service, so that cross-file bases occur
		}
		for k := 0; k < n; k++ {
			g.genService(f, sp, k)
		}
	}
	if sp.Homonyms {
		g.addHomonyms(sp)
	}
	g.ensureZeroThrow()
}

// ensureZeroThrow: every program has at least one void, non-oneway function that declares an
// exception under field id 0 (accepted since id 0 is reserved for non-void functions only).
func (g *gen) ensureZeroThrow() {
	var cands []*Function
	for _, s := range g.prog.Services() {
		for _, fn := range s.Functions {
			if fn.Oneway || fn.Ret != nil {
				continue
			}
			for _, t := range fn.Throws {
				if t.ID == 0 {
					return
				}
			}
			if len(fn.Throws) > 0 {
				cands = append(cands, fn)
			}
		}
	}
	if len(cands) == 0 {
		// turn a value-returning function with exceptions of the main file's last service into a void one
		ss := g.prog.Services()
		for i := len(ss) - 1; i >= 0 && len(cands) == 0; i-- {
			for _, fn := range ss[i].Functions {
				if !fn.Oneway && len(fn.Throws) > 0 {
					fn.Ret = nil
					cands = append(cands, fn)
					break
				}
			}
		}
	}
	if len(cands) == 0 {
		return
	}
	fn := rng.Pick(g.r, cands)
	fn.Throws[g.r.Intn(len(fn.Throws))].ID = 0
}

func (g *gen) visServices() []*Service {
	var out []*Service
	for _, vf := range g.visible[g.cur.Name] {
		for _, d := range vf.Defs {
			if d.Service != nil {
				out = append(out, d.Service)
			}
		}
	}
	return out
}

func (g *gen) visExceptionTypes() []*Type {
	var out []*Type
	for _, s := range g.visStructs("exception") {
		out = append(out, &Type{Kind: "struct", Name: s.QName()})
	}
	for _, td := range g.visTypedefs() {
		if td.Type.Kind == "struct" {
			if s := g.structs[td.Type.Name]; s != nil && s.Kind == "exception" {
				out = append(out, cloneVia(td.Type, td.File+"."+td.Name))
			}
		}
	}
	return out
}

func (g *gen) newException(f *File) *Struct {
	saved := g.p
	g.p.Recursion = false
	g.p.MaxFields = 4
	s := g.genStruct(f)
	g.p = saved
	delete(g.structs, s.QName())
	s.Kind = "exception"
	s.Name = g.fresh("Ex")
	for _, fl := range s.Fields {
		if fl.ReqText == "" { // a union's fields are optional without saying so; an exception's are not
			fl.Req = "default"
		}
	}
	g.structs[s.QName()] = s
	f.Defs = append(f.Defs, &Def{Struct: s})
	return s
}

func (g *gen) genService(f *File, sp ServiceParams, k int) {
	g.genServiceWith(f, sp, "", "", nil, true)
}

// genServiceWith: name "" = fresh name; extends "" + mayExtend = random visible base or none; used (when
// given) is a set of Go-canonical function names shared with other services that must stay distinct.
func (g *gen) genServiceWith(f *File, sp ServiceParams, name, extends string, used map[string]bool, mayExtend bool) *Service {
	r := g.r
	g.cur = f
	for len(g.visExceptionTypes()) < 2 {
		g.newException(f)
	}
	if name == "" {
		name = g.fresh("Svc")
		if sp.Collide && r.Chance(1, 4) {
			name = rng.Pick(r, []string{"NewSvc", "Client", "Processor", "FooArgs", "BarResult", "Handler"}) + fmt.Sprint(g.counter)
		}
	}
	sv := &Service{File: f.Name, Name: name}
	if used == nil {
		used = map[string]bool{}
	}
	var base *Service
	if extends != "" {
		base = g.prog.Service(extends)
	} else if bases := g.visServices(); mayExtend && len(bases) > 0 && r.Chance(3, 5) {
		base = rng.Pick(r, bases)
	}
	if base != nil {
		sv.Extends = base.QName()
		for _, b := range g.prog.Chain(base) {
			for _, fn := range b.Functions {
				used[goCanon(fn.Name)] = true
			}
		}
	}
	nf := r.Range(1, sp.MaxFuncs)
	caseTwin := ""
	for i := 0; i < nf; i++ {
		var fname string
		for tries := 0; tries < 50; tries++ {
			switch {
			case sp.Collide && r.Chance(2, 5):
				fname = rng.Pick(r, collidingFuncNames)
			default:
				fname = rng.Pick(r, plainFuncNames)
			}
			if !used[goCanon(fname)] {
				break
			}
			fname = ""
		}
		if fname == "" {
			fname = g.fresh("fn")
		}
		used[goCanon(fname)] = true
		if caseTwin == "" && sp.Collide && r.Chance(1, 8) && len(fname) > 1 && fname[0] >= 'a' && fname[0] <= 'z' {
			caseTwin = strings.ToUpper(fname[:1]) + fname[1:] // same Go name inside one service: thriftgo renames
		}
		sv.Functions = append(sv.Functions, g.genFunction(sp, fname))
	}
	if caseTwin != "" {
		sv.Functions = append(sv.Functions, g.genFunction(sp, caseTwin))
	}
	f.Defs = append(f.Defs, &Def{Service: sv})
	return sv
}

// addHomonyms: services with the same bare name ("Common") in different files, and services of the
// main file that extend one of them by qualified name — the homonym included earlier and the one
// included later, optionally with a local service of that name as well. Function names are pairwise
// distinct over the whole group, so dispatching to the wrong "Common" cannot go unnoticed.
func (g *gen) addHomonyms(sp ServiceParams) {
	r := g.r
	p := g.prog
	if len(p.Files) < 2 {
		return
	}
	main := p.Files[0]
	var incs []*File
	if len(p.Files) >= 3 {
		for _, f := range p.Files[1:3] {
			if !contains(main.Includes, f.Name) {
				main.Includes = append(main.Includes, f.Name)
			}
		}
		if r.Bool() { // which homonym is included first varies
			for i, j := 0, len(main.Includes)-1; i < j; i, j = i+1, j-1 {
				main.Includes[i], main.Includes[j] = main.Includes[j], main.Includes[i]
			}
		}
	}
	byName := map[string]*File{}
	for _, f := range p.Files {
		byName[f.Name] = f
	}
	vis := []*File{main}
	for _, inc := range main.Includes {
		vis = append(vis, byName[inc])
		incs = append(incs, byName[inc])
	}
	g.visible[main.Name] = vis
	used := map[string]bool{}
	for _, f := range p.Files { // keep clear of every existing function name, too
		for _, d := range f.Defs {
			if d.Service != nil {
				for _, fn := range d.Service.Functions {
					used[goCanon(fn.Name)] = true
				}
			}
		}
	}
	const bare = "Common"
	var commons []*Service
	for _, f := range incs {
		commons = append(commons, g.genServiceWith(f, sp, bare, "", used, false))
	}
	if len(incs) == 1 || r.Bool() {
		g.genServiceWith(main, sp, bare, "", used, false) // a local service with that name; the bases below stay qualified
	}
	for _, c := range commons {
		g.genServiceWith(main, sp, g.fresh("App"), c.QName(), used, false)
	}
}

func (g *gen) genFunction(sp ServiceParams, name string) *Function {
	r := g.r
	fn := &Function{Name: name, Args: []*Field{}}
	switch {
	case r.Chance(1, 6):
		fn.Oneway = true
	case r.Chance(1, 4):
		// void
	default:
		fn.Ret = g.genType(sp.TypeDepth, false)
	}
	// arguments
	na := 0
	switch r.Intn(6) {
	case 0:
		na = 0
	case 1:
		na = 1
	default:
		na = r.Range(0, sp.MaxArgs)
	}
	usedNames := map[string]bool{}
	nextID := 1
	for i := 0; i < na; i++ {
		var an string
		for tries := 0; tries < 50; tries++ {
			if sp.Collide && r.Chance(1, 2) {
				an = rng.Pick(r, collidingArgNames)
			} else {
				an = rng.Pick(r, plainArgNames)
			}
			if !usedNames[goCanon(an)] {
				break
			}
			an = ""
		}
		if an == "" {
			an = g.fresh("arg")
		}
		usedNames[goCanon(an)] = true
		a := &Field{Name: an, Req: "default", Type: g.genType(sp.TypeDepth, false)}
		implicitID := 1
		if i > 0 {
			implicitID = fn.Args[i-1].ID + 1
		}
		switch {
		case r.Chance(1, 8):
			a.Implicit, a.ID = true, implicitID
		default:
			if nextID < implicitID {
				nextID = implicitID
			}
			nextID += r.Intn(3) * r.Intn(3)
			if r.Chance(1, 25) {
				nextID += r.Range(50, 20000)
			}
			if nextID > 32000 {
				nextID = implicitID
			}
			a.ID = nextID
		}
		if a.ID >= nextID {
			nextID = a.ID + 1
		}
		switch r.Intn(8) {
		case 0:
			a.Req, a.ReqText = "required", "required"
		case 1:
			a.ReqText = "optional" // "optional keyword is ignored in argument lists"
		}
		if r.Chance(1, 4) && defaultable(a.Type) {
			a.Default = g.genLit(a.Type, 2)
		}
		fn.Args = append(fn.Args, a)
	}
	// throws
	if !fn.Oneway {
		nt := 0
		if r.Chance(3, 5) {
			nt = r.Range(1, sp.MaxThrows)
		}
		excs := g.visExceptionTypes()
		seenType := map[string]bool{}
		tnames := map[string]bool{}
		tid := 1
		for i := 0; i < nt; i++ {
			t := rng.Pick(r, excs)
			if seenType[t.Name] {
				continue
			}
			seenType[t.Name] = true
			var tn string
			for tries := 0; tries < 50; tries++ {
				tn = rng.Pick(r, throwNames)
				if !tnames[goCanon(tn)] {
					break
				}
				tn = ""
			}
			if tn == "" {
				tn = g.fresh("exc")
			}
			tnames[goCanon(tn)] = true
			tid += r.Intn(3)
			th := &Field{ID: tid, Name: tn, Req: "optional", Type: t}
			tid++
			switch r.Intn(6) {
			case 0:
				th.ReqText = "optional"
			case 1:
				th.ReqText = "required" // "throw field must be optional, ignoring specified requiredness"
			}
			fn.Throws = append(fn.Throws, th)
		}
		// ids in any order, negative ids, and — on void functions, where no "success" occupies it — id 0
		if len(fn.Throws) > 0 && r.Chance(1, 2) {
			g.wildIDs(fn.Throws, fn.Ret == nil, fn.Ret == nil && r.Chance(2, 3))
		}
	}
	if len(fn.Args) > 0 && r.Chance(1, 5) {
		g.wildIDs(fn.Args, true, r.Chance(1, 3))
	}
	return fn
}

// wildIDs gives the fields pairwise distinct explicit ids in no particular order: negative, small,
// large; zeroOK allows 0, forceZero puts 0 on one of them.
func (g *gen) wildIDs(fs []*Field, zeroOK, forceZero bool) {
	r := g.r
	used := map[int]bool{}
	for _, f := range fs {
		f.Implicit = false
		for {
			var id int
			switch r.Intn(5) {
			case 0:
				id = -r.Range(1, 400)
			case 1:
				id = r.Range(20000, 32767)
			case 2:
				id = 0
			default:
				id = r.Range(1, 12)
			}
			if id == 0 && !zeroOK {
				continue
			}
			if !used[id] {
				used[id] = true
				f.ID = id
				break
			}
		}
	}
	if forceZero && zeroOK && !used[0] {
		fs[r.Intn(len(fs))].ID = 0
	}
}

// ---------------------------------------------------------------------------------- Coq terms

func CoqFunction(fn *Function) string {
	ret := "None"
	if fn.Ret != nil {
		ret = "(Some " + CoqType(fn.Ret) + ")"
	}
	var as, ts []string
	for _, a := range fn.Args {
		as = append(as, CoqField(a))
	}
	for _, t := range fn.Throws {
		ts = append(ts, CoqField(t))
	}
	return fmt.Sprintf("(mkfun %s %s %s %s %s)", coqfmt.BytesF(fn.Name), coqfmt.Bool(fn.Oneway), ret, coqfmt.List(as), coqfmt.List(ts))
}

func CoqService(s *Service) string {
	ext := "None"
	if s.Extends != "" {
		ext = "(Some " + coqfmt.BytesF(s.Extends) + ")"
	}
	var fs []string
	for _, fn := range s.Functions {
		fs = append(fs, CoqFunction(fn))
	}
	return fmt.Sprintf("(mksvc %s %s %s)", coqfmt.BytesF(s.QName()), ext, coqfmt.List(fs))
}

// CoqServices prints the program's services as a term of type list Wire.Rpc.service.
func (p *Program) CoqServices() string {
	var ss []string
	for _, s := range p.Services() {
		ss = append(ss, CoqService(s))
	}
	return coqfmt.List(ss)
}

// ServiceStats adds what the services contain to a histogram.
func (p *Program) ServiceStats(h map[string]int) {
	for _, s := range p.Services() {
		h["services"]++
		for _, sf := range streamSide[s] {
			h["streaming_fn:"+strings.Join(sf.Values, "+")+fmt.Sprintf("/%dargs", len(sf.Fn.Args))]++
		}
		if s.Name == "Common" {
			h["homonym_services"]++
		}
		if b := p.Service(s.Extends); b != nil && b.Name == "Common" {
			h["extends_homonym"]++
		}
		if s.Extends != "" {
			h["extends"]++
			if strings.SplitN(s.Extends, ".", 2)[0] != s.File {
				h["extends_other_file"]++
			}
		}
		h[fmt.Sprintf("chain_len:%d", len(p.Chain(s)))]++
		for _, fn := range s.Functions {
			switch {
			case fn.Oneway:
				h["fn:oneway"]++
			case fn.Ret == nil:
				h["fn:void"]++
			default:
				h["fn:value"]++
				h["ret:"+fn.Ret.Kind]++
			}
			na := len(fn.Args)
			if na > 3 {
				na = 3
			}
			h[fmt.Sprintf("args:%d%s", na, map[bool]string{true: "+", false: ""}[len(fn.Args) > 3])]++
			h[fmt.Sprintf("throws:%d", len(fn.Throws))]++
			for _, t := range fn.Throws {
				switch {
				case t.ID == 0:
					h["throws_id_zero"]++
				case t.ID < 0:
					h["throws_id_negative"]++
				}
			}
			for _, a := range fn.Args {
				if a.ID <= 0 {
					h["arg_id_nonpositive"]++
				}
				h["arg:"+a.Type.Kind]++
				if a.Default != nil {
					h["arg_default"]++
				}
				if a.Implicit {
					h["arg_implicit_id"]++
				}
				if a.ReqText != "" {
					h["arg_req:"+a.ReqText]++
				}
			}
		}
	}
}

// ---------------------------------------------------------------------------------- streaming functions
//
// Functions annotated with streaming.mode are removed by the Go backend (no thrift_streaming
// option) before code generation. They are kept OUT of Service.Functions — everything that drives
// or models the generated code sees the service the templates see — and live in a side table that
// only the IDL text (RenderS) and the source-form Coq term (CoqServicesSrc) consult.

type StreamFn struct {
	Pos    int // emitted before Functions[Pos] (Pos == len(Functions): at the end)
	Fn     *Function
	Values []string // values of the annotation streaming.mode (one annotation per value)
}

var streamSide = map[*Service][]*StreamFn{}

func (s *Service) StreamingFunctions() []*StreamFn { return streamSide[s] }

// AddStreaming puts 1-3 annotated functions into services of the main file (at least one service).
func AddStreaming(r *rng.R, p *Program) {
	g := &gen{r: r, p: DefaultParams(), prog: p, visible: map[string][]*File{}, structs: map[string]*Struct{},
		enums: map[string]*Enum{}, tdefs: map[string]*Typedef{}, counter: 9000}
	main := p.Files[0]
	g.cur = main
	vis := []*File{main}
	for _, f := range p.Files[1:] {
		if contains(main.Includes, f.Name) {
			vis = append(vis, f)
		}
	}
	g.visible[main.Name] = vis
	g.p.StructKeys = p.HasStructKeys()
	g.p.BaseTypedefs = p.HasBaseTypedefs()
	for _, f := range p.Files {
		for _, d := range f.Defs {
			switch {
			case d.Struct != nil:
				g.structs[d.Struct.QName()] = d.Struct
			case d.Enum != nil:
				g.enums[d.Enum.QName()] = d.Enum
			case d.Typedef != nil:
				g.tdefs[d.Typedef.File+"."+d.Typedef.Name] = d.Typedef
			}
		}
	}
	var svcs []*Service
	for _, d := range main.Defs {
		if d.Service != nil {
			svcs = append(svcs, d.Service)
		}
	}
	if len(svcs) == 0 {
		return
	}
	forced := r.Intn(len(svcs))
	sp := DefaultServiceParams()
	sp.Collide = false
	for i, sv := range svcs {
		if i != forced && !r.Chance(1, 2) {
			continue
		}
		n := r.Range(1, 3)
		for k := 0; k < n; k++ {
			fn := g.genFunction(sp, g.fresh("stream"))
			fn.Oneway, fn.Throws = false, nil
			one := func() {
				for len(fn.Args) > 1 {
					fn.Args = fn.Args[:1]
				}
				if len(fn.Args) == 0 {
					fn.Args = []*Field{{ID: 1, Name: "req", Req: "default", Type: &Type{Kind: "string"}}}
				}
			}
			var vals []string
			switch r.Intn(8) {
			case 0:
				vals = []string{"client"}
				one()
			case 1:
				vals = []string{"server"}
				one()
			case 2:
				vals = []string{"bidirectional"}
				one()
			case 3:
				vals = []string{"unary"}
				one()
			case 4:
				vals = []string{"bogus"} // unknown value: "failed to parse streaming"
			case 5:
				vals = []string{"server"} // recognised value, wrong number of arguments
				if len(fn.Args) == 1 {
					fn.Args = nil
				}
			case 6:
				vals = []string{"client", "server"} // several values
				one()
			default:
				vals = []string{"server"}
				one()
			}
			if fn.Args == nil {
				fn.Args = []*Field{}
			}
			streamSide[sv] = append(streamSide[sv], &StreamFn{Pos: r.Range(0, len(sv.Functions)), Fn: fn, Values: vals})
		}
	}
}

func (p *Program) functionText(f *File, fn *Function) string {
	ret := "void"
	if fn.Ret != nil {
		ret = p.typeText(f, fn.Ret)
	}
	var b strings.Builder
	if fn.Oneway {
		b.WriteString("  oneway ")
	} else {
		b.WriteString("  ")
	}
	var args, throws []string
	for _, a := range fn.Args {
		args = append(args, p.fieldText(f, a))
	}
	for _, a := range fn.Throws {
		throws = append(throws, p.fieldText(f, a))
	}
	fmt.Fprintf(&b, "%s %s(%s)", ret, fn.Name, strings.Join(args, ", "))
	if len(throws) > 0 {
		fmt.Fprintf(&b, " throws (%s)", strings.Join(throws, ", "))
	}
	return b.String()
}

// sourceOrder: the functions of a service as written in the IDL (nil StreamFn = ordinary function).
type srcFn struct {
	Fn     *Function
	Stream *StreamFn
}

func (s *Service) sourceOrder() []srcFn {
	var out []srcFn
	for i := 0; i <= len(s.Functions); i++ {
		for _, sf := range streamSide[s] {
			if sf.Pos == i {
				out = append(out, srcFn{sf.Fn, sf})
			}
		}
		if i < len(s.Functions) {
			out = append(out, srcFn{s.Functions[i], nil})
		}
	}
	return out
}

func (p *Program) serviceText(f *File, sv *Service, withStreaming bool) string {
	var b strings.Builder
	fmt.Fprintf(&b, "service %s", sv.Name)
	if sv.Extends != "" {
		fmt.Fprintf(&b, " extends %s", p.rel(f, sv.Extends))
	}
	b.WriteString(" {\n")
	for _, sf := range sv.sourceOrder() {
		if sf.Stream != nil && !withStreaming {
			continue
		}
		b.WriteString(p.functionText(f, sf.Fn))
		if sf.Stream != nil {
			var as []string
			for _, v := range sf.Stream.Values {
				as = append(as, fmt.Sprintf("streaming.mode=%q", v))
			}
			b.WriteString(" (" + strings.Join(as, ", ") + ")")
		}
		b.WriteString(",\n")
	}
	b.WriteString("}\n\n")
	return b.String()
}

// RenderS is Render with the streaming functions written into their services.
func (p *Program) RenderS() map[string]string {
	out := p.Render()
	for _, f := range p.Files {
		for _, d := range f.Defs {
			if d.Service == nil || len(streamSide[d.Service]) == 0 {
				continue
			}
			name := f.Name + ".thrift"
			plain, with := p.serviceText(f, d.Service, false), p.serviceText(f, d.Service, true)
			if !strings.Contains(out[name], plain) {
				panic("schemagen: RenderS does not find the text of service " + d.Service.QName())
			}
			out[name] = strings.Replace(out[name], plain, with, 1)
		}
	}
	return out
}

// CoqServicesSrc prints the services in source form (list Wire.Rpc.service_src): every function
// with the values of its streaming.mode annotation; Coq computes what the generator sees.
func (p *Program) CoqServicesSrc() string {
	var ss []string
	for fi, f := range p.Files {
		for _, d := range f.Defs {
			s := d.Service
			if s == nil {
				continue
			}
			ext := "None"
			if s.Extends != "" {
				ext = "(Some " + coqfmt.BytesF(s.Extends) + ")"
			}
			var fs []string
			for _, sf := range s.sourceOrder() {
				an := "None"
				if sf.Stream != nil {
					var vs []string
					for _, v := range sf.Stream.Values {
						vs = append(vs, coqfmt.BytesF(v))
					}
					an = "(Some " + coqfmt.List(vs) + ")"
				}
				fs = append(fs, "(mkfsrc "+CoqFunction(sf.Fn)+" "+an+")")
			}
			ss = append(ss, fmt.Sprintf("(mksrc %s %s %s %s)", coqfmt.BytesF(s.QName()), ext, coqfmt.Bool(fi == 0), coqfmt.List(fs)))
		}
	}
	return coqfmt.List(ss)
}
