(* Wire/FastRoundTrip.v — FastAppend then FastRead: the whole fast codec, end to end. *)
From Coq Require Import List ZArith Bool Lia Permutation.
From Verif Require Import Base.Bytes Base.BE Wire.TType Wire.WVal Wire.Codec Wire.CodecFacts
  Wire.Schema Wire.Value Wire.Std Wire.StdFacts Wire.Fast Wire.FastFacts Wire.FastReadFacts Wire.FastStdFacts.
Import ListNotations.
Open Scope Z_scope.

(* for every schema, struct-like and well-typed value whose wire form nests at most 64 deep (the depth limit of
   gopkg's Skip; the reader never skips here, the premise comes from fast_read_eq_std_read): FastRead, started
   from NewX(), of the bytes FastAppend wrote — followed by anything — yields the value (its normal form, the
   same object the standard Write/Read round trip yields) and has consumed exactly BLength() bytes *)
Theorem fast_round_trip e s v w :
  wf_env e = true -> find_struct e (s_name s) = Some s -> wt e s v = true ->
  to_wire e s v = Ok w -> (depth (sortw w) <= default_recursion_depth)%nat ->
  forall rest, fast_read e s (new_struct e s) (fast_append e s v ++ rest) = FOk (norm_struct e s v, blength e s v).
Proof.
  intros Henv Hs Hwt Hw Hd rest.
  destruct (write_read e s v Henv Hs Hwt) as (wfs & Hw' & _). rewrite Hw in Hw'. injection Hw' as ->.
  destruct (fast_append_std_read e s v Henv Hs Hwt) as (w' & _ & _ & _ & Hrb).
  pose proof (to_w_wf e Henv v _ _ _ (wt_wt_val _ _ _ Hwt) Hw) as [Hwf _].
  pose proof (wf_sortw _ Hwf) as Hwfs.
  rewrite blength_exact. specialize (Hrb rest).
  rewrite (fast_append_is_std e s v _ Hw) in *. rewrite sortw_struct in *.
  rewrite (fast_read_eq_std_read e s (new_struct e s) _ rest (norm_struct e s v) Henv
             (wf_env_struct e (s_name s) s Henv Hs) Hwfs Hd Hrb).
  reflexivity.
Qed.

(* sorting the fields does not change the nesting depth *)
Lemma depth_struct_go_perm l l' : Permutation l l' -> depth_struct_go l = depth_struct_go l'.
Proof.
  induction 1 as [|[[t i] x] l l' _ IH|[[t i] x] [[t' i'] y] l|l l' l'' _ IH1 _ IH2]; cbn [depth_struct_go]; fold depth_struct_go; lia.
Qed.

Theorem depth_sortw : forall w, depth (sortw w) = depth w.
Proof.
  intro w. induction w using wval_ind2; try reflexivity.
  - rewrite sortw_struct. change (depth (WStruct ?l)) with (S (depth_struct_go l)). f_equal.
    rewrite <- (depth_struct_go_perm _ _ (sort_wfields_perm (map sortw_field fs))).
    induction H as [|[[t i] x] fs Hx _ IH]; [reflexivity|].
    cbn [map sortw_field fst snd depth_struct_go]. fold depth_struct_go. cbn [snd] in Hx. rewrite Hx, IH. reflexivity.
  - cbn [sortw]. change (depth (WMap ?a ?b ?l)) with (S (depth_map_go l)). f_equal.
    induction H as [|[k x] kvs [Hk Hx] _ IH]; [reflexivity|].
    cbn [map fst snd depth_map_go]. fold depth_map_go. cbn [fst snd] in Hk, Hx. rewrite Hk, Hx, IH. reflexivity.
  - cbn [sortw]. change (depth (WSet ?a ?l)) with (S (depth_list_go l)). f_equal.
    induction H as [|x l Hx _ IH]; [reflexivity|]. cbn [map depth_list_go]. fold depth_list_go. rewrite Hx, IH. reflexivity.
  - cbn [sortw]. change (depth (WList ?a ?l)) with (S (depth_list_go l)). f_equal.
    induction H as [|x l Hx _ IH]; [reflexivity|]. cbn [map depth_list_go]. fold depth_list_go. rewrite Hx, IH. reflexivity.
Qed.

Corollary fast_round_trip_depth e s v w :
  wf_env e = true -> find_struct e (s_name s) = Some s -> wt e s v = true ->
  to_wire e s v = Ok w -> (depth w <= default_recursion_depth)%nat ->
  forall rest, fast_read e s (new_struct e s) (fast_append e s v ++ rest) = FOk (norm_struct e s v, blength e s v).
Proof. intros. apply (fast_round_trip e s v w); try assumption. rewrite depth_sortw. assumption. Qed.
