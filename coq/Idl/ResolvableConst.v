(* Idl/ResolvableConst.v — the identifier part of "resolvable": a decidable count of the
   explanations of an identifier used as a value, on the symbol table of the parsed
   program; [resolvable] = plain names, the type / service part of
   Idl/ResolvableSpec.v, and exactly one explanation for every identifier that is not
   true / false.  Definitions only. *)
From Coq Require Import List Bool Arith NArith ZArith.
From Coq.Strings Require Import Byte.
From Verif Require Import Base.Bytes Idl.Ast Idl.AstUtil Idl.Resolve Idl.ResolveSpec Idl.ResolvableSpec.
Import ListNotations.

(* the value names of the enum the definition [e] of file [fn] stands for (an enum, or a
   typedef chain ending in one) *)
Definition enum_values_of (p : program) (fn e : bytes) : option (list bytes) :=
  match denote_def (denote (denote_fuel p) p) p fn e with
  | Some (TEnum efn x) => match def_of p efn x with Some (DkEnum vs) => Some vs | _ => None end
  | _ => None
  end.

Definition count_name (v : bytes) (vs : list bytes) : nat := List.length (filter (fun x => beqb x v) vs).

(* sum of [cnt file] over the includes with prefix [pre] *)
Fixpoint sum_incs (cnt : bytes -> nat) (pre : bytes) (incs : list (bytes * option bytes)) : nat :=
  match incs with
  | [] => 0
  | (pre', ref) :: r =>
    (if beqb pre' pre then match ref with Some gn => cnt gn | None => 0 end else 0) + sum_incs cnt pre r
  end.

Definition const_count (p : program) (gn v : bytes) : nat :=
  match def_of p gn v with Some DkConst => 1 | _ => 0 end.
Definition enum_value_count (p : program) (gn e v : bytes) : nat :=
  match enum_values_of p gn e with Some vs => count_name v vs | None => 0 end.

(* explanations of one SplitValue alternative, as in [const_denotes] *)
Definition alt_count (p : program) (fn : bytes) (f : file) (ss : list bytes) : nat :=
  match ss with
  | [a] => const_count p fn a
  | [e; v] => enum_value_count p fn e v + sum_incs (fun gn => const_count p gn v) e (file_incs f)
  | [pre; e; v] => sum_incs (fun gn => enum_value_count p gn e v) pre (file_incs f)
  | _ => 0
  end.

Definition explanations (p : program) (fn : bytes) (f : file) (s : bytes) : nat :=
  fold_right (fun ss acc => alt_count p fn f ss + acc) 0 (split_value s).

Definition ident_ok (p : program) (fn s : bytes) : bool :=
  match prog_file p fn with Some f => explanations p fn f s =? 1 | None => false end.

Definition resolvable (p : program) : bool := plain_names p && resolvable_with (ident_ok p) p.
