(* Gen/Plugin.v — executable model of the plugin protocol of thriftgo (property C11).
   Model only: no proofs here (see Gen/PluginFacts.v), so it still evaluates when a proof breaks.

   Mirrors
     plugin/plugin.go      ParseCompactArguments, Pack, Lookup (name=path split), external.Execute
                           (error mapping), appendDataTrailer / hasDataTrailerFeature,
                           compressThriftInclude / decompressThriftInclude / collectThriftInclude
     plugin/marshal.go     MarshalRequest / UnmarshalRequest / MarshalResponse / UnmarshalResponse
     plugin/k-protocol.go, parser/k-AST.go   the generated fast codec, as "the Thrift binary encoding
                           of the schema T-thrift regenerates from protocol.thrift + AST.thrift"
                           (Wire/SchemaPlugin.v): field ids and wire types are READ FROM THAT SCHEMA
     generator/generator.go  Generate: parameters packed per plugin, warnings shown, error check,
                           contents fed to the file manager (Gen/FileManager.v)

   Parts: 1 options   2 trailer   3 AST trees, compress / decompress   4 codec   5 outcome *)
From Coq Require Import List Arith Bool Lia NArith ZArith.
From Coq.Strings Require Import Byte String.
From Verif Require Import Base.Bytes Base.BE Wire.TType Wire.WVal Wire.Codec Wire.Schema Wire.SchemaPlugin
  Idl.Ast Gen.FileManager.
Import ListNotations.
Local Open Scope Z_scope.
Local Open Scope list_scope.

(* ================================================================ 1. option strings *)

(* plugin.Option / plugin.Desc *)
Record popt := mkopt { o_name : bytes; o_desc : bytes }.
Record desc := mkdesc { d_name : bytes; d_opts : list popt }.

(* strings.SplitN(s, sep, 2) for a one-byte separator: text before the first sep, and the rest *)
Fixpoint split_first (sep : byte) (s : bytes) : bytes * option bytes :=
  match s with
  | [] => ([], None)
  | c :: r => if Byte.eqb c sep then ([], Some r)
              else let '(a, b) := split_first sep r in (c :: a, b)
  end.

(* strings.Split(s, sep) for a one-byte separator (always at least one piece) *)
Fixpoint split_all (sep : byte) (s : bytes) : list bytes :=
  match s with
  | [] => [[]]
  | c :: r => if Byte.eqb c sep then [] :: split_all sep r
              else match split_all sep r with
                   | p :: ps => (c :: p) :: ps
                   | [] => [[c]]
                   end
  end.

Definition parse_opt (a : bytes) : popt :=
  match split_first x3d (* = *) a with
  | (k, Some v) => mkopt k v
  | (k, None) => mkopt k []
  end.

(* ParseCompactArguments: "" is an error *)
Definition parse_compact (s : bytes) : option desc :=
  match s with
  | [] => None
  | _ => match split_first x3a (* : *) s with
         | (n, None) => Some (mkdesc n [])
         | (n, Some rest) => Some (mkdesc n (map parse_opt (split_all x2c (* , *) rest)))
         end
  end.

(* Pack: Name + "=" + Desc, in order *)
Definition pack1 (o : popt) : bytes := o_name o ++ [x3d] ++ o_desc o.
Definition pack (opts : list popt) : list bytes := map pack1 opts.

(* the inverse direction, used to state the round trip: how a user writes a description *)
Definition render_opt (o : popt) : bytes :=
  match o_desc o with [] => o_name o | d => o_name o ++ [x3d] ++ d end.
Fixpoint join (sep : byte) (l : list bytes) : bytes :=
  match l with [] => [] | [x] => x | x :: r => x ++ [sep] ++ join sep r end.
Definition render (d : desc) : bytes :=
  match d_opts d with [] => d_name d | os => d_name d ++ [x3a] ++ join x2c (map render_opt os) end.

Definition no_byte (c : byte) (s : bytes) : bool := forallb (fun b => negb (Byte.eqb b c)) s.
(* what may be written without being split differently *)
Definition opt_ok (o : popt) : bool :=
  no_byte x2c (o_name o) && no_byte x3d (o_name o) && no_byte x2c (o_desc o).
Definition desc_ok (d : desc) : bool :=
  match d_name d with [] => false | _ => true end && no_byte x3a (d_name d) && forallb opt_ok (d_opts d).

(* Lookup: "name=path" -> (name, path); "name" -> (name, "thrift-gen-name") *)
Definition lookup_split (arg : bytes) : bytes * bytes :=
  match split_first x3d arg with
  | (n, Some p) => (n, p)
  | (n, None) => (arg, B "thrift-gen-" ++ arg)
  end.

(* the parameter lists of the request built for the i-th "-p" string and one "-g" string
   (args.Targets / args.UsedPlugins / Generate), without the nested-struct template rewrite of
   checkOptions (C20's subject; the harness never enables it) *)
Definition params_of (s : bytes) : option (list bytes) :=
  match parse_compact s with Some d => Some (pack (d_opts d)) | None => None end.
Definition language_of (s : bytes) : option bytes :=
  match parse_compact s with Some d => Some (d_name d) | None => None end.

(* ================================================================ 2. data trailer *)

Definition trailer_magic : bytes := [xff] ++ B "THRIFTGO_TRAILER_V1" ++ [xff].
Definition feature_compress_include : Z := 1.

(* appendDataTrailer: feature is a uint8 *)
Definition append_trailer (d : bytes) (feature : Z) : bytes := d ++ [byte_of_Z feature] ++ trailer_magic.

Definition has_suffix (s p : bytes) : bool := is_prefix (rev p) (rev s).

(* hasDataTrailerFeature *)
Definition has_feature (d : bytes) (feature : Z) : bool :=
  if (List.length d <? List.length trailer_magic + 1)%nat then false
  else if negb (has_suffix d trailer_magic) then false
  else match nth_error d (List.length d - 1 - List.length trailer_magic) with
       | Some b => Z.land (Z_of_byte b) feature =? feature
       | None => false
       end.

(* ================================================================ 3. AST trees, include compression *)

(* The Go AST is a pointer graph: Include.Reference points to the included file's node, and a
   file included twice is ONE node.  Here it is the unfolding of that graph: a tree in which
   equal Filenames denote the same node.  [kids] runs parallel to [f_includes f] (None = nil
   Reference); inside a tree the [in_ref] of an include is not used (always None): the
   reference IS the kid. *)
Inductive ast := Ast (f : file) (kids : list (option ast)).

Definition ast_file (a : ast) : file := match a with Ast f _ => f end.
Definition ast_kids (a : ast) : list (option ast) := match a with Ast _ k => k end.
Definition ast_name (a : ast) : bytes := f_filename (ast_file a).

Fixpoint height (a : ast) : nat :=
  match a with
  | Ast _ kids => S ((fix go (l : list (option ast)) : nat :=
                        match l with
                        | [] => O
                        | Some k :: r => Nat.max (height k) (go r)
                        | None :: r => go r
                        end) kids)
  end.

(* every node, the root first, depth first in include order (with repetitions) *)
Fixpoint nodes (a : ast) : list ast :=
  a :: match a with
       | Ast _ kids => (fix go (l : list (option ast)) : list ast :=
                          match l with
                          | [] => []
                          | Some k :: r => nodes k ++ go r
                          | None :: r => go r
                          end) kids
       end.
(* the proper descendants *)
Definition below (a : ast) : list ast := tl (nodes a).

Definition ref_prefix : bytes := B "THRIFGO_REF:".
Definition stub (name : bytes) : ast := Ast (empty_file (ref_prefix ++ name)) [].
(* strings.TrimPrefix(fn, prefix) != fn *)
Definition stub_target (a : ast) : option bytes := strip_prefix ref_prefix (ast_name a).
Definition is_stub (a : ast) : bool := match stub_target a with Some _ => true | None => false end.

Definition mem (n : bytes) (l : list bytes) : bool := existsb (beqb n) l.

(* compressThriftInclude(p, m): [seen] is the key set of m.  Returns the rewritten node and the
   new key set.  A nil Reference makes the Go code panic (nil dereference): the model leaves it.
   [mk name] is the node that replaces a repeated include. *)
Fixpoint compress_gen (mk : bytes -> ast) (seen : list bytes) (a : ast) {struct a} : ast * list bytes :=
  match a with
  | Ast f kids =>
      let '(kids', seen') :=
        (fix go (seen : list bytes) (ks : list (option ast)) {struct ks} : list (option ast) * list bytes :=
           match ks with
           | [] => ([], seen)
           | None :: r => let '(r', s') := go seen r in (None :: r', s')
           | Some k :: r =>
               if mem (ast_name k) seen then
                 let '(r', s') := go seen r in (Some (mk (ast_name k)) :: r', s')
               else
                 let '(k', s1) := compress_gen mk (ast_name k :: seen) k in
                 let '(r', s2) := go s1 r in (Some k' :: r', s2)
           end) seen kids in
      (Ast f kids', seen')
  end.
(* the code puts &parser.Thrift{Filename: prefix + name} where a repeated include was; the
   proofs only need that this node is recognised as a reference to name (they are stated for
   any such node: a decoded stub carries an empty, non-nil Name2Category) *)
Definition compress : list bytes -> ast -> ast * list bytes := compress_gen stub.
(* as Execute calls it: a fresh map *)
Definition compress_top (a : ast) : ast := fst (compress [] a).

(* collectThriftInclude: every node that is not a stub, keyed by Filename (later wins) *)
Fixpoint collect (m : list (bytes * ast)) (a : ast) {struct a} : list (bytes * ast) :=
  match a with
  | Ast _ kids =>
      (fix go (m : list (bytes * ast)) (ks : list (option ast)) {struct ks} : list (bytes * ast) :=
         match ks with
         | [] => m
         | None :: r => go m r
         | Some k :: r => if is_stub k then go m r else go (collect (update (ast_name k) k m) k) r
         end) m kids
  end.

Inductive dres := DOk (a : ast) | DNotFound (name : bytes) | DNilRef | DFuel.

(* decompressThriftInclude(p, m).  Fuel: one unit per level of the ORIGINAL tree. *)
Fixpoint decompress (fuel : nat) (m : list (bytes * ast)) (a : ast) {struct fuel} : dres :=
  match fuel with
  | O => DFuel
  | S n =>
    match a with
    | Ast f kids =>
        let fix go (ks : list (option ast)) : list (option ast) * option dres :=
          match ks with
          | [] => ([], None)
          | None :: _ => ([], Some DNilRef)
          | Some k :: r =>
              let target := match stub_target k with
                            | Some fn => match lookup fn m with Some t => inl t | None => inr fn end
                            | None => inl k end in
              match target with
              | inr fn => ([], Some (DNotFound fn))                 (* panic("not found ref: " + fn) *)
              | inl t =>
                  match decompress n m t with
                  | DOk t' => let '(r', e) := go r in (Some t' :: r', e)
                  | e => ([], Some e)
                  end
              end
          end in
        match go kids with
        | (kids', None) => DOk (Ast f kids')
        | (_, Some e) => e
        end
    end
  end.
(* as UnmarshalRequest calls it: m = nil, collected from the tree itself *)
Definition decompress_top (fuel : nat) (a : ast) : dres := decompress fuel (collect [] a) a.

(* ---- well-formedness of a graph ---- *)

Definition names (a : ast) : list bytes := map ast_name (nodes a).

(* the kids of every node run parallel to its includes, no in_ref inside the tree *)
Fixpoint wt_ast (a : ast) : bool :=
  match a with
  | Ast f kids =>
      (List.length kids =? List.length (f_includes f))%nat &&
      forallb (fun i => match in_ref i with None => true | Some _ => false end) (f_includes f) &&
      (fix go (l : list (option ast)) : bool :=
         match l with [] => true | Some k :: r => wt_ast k && go r | None :: r => go r end) kids
  end.

Fixpoint all_refs_set (a : ast) : bool :=
  match a with
  | Ast _ kids => (fix go (l : list (option ast)) : bool :=
                     match l with [] => true | Some k :: r => all_refs_set k && go r | None :: _ => false end) kids
  end.

Definition name_clean (n : bytes) : bool := negb (is_prefix ref_prefix n).

(* ================================================================ 4. codec through the regenerated schema *)

Definition fields_of (n : bytes) : list Schema.field :=
  match find_struct schema_plugin n with Some s => s_fields s | None => [] end.
(* (wire type, field id) of every field of a struct-like of the schema, in declaration order *)
Definition layout (n : bytes) : list (ttype * Z) :=
  map (fun f => (spec_ttype (f_ty f), f_id f)) (fields_of n).

Local Open Scope string_scope.
Definition lay_request    := Eval vm_compute in layout (B "protocol.Request").
Definition lay_generated  := Eval vm_compute in layout (B "protocol.Generated").
Definition lay_response   := Eval vm_compute in layout (B "protocol.Response").
Definition lay_reference  := Eval vm_compute in layout (B "AST.Reference").
Definition lay_annotation := Eval vm_compute in layout (B "AST.Annotation").
Definition lay_type       := Eval vm_compute in layout (B "AST.Type").
Definition lay_namespace  := Eval vm_compute in layout (B "AST.Namespace").
Definition lay_typedef    := Eval vm_compute in layout (B "AST.Typedef").
Definition lay_enumvalue  := Eval vm_compute in layout (B "AST.EnumValue").
Definition lay_enum       := Eval vm_compute in layout (B "AST.Enum").
Definition lay_extra      := Eval vm_compute in layout (B "AST.ConstValueExtra").
Definition lay_constvalue := Eval vm_compute in layout (B "AST.ConstValue").
Definition lay_typedvalue := Eval vm_compute in layout (B "AST.ConstTypedValue").
Definition lay_mapconst   := Eval vm_compute in layout (B "AST.MapConstValue").
Definition lay_constant   := Eval vm_compute in layout (B "AST.Constant").
Definition lay_field      := Eval vm_compute in layout (B "AST.Field").
Definition lay_structlike := Eval vm_compute in layout (B "AST.StructLike").
Definition lay_function   := Eval vm_compute in layout (B "AST.Function").
Definition lay_service    := Eval vm_compute in layout (B "AST.Service").
Definition lay_include    := Eval vm_compute in layout (B "AST.Include").
Definition lay_thrift     := Eval vm_compute in layout (B "AST.Thrift").
Local Close Scope string_scope.
Local Open Scope list_scope.

(* ---- generic layer: a struct as slots in declaration order ---- *)

Definition slots := list (option wval).

(* FastAppend: the fields that are present, each with the header the schema prescribes *)
Fixpoint emit (lay : list (ttype * Z)) (sl : slots) : list wfield :=
  match lay, sl with
  | (t, id) :: lay', Some w :: sl' => (t, id, w) :: emit lay' sl'
  | _ :: lay', None :: sl' => emit lay' sl'
  | _, _ => []
  end.
Definition wstruct (lay : list (ttype * Z)) (sl : slots) : wval := WStruct (emit lay sl).

Section Find.
  Context {A : Type} (d : wval -> option A).
  (* FastRead: the field loop dispatches on (id, wire type); anything else is skipped; a field
     that occurs twice is assigned twice (the last one stays).
     None = no such field;  Some None = present but its value does not decode *)
  Fixpoint wfind (key : ttype * Z) (fs : list wfield) : option (option A) :=
    match fs with
    | [] => None
    | (t', id', w) :: r =>
        match wfind key r with
        | Some x => Some x
        | None => if (snd key =? id') && ttype_eqb (fst key) t' then Some (d w) else None
        end
    end.
  Fixpoint mapo (l : list wval) : option (list A) :=
    match l with
    | [] => Some []
    | x :: r => match d x, mapo r with Some y, Some ys => Some (y :: ys) | _, _ => None end
    end.
End Find.

Definition nokey : ttype * Z := (T_BOOL, (-1)).
Definition get {A} (d : wval -> option A) (lay : list (ttype * Z)) (i : nat) (fs : list wfield) : option (option A) :=
  wfind d (nth i lay nokey) fs.

(* a field of default requiredness: absent = the Go zero value *)
Definition dflt {A} (z : A) (x : option (option A)) : option A :=
  match x with None => Some z | Some r => r end.
(* an optional field *)
Definition opt {A} (x : option (option A)) : option (option A) :=
  match x with None => Some None | Some (Some a) => Some (Some a) | Some None => None end.
(* a field the model cannot do without (a nil pointer where Idl/Ast.v has a plain field) *)
Definition need {A} (x : option (option A)) : option A :=
  match x with Some r => r | None => None end.

Definition d_str (w : wval) : option bytes := match w with WStr s => Some s | _ => None end.
Definition d_bool (w : wval) : option bool := match w with WBool b => Some b | _ => None end.
Definition d_i32 (w : wval) : option Z := match w with WI32 z => Some z | _ => None end.
Definition d_i64 (w : wval) : option Z := match w with WI64 z => Some z | _ => None end.
Definition d_dbl (w : wval) : option Z := match w with WDouble z => Some z | _ => None end.
Definition d_list {A} (d : wval -> option A) (w : wval) : option (list A) :=
  match w with WList _ l => mapo d l | _ => None end.

Definition omap {A B} (f : A -> B) (o : option A) : option B :=
  match o with Some a => Some (f a) | None => None end.
Definition w_strs (l : list bytes) : wval := WList T_STRING (map WStr l).
Definition w_structs {A} (e : A -> wval) (l : list A) : wval := WList T_STRUCT (map e l).

(* ---- enumerations ---- *)

Definition all_cats : list category :=
  [CatConstant; CatBool; CatByte; CatI16; CatI32; CatI64; CatDouble; CatString; CatBinary; CatMap;
   CatList; CatSet; CatEnum; CatStruct; CatUnion; CatException; CatTypedef; CatService].
Definition cat_z (c : category) : Z := Z.of_N (category_code c).
Definition cat_of_z (z : Z) : option category := find (fun c => cat_z c =? z) all_cats.
Definition d_cat (w : wval) : option category := match w with WI32 z => cat_of_z z | _ => None end.

Definition req_z (r : requiredness) : Z := match r with ReqDefault => 0 | ReqRequired => 1 | ReqOptional => 2 end.
Definition req_of_z (z : Z) : option requiredness :=
  if z =? 0 then Some ReqDefault else if z =? 1 then Some ReqRequired else if z =? 2 then Some ReqOptional else None.
Definition d_req (w : wval) : option requiredness := match w with WI32 z => req_of_z z | _ => None end.

Definition kind_of_name (s : bytes) : option sl_kind :=
  if beqb s (sl_kind_name SKStruct) then Some SKStruct
  else if beqb s (sl_kind_name SKUnion) then Some SKUnion
  else if beqb s (sl_kind_name SKException) then Some SKException else None.
Definition d_kind (w : wval) : option sl_kind := match w with WStr s => kind_of_name s | _ => None end.

(* ---- small nodes ---- *)

Definition enc_reference (r : reference) : wval :=
  wstruct lay_reference [Some (WStr (ref_name r)); Some (WI32 (ref_index r))].
Definition dec_reference (w : wval) : option reference :=
  match w with
  | WStruct fs =>
      match dflt [] (get d_str lay_reference 0 fs), dflt 0 (get d_i32 lay_reference 1 fs) with
      | Some n, Some i => Some (Ref n i) | _, _ => None end
  | _ => None end.

Definition enc_annotation (a : annotation) : wval :=
  wstruct lay_annotation [Some (WStr (an_key a)); Some (w_strs (an_values a))].
Definition dec_annotation (w : wval) : option annotation :=
  match w with
  | WStruct fs =>
      match dflt [] (get d_str lay_annotation 0 fs), dflt [] (get (d_list d_str) lay_annotation 1 fs) with
      | Some k, Some v => Some (Anno k v) | _, _ => None end
  | _ => None end.
Definition enc_annos (l : annotations) : wval := w_structs enc_annotation l.
Definition dec_annos : wval -> option annotations := d_list dec_annotation.

Fixpoint enc_ty (t : ty) : wval :=
  match t with
  | Ty n k v c an cat r td =>
      wstruct lay_type
        [Some (WStr n);
         match k with Some x => Some (enc_ty x) | None => None end;
         match v with Some x => Some (enc_ty x) | None => None end;
         Some (WStr c); Some (enc_annos an); Some (WI32 (cat_z cat));
         omap enc_reference r; omap WBool td]
  end.
Fixpoint dec_ty (w : wval) : option ty :=
  match w with
  | WStruct fs =>
      match dflt [] (get d_str lay_type 0 fs), opt (get dec_ty lay_type 1 fs), opt (get dec_ty lay_type 2 fs),
            dflt [] (get d_str lay_type 3 fs), dflt [] (get dec_annos lay_type 4 fs),
            dflt CatConstant (get d_cat lay_type 5 fs), opt (get dec_reference lay_type 6 fs),
            opt (get d_bool lay_type 7 fs) with
      | Some n, Some k, Some v, Some c, Some an, Some cat, Some r, Some td => Some (Ty n k v c an cat r td)
      | _, _, _, _, _, _, _, _ => None
      end
  | _ => None
  end.

Definition enc_extra (e : const_extra) : wval :=
  wstruct lay_extra [Some (WBool (ex_is_enum e)); Some (WI32 (ex_index e)); Some (WStr (ex_name e)); Some (WStr (ex_sel e))].
Definition dec_extra (w : wval) : option const_extra :=
  match w with
  | WStruct fs =>
      match dflt false (get d_bool lay_extra 0 fs), dflt (-1) (get d_i32 lay_extra 1 fs),
            dflt [] (get d_str lay_extra 2 fs), dflt [] (get d_str lay_extra 3 fs) with
      | Some b, Some i, Some n, Some s => Some (Extra b i n s) | _, _, _, _ => None end
  | _ => None end.

(* ConstValue = (Type, TypedValue union, Extra).  [tv i w] is the union with member i set. *)
Definition tv (i : nat) (w : wval) : wval :=
  wstruct lay_typedvalue (map (fun j => if (i =? j)%nat then Some w else None) (seq 0 6)).
Definition cv (ty : Z) (typed : wval) (extra : option wval) : wval :=
  wstruct lay_constvalue [Some (WI32 ty); Some typed; extra].

Fixpoint enc_cv (c : const_value) : wval :=
  match c with
  | CDouble b => cv 0 (tv 0 (WDouble (Z.of_N b))) None
  | CInt z => cv 1 (tv 1 (WI64 z)) None
  | CLiteral s => cv 2 (tv 2 (WStr s)) None
  | CIdent s e => cv 3 (tv 3 (WStr s)) (omap enc_extra e)
  | CList l => cv 4 (tv 4 (WList T_STRUCT (map enc_cv l))) None
  | CMap l => cv 5 (tv 5 (WList T_STRUCT
                (map (fun kv => wstruct lay_mapconst [Some (enc_cv (fst kv)); Some (enc_cv (snd kv))]) l))) None
  end.

(* what astdump accepts: exactly one member of the union set, the one Type announces; Extra only
   on identifiers *)
Definition count_some {A} (l : list (option A)) : nat := List.length (filter (fun o => match o with Some _ => true | None => false end) l).

Fixpoint dec_cv (w : wval) : option const_value :=
  match w with
  | WStruct fs =>
      match dflt 0 (get d_i32 lay_constvalue 0 fs), opt (get dec_extra lay_constvalue 2 fs) with
      | Some ty, Some ex =>
        need (get (fun tvw =>
          match tvw with
          | WStruct ts =>
            let present := map (fun i => match get (fun x => Some x) lay_typedvalue i ts with Some _ => Some tt | None => None end) (seq 0 6) in
            if negb (count_some present =? 1)%nat then None else
            if ty =? 3 then
              match need (get d_str lay_typedvalue 3 ts) with Some s => Some (CIdent s ex) | None => None end
            else match ex with Some _ => None | None =>
              if ty =? 0 then match need (get d_dbl lay_typedvalue 0 ts) with Some b => Some (CDouble (Z.to_N b)) | None => None end
              else if ty =? 1 then match need (get d_i64 lay_typedvalue 1 ts) with Some z => Some (CInt z) | None => None end
              else if ty =? 2 then match need (get d_str lay_typedvalue 2 ts) with Some s => Some (CLiteral s) | None => None end
              else if ty =? 4 then match need (get (d_list dec_cv) lay_typedvalue 4 ts) with Some l => Some (CList l) | None => None end
              else if ty =? 5 then
                match need (get (d_list (fun e => match e with
                                   | WStruct ms => match need (get dec_cv lay_mapconst 0 ms), need (get dec_cv lay_mapconst 1 ms) with
                                                   | Some k, Some v => Some (k, v) | _, _ => None end
                                   | _ => None end)) lay_typedvalue 5 ts) with
                | Some l => Some (CMap l) | None => None end
              else None
            end
          | _ => None
          end) lay_constvalue 1 fs)
      | _, _ => None
      end
  | _ => None
  end.

(* ---- definitions ---- *)

Definition enc_namespace (n : namespace) : wval :=
  wstruct lay_namespace [Some (WStr (ns_language n)); Some (WStr (ns_name n)); Some (enc_annos (ns_annos n))].
Definition dec_namespace (w : wval) : option namespace :=
  match w with
  | WStruct fs =>
      match dflt [] (get d_str lay_namespace 0 fs), dflt [] (get d_str lay_namespace 1 fs), dflt [] (get dec_annos lay_namespace 2 fs) with
      | Some l, Some n, Some a => Some (Namespace l n a) | _, _, _ => None end
  | _ => None end.

Definition enc_typedef (t : typedef) : wval :=
  wstruct lay_typedef [Some (enc_ty (td_type t)); Some (WStr (td_alias t)); Some (enc_annos (td_annos t)); Some (WStr (td_comments t))].
Definition dec_typedef (w : wval) : option typedef :=
  match w with
  | WStruct fs =>
      match need (get dec_ty lay_typedef 0 fs), dflt [] (get d_str lay_typedef 1 fs),
            dflt [] (get dec_annos lay_typedef 2 fs), dflt [] (get d_str lay_typedef 3 fs) with
      | Some t, Some a, Some an, Some c => Some (Typedef t a an c) | _, _, _, _ => None end
  | _ => None end.

Definition enc_enum_value (v : enum_value) : wval :=
  wstruct lay_enumvalue [Some (WStr (ev_name v)); Some (WI64 (ev_value v)); Some (enc_annos (ev_annos v)); Some (WStr (ev_comments v))].
Definition dec_enum_value (w : wval) : option enum_value :=
  match w with
  | WStruct fs =>
      match dflt [] (get d_str lay_enumvalue 0 fs), dflt 0 (get d_i64 lay_enumvalue 1 fs),
            dflt [] (get dec_annos lay_enumvalue 2 fs), dflt [] (get d_str lay_enumvalue 3 fs) with
      | Some n, Some v, Some an, Some c => Some (EnumValue n v an c) | _, _, _, _ => None end
  | _ => None end.

Definition enc_enum (e : enum) : wval :=
  wstruct lay_enum [Some (WStr (en_name e)); Some (w_structs enc_enum_value (en_values e)); Some (enc_annos (en_annos e)); Some (WStr (en_comments e))].
Definition dec_enum (w : wval) : option enum :=
  match w with
  | WStruct fs =>
      match dflt [] (get d_str lay_enum 0 fs), dflt [] (get (d_list dec_enum_value) lay_enum 1 fs),
            dflt [] (get dec_annos lay_enum 2 fs), dflt [] (get d_str lay_enum 3 fs) with
      | Some n, Some v, Some an, Some c => Some (Enum n v an c) | _, _, _, _ => None end
  | _ => None end.

Definition enc_constant (c : constant) : wval :=
  wstruct lay_constant [Some (WStr (co_name c)); Some (enc_ty (co_type c)); Some (enc_cv (co_value c));
                        Some (enc_annos (co_annos c)); Some (WStr (co_comments c))].
Definition dec_constant (w : wval) : option constant :=
  match w with
  | WStruct fs =>
      match dflt [] (get d_str lay_constant 0 fs), need (get dec_ty lay_constant 1 fs), need (get dec_cv lay_constant 2 fs),
            dflt [] (get dec_annos lay_constant 3 fs), dflt [] (get d_str lay_constant 4 fs) with
      | Some n, Some t, Some v, Some an, Some c => Some (Constant n t v an c) | _, _, _, _, _ => None end
  | _ => None end.

Definition enc_field (f : field) : wval :=
  wstruct lay_field [Some (WI32 (fd_id f)); Some (WStr (fd_name f)); Some (WI32 (req_z (fd_req f)));
                     Some (enc_ty (fd_type f)); omap enc_cv (fd_default f);
                     Some (enc_annos (fd_annos f)); Some (WStr (fd_comments f))].
Definition dec_field (w : wval) : option field :=
  match w with
  | WStruct fs =>
      match dflt 0 (get d_i32 lay_field 0 fs), dflt [] (get d_str lay_field 1 fs), dflt ReqDefault (get d_req lay_field 2 fs),
            need (get dec_ty lay_field 3 fs), opt (get dec_cv lay_field 4 fs),
            dflt [] (get dec_annos lay_field 5 fs), dflt [] (get d_str lay_field 6 fs) with
      | Some i, Some n, Some r, Some t, Some d, Some an, Some c => Some (Field i n r t d an c)
      | _, _, _, _, _, _, _ => None end
  | _ => None end.
Definition enc_fields (l : list field) : wval := w_structs enc_field l.
Definition dec_fields : wval -> option (list field) := d_list dec_field.

Definition enc_struct_like (s : struct_like) : wval :=
  wstruct lay_structlike [Some (WStr (sl_kind_name (sl_category s))); Some (WStr (sl_name s)); Some (enc_fields (sl_fields s));
                          Some (enc_annos (sl_annos s)); Some (WStr (sl_comments s))].
Definition dec_struct_like (w : wval) : option struct_like :=
  match w with
  | WStruct fs =>
      match need (get d_kind lay_structlike 0 fs), dflt [] (get d_str lay_structlike 1 fs), dflt [] (get dec_fields lay_structlike 2 fs),
            dflt [] (get dec_annos lay_structlike 3 fs), dflt [] (get d_str lay_structlike 4 fs) with
      | Some k, Some n, Some f, Some an, Some c => Some (StructLike k n f an c) | _, _, _, _, _ => None end
  | _ => None end.

Definition enc_function (f : function) : wval :=
  wstruct lay_function [Some (WStr (fn_name f)); Some (WBool (fn_oneway f)); Some (WBool (fn_void f)); Some (enc_ty (fn_type f));
                        Some (enc_fields (fn_args f)); Some (enc_fields (fn_throws f));
                        Some (enc_annos (fn_annos f)); Some (WStr (fn_comments f))].
Definition dec_function (w : wval) : option function :=
  match w with
  | WStruct fs =>
      match dflt [] (get d_str lay_function 0 fs), dflt false (get d_bool lay_function 1 fs), dflt false (get d_bool lay_function 2 fs),
            need (get dec_ty lay_function 3 fs), dflt [] (get dec_fields lay_function 4 fs), dflt [] (get dec_fields lay_function 5 fs),
            dflt [] (get dec_annos lay_function 6 fs), dflt [] (get d_str lay_function 7 fs) with
      | Some n, Some o, Some v, Some t, Some a, Some th, Some an, Some c => Some (Function n o v t a th an c)
      | _, _, _, _, _, _, _, _ => None end
  | _ => None end.

Definition enc_service (s : service) : wval :=
  wstruct lay_service [Some (WStr (sv_name s)); Some (WStr (sv_extends s)); Some (w_structs enc_function (sv_functions s));
                       Some (enc_annos (sv_annos s)); omap enc_reference (sv_ref s); Some (WStr (sv_comments s))].
Definition dec_service (w : wval) : option service :=
  match w with
  | WStruct fs =>
      match dflt [] (get d_str lay_service 0 fs), dflt [] (get d_str lay_service 1 fs), dflt [] (get (d_list dec_function) lay_service 2 fs),
            dflt [] (get dec_annos lay_service 3 fs), opt (get dec_reference lay_service 4 fs), dflt [] (get d_str lay_service 5 fs) with
      | Some n, Some e, Some f, Some an, Some r, Some c => Some (Service n e f an r c)
      | _, _, _, _, _, _ => None end
  | _ => None end.

(* ---- files and trees ---- *)

(* Name2Category: a Go map.  A nil map is written as an empty map (and read back as an empty,
   non-nil one): the only place where decode (encode x) is not literally x. *)
Definition enc_name2cat (m : option (list (bytes * category))) : wval :=
  WMap T_STRING T_I32 (map (fun kv => (WStr (fst kv), WI32 (cat_z (snd kv))))
                           (match m with Some l => l | None => [] end)).
Fixpoint dec_pairs (l : list (wval * wval)) : option (list (bytes * category)) :=
  match l with
  | [] => Some []
  | (k, v) :: r => match d_str k, d_cat v, dec_pairs r with
                   | Some a, Some b, Some rs => Some ((a, b) :: rs) | _, _, _ => None end
  end.
Definition dec_name2cat (w : wval) : option (list (bytes * category)) :=
  match w with WMap _ _ l => dec_pairs l | _ => None end.

Fixpoint enc_incs (enc : ast -> wval) (is : list include) (ks : list (option ast)) : list wval :=
  match is, ks with
  | i :: is', k :: ks' =>
      wstruct lay_include [Some (WStr (in_path i)); omap enc k; omap WBool (in_used i)] :: enc_incs enc is' ks'
  | _, _ => []
  end.

Fixpoint enc_ast (a : ast) : wval :=
  match a with
  | Ast f kids =>
      wstruct lay_thrift
        [Some (WStr (f_filename f));
         Some (WList T_STRUCT
           ((fix go (is : list include) (ks : list (option ast)) {struct ks} : list wval :=
               match is, ks with
               | i :: is', k :: ks' =>
                   wstruct lay_include [Some (WStr (in_path i));
                                        match k with Some x => Some (enc_ast x) | None => None end;
                                        omap WBool (in_used i)] :: go is' ks'
               | _, _ => []
               end) (f_includes f) kids));
         Some (w_strs (f_cpp_includes f));
         Some (w_structs enc_namespace (f_namespaces f));
         Some (w_structs enc_typedef (f_typedefs f));
         Some (w_structs enc_constant (f_constants f));
         Some (w_structs enc_enum (f_enums f));
         Some (w_structs enc_struct_like (f_structs f));
         Some (w_structs enc_struct_like (f_unions f));
         Some (w_structs enc_struct_like (f_exceptions f));
         Some (w_structs enc_service (f_services f));
         Some (enc_name2cat (f_name2cat f))]
  end.

Definition dec_include (dec : wval -> option ast) (w : wval) : option (include * option ast) :=
  match w with
  | WStruct fs =>
      match dflt [] (get d_str lay_include 0 fs), opt (get dec lay_include 1 fs), opt (get d_bool lay_include 2 fs) with
      | Some p, Some k, Some u => Some (Include p None u, k) | _, _, _ => None end
  | _ => None end.

Fixpoint dec_ast (w : wval) : option ast :=
  match w with
  | WStruct fs =>
      match dflt [] (get d_str lay_thrift 0 fs),
            dflt [] (get (d_list (dec_include dec_ast)) lay_thrift 1 fs),
            dflt [] (get (d_list d_str) lay_thrift 2 fs),
            dflt [] (get (d_list dec_namespace) lay_thrift 3 fs),
            dflt [] (get (d_list dec_typedef) lay_thrift 4 fs),
            dflt [] (get (d_list dec_constant) lay_thrift 5 fs),
            dflt [] (get (d_list dec_enum) lay_thrift 6 fs),
            dflt [] (get (d_list dec_struct_like) lay_thrift 7 fs),
            dflt [] (get (d_list dec_struct_like) lay_thrift 8 fs),
            dflt [] (get (d_list dec_struct_like) lay_thrift 9 fs),
            dflt [] (get (d_list dec_service) lay_thrift 10 fs),
            opt (get dec_name2cat lay_thrift 11 fs) with
      | Some n, Some incs, Some cpp, Some ns, Some tds, Some cs, Some es, Some ss, Some us, Some xs, Some svs, Some n2c =>
          Some (Ast (File n (map fst incs) cpp ns tds cs es ss us xs svs n2c) (map snd incs))
      | _, _, _, _, _, _, _, _, _, _, _, _ => None
      end
  | _ => None
  end.

(* the nil Name2Category map comes back empty *)
Definition norm_file (f : file) : file :=
  File (f_filename f) (f_includes f) (f_cpp_includes f) (f_namespaces f) (f_typedefs f) (f_constants f)
       (f_enums f) (f_structs f) (f_unions f) (f_exceptions f) (f_services f)
       (Some (match f_name2cat f with Some l => l | None => [] end)).
Fixpoint norm_ast (a : ast) : ast :=
  match a with
  | Ast f kids => Ast (norm_file f) (map (fun k => match k with Some x => Some (norm_ast x) | None => None end) kids)
  end.

(* ---- request and response ---- *)

Record request := mkreq {
  rq_version : bytes;
  rq_gen_params : list bytes;
  rq_plugin_params : list bytes;
  rq_language : bytes;
  rq_output_path : bytes;
  rq_recursive : bool;
  rq_ast : ast }.

Definition enc_request (r : request) : wval :=
  wstruct lay_request [Some (WStr (rq_version r)); Some (w_strs (rq_gen_params r)); Some (w_strs (rq_plugin_params r));
                       Some (WStr (rq_language r)); Some (WStr (rq_output_path r)); Some (WBool (rq_recursive r));
                       Some (enc_ast (rq_ast r))].
(* all seven fields are "required": FastRead fails when one is missing *)
Definition dec_request (w : wval) : option request :=
  match w with
  | WStruct fs =>
      match need (get d_str lay_request 0 fs), need (get (d_list d_str) lay_request 1 fs), need (get (d_list d_str) lay_request 2 fs),
            need (get d_str lay_request 3 fs), need (get d_str lay_request 4 fs), need (get d_bool lay_request 5 fs),
            need (get dec_ast lay_request 6 fs) with
      | Some v, Some g, Some p, Some l, Some o, Some r, Some a => Some (mkreq v g p l o r a)
      | _, _, _, _, _, _, _ => None end
  | _ => None end.

Definition norm_request (r : request) : request :=
  mkreq (rq_version r) (rq_gen_params r) (rq_plugin_params r) (rq_language r) (rq_output_path r) (rq_recursive r)
        (norm_ast (rq_ast r)).

(* MarshalRequest, and what external.Execute sends when include compression is on *)
Definition marshal_request (r : request) : bytes := enc (enc_request r).
Definition with_ast (r : request) (a : ast) : request :=
  mkreq (rq_version r) (rq_gen_params r) (rq_plugin_params r) (rq_language r) (rq_output_path r) (rq_recursive r) a.
Definition marshal_request_compressed (r : request) : bytes :=
  append_trailer (marshal_request (with_ast r (compress_top (rq_ast r)))) feature_compress_include.

Inductive ures := UOk (r : request) | UBadBytes | UBadShape | UDecompress (e : dres).

(* UnmarshalRequest: FastRead (trailing bytes are not looked at), then decompress when the
   trailer announces it *)
Definition unmarshal_request (fuel : nat) (bs : bytes) : ures :=
  match dec_struct bs with
  | None => UBadBytes
  | Some (w, _) =>
      match dec_request w with
      | None => UBadShape
      | Some r =>
          if has_feature bs feature_compress_include then
            match decompress_top fuel (rq_ast r) with
            | DOk a => UOk (with_ast r a)
            | e => UDecompress e
            end
          else UOk r
      end
  end.

(* plugin.Generated / plugin.Response *)
Record generated := mkgenerated { gn_content : bytes; gn_name : option bytes; gn_ip : option bytes }.
Record response := mkresp { rs_error : option bytes; rs_contents : option (list generated); rs_warnings : option (list bytes) }.

Definition enc_generated (g : generated) : wval :=
  wstruct lay_generated [Some (WStr (gn_content g)); omap WStr (gn_name g); omap WStr (gn_ip g)].
Definition enc_response (r : response) : wval :=
  wstruct lay_response [omap WStr (rs_error r); omap (w_structs enc_generated) (rs_contents r); omap w_strs (rs_warnings r)].
Definition marshal_response (r : response) : bytes := enc (enc_response r).

(* Response.FastRead / Generated.FastRead, statement by statement over the bytes (this is the
   side thriftgo itself runs on whatever a plugin wrote): field header, dispatch on
   (id, wire type), the element type of a list header is read and ignored, anything else is
   skipped, Content is required.  None = an error return (or a panic inside the codec). *)
(* lengths and counts are compared as integers BEFORE anything of that size is built, as the Go
   code does (len(buf) < l): a damaged length of 2^31 must not make the model allocate *)
Definition take_z (n : Z) (bs : bytes) : option (bytes * bytes) :=
  if (n <? 0) || (Z.of_nat (List.length bs) <? n) then None
  else Some (firstn (Z.to_nat n) bs, skipn (Z.to_nat n) bs).
(* ReadString *)
Definition read_str (bs : bytes) : option (bytes * bytes) :=
  match get_s 4 bs with Some (n, r) => take_z n r | None => None end.
(* ReadListBegin: 1 byte element type (not looked at), i32 size, negative = error.  Every element
   takes at least one byte, so a count beyond the rest of the input fails in any case (the Go
   code first allocates the slice, then fails on the first missing element) *)
Definition read_list_begin (bs : bytes) : option (nat * bytes) :=
  match bs with
  | _ :: r => match get_s 4 r with
              | Some (n, r1) => if (n <? 0) || (Z.of_nat (List.length r1) <? n) then None else Some (Z.to_nat n, r1)
              | None => None end
  | [] => None end.

(* BinaryProtocol.Skip of cloudwego/gopkg (skipType): recursion limit 64, fixed-size values and
   containers of fixed-size values skipped in one step, element type bytes >= 128 index its size
   table out of range (a panic: None here), an empty container of an unknown element type < 128
   is accepted *)
Definition fixed_size (c : Z) : Z :=
  if (c =? 2) || (c =? 3) then 1 else if c =? 6 then 2 else if c =? 8 then 4 else if (c =? 4) || (c =? 10) then 8 else 0.
Definition skip_n (n : Z) (bs : bytes) : option bytes :=
  match take_z n bs with Some (_, r) => Some r | None => None end.

Section Loop.
  Variable step : bytes -> option bytes.
  Fixpoint loop (k : nat) (bs : bytes) : option bytes :=
    match k with O => Some bs | S k' => match step bs with Some r => loop k' r | None => None end end.
End Loop.

Fixpoint skipz (fuel : nat) (c : Z) (bs : bytes) {struct fuel} : option bytes :=
  match fuel with
  | O => None                                                  (* depth limit exceeded *)
  | S f =>
    if 128 <=? c then None else
    if 0 <? fixed_size c then skip_n (fixed_size c) bs else
    if c =? 11 then match get_s 4 bs with Some (n, r) => skip_n n r | None => None end
    else if c =? 12 then
      (fix fields (k : nat) (bs : bytes) {struct k} : option bytes :=
         match k with
         | O => None
         | S k' =>
           match get_be 1 bs with
           | None => None
           | Some (ft, r) =>
             if ft =? 0 then Some r else
             if 128 <=? ft then None else
             if 0 <? fixed_size ft then match skip_n (2 + fixed_size ft) r with Some r2 => fields k' r2 | None => None end
             else match skip_n 2 r with
                  | Some r1 => match skipz f ft r1 with Some r2 => fields k' r2 | None => None end
                  | None => None end
           end
         end) (S (List.length bs)) bs
    else if c =? 13 then
      match get_be 1 bs with Some (kt, r) => match get_be 1 r with Some (vt, r0) => match get_s 4 r0 with
      | Some (n, r1) =>
          if (128 <=? kt) || (128 <=? vt) || (n <? 0) then None else
          if (0 <? fixed_size kt) && (0 <? fixed_size vt) then skip_n (n * (fixed_size kt + fixed_size vt)) r1
          else if Z.of_nat (List.length r1) <? n then None
          else loop (fun b => match (if 0 <? fixed_size kt then skip_n (fixed_size kt) b else skipz f kt b) with
                              | Some b1 => if 0 <? fixed_size vt then skip_n (fixed_size vt) b1 else skipz f vt b1
                              | None => None end) (Z.to_nat n) r1
      | None => None end | None => None end | None => None end
    else if (c =? 14) || (c =? 15) then
      match get_be 1 bs with Some (vt, r) => match get_s 4 r with
      | Some (n, r1) =>
          if (128 <=? vt) || (n <? 0) then None else
          if 0 <? fixed_size vt then skip_n (n * fixed_size vt) r1
          else if Z.of_nat (List.length r1) <? n then None
          else loop (skipz f vt) (Z.to_nat n) r1
      | None => None end | None => None end
    else None                                                  (* unknown type *)
  end.
Definition skip_field (c : Z) (bs : bytes) : option bytes := skipz 64 c bs.

Definition key_is (key : ttype * Z) (c id : Z) : bool := (c =? code (fst key)) && (id =? snd key).

Fixpoint read_generated (n : nat) (g : generated) (seen : bool) (bs : bytes) : option (generated * bytes) :=
  match n with
  | O => None
  | S m =>
    match get_be 1 bs with
    | None => None
    | Some (c, r) =>
      if c =? 0 then (if seen then Some (g, r) else None) else
      match get_s 2 r with
      | None => None
      | Some (id, r1) =>
        if key_is (nth 0 lay_generated nokey) c id then
          match read_str r1 with Some (s, r2) => read_generated m (mkgenerated s (gn_name g) (gn_ip g)) true r2 | None => None end
        else if key_is (nth 1 lay_generated nokey) c id then
          match read_str r1 with Some (s, r2) => read_generated m (mkgenerated (gn_content g) (Some s) (gn_ip g)) seen r2 | None => None end
        else if key_is (nth 2 lay_generated nokey) c id then
          match read_str r1 with Some (s, r2) => read_generated m (mkgenerated (gn_content g) (gn_name g) (Some s)) seen r2 | None => None end
        else match skip_field c r1 with Some r2 => read_generated m g seen r2 | None => None end
      end
    end
  end.
Definition generated0 : generated := mkgenerated [] None None.
Definition response0 : response := mkresp None None None.

Fixpoint read_response (n : nat) (p : response) (bs : bytes) : option (response * bytes) :=
  match n with
  | O => None
  | S m =>
    match get_be 1 bs with
    | None => None
    | Some (c, r) =>
      if c =? 0 then Some (p, r) else
      match get_s 2 r with
      | None => None
      | Some (id, r1) =>
        if key_is (nth 0 lay_response nokey) c id then
          match read_str r1 with Some (s, r2) => read_response m (mkresp (Some s) (rs_contents p) (rs_warnings p)) r2 | None => None end
        else if key_is (nth 1 lay_response nokey) c id then
          match read_list_begin r1 with
          | Some (k, r2) =>
              match rep (fun b => read_generated (S (List.length b)) generated0 false b) k r2 with
              | Some (gs, r3) => read_response m (mkresp (rs_error p) (Some gs) (rs_warnings p)) r3
              | None => None end
          | None => None end
        else if key_is (nth 2 lay_response nokey) c id then
          match read_list_begin r1 with
          | Some (k, r2) =>
              match rep read_str k r2 with
              | Some (ws, r3) => read_response m (mkresp (rs_error p) (rs_contents p) (Some ws)) r3
              | None => None end
          | None => None end
        else match skip_field c r1 with Some r2 => read_response m p r2 | None => None end
      end
    end
  end.
(* UnmarshalResponse *)
Definition unmarshal_response (bs : bytes) : option response :=
  match read_response (S (List.length bs)) response0 bs with Some (r, _) => Some r | None => None end.

(* ---- does a generic wire value conform to the regenerated schema?  (oracle for the bytes the
   real FastAppend produced: every field declared with the declared wire type, every field of
   default / required requiredness present, element types as declared, at every level) ---- *)
Fixpoint conforms (fuel : nat) (t : Schema.ty) (w : wval) {struct fuel} : bool :=
  match fuel with
  | O => false
  | S n =>
    match t, w with
    | TBool, WBool _ | TByte, WByte _ | TI16, WI16 _ | TI32, WI32 _ | TI64, WI64 _ | TDouble, WDouble _
    | TString, WStr _ | TBinary, WStr _ | TEnum _, WI32 _ => true
    | TList e, WList et l | TSet e, WSet et l => ttype_eqb et (spec_ttype e) && forallb (conforms n e) l
    | TMap k v, WMap kt vt l =>
        ttype_eqb kt (spec_ttype k) && ttype_eqb vt (spec_ttype v) &&
        forallb (fun kv => conforms n k (fst kv) && conforms n v (snd kv)) l
    | TRef name, WStruct fs =>
        let decl := fields_of name in
        match decl with [] => false | _ =>
          forallb (fun wf => match wf with (ft, id, x) =>
                     match Schema.find_field id decl with
                     | Some f => ttype_eqb ft (spec_ttype (f_ty f)) && conforms n (f_ty f) x
                     | None => false end end) fs &&
          forallb (fun f => is_optional f || existsb (fun wf => snd (fst wf) =? f_id f) fs) decl &&
          nodupZ (map (fun wf => snd (fst wf)) fs)
        end
    | _, _ => false
    end
  end.

(* ================================================================ 5. what thriftgo does with a plugin's answer *)

(* what became of the plugin process (cmd.Run under the context deadline) *)
Inductive plugin_result :=
| Exited (code : Z) (stdout stderr : bytes)     (* ran to completion with this exit status *)
| TimedOut (stdout stderr : bytes)              (* killed when --plugin-time-limit expired *)
| NotStarted.                                   (* exec failed *)

(* the Response external.Execute returns; error TEXTS are abstracted to "some non-empty text" *)
Inductive exec_resp :=
| EFail (warnings : list bytes)                 (* BuildErrorResponse(non-empty message, warnings...) *)
| EResp (r : response).

Definition warn_stdout (s : bytes) : bytes := B "stdout:" ++ [x0a] ++ s.
Definition warn_stderr (s : bytes) : bytes := B "stderr:" ++ [x0a] ++ s.
Definition warn_plugin_stderr (name s : bytes) : bytes := name ++ B " stderr:" ++ [x0a] ++ s.

Definition execute (name : bytes) (pr : plugin_result) : exec_resp :=
  match pr with
  | NotStarted => EFail [warn_stdout []; warn_stderr []]
  | TimedOut out err => EFail [warn_stdout out; warn_stderr err]
  | Exited code out err =>
      if negb (code =? 0) then EFail [warn_stdout out; warn_stderr err]
      else match unmarshal_response out with
           | None => EFail []
           | Some r =>
               match err with
               | [] => EResp r
               | _ => EResp (mkresp (rs_error r) (rs_contents r)
                               (Some (match rs_warnings r with Some l => l | None => [] end ++ [warn_plugin_stderr name err])))
               end
           end
  end.

(* Generate, one plugin: warnings are shown first, then the error test ( GetError() != "" ),
   then the contents go to the file manager *)
Inductive thriftgo_outcome :=
| Fail (shown : list bytes)                                     (* exit status 2, nothing written *)
| Proceed (shown : list bytes) (fed : list generated).          (* contents handed to FileManager.Feed *)

Definition get_list {A} (o : option (list A)) : list A := match o with Some l => l | None => [] end.

Definition outcome (name : bytes) (pr : plugin_result) : thriftgo_outcome :=
  match execute name pr with
  | EFail ws => Fail ws
  | EResp r =>
      match rs_error r with
      | Some (_ :: _) => Fail (get_list (rs_warnings r))
      | _ => Proceed (get_list (rs_warnings r)) (get_list (rs_contents r))
      end
  end.

Definition to_gen (g : generated) : gen :=
  mkgen (gn_name g) (match gn_ip g with Some s => s | None => [] end) (gn_content g).

(* the plugin loop of Generate over a file manager that already holds the backend's files *)
Inductive run_res := RFail (shown : list bytes) | ROk (shown : list bytes) (m : fm).
Fixpoint run_plugins (m : fm) (shown : list bytes) (ps : list (bytes * plugin_result)) : run_res :=
  match ps with
  | [] => ROk shown m
  | (name, pr) :: rest =>
      match outcome name pr with
      | Fail ws => RFail (shown ++ ws)
      | Proceed ws cs =>
          match feed m (map to_gen cs) with
          | FileManager.Ok m' => run_plugins m' (shown ++ ws) rest
          | _ => RFail (shown ++ ws)
          end
      end
  end.

(* ================================================================ 6. what can be encoded at all *)

(* a length an i32 can announce *)
Definition len_ok {A} (l : list A) : bool := in_srangeb 4 (Z.of_nat (List.length l)).
Definition oall {A} (p : A -> bool) (o : option A) : bool := match o with Some x => p x | None => true end.
Definition strs_ok (l : list bytes) : bool := len_ok l && forallb len_ok l.

Definition generated_ok (g : generated) : bool :=
  len_ok (gn_content g) && oall len_ok (gn_name g) && oall len_ok (gn_ip g).
Definition response_ok (r : response) : bool :=
  oall len_ok (rs_error r) &&
  oall (fun l => len_ok l && forallb generated_ok l) (rs_contents r) &&
  oall strs_ok (rs_warnings r).

Definition i32_ok (z : Z) : bool := in_srangeb 4 z.
Definition i64_ok (z : Z) : bool := in_srangeb 8 z.

Definition reference_ok (r : reference) : bool := len_ok (ref_name r) && i32_ok (ref_index r).
Definition annotation_ok (a : annotation) : bool := len_ok (an_key a) && strs_ok (an_values a).
Definition annos_ok (l : annotations) : bool := len_ok l && forallb annotation_ok l.

Fixpoint ty_ok (t : ty) : bool :=
  match t with
  | Ty n k v c an _ r _ =>
      len_ok n && match k with Some x => ty_ok x | None => true end &&
      match v with Some x => ty_ok x | None => true end &&
      len_ok c && annos_ok an && oall reference_ok r
  end.

Definition extra_ok (e : const_extra) : bool := i32_ok (ex_index e) && len_ok (ex_name e) && len_ok (ex_sel e).

Fixpoint cv_ok (c : const_value) : bool :=
  match c with
  | CDouble b => Z.of_N b <? 18446744073709551616
  | CInt z => i64_ok z
  | CLiteral s => len_ok s
  | CIdent s e => len_ok s && oall extra_ok e
  | CList l => len_ok l && forallb cv_ok l
  | CMap l => len_ok l && forallb (fun kv => cv_ok (fst kv) && cv_ok (snd kv)) l
  end.

Definition namespace_ok (n : namespace) : bool := len_ok (ns_language n) && len_ok (ns_name n) && annos_ok (ns_annos n).
Definition typedef_ok (t : typedef) : bool :=
  ty_ok (td_type t) && len_ok (td_alias t) && annos_ok (td_annos t) && len_ok (td_comments t).
Definition enum_value_ok (v : enum_value) : bool :=
  len_ok (ev_name v) && i64_ok (ev_value v) && annos_ok (ev_annos v) && len_ok (ev_comments v).
Definition enum_ok (e : enum) : bool :=
  len_ok (en_name e) && (len_ok (en_values e) && forallb enum_value_ok (en_values e)) && annos_ok (en_annos e) && len_ok (en_comments e).
Definition constant_ok (c : constant) : bool :=
  len_ok (co_name c) && ty_ok (co_type c) && cv_ok (co_value c) && annos_ok (co_annos c) && len_ok (co_comments c).
Definition field_ok (f : field) : bool :=
  i32_ok (fd_id f) && len_ok (fd_name f) && ty_ok (fd_type f) && oall cv_ok (fd_default f) &&
  annos_ok (fd_annos f) && len_ok (fd_comments f).
Definition fields_ok (l : list field) : bool := len_ok l && forallb field_ok l.
Definition struct_like_ok (s : struct_like) : bool :=
  len_ok (sl_name s) && fields_ok (sl_fields s) && annos_ok (sl_annos s) && len_ok (sl_comments s).
Definition function_ok (f : function) : bool :=
  len_ok (fn_name f) && ty_ok (fn_type f) && fields_ok (fn_args f) && fields_ok (fn_throws f) &&
  annos_ok (fn_annos f) && len_ok (fn_comments f).
Definition service_ok (s : service) : bool :=
  len_ok (sv_name s) && len_ok (sv_extends s) && (len_ok (sv_functions s) && forallb function_ok (sv_functions s)) &&
  annos_ok (sv_annos s) && oall reference_ok (sv_ref s) && len_ok (sv_comments s).

Definition list_ok {A} (p : A -> bool) (l : list A) : bool := len_ok l && forallb p l.

(* a file without its includes' references; the Filename must leave room for the stub prefix *)
Definition file_ok (f : file) : bool :=
  len_ok (ref_prefix ++ f_filename f) &&
  list_ok (fun i => len_ok (in_path i)) (f_includes f) && strs_ok (f_cpp_includes f) &&
  list_ok namespace_ok (f_namespaces f) && list_ok typedef_ok (f_typedefs f) && list_ok constant_ok (f_constants f) &&
  list_ok enum_ok (f_enums f) && list_ok struct_like_ok (f_structs f) && list_ok struct_like_ok (f_unions f) &&
  list_ok struct_like_ok (f_exceptions f) && list_ok service_ok (f_services f) &&
  oall (list_ok (fun kv : bytes * category => len_ok (fst kv))) (f_name2cat f).

Fixpoint ast_ok (a : ast) : bool :=
  match a with
  | Ast f kids =>
      file_ok f &&
      (fix go (l : list (option ast)) : bool :=
         match l with [] => true | Some k :: r => ast_ok k && go r | None :: r => go r end) kids
  end.

(* every string and list of the request shorter than 2^31, every integer within its declared
   width (field ids and include indices i32, enum values and integer constants i64, double bit
   patterns 64 bit); categories, requiredness and struct kinds are enumerations and always fit *)
Definition wf_request (r : request) : bool :=
  len_ok (rq_version r) && strs_ok (rq_gen_params r) && strs_ok (rq_plugin_params r) &&
  len_ok (rq_language r) && len_ok (rq_output_path r) && ast_ok (rq_ast r).

(* ================================================================ 7. the plugin loop, from the side of what is sent *)

Definition with_plugin_params (r : request) (ps : list bytes) : request :=
  mkreq (rq_version r) (rq_gen_params r) ps (rq_language r) (rq_output_path r) (rq_recursive r) (rq_ast r).

Definition plugin_name (d : desc) : bytes := fst (lookup_split (d_name d)).

Section GenerateLoop.
  (* what the external process answers to the request it is sent (the world outside thriftgo) *)
  Variable run : bytes -> request -> plugin_result.

  (* for i, p := range g.plugins { req.PluginParameters = plugin.Pack(out.UsedPlugins[i].Options);
     extra := p.Execute(req); ... }  -- ONE request object, reassigned before every call.
     Returns the result and the trace of (plugin name, request sent). *)
  Fixpoint generate_loop (m : fm) (shown : list bytes) (req : request) (ds : list desc)
    : run_res * list (bytes * request) :=
    match ds with
    | [] => (ROk shown m, [])
    | d :: rest =>
        let req' := with_plugin_params req (pack (d_opts d)) in
        let name := plugin_name d in
        match outcome name (run name req') with
        | Fail ws => (RFail (shown ++ ws), [(name, req')])
        | Proceed ws cs =>
            match feed m (map to_gen cs) with
            | FileManager.Ok m' =>
                let '(res, tr) := generate_loop m' (shown ++ ws) req' rest in (res, (name, req') :: tr)
            | _ => (RFail (shown ++ ws), [(name, req')])
            end
        end
    end.
End GenerateLoop.

(* every plugin's contents fed to the file manager, plugin after plugin (specification of a run
   in which every plugin answers without error) *)
Fixpoint feed_all (m : fm) (rs : list response) : FileManager.res fm :=
  match rs with
  | [] => FileManager.Ok m
  | r :: rest => match feed m (map to_gen (get_list (rs_contents r))) with
                 | FileManager.Ok m' => feed_all m' rest
                 | e => e end
  end.
