// c07 produces cases for property C07 (deterministic generation): it writes seeded IDL
// programs that stress every order-sensitive construct of the generator (several annotations
// per node, map-valued constants and defaults, many includes and namespaces, services with
// many exceptions), runs the thriftgo binary built from the current tree several times per
// (program, option set) under different GOMAXPROCS values into different output directories,
// with a recording plugin attached, and records the digest of every file of every run.
package main

import (
	"crypto/sha256"
	"encoding/hex"
	"flag"
	"fmt"
	"os"
	"os/exec"
	"path/filepath"
	"sort"
	"strings"
	"sync"
	"time"

	"verif/harness/casefile"
	"verif/harness/coqfmt"
	"verif/harness/rng"
)

type FileDigest struct {
	Path string `json:"path"`
	Sha  string `json:"sha"`
}

type Run struct {
	Gomaxprocs int          `json:"gomaxprocs"`
	Dir        int          `json:"outdir_id"`
	Exit       int          `json:"exit"`
	Files      []FileDigest `json:"files"`
	PlugRaw    string       `json:"plugin_stdin_sha"`
	PlugCanon  string       `json:"plugin_stdin_canonical_sha"`
}

type Case struct {
	Program map[string]string `json:"program"`
	Main    string            `json:"main"`
	Backend string            `json:"backend"`
	Runs    []Run             `json:"runs"`
}

func ident(r *rng.R, prefix string, i int) string { return fmt.Sprintf("%s%d", prefix, i) }

func annos(r *rng.R, min int) string {
	n := r.Range(min, 5)
	if n == 0 {
		return ""
	}
	var parts []string
	keys := []string{"go.tag", "api.path", "k", "zz", "a.b", "validate", "k"} // "k" may repeat
	for i := 0; i < n; i++ {
		k := rng.Pick(r, keys)
		v := rng.Pick(r, []string{"x", "json:\\\"f\\\"", "1", "a,b", ""})
		if k == "go.tag" {
			v = fmt.Sprintf("json:\\\"f%d\\\"", i)
		}
		parts = append(parts, fmt.Sprintf("%s = \"%s\"", k, v))
	}
	return " (" + strings.Join(parts, ", ") + ")"
}

// genProgram returns file name -> text and the main file.
func genProgram(r *rng.R, idx int) (map[string]string, string) {
	files := map[string]string{}
	ninc := r.Range(2, 4)
	var incNames []string
	for i := 0; i < ninc; i++ {
		name := fmt.Sprintf("p%d_inc%d.thrift", idx, i)
		incNames = append(incNames, name)
		var b strings.Builder
		fmt.Fprintf(&b, "namespace go p%d.inc%d\nnamespace java com.x.inc%d\nnamespace py inc%d\n\n", idx, i, i, i)
		fmt.Fprintf(&b, "enum E%d {\n  A = 1%s,\n  B = 2%s,\n  C = 5\n}%s\n\n", i, annos(r, 0), annos(r, 2), annos(r, 2))
		fmt.Fprintf(&b, "struct S%d {\n  1: required i64 id%s,\n  2: optional string name = \"n\"%s,\n  3: map<string, i32> m = {\"a\": 1, \"b\": 2, \"c\": 3}%s,\n  4: list<E%d> es,\n}%s\n\n", i, annos(r, 2), annos(r, 0), annos(r, 2), i, annos(r, 2))
		fmt.Fprintf(&b, "exception X%d {\n  1: string msg%s\n}%s\n\n", i, annos(r, 0), annos(r, 2))
		// an exception with the SAME name in every include: sorting by unqualified name would tie
		fmt.Fprintf(&b, "exception NotFound {\n  1: string what\n}\n\n")
		fmt.Fprintf(&b, "const map<string, i64> M%d = {\"k1\": 1, \"k2\": 2, \"k3\": 3, \"k4\": 4}\n", i)
		fmt.Fprintf(&b, "const map<i32, list<string>> ML%d = {1: [\"a\"], 2: [\"b\", \"c\"], 3: []}\n", i)
		fmt.Fprintf(&b, "typedef map<string, S%d> T%d%s\n", i, i, annos(r, 0))
		files[name] = b.String()
	}
	main := fmt.Sprintf("p%d_main.thrift", idx)
	var b strings.Builder
	for _, n := range incNames {
		fmt.Fprintf(&b, "include \"%s\"\n", n)
	}
	fmt.Fprintf(&b, "namespace go p%d.main\nnamespace java com.x.main\nnamespace cpp x.main\nnamespace rs main\n\n", idx)
	nst := r.Range(2, 4)
	for s := 0; s < nst; s++ {
		fmt.Fprintf(&b, "struct M%d {\n", s)
		for i := 0; i < ninc; i++ {
			fmt.Fprintf(&b, "  %d: optional p%d_inc%d.S%d f%d%s,\n", i+1, idx, i, i, i, annos(r, 2))
		}
		fmt.Fprintf(&b, "  10: map<string, string> extra = {\"x\": \"1\", \"y\": \"2\", \"z\": \"3\"}%s,\n", annos(r, 0))
		fmt.Fprintf(&b, "  11: set<i32> ids = [3, 1, 2],\n  12: optional binary blob,\n  13: map<p%d_inc0.E0, list<i64>> byEnum,\n", idx)
		fmt.Fprintf(&b, "}%s\n\n", annos(r, 2))
	}
	fmt.Fprintf(&b, "union U {\n  1: i32 a%s,\n  2: string b,\n  3: M0 m\n}%s\n\n", annos(r, 2), annos(r, 2))
	nsvc := r.Range(1, 3)
	for s := 0; s < nsvc; s++ {
		ext := ""
		if s > 0 {
			ext = fmt.Sprintf(" extends Svc%d", s-1)
		}
		fmt.Fprintf(&b, "service Svc%d%s {\n", s, ext)
		for f, nf := 0, r.Range(2, 5); f < nf; f++ {
			var throws []string
			perm := []int{}
			for i := 0; i < ninc; i++ {
				perm = append(perm, i)
			}
			// random subset in random order
			for i := len(perm) - 1; i > 0; i-- {
				j := r.Intn(i + 1)
				perm[i], perm[j] = perm[j], perm[i]
			}
			for k, i := range perm[:r.Range(1, ninc)] {
				throws = append(throws, fmt.Sprintf("%d: p%d_inc%d.X%d e%d", k+1, idx, i, i, i))
			}
			// homonymous exceptions from every include, in a random order
			for k, i := range perm {
				throws = append(throws, fmt.Sprintf("%d: p%d_inc%d.NotFound nf%d", 20+k, idx, i, i))
			}
			fmt.Fprintf(&b, "  M0 call%d_%d(1: M%d req, 2: U u%s) throws (%s)%s,\n", s, f, r.Intn(nst), annos(r, 0), strings.Join(throws, ", "), annos(r, 2))
		}
		fmt.Fprintf(&b, "  oneway void ping%d(1: i64 t)\n}%s\n\n", s, annos(r, 2))
	}
	fmt.Fprintf(&b, "const map<string, map<string, i32>> NESTED = {\"a\": {\"x\": 1, \"y\": 2}, \"b\": {\"z\": 3, \"w\": 4}, \"c\": {}}\n")
	fmt.Fprintf(&b, "const M0 CM = {\"extra\": {\"q\": \"1\", \"r\": \"2\"}, \"ids\": [1, 2]}\n")
	files[main] = b.String()
	return files, main
}

func digestTree(root string) []FileDigest {
	var out []FileDigest
	filepath.Walk(root, func(p string, info os.FileInfo, err error) error {
		if err != nil || info.IsDir() {
			return nil
		}
		data, _ := os.ReadFile(p)
		h := sha256.Sum256(data)
		rel, _ := filepath.Rel(root, p)
		out = append(out, FileDigest{rel, hex.EncodeToString(h[:])})
		return nil
	})
	sort.Slice(out, func(i, j int) bool { return out[i].Path < out[j].Path })
	return out
}

func coqCase(c Case) string {
	var runs []string
	for _, r := range c.Runs {
		var fs []string
		for _, f := range r.Files {
			fs = append(fs, fmt.Sprintf("(%s, %s)", coqfmt.Bytes(f.Path), coqfmt.Bytes(f.Sha)))
		}
		runs = append(runs, fmt.Sprintf("mkrun %d%%N %d%%N %s %s %s", r.Exit, r.Dir, coqfmt.List(fs), coqfmt.Bytes(r.PlugRaw), coqfmt.Bytes(r.PlugCanon)))
	}
	return "mkcase " + coqfmt.List(runs)
}

func main() {
	seed := flag.Uint64("seed", 1, "seed")
	tier := flag.String("tier", "quick", "quick|thorough")
	out := flag.String("out", ".", "output directory")
	thriftgo := flag.String("thriftgo", "", "thriftgo binary built from the current tree")
	plug := flag.String("plugin", "", "recording plugin binary")
	flag.Parse()

	nprog, nruns := 3, 5
	backends := []string{"go:", "go:with_reflection", "go:with_field_mask,with_reflection,gen_deep_equal", "go:no_fmt,keep_unknown_fields,json_enum_as_text", "fastgo:no_fmt", "go:template=slim"}
	if *tier == "thorough" {
		nprog, nruns = 16, 10
		backends = append(backends, "fastgo:", "go:gen_setter,frugal_tag,reorder_fields,compatible_names", "go:with_reflection,thrift_streaming", "go:naming_style=apache,enum_as_int_32,use_type_alias=false", "fastgo:with_reflection,no_fmt")
	}
	procs := []int{1, 2, 4, 16, 3, 8, 1, 16, 5, 2}

	work, err := os.MkdirTemp(filepath.Dir(*out), "c07-work-")
	if err != nil {
		fmt.Fprintln(os.Stderr, err)
		os.Exit(2)
	}
	defer os.RemoveAll(work)

	w := casefile.New(*out, "From Verif Require Import Base.Bytes Corr.C07.", 60)
	r := rng.New(*seed)
	evals, nontrivial := 0, 0
	var samples []interface{}
	hist := map[string]int{}
	rejected := 0
	dirtyRuns := 0
	cases := make([]*Case, nprog*len(backends))
	dirtyOf := make([]int, nprog*len(backends))
	var wg sync.WaitGroup
	sem := make(chan struct{}, 6)
	for p := 0; p < nprog; p++ {
		files, main := genProgram(r, p)
		src := filepath.Join(work, fmt.Sprintf("src%d", p))
		os.MkdirAll(src, 0o755)
		for n, t := range files {
			os.WriteFile(filepath.Join(src, n), []byte(t), 0o644)
		}
		for bi, be := range backends {
			p, bi, be, files, main, src := p, bi, be, files, main, src
			slot := p*len(backends) + bi
			wg.Add(1)
			sem <- struct{}{}
			go func() {
				defer func() { <-sem; wg.Done() }()
				dirtyRuns := 0
				c := Case{Program: files, Main: main, Backend: be}
				for k := 0; k < nruns; k++ {
					// even runs share one output path (so the bytes sent to the plugin are comparable),
					// odd runs each get their own, differently named, directory
					dirID := 0
					if k%2 == 1 {
						dirID = k
					}
					outdir := filepath.Join(work, fmt.Sprintf("out-%d-%d-%d-%s", p, bi, dirID, strings.Repeat("x", dirID)))
					rec := filepath.Join(work, fmt.Sprintf("rec-%d-%d-%d", p, bi, k))
					cmd := exec.Command(*thriftgo, "-r", "-g", strings.TrimSuffix(be, ":"), "-p", "rec="+*plug, "-o", outdir, main)
					cmd.Dir = src
					cmd.Env = append(os.Environ(), fmt.Sprintf("GOMAXPROCS=%d", procs[k%len(procs)]), "VERIF_REC_OUT="+rec, "VERIF_REC_PATCH=1")
					done := make(chan error, 1)
					var outb []byte
					go func() { var e error; outb, e = cmd.CombinedOutput(); done <- e }()
					exit := 0
					select {
					case e := <-done:
						if e != nil {
							exit = 1
							if ee, ok := e.(*exec.ExitError); ok {
								exit = ee.ExitCode()
							}
						}
					case <-time.After(120 * time.Second):
						cmd.Process.Kill()
						exit = 124
					}
					_ = outb
					run := Run{Gomaxprocs: procs[k%len(procs)], Dir: dirID, Exit: exit, Files: digestTree(outdir)}
					if data, err := os.ReadFile(rec); err == nil {
						parts := strings.Fields(string(data))
						if len(parts) >= 2 {
							run.PlugRaw, run.PlugCanon = parts[0], parts[1]
						}
					}
					c.Runs = append(c.Runs, run)
					os.RemoveAll(outdir)
					os.Remove(rec)
				}
				// one more run into a directory that still holds the output of a previous, different run
				// (same program, more options => longer files): "regardless of previous runs"
				if c.Runs[0].Exit == 0 {
					outdir := filepath.Join(work, fmt.Sprintf("out-%d-%d-dirty", p, bi))
					lang := be[:strings.IndexByte(be, ':')]
					big := strings.TrimSuffix(be, ":")
					if strings.HasSuffix(be, ":") {
						big = lang + ":gen_setter,gen_deep_equal,with_reflection,keep_unknown_fields"
					} else {
						big = be + ",gen_setter,gen_deep_equal,with_reflection,keep_unknown_fields"
					}
					pre := exec.Command(*thriftgo, "-r", "-g", big, "-o", outdir, main)
					pre.Dir = src
					preErr := pre.Run()
					cmd := exec.Command(*thriftgo, "-r", "-g", strings.TrimSuffix(be, ":"), "-p", "rec="+*plug, "-o", outdir, main)
					cmd.Dir = src
					cmd.Env = append(os.Environ(), "GOMAXPROCS=4", "VERIF_REC_PATCH=1")
					exit := 0
					if err := cmd.Run(); err != nil {
						exit = 1
					}
					if preErr == nil {
						want := map[string]bool{}
						for _, f := range c.Runs[0].Files {
							want[f.Path] = true
						}
						var fs []FileDigest
						for _, f := range digestTree(outdir) {
							if want[f.Path] {
								fs = append(fs, f)
							}
						}
						// plugin stdin is not recorded for this run: copy the reference values
						c.Runs = append(c.Runs, Run{Gomaxprocs: 4, Dir: 1000, Exit: exit, Files: fs, PlugRaw: c.Runs[0].PlugRaw, PlugCanon: c.Runs[0].PlugCanon})
						dirtyRuns++
					}
					os.RemoveAll(outdir)
				}
				cases[slot] = &c
				dirtyOf[slot] = dirtyRuns
			}()
		}
	}
	wg.Wait()
	for slot, cp := range cases {
		c := *cp
		be := c.Backend
		dirtyRuns += dirtyOf[slot]
		evals++
		hist[be]++
		if c.Runs[0].Exit != 0 {
			rejected++
		}
		if c.Runs[0].Exit == 0 && len(c.Runs[0].Files) >= 2 {
			nontrivial++
		}
		if len(samples) < 2 {
			samples = append(samples, map[string]interface{}{"main": c.Main, "backend": be, "files_per_run": len(c.Runs[0].Files), "runs": len(c.Runs), "first_run": c.Runs[0]})
		}
		if err := w.Add(coqCase(c), c); err != nil {
			fmt.Fprintln(os.Stderr, err)
			os.Exit(2)
		}
	}
	w.Close()
	casefile.WriteMeta(*out, map[string]interface{}{
		"shards": w.Shards, "total": w.Total(),
		"stats": map[string]interface{}{
			"evaluations": evals, "distinct_nontrivial": nontrivial,
			"rule":    "one case = one (generated multi-file program, backend option set) run nruns times under GOMAXPROCS 1..16 into different output directories with a recording plugin; non-trivial = thriftgo succeeded and wrote >= 2 files; programs are distinct by construction (seeded, indexed)",
			"samples": samples, "runs_per_case": nruns, "programs": nprog, "option_sets": hist, "rejected_by_impl": rejected, "runs_into_dirty_directory": dirtyRuns,
		},
	})
}
