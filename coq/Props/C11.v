(* Props/C11.v — property C11: "Plugins see the compiler's AST and options, and their answers
   are honoured".  Statements only; proofs in Gen/PluginFacts.v; the model is Gen/Plugin.v, whose
   field ids and wire types are read from Wire/SchemaPlugin.v (regenerated from
   parser/AST.thrift + plugin/protocol.thrift by translator T-thrift on every check). *)
From Coq Require Import List Arith Bool Lia NArith ZArith.
From Coq.Strings Require Import Byte String.
From Verif Require Import Base.Bytes Base.BE Wire.TType Wire.WVal Wire.Codec Wire.Schema Wire.SchemaPlugin
  Idl.Ast Gen.FileManager Gen.Plugin Gen.PluginFacts.
Import ListNotations.
Local Open Scope Z_scope.
Local Open Scope list_scope.

(* ---------------------------------------------------------------- include compression *)

(* For every well-formed include graph g (every reference set, equal Filenames denote the same
   node — so diamonds of any shape —, no Filename starting with the stub prefix) and enough
   fuel (one unit per level of g): decompressing the compressed tree with the table
   UnmarshalRequest collects from it gives g back. *)
Theorem decompress_compress : forall g fuel,
  wf_graph g -> (height g <= fuel)%nat -> decompress_top fuel (compress_top g) = DOk g.
Proof. exact PluginFacts.decompress_compress. Qed.
Print Assumptions decompress_compress.

(* Every Filename below the root occurs un-stubbed exactly once in the compressed tree (and
   nothing else does). *)
Theorem compress_no_dup : forall g, wf_graph g ->
  NoDup (map ast_name (live (compress_top g))) /\
  (forall n, In n (map ast_name (below g)) <-> In n (map ast_name (live (compress_top g)))) /\
  (forall n, In n (map ast_name (below g)) ->
     count_occ (list_eq_dec Byte.byte_eq_dec) (map ast_name (live (compress_top g))) n = 1%nat).
Proof. exact PluginFacts.compress_no_dup. Qed.
Print Assumptions compress_no_dup.

(* collectThriftInclude finds every un-stubbed node under its Filename. *)
Theorem collect_finds_all : forall a n, In n (map ast_name (live a)) ->
  exists x, lookup n (collect [] a) = Some x /\ In x (live a) /\ ast_name x = n.
Proof. exact PluginFacts.collect_finds_all. Qed.
Print Assumptions collect_finds_all.

(* ---------------------------------------------------------------- trailer *)

Theorem trailer_roundtrip : forall d f f', 0 <= f < 256 ->
  has_feature (append_trailer d f) f' = (Z.land f f' =? f').
Proof. exact PluginFacts.trailer_roundtrip. Qed.
Print Assumptions trailer_roundtrip.

(* a marshalled struct (it ends with the stop byte) is never taken for data with a trailer *)
Theorem trailer_absent_on_plain : forall fs f, has_feature (enc (WStruct fs)) f = false.
Proof. exact PluginFacts.trailer_absent_on_plain. Qed.
Print Assumptions trailer_absent_on_plain.

(* ---------------------------------------------------------------- request codec *)

(* decode (encode r) = r at the regenerated schema, for every AST node kind with every optional
   field set or unset (the quantification is over all of Idl.Ast: types, constants of every
   shape, fields, struct-likes, functions, services, includes, files, trees), for all requests
   that are encodable at all: kids parallel to includes (wt_ast) and every string, list and
   integer within its wire width (wfb of the encoding).  norm_request only turns a nil
   Name2Category map into the empty map (Go writes a nil map as an empty one). *)
Theorem request_roundtrip : forall r fuel,
  wt_ast (rq_ast r) = true -> wfb (enc_request r) = true ->
  unmarshal_request fuel (marshal_request r) = UOk (norm_request r).
Proof. exact PluginFacts.request_roundtrip. Qed.
Print Assumptions request_roundtrip.

(* the same through include compression and the trailer, for every well-formed graph *)
Theorem request_roundtrip_compressed : forall r fuel,
  wf_graph (rq_ast r) -> wt_ast (rq_ast r) = true ->
  wfb (enc_request (with_ast r (compress_top (rq_ast r)))) = true ->
  (height (rq_ast r) <= fuel)%nat ->
  unmarshal_request fuel (marshal_request_compressed r) = UOk (norm_request r).
Proof. exact PluginFacts.request_roundtrip_compressed. Qed.
Print Assumptions request_roundtrip_compressed.

(* ---------------------------------------------------------------- option strings *)

Theorem compact_roundtrip : forall d, desc_ok d = true -> parse_compact (render d) = Some d.
Proof. exact PluginFacts.compact_roundtrip. Qed.
Print Assumptions compact_roundtrip.

(* the parameters are name=value of every option, in the order written *)
Theorem pack_order : forall d, desc_ok d = true ->
  params_of (render d) = Some (map (fun o => o_name o ++ [x3d] ++ o_desc o) (d_opts d)) /\
  language_of (render d) = Some (d_name d).
Proof. exact PluginFacts.pack_order. Qed.
Print Assumptions pack_order.

(* ---------------------------------------------------------------- outcome *)

(* non-zero exit status, time limit exceeded, failure to start, undecodable stdout, or a
   non-empty Error: thriftgo fails (exit status 2, nothing written) *)
Theorem outcome_fail : forall name pr,
  match pr with
  | Exited code out _ =>
      code <> 0 \/ unmarshal_response out = None \/
      (exists r c e, unmarshal_response out = Some r /\ rs_error r = Some (c :: e))
  | TimedOut _ _ | NotStarted => True
  end ->
  exists shown, outcome name pr = Fail shown.
Proof. exact PluginFacts.outcome_fail. Qed.
Print Assumptions outcome_fail.

(* an answer without error: every content item is handed to FileManager.Feed, in order; every
   warning, and the plugin's stderr, is shown *)
Theorem outcome_ok_contents_reach_fm : forall m shown name out err r rest,
  unmarshal_response out = Some r -> no_error r ->
  run_plugins m shown ((name, Exited 0 out err) :: rest) =
  match feed m (map to_gen (get_list (rs_contents r))) with
  | FileManager.Ok m' => run_plugins m' (shown ++ shown_of name err r) rest
  | _ => RFail (shown ++ shown_of name err r)
  end.
Proof. exact PluginFacts.outcome_ok_contents_reach_fm. Qed.
Print Assumptions outcome_ok_contents_reach_fm.

(* a failing plugin stops the run: nothing is handed on, later plugins are not started *)
Theorem run_plugins_fail : forall m shown name pr rest ws,
  outcome name pr = Fail ws -> run_plugins m shown ((name, pr) :: rest) = RFail (shown ++ ws).
Proof. exact PluginFacts.run_plugins_fail. Qed.
Print Assumptions run_plugins_fail.

(* ---------------------------------------------------------------- the hypotheses are satisfiable *)

Local Open Scope string_scope.

(* a diamond: x includes z and y, y includes z *)
Definition ex_z := Ast (empty_file (B "z.thrift")) [].
Definition ex_y := Ast (File (B "y.thrift") [Include (B "z.thrift") None (Some true)] [] [] [] [] [] [] [] [] [] None) [Some ex_z].
Definition ex_x :=
  Ast (File (B "x.thrift") [Include (B "z.thrift") None None; Include (B "y.thrift") None None] []
        [Namespace (B "go") (B "a.b") []]
        [Typedef (Ty (B "list") None (Some (ty_named (B "i32"))) [] [] CatList None (Some false)) (B "L") [] []]
        [Constant (B "c") (ty_named (B "i32"))
           (CMap [(CInt 1, CList [CIdent (B "a.b") (Some (Extra true 0 (B "b") (B "a"))); CDouble 3%N])]) [] []]
        [] [] [] [] [] (Some [(B "L", CatTypedef)]))
      [Some ex_z; Some ex_y].
Definition ex_req := mkreq (B "0.4.1") [B "a=b"] [] (B "go") (B "out") true ex_x.

Example ex_wt : wt_ast ex_x = true /\ wfb (enc_request ex_req) = true /\
                wfb (enc_request (with_ast ex_req (compress_top ex_x))) = true.
Proof. vm_compute. auto. Qed.


Example ex_wf_graph : wf_graph ex_x.
Proof.
  split; [reflexivity|]. split.
  - intros x y Hx Hy Hn.
    cbn in Hx, Hy.
    repeat (destruct Hx as [<-|Hx]); try contradiction;
    repeat (destruct Hy as [<-|Hy]); try contradiction; try reflexivity; vm_compute in Hn; discriminate.
  - intros x Hx. cbn in Hx. repeat (destruct Hx as [<-|Hx]); try contradiction; reflexivity.
Qed.

(* the compressed diamond really contains a stub, and really comes back *)
Example ex_compressed_has_stub :
  existsb is_stub (nodes (compress_top ex_x)) = true /\
  unmarshal_request 3 (marshal_request_compressed ex_req) = UOk (norm_request ex_req).
Proof. split; vm_compute; reflexivity. Qed.

Example ex_desc_ok : desc_ok (mkdesc (B "go") [mkopt (B "naming_style") (B "golint"); mkopt (B "gen_setter") []; mkopt (B "k") (B "a=b")]) = true.
Proof. reflexivity. Qed.

Example ex_outcomes :
  (exists ws, outcome (B "p") (Exited 3 [] []) = Fail ws) /\
  (exists ws, outcome (B "p") (Exited 0 (hx "de ad be ef") []) = Fail ws) /\
  (exists ws, outcome (B "p") (Exited 0 (marshal_response (mkresp (Some (B "no")) None None)) []) = Fail ws) /\
  outcome (B "p") (Exited 0 (marshal_response (mkresp None (Some [mkgenerated (B "x") (Some (B "f")) None]) (Some [B "w"]))) (B "e"))
    = Proceed [B "w"; warn_plugin_stderr (B "p") (B "e")] [mkgenerated (B "x") (Some (B "f")) None] /\
  (* a set but empty Error is not an error for Generate: GetError() != "" *)
  outcome (B "p") (Exited 0 (marshal_response (mkresp (Some []) None None)) []) = Proceed [] [].
Proof. repeat split; try (eexists; vm_compute; reflexivity); vm_compute; reflexivity. Qed.

(* ---------------------------------------------------------------- outside the hypotheses *)

(* A file whose name itself begins with the stub prefix (a legal file name) is taken for a stub:
   the compressed request cannot be decompressed (Go: panic "not found ref"), both in the plugin
   and in thriftgo's own deferred revert.  Known finding C11-stub-like-filename. *)
Definition ex_stublike :=
  Ast (File (B "main.thrift") [Include (B "THRIFGO_REF:a.thrift") None None] [] [] [] [] [] [] [] [] [] None)
      [Some (Ast (empty_file (B "THRIFGO_REF:a.thrift")) [])].

Theorem decompress_compress_refuted_on_stub_like_name :
  exists g, all_refs_set g = true /\ wt_ast g = true /\
    (forall x y, In x (nodes g) -> In y (nodes g) -> ast_name x = ast_name y -> x = y) /\
    decompress_top 5 (compress_top g) = DNotFound (B "a.thrift").
Proof.
  exists ex_stublike. split; [reflexivity|]. split; [reflexivity|]. split; [|vm_compute; reflexivity].
  intros x y Hx Hy Hn. cbn in Hx, Hy.
  repeat (destruct Hx as [<-|Hx]); try contradiction;
  repeat (destruct Hy as [<-|Hy]); try contradiction; try reflexivity; vm_compute in Hn; discriminate.
Qed.
Print Assumptions decompress_compress_refuted_on_stub_like_name.
