package main

import (
	"runtime"
	"sync"
	"time"

	"verif/harness/rng"
)

// The hook of generator.asyncPostProcess.OnFinished calls back with the name
// of a trace point and a job index.  Two hook implementations live here:
//
//   - forced: a controlling scheduler.  Every goroutine that reaches a trace
//     point parks there; the scheduler waits until no goroutine is running
//     (all are parked, finished, or blocked in a native operation of the code
//     under test), picks ONE parked goroutine with the seeded PRNG, appends its
//     event to the trace and lets it run to its next trace point.
//   - free: goroutines run freely, the event is appended under a mutex and the
//     goroutine yields or sleeps at random.
//
// Event letters (two characters per event, letter + job digit) are decoded by
// parse_trace in coq/Corr/C19.v.

var evLetter = map[string]byte{
	"dispatch": 'd', "acquire": 'a', "recv-err": 'r', "spawn": 's', "final-wait": 'F', "return": 'R',
	"worker-start": 'b', "pp-done": 'p', "write-done": 'w', "err-send": 'e', "done": 'D', "release": 'L',
}

func isCallerEvent(ev string) bool {
	switch ev {
	case "dispatch", "acquire", "recv-err", "spawn", "final-wait", "return":
		return true
	}
	return false
}

func encode(ev string, job int) string {
	l, ok := evLetter[ev]
	if !ok {
		return "?" + ev + "?"
	}
	if l == 'F' || l == 'R' {
		return string([]byte{l, '-'})
	}
	// job index: 0-9, then A-Z (10..35), then a-z (36..61)
	switch {
	case job >= 0 && job <= 9:
		return string([]byte{l, byte('0' + job)})
	case job >= 10 && job <= 35:
		return string([]byte{l, byte('A' + job - 10)})
	case job >= 36 && job <= 61:
		return string([]byte{l, byte('a' + job - 36)})
	}
	return string([]byte{l, '?'})
}

const callerTid = -1

type waiter struct {
	ev  string
	job int
	ch  chan struct{}
}

type forced struct {
	mu      sync.Mutex
	waiting map[int]*waiter // parked goroutines by thread id (caller = -1, worker j = j)
	arrived chan struct{}
	r       *rng.R
	n, cap  int
	trace   []byte
	events  int

	// event-level counters, used only to predict whether the caller is about to
	// block in a native operation (select / wg.Wait); a wrong prediction costs
	// a timeout, never correctness
	tokens, errs, wg int
	callerAt         string // what the caller will execute next: "select", "wait", "run", "done"

	callerBias int // percent chance to prefer the caller when it is parked

	bothReady, bothAcquire, bothRecv int
	lastBoth                         bool
	doneSeen, relSeen                map[int]bool
	timeouts                         int
	afterReturn                      bool
	eventsAfterReturn                int
}

func newForced(r *rng.R, n, k int) *forced {
	if k <= 0 {
		k = 1
	}
	f := &forced{waiting: map[int]*waiter{}, arrived: make(chan struct{}, 1), r: r, n: n, cap: k,
		doneSeen: map[int]bool{}, relSeen: map[int]bool{}}
	f.callerBias = []int{10, 35, 50, 65, 90}[r.Intn(5)]
	if n == 0 {
		f.callerAt = "wait"
	} else {
		f.callerAt = "run"
	}
	return f
}

func (f *forced) hook(ev string, job int) {
	tid := job
	if isCallerEvent(ev) {
		tid = callerTid
	}
	w := &waiter{ev: ev, job: job, ch: make(chan struct{})}
	f.mu.Lock()
	f.waiting[tid] = w
	f.mu.Unlock()
	select {
	case f.arrived <- struct{}{}:
	default:
	}
	<-w.ch
}

func (f *forced) callerBlocked() bool {
	switch f.callerAt {
	case "select":
		return f.tokens >= f.cap && f.errs == 0
	case "wait":
		return f.wg > 0
	}
	return false
}

// run drives the schedule until the call has returned and no goroutine of the
// call is parked any more. done is closed when the function under test returned.
// It reports hang=true when nothing can move any more but the call has not returned.
func (f *forced) run(done <-chan struct{}, onReturn func(), quiesce, hangAfter time.Duration) (hang bool) {
	pending := map[int]bool{callerTid: true} // granted (or started) and expected to park again
	live := map[int]bool{callerTid: true}
	returned := false
	for {
		// 1. wait for quiescence: every pending goroutine parked, or presumed blocked
		deadline := time.Now().Add(quiesce)
		for {
			f.mu.Lock()
			for tid := range pending {
				if _, ok := f.waiting[tid]; ok {
					delete(pending, tid)
				}
			}
			np, nw := len(pending), len(f.waiting)
			f.mu.Unlock()
			if np == 0 {
				break
			}
			if !returned {
				select {
				case <-done:
					returned = true
					onReturn()
					delete(pending, callerTid)
					delete(live, callerTid)
					continue
				default:
				}
			}
			if np == 1 && pending[callerTid] && f.callerBlocked() {
				delete(pending, callerTid) // predicted to be blocked natively; it parks again later
				continue
			}
			left := time.Until(deadline)
			if left <= 0 {
				if nw > 0 {
					f.timeouts++
					for tid := range pending {
						delete(pending, tid)
					}
					break
				}
				// nothing parked: keep waiting up to hangAfter for anything to arrive
				select {
				case <-f.arrived:
				case <-done:
					returned = true
					onReturn()
					delete(pending, callerTid)
					delete(live, callerTid)
				case <-time.After(hangAfter):
					return !returned
				}
				deadline = time.Now().Add(quiesce)
				continue
			}
			select {
			case <-f.arrived:
			case <-done:
				returned = true
				onReturn()
				delete(pending, callerTid)
				delete(live, callerTid)
			case <-time.After(left):
			}
		}
		// 2. pick one parked goroutine
		f.mu.Lock()
		var tids []int
		for tid := range f.waiting {
			tids = append(tids, tid)
		}
		if len(tids) == 0 {
			f.mu.Unlock()
			if returned {
				return false
			}
			// the caller is blocked natively and nobody is parked: wait for movement
			select {
			case <-f.arrived:
				continue
			case <-done:
				returned = true
				onReturn()
				delete(live, callerTid)
				continue
			case <-time.After(hangAfter):
				return true
			}
		}
		sortInts(tids)
		var pick int
		if _, ok := f.waiting[callerTid]; ok && len(tids) > 1 {
			if f.r.Intn(100) < f.callerBias {
				pick = callerTid
			} else {
				pick = tids[1+f.r.Intn(len(tids)-1)] // tids[0] is the caller (-1)
			}
		} else {
			pick = tids[f.r.Intn(len(tids))]
		}
		w := f.waiting[pick]
		delete(f.waiting, pick)
		f.trace = append(f.trace, encode(w.ev, w.job)...)
		f.events++
		if f.afterReturn {
			f.eventsAfterReturn++
		}
		f.mu.Unlock()
		// 3. bookkeeping for the prediction, then let it run
		switch w.ev {
		case "dispatch":
			f.callerAt = "select"
			f.lastBoth = f.tokens < f.cap && f.errs > 0
			if f.lastBoth {
				f.bothReady++
			}
			pending[callerTid] = true
		case "acquire":
			if f.lastBoth {
				f.bothAcquire++
			}
			f.lastBoth = false
			f.tokens++
			f.callerAt = "run"
			pending[callerTid] = true
		case "recv-err":
			if f.lastBoth {
				f.bothRecv++
			}
			f.lastBoth = false
			f.errs--
			f.callerAt = "wait"
			pending[callerTid] = true
		case "spawn":
			f.wg++
			if w.job+1 >= f.n {
				f.callerAt = "wait"
			} else {
				f.callerAt = "run"
			}
			pending[callerTid] = true
			pending[w.job] = true
			live[w.job] = true
		case "final-wait":
			f.callerAt = "run"
			pending[callerTid] = true
		case "return":
			f.callerAt = "done"
			f.afterReturn = true
			pending[callerTid] = true // until done is closed
		case "err-send":
			f.errs++
			pending[pick] = true
		case "done":
			// in the code as written wg.Done() is executed only after the release event; count the
			// WaitGroup down at whichever of the two events comes last
			f.doneSeen[pick] = true
			if f.relSeen[pick] {
				f.wg--
				delete(live, pick)
			} else {
				pending[pick] = true
			}
		case "release":
			f.relSeen[pick] = true
			f.tokens--
			if f.doneSeen[pick] {
				f.wg--
				delete(live, pick)
			} else {
				pending[pick] = true
			}
		default:
			pending[pick] = true
		}
		// a caller that was presumed blocked may be able to move now
		if live[callerTid] && !pending[callerTid] && !f.callerBlocked() {
			f.mu.Lock()
			_, parked := f.waiting[callerTid]
			f.mu.Unlock()
			if !parked {
				pending[callerTid] = true
			}
		}
		close(w.ch)
	}
}

func sortInts(a []int) {
	for i := 1; i < len(a); i++ {
		for j := i; j > 0 && a[j] < a[j-1]; j-- {
			a[j], a[j-1] = a[j-1], a[j]
		}
	}
}

// ---------------------------------------------------------------- free-running

type free struct {
	mu     sync.Mutex
	trace  []byte
	r      *rng.R
	yield  int // percent
	spawns int
	rels   int
}

func (f *free) hook(ev string, job int) {
	f.mu.Lock()
	f.trace = append(f.trace, encode(ev, job)...)
	if ev == "spawn" {
		f.spawns++
	}
	if ev == "release" {
		f.rels++
	}
	x := f.r.Intn(100)
	y := f.r.Intn(8)
	f.mu.Unlock()
	if x < f.yield {
		switch y {
		case 0:
			time.Sleep(time.Microsecond * time.Duration(1+y))
		case 1, 2:
			runtime.Gosched()
			runtime.Gosched()
		default:
			runtime.Gosched()
		}
	}
}

func (f *free) snapshot() (string, int, int) {
	f.mu.Lock()
	defer f.mu.Unlock()
	return string(f.trace), f.spawns, f.rels
}
