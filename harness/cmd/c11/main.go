// c11 produces correspondence cases for property C11 (plugins see the compiler's AST and
// options, and their answers are honoured).
//
// In-process streams (real code of /repo, linked in):
//   req      idlgen programs -> real parser + checker + ResolveSymbols, options from random
//            command lines through args.Arguments -> plugin.MarshalRequest bytes, with and
//            without include compression + trailer (verif hook), UnmarshalRequest of both
//   resp     valid and damaged responses -> plugin.UnmarshalResponse
//   trailer  appendDataTrailer / hasDataTrailerFeature on random data
//   args     plugin.ParseCompactArguments + Pack on random strings
// Process-level stream: the thriftgo binary with harness/cmd/faultplugin (built twice: as a
// "released v0.4.2" plugin, which gets compressed includes when THRIFTGO_PLUGIN_COMPRESS_INCLUDE=1,
// and as a local build): exit status, files written, stderr, liveness of the plugin process.
package main

import (
	"bytes"
	"encoding/json"
	"flag"
	"fmt"
	"os"
	"os/exec"
	"path/filepath"
	"sort"
	"strings"
	"syscall"
	"time"

	targs "github.com/cloudwego/thriftgo/args"
	"github.com/cloudwego/thriftgo/parser"
	"github.com/cloudwego/thriftgo/plugin"
	"github.com/cloudwego/thriftgo/semantic"
	"github.com/cloudwego/thriftgo/version"

	"verif/harness/casefile"
	"verif/harness/coqfmt"
	"verif/harness/idlgen"
	"verif/harness/reqdump"
	"verif/harness/rng"
)

// ---------------------------------------------------------------------------------- output

type shardWriter struct {
	dir    string
	shard  int
	n      int
	vol    int
	total  int
	v, j   *os.File
	Shards []string
}

const header = `From Verif Require Import Base.Bytes Idl.Ast Gen.Plugin Corr.C11.
From Coq Require Import List NArith ZArith String.
From Coq.Strings Require Import Byte.
Import ListNotations.
Open Scope string_scope.
Definition cases : list case := [
`

func (w *shardWriter) open() {
	name := fmt.Sprintf("cases_%03d", w.shard)
	w.v, _ = os.Create(filepath.Join(w.dir, name+".v"))
	w.j, _ = os.Create(filepath.Join(w.dir, name+".jsonl"))
	w.v.WriteString(header)
	w.Shards = append(w.Shards, name)
	w.n, w.vol = 0, 0
}

func (w *shardWriter) close() {
	if w.v == nil {
		return
	}
	w.v.WriteString("\n].\nSet Printing Depth 10000000.\nSet Printing Width 2000.\nDefinition R := Eval vm_compute in (mismatches cases).\nPrint R.\n")
	w.v.Close()
	w.j.Close()
	w.v, w.j = nil, nil
	w.shard++
}

func (w *shardWriter) Add(term string, desc interface{}) {
	if w.v == nil {
		w.open()
	}
	if w.n > 0 {
		w.v.WriteString(";\n")
	}
	w.v.WriteString(" " + term)
	b, _ := json.Marshal(desc)
	w.j.Write(b)
	w.j.Write([]byte("\n"))
	w.n++
	w.total++
	w.vol += len(term)
	if w.vol > 200_000 || w.n >= 400 {
		w.close()
	}
}

// blob prints bytes as rows of byte constructors (cheap for Coq to read, unlike string literals)
func blob(b []byte) string {
	if len(b) == 0 {
		return "[]"
	}
	var sb strings.Builder
	sb.WriteString("(blob [")
	for i := 0; i < len(b); i += 1000 {
		if i > 0 {
			sb.WriteString(";\n")
		}
		sb.WriteString("[")
		end := i + 1000
		if end > len(b) {
			end = len(b)
		}
		for k := i; k < end; k++ {
			if k > i {
				sb.WriteString(";")
			}
			fmt.Fprintf(&sb, "x%02x", b[k])
		}
		sb.WriteString("]")
	}
	sb.WriteString("])")
	return sb.String()
}

func hexs(b []byte) string { return fmt.Sprintf("%x", b) }

// bstr prints a short byte string as a list of byte constructors (string literals cost Coq
// about 30 ms each)
func bstr(s string) string {
	if len(s) == 0 {
		return "[]"
	}
	if len(s) > 900 {
		return blob([]byte(s))
	}
	var sb strings.Builder
	sb.WriteString("[")
	for i := 0; i < len(s); i++ {
		if i > 0 {
			sb.WriteString(";")
		}
		fmt.Fprintf(&sb, "x%02x", s[i])
	}
	sb.WriteString("]")
	return sb.String()
}

// ---------------------------------------------------------------------------------- requests

type built struct {
	req     *plugin.Request
	langArg string
	plugArg string
	argv    []string
}

var goOpts = []string{"thrift_import_path", "use_package", "naming_style", "ignore_initialisms", "package_prefix",
	"template", "json_enum_as_text", "gen_setter", "gen_db_tag", "omitempty_for_optional", "use_type_alias",
	"validate_set", "value_type_in_container", "scan_value_for_enum", "reorder_fields", "typed_enum_string",
	"keep_unknown_fields", "gen_deep_equal", "compatible_names", "reserve_comments", "nil_safe", "frugal_tag",
	"unescape_double_quote", "gen_type_meta", "gen_json_tag", "always_gen_json_tag", "snake_style_json_tag",
	"lower_camel_style_json_tag", "with_reflection", "enum_as_int_32", "trim_idl", "json_stringer", "with_field_mask",
	"field_mask_halfway", "field_mask_zero_required", "thrift_streaming", "no_default_serdes", "no_alias_type_reflection_method",
	"enable_ref_interface", "use_option", "streamx", "no_fmt", "skip_empty", "no_processor", "get_enum_annotation"}

var optVals = []string{"", "", "true", "false", "golint", "thriftgo", "a/b", "x", "1", "k=v", "a.b.c", "slim"}

func randOpts(r *rng.R, names []string, max int) string {
	n := r.Intn(max + 1)
	var parts []string
	for i := 0; i < n; i++ {
		var p string
		switch r.Intn(12) {
		case 0:
			p = "" // "a,,b"
		case 1:
			p = rng.Pick(r, names) + "="
		default:
			p = rng.Pick(r, names)
			if v := rng.Pick(r, optVals); v != "" {
				p += "=" + v
			}
		}
		parts = append(parts, p)
	}
	return strings.Join(parts, ",")
}

// optsOfLen: an option list with exactly n options (n = 0: no ":" part at all)
func optsOfLen(r *rng.R, n int) string {
	var parts []string
	for i := 0; i < n; i++ {
		p := rng.Pick(r, plugOptNames)
		switch r.Intn(5) {
		case 0:
			p += "="
		case 1:
		default:
			p += "=" + rng.Pick(r, []string{"1", "true", "a/b", "x=y", "v"})
		}
		if n > 1 && r.Chance(1, 10) {
			p = "" // "a,,b": an option with an empty name
		}
		parts = append(parts, p)
	}
	return strings.Join(parts, ",")
}

func randLangArg(r *rng.R) string {
	s := "go"
	if r.Chance(1, 10) {
		return s
	}
	if o := randOpts(r, goOpts, 5); o != "" || r.Chance(1, 6) {
		s += ":" + o
	}
	return s
}

var plugOptNames = []string{"mode", "a", "b", "verbose", "out", "x_y", "K", "opt1", "opt2", "module"}

func randPluginArg(r *rng.R, name, path string) string {
	s := name
	if path != "" {
		s += "=" + path
	}
	if o := randOpts(r, plugOptNames, 4); o != "" || r.Chance(1, 6) {
		s += ":" + o
	}
	return s
}

// buildRequest does what sdk.InvokeThriftgo does up to the call of a plugin: parse the command
// line, parse + check + resolve the IDL, fill in the request for the first -g and the first -p.
func buildRequest(argv []string) (*plugin.Request, error) {
	var a targs.Arguments
	if err := a.Parse(argv); err != nil {
		return nil, err
	}
	ast, err := parser.ParseFile(a.IDL, a.Includes, true)
	if err != nil {
		return nil, err
	}
	if p := parser.CircleDetect(ast); len(p) > 0 {
		return nil, fmt.Errorf("include circle")
	}
	checker := semantic.NewChecker(semantic.Options{FixWarnings: true})
	if _, err := checker.CheckAll(ast); err != nil {
		return nil, err
	}
	if err := semantic.ResolveSymbols(ast); err != nil {
		return nil, err
	}
	req := &plugin.Request{Version: version.ThriftgoVersion, OutputPath: a.OutputPath, Recursive: a.Recursive, AST: ast}
	plugins, err := a.UsedPlugins()
	if err != nil {
		return nil, err
	}
	langs, err := a.Targets()
	if err != nil {
		return nil, err
	}
	if len(langs) == 0 {
		return nil, fmt.Errorf("no language")
	}
	out := langs[0]
	req.Language = out.Language
	req.OutputPath = a.Output(out.Language)
	req.GeneratorParameters = plugin.Pack(out.Options)
	if len(plugins) > 0 {
		req.PluginParameters = plugin.Pack(plugins[0].Options)
	}
	return req, nil
}

// sharing: Filename -> node pointer for every node reachable; ok=false when one Filename is
// reached through two different pointers
func sharing(t *parser.Thrift) (map[string]*parser.Thrift, bool) {
	m := map[string]*parser.Thrift{}
	ok := true
	var walk func(x *parser.Thrift)
	seen := map[*parser.Thrift]bool{}
	walk = func(x *parser.Thrift) {
		if x == nil {
			return
		}
		if p, dup := m[x.Filename]; dup && p != x {
			ok = false
		}
		m[x.Filename] = x
		if seen[x] {
			return
		}
		seen[x] = true
		for _, i := range x.Includes {
			walk(i.Reference)
		}
	}
	walk(t)
	return m, ok
}

type reqObs struct {
	Kind       string `json:"kind"`
	LangArg    string `json:"lang_arg"`
	PluginArg  string `json:"plugin_arg"`
	Argv       []string `json:"argv,omitempty"`
	Files      map[string]string `json:"files,omitempty"`
	DumpHex    string `json:"dump_hex,omitempty"`
	PlainLen   int    `json:"plain_len"`
	CompLen    int    `json:"comp_len"`
	HasComp    bool   `json:"has_comp"`
	UnmPlain   bool   `json:"go_unmarshal_plain_equal"`
	UnmComp    bool   `json:"go_unmarshal_comp_equal"`
	Restored   bool   `json:"go_restored"`
	Panic      string `json:"panic,omitempty"`
	NFiles     int    `json:"n_files"`
	Diamond    bool   `json:"diamond"`
	CheckArgs  bool   `json:"check_args"`
}

func reqTerm(o *reqObs, dump, plain, comp []byte) string {
	return fmt.Sprintf("CReq (mkreqcase %s %s %s %s %s %s %s %s %s %s)",
		bstr(o.LangArg), bstr(o.PluginArg), blob(dump), blob(plain), coqfmt.Bool(o.HasComp), blob(comp),
		coqfmt.Bool(o.UnmPlain), coqfmt.Bool(o.UnmComp), coqfmt.Bool(o.Restored), coqfmt.Bool(o.CheckArgs))
}

func dumpOfBytes(bs []byte) (d []byte, panicked string) {
	defer func() {
		if r := recover(); r != nil {
			panicked = fmt.Sprint(r)
		}
	}()
	req, err := plugin.UnmarshalRequest(bs)
	if err != nil {
		return nil, "error: " + err.Error()
	}
	d, err = reqdump.Request(req)
	if err != nil {
		return nil, "dump: " + err.Error()
	}
	return d, ""
}

// isDiamond: some Filename is included from two places
func isDiamond(t *parser.Thrift) bool {
	count := map[string]int{}
	seen := map[*parser.Thrift]bool{}
	var walk func(x *parser.Thrift)
	walk = func(x *parser.Thrift) {
		if x == nil || seen[x] {
			return
		}
		seen[x] = true
		for _, i := range x.Includes {
			if i.Reference != nil {
				count[i.Reference.Filename]++
				walk(i.Reference)
			}
		}
	}
	walk(t)
	for _, c := range count {
		if c > 1 {
			return true
		}
	}
	return false
}

func observeRequest(req *plugin.Request, o *reqObs) (dump, plain, comp []byte, err error) {
	defer func() {
		if r := recover(); r != nil {
			o.Panic = fmt.Sprint(r)
			err = fmt.Errorf("panic: %v", r)
		}
	}()
	dump, err = reqdump.Request(req)
	if err != nil {
		return
	}
	before, _ := sharing(req.AST)
	o.NFiles = len(before)
	o.Diamond = isDiamond(req.AST)
	plain, err = plugin.MarshalRequest(req)
	if err != nil {
		return
	}
	o.PlainLen = len(plain)
	d2, p := dumpOfBytes(plain)
	o.UnmPlain = p == "" && bytes.Equal(d2, dump)
	if len(before) > 1 {
		// what external.Execute does for a plugin that supports the trailer
		o.HasComp = true
		m := map[string]*parser.Thrift{}
		plugin.VerifCompressThriftInclude(req.AST, m)
		comp, err = plugin.MarshalRequest(req)
		if err == nil {
			comp = plugin.VerifAppendDataTrailer(comp, plugin.VerifFeatureCompressInclude)
		}
		plugin.VerifDecompressThriftInclude(req.AST, m) // the deferred revert
		if err != nil {
			return
		}
		o.CompLen = len(comp)
		d3, p3 := dumpOfBytes(comp)
		o.UnmComp = p3 == "" && bytes.Equal(d3, dump)
		d4, e4 := reqdump.Request(req)
		after, shared := sharing(req.AST)
		same := len(after) == len(before)
		for k, v := range before {
			if after[k] != v {
				same = false
			}
		}
		o.Restored = e4 == nil && bytes.Equal(d4, dump) && shared && same
	}
	return
}

// ---------------------------------------------------------------------------------- responses

func randText(r *rng.R, max int) string {
	n := r.Intn(max + 1)
	b := make([]byte, n)
	for i := range b {
		switch r.Intn(10) {
		case 0:
			b[i] = byte(r.Intn(256))
		case 1:
			b[i] = '\n'
		default:
			b[i] = byte(0x20 + r.Intn(0x5f))
		}
	}
	return string(b)
}

func randResponse(r *rng.R) *plugin.Response {
	res := &plugin.Response{}
	if r.Chance(1, 4) {
		s := randText(r, 20)
		res.Error = &s
	}
	if r.Chance(4, 5) {
		n := r.Intn(4)
		res.Contents = make([]*plugin.Generated, 0, n)
		for i := 0; i < n; i++ {
			g := &plugin.Generated{Content: randText(r, 40)}
			if r.Chance(2, 3) {
				s := "f" + randText(r, 6)
				g.Name = &s
			}
			if r.Chance(1, 3) {
				s := randText(r, 8)
				g.InsertionPoint = &s
			}
			res.Contents = append(res.Contents, g)
		}
	}
	if r.Chance(1, 2) {
		n := r.Intn(3)
		res.Warnings = make([]string, 0, n)
		for i := 0; i < n; i++ {
			res.Warnings = append(res.Warnings, randText(r, 20))
		}
	}
	return res
}

func goUnmarshalResponse(bs []byte) (ok bool, dump []byte, why string) {
	defer func() {
		if r := recover(); r != nil {
			ok, dump, why = false, nil, "panic"
		}
	}()
	res, err := plugin.UnmarshalResponse(bs)
	if err != nil {
		return false, nil, "error"
	}
	return true, reqdump.Response(res), ""
}

// hugeCount: somewhere a list field header of Response (id 2 or 3) is followed by a count
// larger than the input itself
func hugeCount(bs []byte) bool {
	for i := 0; i+8 <= len(bs); i++ {
		if bs[i] == 15 && bs[i+1] == 0 && (bs[i+2] == 2 || bs[i+2] == 3) {
			c := uint32(bs[i+4])<<24 | uint32(bs[i+5])<<16 | uint32(bs[i+6])<<8 | uint32(bs[i+7])
			if c < 1<<31 && int(c) > len(bs) {
				return true
			}
		}
	}
	return false
}

func damage(r *rng.R, b []byte) ([]byte, string) {
	c := append([]byte(nil), b...)
	switch r.Intn(7) {
	case 0:
		if len(c) > 0 {
			return c[:r.Intn(len(c))], "truncate"
		}
		return c, "none"
	case 1:
		if len(c) > 0 {
			c[r.Intn(len(c))] = byte(r.Intn(256))
		}
		return c, "byte"
	case 2:
		if len(c) > 0 {
			i := r.Intn(len(c))
			c[i] ^= 1 << uint(r.Intn(8))
		}
		return c, "bit"
	case 3:
		n := r.Intn(12)
		g := make([]byte, n)
		for i := range g {
			g[i] = byte(r.Intn(256))
		}
		return g, "garbage"
	case 4:
		i := 0
		if len(c) > 0 {
			i = r.Intn(len(c))
		}
		ins := []byte{byte(r.Intn(17)), 0, byte(r.Intn(6)), byte(r.Intn(3))}
		return append(append(append([]byte(nil), c[:i]...), ins...), c[i:]...), "insert"
	case 5:
		// an unknown field of a random wire type in front, correctly encoded for small types
		t := []byte{2, 3, 4, 6, 8, 10, 11}[r.Intn(7)]
		sz := map[byte]int{2: 1, 3: 1, 4: 8, 6: 2, 8: 4, 10: 8, 11: 4}[t]
		f := append([]byte{t, 0, byte(9 + r.Intn(5))}, make([]byte, sz)...)
		return append(f, c...), "unknown-field"
	default:
		return append(c, byte(r.Intn(256)), byte(r.Intn(256))), "trailing"
	}
}

// ---------------------------------------------------------------------------------- process level

type pluginSpec struct {
	Name     string // -p name
	Released bool   // run the build that reports thriftgo v0.4.2
	Opts     string // option part of the -p string
	Kind     string // respond | timeout | exit
	Exit     int
	Stdout   []byte
	Stderr   string
	SleepBeforeMs, SleepAfterMs int
}

type procSpec struct {
	Label    string
	Plugins  []pluginSpec
	LangArg  string
	Recurse  bool
	Compress bool // THRIFTGO_PLUGIN_COMPRESS_INCLUDE=1
	LimitMs  int
	Quiet    bool
	Echo     bool // also compare the request each plugin received (volume: about 13 kB of case text each)
	Small    bool // run on the small two-file program instead of the diamond
}

type procObs struct {
	Kind     string   `json:"kind"`
	Label    string   `json:"label"`
	Argv     []string `json:"argv"`
	Files    map[string]string `json:"idl_files"`
	Exit     int      `json:"exit"`
	Stderr   string   `json:"stderr"`
	Written  []string `json:"written"`
	Alive    bool     `json:"alive"`
	Plugins  []string `json:"plugins"`
	WallMs   int64    `json:"wall_ms"`
	BackendOK bool    `json:"backend_ok"`
}

func mustMarshal(res *plugin.Response) []byte {
	b, _ := plugin.MarshalResponse(res)
	return b
}

func sp(s string) *string { return &s }

func listFiles(root string) map[string]string {
	out := map[string]string{}
	filepath.Walk(root, func(p string, info os.FileInfo, err error) error {
		if err == nil && !info.IsDir() {
			rel, _ := filepath.Rel(root, p)
			b, _ := os.ReadFile(p)
			out[rel] = string(b)
		}
		return nil
	})
	return out
}

func coqPluginResult(p pluginSpec, wroteStdout, wroteStderr bool) string {
	switch p.Kind {
	case "timeout":
		so, se := p.Stdout, p.Stderr
		if !wroteStdout {
			so = nil // killed before it wrote anything to stdout
		}
		if !wroteStderr {
			se = ""
		}
		return fmt.Sprintf("(TimedOut %s %s)", blob(so), bstr(se))
	default:
		return fmt.Sprintf("(Exited %s %s %s)", coqfmt.Z(int64(p.Exit)), blob(p.Stdout), bstr(p.Stderr))
	}
}

type env struct {
	thriftgo, plugRel, plugLocal string
	work                        string
}

// runProc runs one thriftgo process with the given plugins on the program in root (main file
// mainRel), and returns the CProc term, its description and the echoed requests (as CReq terms).
func (e *env) runProc(id int, root, mainRel string, idl map[string]string, baseline map[string]string, ps procSpec) (terms []string, descs []interface{}) {
	dir := filepath.Join(e.work, fmt.Sprintf("proc%03d", id))
	bin := filepath.Join(dir, "bin")
	out := filepath.Join(dir, "out")
	os.MkdirAll(bin, 0o755)
	argv := []string{"-g", ps.LangArg, "-o", out, "--plugin-time-limit", fmt.Sprintf("%dms", ps.LimitMs)}
	if ps.Recurse {
		argv = append(argv, "-r")
	}
	if ps.Quiet {
		argv = append(argv, "-q")
	}
	var plugArgs []string
	for i, p := range ps.Plugins {
		link := filepath.Join(bin, fmt.Sprintf("p%d-%s", i, p.Name))
		target := e.plugLocal
		if p.Released {
			target = e.plugRel
		}
		os.Symlink(target, link)
		stdoutFile := ""
		if p.Stdout != nil {
			stdoutFile = link + ".stdout"
			os.WriteFile(stdoutFile, p.Stdout, 0o644)
		}
		cfg := map[string]interface{}{"record": link + ".rec", "stderr": p.Stderr, "stdout_file": stdoutFile,
			"sleep_before_ms": p.SleepBeforeMs, "sleep_after_ms": p.SleepAfterMs, "exit": p.Exit}
		b, _ := json.Marshal(cfg)
		os.WriteFile(link+".cfg.json", b, 0o644)
		arg := p.Name + "=" + link
		if p.Opts != "" {
			arg += ":" + p.Opts
		}
		plugArgs = append(plugArgs, arg)
		argv = append(argv, "-p", arg)
	}
	argv = append(argv, mainRel)
	cmd := exec.Command(e.thriftgo, argv...)
	cmd.Dir = root
	cmd.Env = append(os.Environ(), "THRIFTGO_PLUGIN_COMPRESS_INCLUDE=")
	if ps.Compress {
		cmd.Env = append(os.Environ(), "THRIFTGO_PLUGIN_COMPRESS_INCLUDE=1")
	}
	var stderr, stdout bytes.Buffer
	cmd.Stdout, cmd.Stderr = &stdout, &stderr
	t0 := time.Now()
	err := cmd.Run()
	wall := time.Since(t0)
	exit := 0
	if err != nil {
		if ee, ok := err.(*exec.ExitError); ok {
			exit = ee.ExitCode()
		} else {
			exit = 125
		}
	}
	// liveness of the plugin processes right after thriftgo returned
	alive := false
	for i, p := range ps.Plugins {
		link := filepath.Join(bin, fmt.Sprintf("p%d-%s", i, p.Name))
		if b, err := os.ReadFile(link + ".rec.pid"); err == nil {
			var pid int
			fmt.Sscan(string(b), &pid)
			if pid > 0 {
				if _, done := os.Stat(link + ".rec.done"); done != nil && syscall.Kill(pid, 0) == nil {
					// not finished by itself: is it really still running (not a zombie of ours: it is not our child)
					if st, err := os.ReadFile(fmt.Sprintf("/proc/%d/stat", pid)); err == nil && !strings.Contains(string(st), ") Z ") {
						alive = true
						syscall.Kill(pid, syscall.SIGKILL)
					}
				}
			}
		}
	}
	written := listFiles(out)
	var names []string
	for n := range written {
		names = append(names, n)
	}
	sort.Strings(names)
	backendOK := true
	for n := range baseline {
		if _, ok := written[n]; !ok {
			backendOK = false
		}
	}
	// plugin-owned files: everything that is not in the baseline
	var owned []string
	for _, n := range names {
		if _, ok := baseline[n]; !ok {
			owned = append(owned, fmt.Sprintf("(%s, %s)", bstr(n), blob([]byte(written[n]))))
		}
	}
	var plugTerms, plugDesc []string
	for i, p := range ps.Plugins {
		link := filepath.Join(bin, fmt.Sprintf("p%d-%s", i, p.Name))
		_, e1 := os.Stat(link + ".rec.wrote-stdout")
		_, e2 := os.Stat(link + ".rec.wrote-stderr")
		plugTerms = append(plugTerms, fmt.Sprintf("(%s, %s)", bstr(p.Name), coqPluginResult(p, e1 == nil, e2 == nil)))
		plugDesc = append(plugDesc, fmt.Sprintf("%s kind=%s exit=%d stdout=%s stderr=%q before=%d after=%d", p.Name, p.Kind, p.Exit, hexs(p.Stdout), p.Stderr, p.SleepBeforeMs, p.SleepAfterMs))
	}
	term := fmt.Sprintf("CProc (mkproccase %s %s %s %s %s %s %s %s)", coqfmt.List(plugTerms), coqfmt.Z(int64(exit)),
		coqfmt.List(owned), coqfmt.Bool(backendOK), coqfmt.Bool(len(written) > 0), blob(stderr.Bytes()), coqfmt.Bool(alive),
		bstr(out+"/"))
	terms = append(terms, term)
	descs = append(descs, &procObs{Kind: "proc", Label: ps.Label, Argv: argv, Files: idl, Exit: exit, Stderr: stderr.String() + stdout.String(),
		Written: names, Alive: alive, Plugins: plugDesc, WallMs: wall.Milliseconds(), BackendOK: backendOK})

	// echoed requests: what each plugin process received and decoded
	for i, p := range ps.Plugins {
		if !ps.Echo {
			break
		}
		link := filepath.Join(bin, fmt.Sprintf("p%d-%s", i, p.Name))
		stdin, err := os.ReadFile(link + ".rec.stdin")
		if err != nil {
			continue // the plugin was never started (an earlier one failed)
		}
		// the request the compiler must have built, from the same command line, in-process
		cwd, _ := os.Getwd()
		os.Chdir(root)
		full := append([]string{"thriftgo"}, argv...)
		// buildRequest fills in the parameters of the FIRST -p: rotate so that plugin i is first
		exp, berr := buildRequest(full)
		if berr == nil && i < len(plugArgs) {
			if d, err := plugin.ParseCompactArguments(plugArgs[i]); err == nil {
				exp.PluginParameters = plugin.Pack(d.Options)
			}
		}
		os.Chdir(cwd)
		if berr != nil {
			continue
		}
		dump, derr := reqdump.Request(exp)
		if derr != nil {
			continue
		}
		o := &reqObs{Kind: "echo:" + ps.Label, LangArg: ps.LangArg, PluginArg: plugArgs[i], Argv: argv, Files: idl, CheckArgs: true}
		got, _ := os.ReadFile(link + ".rec.dump")
		same := got != nil && bytes.Equal(got, dump)
		var plain, comp []byte
		if plugin.VerifHasDataTrailerFeature(stdin, plugin.VerifFeatureCompressInclude) {
			o.HasComp, comp, o.CompLen = true, stdin, len(stdin)
			o.UnmComp, o.Restored = same, true
			// the plain variant of the same request, in-process
			plain, _ = plugin.MarshalRequest(exp)
			o.UnmPlain = true
		} else {
			plain, o.PlainLen = stdin, len(stdin)
			o.UnmPlain = same
		}
		o.DumpHex = ""
		terms = append(terms, reqTerm(o, dump, plain, comp))
		descs = append(descs, o)
	}
	return
}

// ---------------------------------------------------------------------------------- main

const diamondMain = `include "a/left.thrift"
include "b/right.thrift"
include "shared/base.thrift"
namespace go demo.main
struct Top { 1: left.L l, 2: right.R r, 3: base.Id id = 7, 4: optional list<base.Color> cs }
service S extends left.LS { base.Id get(1: Top t) throws (1: base.Oops e) }
`
const diamondLeft = `include "../shared/base.thrift"
namespace go demo.left
struct L { 1: required base.Id id, 2: map<string, base.Color> m (k = "v") }
service LS { void ping() }
`
const diamondRight = `include "../shared/base.thrift"
include "../a/left.thrift"
namespace go demo.right
union R { 1: base.Id id, 2: left.L l }
const base.Color C = base.Color.GREEN
`
const diamondBase = `namespace go demo.base
typedef i64 Id
enum Color { RED = 1, GREEN = 3 }
exception Oops { 1: string why = "because" }
const map<string, list<i32>> M = {"a": [1, 2], "b": []}
`

func main() {
	seed := flag.Uint64("seed", 1, "")
	tier := flag.String("tier", "quick", "")
	out := flag.String("out", "cases", "")
	thriftgo := flag.String("thriftgo", "", "thriftgo binary (process-level stream is skipped when empty)")
	plugRel := flag.String("plugin-released", "", "faultplugin built in a module that requires thriftgo v0.4.2")
	plugLocal := flag.String("plugin-local", "", "faultplugin built in the harness module")
	flag.Parse()
	r := rng.New(*seed*0x9e3779b97f4a7c15 + 11)
	os.MkdirAll(*out, 0o755)
	w := &shardWriter{dir: *out}
	stats := map[string]int{}
	samples := []string{}
	distinct := map[string]bool{}

	nReq, nResp, nTrailer, nArgs, nProcRandom := 9, 120, 30, 60, 0
	maxFiles, size := 4, 3
	if *tier == "thorough" {
		nReq, nResp, nTrailer, nArgs, nProcRandom = 150, 2500, 300, 800, 24
		size = 4
	}
	absOut, _ := filepath.Abs(*out)
	work, _ := os.MkdirTemp(filepath.Dir(absOut), "c11work")
	defer os.RemoveAll(work)
	startDir, _ := os.Getwd()

	// ---- args (cheap, first: the corpus of shapes that once mattered)
	argCorpus := []string{"", "go", "go:", "go:a", "go:a=b", "go:a=b,c", "go:a,,b", "go:a=b=c", "go:=", "go:=x", "p=/x/y:k=v", ":a", "a:b:c", "go:,",
		"go:template=slim,gen_setter=", "name=path:opt1,opt2=v"}
	for i := 0; i < nArgs; i++ {
		var s string
		if i < len(argCorpus) {
			s = argCorpus[i]
		} else if r.Chance(1, 3) {
			s = randText(r, 12)
		} else {
			s = randPluginArg(r, rng.Pick(r, []string{"p", "go", "rec", "x"}), rng.Pick(r, []string{"", "/a/b", "rel/p"}))
		}
		d, err := plugin.ParseCompactArguments(s)
		ok := err == nil
		name, packed := "", []string{}
		if ok {
			name = d.Name
			for _, x := range plugin.Pack(d.Options) {
				packed = append(packed, bstr(x))
			}
		}
		w.Add(fmt.Sprintf("CArgs %s %s %s %s", bstr(s), coqfmt.Bool(ok), bstr(name), coqfmt.List(packed)),
			map[string]interface{}{"kind": "args", "s": s, "ok": ok})
		stats["args"]++
		distinct["args:"+s] = true
	}

	// ---- trailer
	for i := 0; i < nTrailer; i++ {
		d := []byte(randText(r, 30))
		if r.Chance(1, 5) {
			d = append(d, []byte(plugin.VerifPluginDataTrailer)...) // plain data that happens to end like a trailer
		}
		if r.Chance(1, 8) {
			d = append([]byte{byte(r.Intn(256))}, []byte(plugin.VerifPluginDataTrailer)...)
		}
		f, f2 := uint8(r.Intn(256)), uint8(r.Intn(256))
		if r.Chance(1, 2) {
			f = uint8(1 << uint(r.Intn(8)))
		}
		if r.Chance(1, 2) {
			f2 = f & uint8(r.Intn(256))
		}
		app := plugin.VerifAppendDataTrailer(append([]byte(nil), d...), f)
		has := plugin.VerifHasDataTrailerFeature(app, f2)
		plainHas := plugin.VerifHasDataTrailerFeature(d, f2)
		w.Add(fmt.Sprintf("CTrailer %s %s %s %s %s %s", blob(d), coqfmt.Z(int64(f)), coqfmt.Z(int64(f2)), blob(app), coqfmt.Bool(has), coqfmt.Bool(plainHas)),
			map[string]interface{}{"kind": "trailer", "data": hexs(d), "f": f, "f2": f2})
		stats["trailer"]++
		distinct[fmt.Sprintf("trailer:%v:%v:%v", f&f2 == f2, plainHas, len(d) > 20)] = true
	}

	// ---- responses
	respCorpus := [][]byte{{}, {0}, {0xde, 0xad, 0xbe, 0xef}, {11, 0, 1, 0, 0, 0, 0, 0}, {11, 0, 1, 0xff, 0xff, 0xff, 0xff, 0}, {15, 0, 2, 12, 0, 0, 0, 1, 0, 0},
		{15, 0, 2, 8, 0, 0, 0, 1, 11, 0, 1, 0, 0, 0, 1, 'x', 0, 0}, {12, 0, 9, 0, 0}, {0x7f, 0, 1}, {13, 0, 9, 11, 11, 0, 0, 0, 0, 0}}
	for i := 0; i < nResp; i++ {
		var bs []byte
		how := "valid"
		if i < len(respCorpus) {
			bs, how = respCorpus[i], "corpus"
		} else {
			bs = mustMarshal(randResponse(r))
			if r.Chance(3, 5) {
				bs, how = damage(r, bs)
			}
		}
		if hugeCount(bs) {
			// Response.FastRead does make([]T, count) before it reads the elements: a damaged count
			// of 2^31 elements costs gigabytes and minutes; such inputs are counted, not run
			stats["resp.skipped_huge_list_count"]++
			continue
		}
		ok, dump, why := goUnmarshalResponse(bs)
		w.Add(fmt.Sprintf("CResp %s %s %s", blob(bs), coqfmt.Bool(ok), blob(dump)),
			map[string]interface{}{"kind": "resp", "bytes": hexs(bs), "how": how, "go_ok": ok, "why": why})
		stats["resp."+how]++
		if ok {
			stats["resp.go_accepts"]++
		} else {
			stats["resp.go_rejects."+why]++
		}
		distinct["resp:"+hexs(bs)] = true
	}

	// ---- requests, in-process
	type prog struct {
		root, main string
		files      map[string]string
	}
	var progs []prog
	mkDiamond := func() prog {
		root, _ := os.MkdirTemp(work, "diamond")
		files := map[string]string{"main.thrift": diamondMain, "a/left.thrift": diamondLeft, "b/right.thrift": diamondRight, "shared/base.thrift": diamondBase}
		for n, t := range files {
			os.MkdirAll(filepath.Dir(filepath.Join(root, n)), 0o755)
			os.WriteFile(filepath.Join(root, n), []byte(t), 0o644)
		}
		return prog{root, "main.thrift", files}
	}
	progs = append(progs, mkDiamond())
	// corpus: two different files with one base name, both included twice
	{
		root, _ := os.MkdirTemp(work, "samebase")
		files := map[string]string{"main.thrift": "include \"a/t.thrift\"\ninclude \"b/t.thrift\"\ninclude \"c.thrift\"\nstruct M { 1: c.C x }\n",
			"a/t.thrift": "struct A { 1: i32 x }\n", "b/t.thrift": "struct B { 1: string y }\nenum E { ONE = 1 }\n",
			"c.thrift": "include \"a/t.thrift\"\ninclude \"b/t.thrift\"\nstruct C { 1: i32 z }\n"}
		for n, t := range files {
			os.MkdirAll(filepath.Dir(filepath.Join(root, n)), 0o755)
			os.WriteFile(filepath.Join(root, n), []byte(t), 0o644)
		}
		progs = append(progs, prog{root, "main.thrift", files})
	}
	// corpus: a legal file name that looks like a compression stub (known finding)
	{
		root, _ := os.MkdirTemp(work, "stublike")
		files := map[string]string{"main.thrift": "include \"THRIFGO_REF:a.thrift\"\ninclude \"b.thrift\"\nstruct M { 1: b.B x }\n",
			"THRIFGO_REF:a.thrift": "struct A { 1: i32 x }\n", "b.thrift": "include \"THRIFGO_REF:a.thrift\"\nstruct B { 1: i32 y }\n"}
		for n, t := range files {
			os.WriteFile(filepath.Join(root, n), []byte(t), 0o644)
		}
		progs = append(progs, prog{root, "main.thrift", files})
	}
	rejected := 0
	for i := 0; i < nReq; i++ {
		opt := idlgen.Options{Envelope: idlgen.Valid, MaxFiles: maxFiles, Size: size}
		if i%3 == 0 {
			opt.MaxFiles = 6
		}
		p := idlgen.Generate(r.Fork(), opt)
		root, _ := os.MkdirTemp(work, "prog")
		if _, err := p.WriteTree(root, idlgen.RandomLayout(r.Fork())); err != nil {
			continue
		}
		for k, v := range p.Stats() {
			stats["idl."+k] += v
		}
		progs = append(progs, prog{root, p.Main(), p.Render(nil)})
	}
	for i, pg := range progs {
		os.Chdir(pg.root)
		lang := randLangArg(r)
		parg := randPluginArg(r, rng.Pick(r, []string{"rec", "p", "my_plugin"}), rng.Pick(r, []string{"", "/opt/bin/p", "./p"}))
		argv := []string{"thriftgo", "-g", lang, "-p", parg}
		if r.Chance(1, 2) {
			argv = append(argv, "-o", rng.Pick(r, []string{"out", "/tmp/gen out", "./a/b/{namespace}"}))
		}
		if r.Chance(1, 2) {
			argv = append(argv, "-r")
		}
		argv = append(argv, pg.main)
		req, err := buildRequest(argv)
		os.Chdir(startDir)
		if err != nil {
			rejected++
			stats["req.rejected_by_impl"]++
			continue
		}
		o := &reqObs{Kind: "req", LangArg: lang, PluginArg: parg, Argv: argv, Files: pg.files, CheckArgs: true}
		dump, plain, comp, err := observeRequest(req, o)
		if err != nil && o.Panic == "" {
			stats["req.undumpable"]++
			continue
		}
		w.Add(reqTerm(o, dump, plain, comp), o)
		stats["req"]++
		stats[fmt.Sprintf("req.files=%d", o.NFiles)]++
		if o.Diamond {
			stats["req.diamond"]++
		}
		if o.HasComp {
			stats["req.with_compression"]++
		}
		stats["req.bytes"] += len(plain) + len(comp) + len(dump)
		distinct[fmt.Sprintf("req:%d", i)] = true
		if len(samples) < 3 {
			samples = append(samples, fmt.Sprintf("request: %s (files=%d diamond=%v plain=%dB comp=%dB)", strings.Join(argv[1:], " "), o.NFiles, o.Diamond, len(plain), len(comp)))
		}
	}

	// ---- process level
	if *thriftgo != "" && *plugRel != "" && *plugLocal != "" {
		e := &env{thriftgo: *thriftgo, plugRel: *plugRel, plugLocal: *plugLocal, work: work}
		dm := progs[0]
		// baseline: the backend's own files, without any plugin
		baseDir := filepath.Join(work, "baseline")
		bcmd := exec.Command(*thriftgo, "-g", "go", "-o", filepath.Join(baseDir, "out"), "-r", dm.main)
		bcmd.Dir = dm.root
		if outb, err := bcmd.CombinedOutput(); err != nil {
			fmt.Fprintln(os.Stderr, "baseline run failed:", err, string(outb))
			os.Exit(1)
		}
		baselineR := listFiles(filepath.Join(baseDir, "out"))
		bcmd2 := exec.Command(*thriftgo, "-g", "go", "-o", filepath.Join(baseDir, "out2"), dm.main)
		bcmd2.Dir = dm.root
		bcmd2.CombinedOutput()
		baselineNR := listFiles(filepath.Join(baseDir, "out2"))

		okResp := func(outdir string, tag string) []byte {
			return mustMarshal(&plugin.Response{
				Contents: []*plugin.Generated{
					{Content: "head " + tag + "\n" + plugin.InsertionPoint("imports") + "\nbody\n" + plugin.InsertionPoint("tail", "x") + "\n", Name: sp(filepath.Join(outdir, "extra", tag+".txt"))},
					{Content: "patched-in-" + tag + "\n", InsertionPoint: sp("imports")},
					{Content: "second-" + tag + "\n", InsertionPoint: sp("imports")},
					{Content: "named patch\n", Name: sp(filepath.Join(outdir, "extra", tag+".txt")), InsertionPoint: sp("tail.x")},
					{Content: "plain file of " + tag, Name: sp(filepath.Join(outdir, tag+"-notes.md"))},
				},
				Warnings: []string{"warning-one-from-" + tag, "warning two from " + tag},
			})
		}
		specs := func(outOf func(id int) string, base int) []procSpec {
			id := base
			next := func() string { s := outOf(id); id++; return s }
			var l []procSpec
			add := func(ps procSpec) { l = append(l, ps) }
			o := next()
			add(procSpec{Echo: true, Label: "ok-files-patches-warnings", LangArg: "go", Recurse: true, LimitMs: 5000,
				Plugins: []pluginSpec{{Name: "alpha", Opts: "k=v,flag,x=", Kind: "respond", Stdout: okResp(o, "alpha"), Stderr: "alpha-says-hello-on-stderr\n"}}})
			o = next()
			add(procSpec{Echo: true, Label: "ok-compressed-diamond", LangArg: "go:gen_setter,naming_style=golint", Recurse: true, Compress: true, LimitMs: 5000,
				Plugins: []pluginSpec{{Name: "alpha", Released: true, Opts: "a=1,b", Kind: "respond", Stdout: okResp(o, "alpha")},
					{Name: "beta", Released: true, Opts: "only_beta=yes", Kind: "respond", Stdout: okResp(o, "beta")}}})
			next()
			add(procSpec{Label: "ok-empty-response", LangArg: "go", LimitMs: 5000,
				Plugins: []pluginSpec{{Name: "alpha", Kind: "respond", Stdout: mustMarshal(&plugin.Response{})}}})
			o = next()
			er := okResp(o, "alpha")
			add(procSpec{Label: "error-response", LangArg: "go", Recurse: true, LimitMs: 5000,
				Plugins: []pluginSpec{{Name: "alpha", Kind: "respond", Stdout: mustMarshal(&plugin.Response{Error: sp("plugin says no"), Warnings: []string{"warning-before-error"},
					Contents: []*plugin.Generated{{Content: "x", Name: sp(filepath.Join(o, "never.txt"))}}})}}})
			_ = er
			o = next()
			add(procSpec{Label: "empty-error-string", LangArg: "go", LimitMs: 5000,
				Plugins: []pluginSpec{{Name: "alpha", Kind: "respond", Stdout: mustMarshal(&plugin.Response{Error: sp(""),
					Contents: []*plugin.Generated{{Content: "kept", Name: sp(filepath.Join(o, "kept.txt"))}}})}}})
			o = next()
			add(procSpec{Label: "exit-3-with-good-response", LangArg: "go", Recurse: true, LimitMs: 5000,
				Plugins: []pluginSpec{{Name: "alpha", Kind: "exit", Exit: 3, Stdout: okResp(o, "alpha"), Stderr: "dying with 3\n"}}})
			next()
			add(procSpec{Label: "exit-1-no-output", LangArg: "go", LimitMs: 5000,
				Plugins: []pluginSpec{{Name: "alpha", Kind: "exit", Exit: 1}}})
			o = next()
			add(procSpec{Label: "sleep-beyond-limit", LangArg: "go", Recurse: true, LimitMs: 1500,
				Plugins: []pluginSpec{{Name: "alpha", Kind: "timeout", SleepBeforeMs: 8000, Stdout: okResp(o, "alpha")}}})
			o = next()
			add(procSpec{Label: "answer-then-sleep-beyond-limit", LangArg: "go", LimitMs: 1500,
				Plugins: []pluginSpec{{Name: "alpha", Kind: "timeout", SleepAfterMs: 8000, Stdout: okResp(o, "alpha")}}})
			next()
			add(procSpec{Label: "garbage-bytes", LangArg: "go", Recurse: true, LimitMs: 5000,
				Plugins: []pluginSpec{{Name: "alpha", Kind: "respond", Stdout: []byte{0xde, 0xad, 0xbe, 0xef}}}})
			o = next()
			full := okResp(o, "alpha")
			add(procSpec{Label: "partial-output", LangArg: "go", Recurse: true, LimitMs: 5000,
				Plugins: []pluginSpec{{Name: "alpha", Kind: "respond", Stdout: full[:len(full)*2/3]}}})
			next()
			add(procSpec{Label: "no-output-at-all", LangArg: "go", LimitMs: 5000,
				Plugins: []pluginSpec{{Name: "alpha", Kind: "respond", Stdout: []byte{}}}})
			o = next()
			add(procSpec{Echo: true, Label: "second-plugin-fails", LangArg: "go", Recurse: true, LimitMs: 5000,
				Plugins: []pluginSpec{{Name: "alpha", Kind: "respond", Stdout: okResp(o, "alpha")},
					{Name: "beta", Kind: "exit", Exit: 2, Stderr: "beta fails\n"}}})
			o = next()
			add(procSpec{Echo: true, Label: "two-good-plugins-local-build", LangArg: "go:gen_deep_equal", LimitMs: 5000, Compress: true,
				Plugins: []pluginSpec{{Name: "alpha", Opts: "z,y,x", Kind: "respond", Stdout: okResp(o, "alpha")},
					{Name: "beta", Opts: "x,y,z", Kind: "respond", Stdout: okResp(o, "beta"), Stderr: "beta-stderr-note"}}})
			return l
		}
		outOf := func(id int) string { return filepath.Join(work, fmt.Sprintf("proc%03d", id), "out") }
		all := specs(outOf, 0)

		// ---- several plugins in ONE invocation: each must receive the pack of exactly its own
		// options (the request object is shared by the plugin loop of Generate), the same
		// generator parameters / language / output path / recursive flag / version, the same AST
		smRoot, _ := os.MkdirTemp(work, "small")
		sm := prog{smRoot, "svc.thrift", map[string]string{
			"svc.thrift": "include \"t.thrift\"\nnamespace go demo.small\nstruct Q { 1: t.Id id, 2: optional string s = \"x\" }\nservice Svc { Q get(1: t.Id id) }\n",
			"t.thrift":   "namespace go demo.small.t\ntypedef i64 Id\n"}}
		for n, t := range sm.files {
			os.WriteFile(filepath.Join(sm.root, n), []byte(t), 0o644)
		}
		smBase := map[bool]map[string]string{}
		for _, rec := range []bool{false, true} {
			od := filepath.Join(baseDir, fmt.Sprintf("small-%v", rec))
			a := []string{"-g", "go", "-o", od}
			if rec {
				a = append(a, "-r")
			}
			c := exec.Command(*thriftgo, append(a, sm.main)...)
			c.Dir = sm.root
			if outb, err := c.CombinedOutput(); err != nil {
				fmt.Fprintln(os.Stderr, "baseline run (small) failed:", err, string(outb))
				os.Exit(1)
			}
			smBase[rec] = listFiles(od)
		}
		multi := func(label string, lens []int, opts []string, released, compress, recurse bool) procSpec {
			ps := procSpec{Label: label, LangArg: rng.Pick(r, []string{"go", "go:gen_setter", "go:naming_style=golint,gen_deep_equal"}),
				Recurse: recurse, Compress: compress, LimitMs: 8000, Echo: true, Small: true}
			for q, n := range lens {
				o := optsOfLen(r, n)
				if opts != nil {
					o = opts[q]
				}
				ps.Plugins = append(ps.Plugins, pluginSpec{Name: fmt.Sprintf("q%d", q), Released: released, Opts: o, Kind: "respond",
					Stdout: mustMarshal(&plugin.Response{Warnings: []string{fmt.Sprintf("multi-%s-q%d", label, q)}})})
			}
			return ps
		}
		// corpus: options, none, options (the second plugin must not inherit the first one's)
		all = append(all, multi("multi-corpus-opts-none-opts", []int{2, 0, 1}, []string{"alpha=1,beta", "", "gamma=3"}, false, false, false))
		all = append(all, multi("multi-corpus-none-after-opts-compressed", []int{3, 0, 0, 1}, []string{"a=1,b,c=", "", "", "d"}, true, true, true))
		// every ordered pair of adjacent option-list lengths 0..3 (a de Bruijn sequence cut into
		// invocations of up to four plugins, overlapping by one)
		db := []int{0, 0, 1, 0, 2, 0, 3, 1, 1, 2, 1, 3, 2, 2, 3, 3, 0}
		for k, at := 0, 0; at+1 < len(db); k, at = k+1, at+3 {
			end := at + 4
			if end > len(db) {
				end = len(db)
			}
			all = append(all, multi(fmt.Sprintf("multi-lens-%d", k), db[at:end], nil, k%2 == 1, k%2 == 1, k%3 == 0))
		}
		nMultiRandom := 0
		if *tier == "thorough" {
			nMultiRandom = 40
		}
		for k := 0; k < nMultiRandom; k++ {
			lens := make([]int, 2+r.Intn(3))
			for i := range lens {
				lens[i] = r.Intn(4)
			}
			rel := r.Bool()
			all = append(all, multi(fmt.Sprintf("multi-random-%d", k), lens, nil, rel, rel && r.Bool(), r.Bool()))
		}
		// thorough: random responses and faults on top
		for k := 0; k < nProcRandom; k++ {
			id := len(all)
			o := outOf(id)
			var ps procSpec
			ps.Label = fmt.Sprintf("random-%d", k)
			ps.LangArg, ps.Recurse, ps.LimitMs, ps.Compress = "go", r.Bool(), 5000, r.Bool()
			ps.Echo = k%4 == 0
			np := 1 + r.Intn(2)
			for q := 0; q < np; q++ {
				p := pluginSpec{Name: []string{"alpha", "beta"}[q], Released: r.Bool(), Opts: randOpts(r, plugOptNames, 3), Kind: "respond"}
				res := randResponse(r)
				res.Error = nil
				// keep the plugin's items inside its own files
				for gi, g := range res.Contents {
					if g.Name != nil || gi == 0 {
						g.Name = sp(filepath.Join(o, fmt.Sprintf("r%d-%d.txt", q, r.Intn(3))))
					}
					if g.InsertionPoint != nil {
						g.InsertionPoint = sp(rng.Pick(r, []string{"a", "b"}))
					}
					g.Content = strings.ReplaceAll(g.Content, "\r", " ") + plugin.InsertionPoint(rng.Pick(r, []string{"a", "b"})) + "\n"
				}
				p.Stdout = mustMarshal(res)
				switch r.Intn(8) {
				case 0:
					p.Kind, p.Exit = "exit", 1+r.Intn(120)
				case 1:
					p.Stdout, _ = damage(r, p.Stdout)
				case 2:
					e := "random error"
					res.Error = &e
					p.Stdout = mustMarshal(res)
				}
				if r.Chance(1, 3) {
					p.Stderr = "stderr-of-" + p.Name + "\n"
				}
				ps.Plugins = append(ps.Plugins, p)
			}
			all = append(all, ps)
		}
		type result struct {
			terms []string
			descs []interface{}
		}
		results := make([]result, len(all))
		// the runs themselves are sequential apart from sleeping plugins: each needs the process
		// working directory for the in-process expectation
		for i, ps := range all {
			base := baselineNR
			if ps.Recurse {
				base = baselineR
			}
			pg := dm
			if ps.Small {
				pg, base = sm, smBase[ps.Recurse]
			}
			t, d := e.runProc(i, pg.root, pg.main, pg.files, base, ps)
			results[i] = result{t, d}
		}
		for i, res := range results {
			for k := range res.terms {
				w.Add(res.terms[k], res.descs[k])
				if k == 0 {
					stats["proc"]++
					stats["proc."+strings.SplitN(all[i].Label, "-", 2)[0]]++
					distinct["proc:"+all[i].Label] = true
					if len(samples) < 6 && (i == 0 || i == 7) {
						po := res.descs[0].(*procObs)
						samples = append(samples, fmt.Sprintf("process: %s -> exit %d, %d files, alive=%v", all[i].Label, po.Exit, len(po.Written), po.Alive))
					}
				} else {
					stats["req.echo"]++
					distinct[fmt.Sprintf("echo:%d:%d", i, k)] = true
				}
			}
		}
	} else {
		stats["proc.skipped"] = 1
	}
	w.close()
	os.Chdir(startDir)

	keys := make([]string, 0, len(stats))
	for k := range stats {
		keys = append(keys, k)
	}
	sort.Strings(keys)
	st := map[string]interface{}{}
	for _, k := range keys {
		st[k] = stats[k]
	}
	st["evaluations"] = w.total
	st["distinct_nontrivial"] = len(distinct)
	st["rule"] = "distinct = different input (argument string / trailer class / response bytes / IDL program + command line / process scenario); trivial = none (every case runs real code)"
	st["samples"] = samples
	casefile.WriteMeta(*out, map[string]interface{}{"property": "C11", "seed": *seed, "tier": *tier, "total": w.total, "shards": w.Shards, "stats": st})
	fmt.Printf("c11: %d cases in %d shards (rejected programs: %d)\n", w.total, len(w.Shards), rejected)
}
