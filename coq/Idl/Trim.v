(* Idl/Trim.v — executable model of the IDL trimmer
   (/repo/tool/trimmer/trim: trimmer.go doTrimAST, mark.go, pre-process.go,
   traversal.go), on RESOLVED programs (Idl/Ast.v as dumped by harness/astdump after
   semantic.ResolveSymbols).  Definitions only; proofs are in Idl/TrimFacts.v.

   Go                                   here
   ---------------------------------    ------------------------------------------
   t.marks[filename] (set of AST        [ms_marks : list node]; a node is named by the
   node pointers)                       Filename of its AST and its position in the
                                        per-kind list (pointer identity = position)
   t.extServices                        [ms_ext]  (services whose `extends` is cleared
                                        by cleanServiceExtends)
   t.keptPartCache                      [ms_cache]
   t.preserveCache                      not needed (checkPreserve is a pure function)
   t.trimMethodValid, struct/field      not modelled (warnings and statistics only)
   counters
   regexp2 MatchString / Compile        Section variables [matches] / [compiles]
   preserveRegex on the lower-cased     Section variable [comment_preserves]
   ReservedComments

   Recursion that is not structural in Go (markType <-> markStructLike / markTypeDef,
   markService through `extends`, traceExtendMethod, preProcess through includes,
   traversal through includes) is fuelled: the fuel bounds the DEPTH of the recursion
   (it is passed down, not threaded), out of fuel is the distinct result [Fuel].
   A Go panic (index out of range, nil dereference on an unparsed include) is the
   distinct result [Crash]; neither happens on ASTs the parser and the semantic pass
   produce.

   The model contains the two repairs of /verif/proposed_fixes/C16-1, C16-2 (the
   same-file base service is marked; a file with enums counts as a kept part). *)
From Coq Require Import List Bool Arith NArith ZArith.
From Coq.Strings Require Import Byte.
From Verif Require Import Base.Bytes Idl.Ast Idl.AstUtil.
Import ListNotations.

(* ---------------------------------------------------------------- results *)

Inductive res (A : Type) : Type :=
| Ok (a : A)
| Fuel          (* the model ran out of fuel (never on the inputs of interest) *)
| Crash.        (* the Go code would panic *)
Arguments Ok {A} a.
Arguments Fuel {A}.
Arguments Crash {A}.

Definition bind {A B} (r : res A) (k : A -> res B) : res B :=
  match r with Ok a => k a | Fuel => Fuel | Crash => Crash end.

(* left-to-right loop with early exit on Fuel / Crash *)
Fixpoint fold_res {A S} (f : A -> S -> res S) (l : list A) (s : S) : res S :=
  match l with
  | [] => Ok s
  | x :: r => bind (f x s) (fold_res f r)
  end.

(* ---------------------------------------------------------------- nodes and marks *)

(* what the Go code uses as keys of the mark map *)
Inductive node :=
| NService (file : bytes) (idx : nat)
| NFunction (file : bytes) (svc : nat) (idx : nat)
| NStructLike (file : bytes) (k : sl_kind) (idx : nat)
| NEnum (file : bytes) (idx : nat)
| NTypedef (file : bytes) (idx : nat)
| NInclude (file : bytes) (idx : nat).

Definition node_eqb (a b : node) : bool :=
  match a, b with
  | NService f i, NService g j => beqb f g && Nat.eqb i j
  | NFunction f s i, NFunction g t j => beqb f g && Nat.eqb s t && Nat.eqb i j
  | NStructLike f k i, NStructLike g l j => beqb f g && sl_kind_eqb k l && Nat.eqb i j
  | NEnum f i, NEnum g j => beqb f g && Nat.eqb i j
  | NTypedef f i, NTypedef g j => beqb f g && Nat.eqb i j
  | NInclude f i, NInclude g j => beqb f g && Nat.eqb i j
  | _, _ => false
  end.

Record mstate := MS {
  ms_marks : list node;
  ms_ext : list (bytes * nat);        (* (file, service index) *)
  ms_cache : list (bytes * bool) }.   (* file -> result of the first markKeptPart *)

Definition ms0 : mstate := MS [] [] [].

Definition marked (st : mstate) (n : node) : bool := existsb (node_eqb n) (ms_marks st).
Definition mark (n : node) (st : mstate) : mstate :=
  if marked st n then st else MS (n :: ms_marks st) (ms_ext st) (ms_cache st).

Definition ext_eqb (a b : bytes * nat) : bool := beqb (fst a) (fst b) && Nat.eqb (snd a) (snd b).
Definition in_ext (st : mstate) (fname : bytes) (i : nat) : bool := existsb (ext_eqb (fname, i)) (ms_ext st).
Definition add_ext (fname : bytes) (i : nat) (st : mstate) : mstate :=
  MS (ms_marks st) ((fname, i) :: ms_ext st) (ms_cache st).
Definition add_cache (fname : bytes) (v : bool) (st : mstate) : mstate :=
  MS (ms_marks st) (ms_ext st) ((fname, v) :: ms_cache st).

(* ---------------------------------------------------------------- configuration *)

(* arguments of doTrimAST *)
Record cfg := Cfg {
  c_methods : list bytes;            (* trimMethods as given (-m) *)
  c_force : bool;                    (* forceTrimming = preserve switched off *)
  c_go_name : bool;                  (* matchGoName *)
  c_no_comment : bool;               (* disablePreserveComment *)
  c_preserved_structs : list bytes;  (* preservedStructs *)
  c_preserved_files : list bytes }.  (* preserveFiles, as Filenames of the ASTs *)

(* ---------------------------------------------------------------- small helpers *)

Definition is_none {A} (o : option A) : bool := match o with None => true | Some _ => false end.
Definition is_nil {A} (l : list A) : bool := match l with [] => true | _ => false end.

(* first element satisfying [f], with its position *)
Fixpoint find_index_from {A} (f : A -> bool) (l : list A) (i : nat) : option (nat * A) :=
  match l with
  | [] => None
  | x :: r => if f x then Some (i, x) else find_index_from f r (S i)
  end.
Definition find_index {A} (f : A -> bool) (l : list A) : option (nat * A) := find_index_from f l 0.

(* a list with positions *)
Definition indexed {A} (l : list A) : list (nat * A) := combine (seq 0 (List.length l)) l.

(* strings.ToUpper on one ASCII byte *)
Definition upper_byte (b : byte) : byte :=
  let n := Byte.to_N b in
  if (97 <=? n)%N && (n <=? 122)%N
  then match Byte.of_N (n - 32)%N with Some u => u | None => b end
  else b.

Definition underscore : byte := x5f.

(* mark.go toGoName: split on '_', capitalise the first byte of every non-empty word
   (identifiers are ASCII) *)
Definition to_go_name (s : bytes) : bytes :=
  List.concat (map (fun w => match w with [] => [] | b :: r => upper_byte b :: r end)
                   (split_on underscore s [])).

(* the struct-like lists of a file by kind *)
Definition sl_list (k : sl_kind) (f : file) : list struct_like :=
  match k with SKStruct => f_structs f | SKUnion => f_unions f | SKException => f_exceptions f end.

(* Category.IsStruct / IsException / IsUnion *)
Definition category_sl_kind (c : category) : option sl_kind :=
  match c with
  | CatStruct => Some SKStruct
  | CatException => Some SKException
  | CatUnion => Some SKUnion
  | _ => None
  end.

(* markType's early return: `theType.Category <= 8 && theType.IsTypedef == nil` *)
Definition ty_is_plain (t : ty) : bool :=
  (category_code (ty_category t) <=? 8)%N && is_none (ty_is_typedef t).

(* the types on which markType does its own work, in the order of the Go recursion:
   key type first, then value type, then the type itself; nothing below a plain type *)
Fixpoint ty_refs (t : ty) : list ty :=
  if ty_is_plain t then []
  else match t with
       | Ty _ k v _ _ _ _ _ =>
         (match k with Some x => ty_refs x | None => [] end) ++
         (match v with Some x => ty_refs x | None => [] end) ++ [t]
       end.

(* markType's name test for struct-likes and enums:
   `x.Name == theType.Name || (theType.Reference != nil && x.Name == theType.Reference.Name)` *)
Definition ty_name_ok (t : ty) (n : bytes) : bool :=
  beqb n (ty_name t) || match ty_ref t with Some r => beqb n (ref_name r) | None => false end.

(* the file an include of [f] points to: ast.Includes[idx].Reference *)
Definition include_file (p : program) (f : file) (idx : Z) : option (nat * bytes) :=
  match nth_include f idx with
  | Some inc => match in_ref inc with
                | Some tn => match prog_file p tn with Some _ => Some (Z.to_nat idx, tn) | None => None end
                | None => None
                end
  | None => None
  end.

(* ---------------------------------------------------------------- the second resolution

   After traversal doTrimAST runs CheckAll and ResolveSymbols again on the trimmed AST
   (Name2Category and Include.Used were reset).  On an AST that was resolved before and
   from which only definitions and includes were deleted this pass
     - rebuilds Name2Category from the remaining definitions,
     - finds for every external type / constant / base service the same include at its
       NEW position (the first include with the right prefix that defines the name is
       the one chosen the first time, and it is still there when it was kept),
     - sets Include.Used on the includes so referenced,
     - leaves Type.Category / IsTypedef, Extra.Name / Sel / IsEnum as they were.
   A reference whose include is gone keeps its stale Reference (the pass only reports
   an error when Reference is nil), which [renumber] mirrors by leaving it alone.
   [kept] lists the OLD positions of the includes that survived, in order. *)

Fixpoint position_in (kept : list nat) (old : nat) (i : nat) : option nat :=
  match kept with
  | [] => None
  | k :: r => if Nat.eqb k old then Some i else position_in r old (S i)
  end.
Definition renumber (kept : list nat) (idx : Z) : Z :=
  if (idx <? 0)%Z then idx
  else match position_in kept (Z.to_nat idx) 0 with
       | Some n => Z.of_nat n
       | None => idx
       end.

Fixpoint ty_renumber (kept : list nat) (t : ty) : ty :=
  match t with
  | Ty n k v cpp an cat r td =>
    Ty n (match k with Some x => Some (ty_renumber kept x) | None => None end)
         (match v with Some x => Some (ty_renumber kept x) | None => None end)
         cpp an cat
         (match r with Some (Ref rn ri) => Some (Ref rn (renumber kept ri)) | None => None end) td
  end.

Fixpoint cv_renumber (kept : list nat) (c : const_value) : const_value :=
  match c with
  | CIdent s (Some (Extra e i n sel)) => CIdent s (Some (Extra e (renumber kept i) n sel))
  | CList l => CList (map (cv_renumber kept) l)
  | CMap l => CMap (map (fun kv => (cv_renumber kept (fst kv), cv_renumber kept (snd kv))) l)
  | other => other
  end.

(* bytewise lexicographic order (Go's string order) and insertion sort by name *)
Fixpoint bytes_leb (a b : bytes) : bool :=
  match a, b with
  | [], _ => true
  | _ :: _, [] => false
  | x :: a', y :: b' =>
    if (Byte.to_N x <? Byte.to_N y)%N then true
    else if (Byte.to_N y <? Byte.to_N x)%N then false
    else bytes_leb a' b'
  end.
Fixpoint insert_by_name {A} (x : bytes * A) (l : list (bytes * A)) : list (bytes * A) :=
  match l with
  | [] => [x]
  | y :: r => if bytes_leb (fst x) (fst y) then x :: l else y :: insert_by_name x r
  end.
Definition sort_by_name {A} (l : list (bytes * A)) : list (bytes * A) := fold_right insert_by_name [] l.

Definition count_dots (s : bytes) : nat := List.length (filter (Byte.eqb dot) s).

(* the include positions a resolved file refers to (what sets Include.Used) *)
Definition cv_used (c : const_value) : list Z :=
  match c with
  | CIdent s (Some e) =>
    (* an enum value written TYPEDEF.VALUE carries the index of the typedef's include
       but does not mark it as used (semantic.go, case 2, first half) *)
    if ex_is_enum e && (count_dots s <? 2) then [] else [ex_index e]
  | _ => []
  end.
Definition file_used (f : file) : list Z :=
  flat_map' (fun t => match ty_ref t with Some r => [ref_index r] | None => [] end) (file_types f) ++
  flat_map' cv_used (file_const_values f) ++
  flat_map' (fun s => match sv_ref s with Some r => [ref_index r] | None => [] end) (f_services f).

Definition reresolve_file (kept : list nat) (f : file) : file :=
  let g := map_file (ty_renumber kept) (cv_renumber kept) (fun c => c) false f in
  let svcs := map (fun s => Service (sv_name s) (sv_extends s) (sv_functions s) (sv_annos s)
                                    (match sv_ref s with
                                     | Some (Ref rn ri) => Some (Ref rn (renumber kept ri))
                                     | None => None
                                     end) (sv_comments s)) (f_services g) in
  let g' := File (f_filename g) (f_includes g) (f_cpp_includes g) (f_namespaces g) (f_typedefs g)
                 (f_constants g) (f_enums g) (f_structs g) (f_unions g) (f_exceptions g) svcs None in
  let used := file_used g' in
  File (f_filename g')
       (map (fun ii => Include (in_path (snd ii)) (in_ref (snd ii))
                               (if existsb (Z.eqb (Z.of_nat (fst ii))) used then Some true else None))
            (indexed (f_includes g')))
       (f_cpp_includes g') (f_namespaces g') (f_typedefs g') (f_constants g') (f_enums g')
       (f_structs g') (f_unions g') (f_exceptions g') svcs
       (Some (sort_by_name (file_def_names g'))).

Section Trim.
  (* regexp2: [matches pattern name] = Regexp.MatchString (pattern compiled with
     options 0); [compiles pattern] = regexp2.Compile succeeds *)
  Variable matches : bytes -> bytes -> bool.
  Variable compiles : bytes -> bool.
  (* preserveRegex.MatchString(strings.ToLower(comments)) *)
  Variable comment_preserves : bytes -> bool.

  Variable c : cfg.
  Variable p : program.

  Definition main_name : bytes := match p with [] => [] | (n, _) :: _ => n end.

  (* doTrimAST: a pattern without '.' is prefixed with the name of the LAST service of
     the main file; nothing is rewritten (or compiled) when the main file has no service *)
  Definition has_dot (s : bytes) : bool := existsb (Byte.eqb dot) s.
  Definition qualify (m : bytes) : bytes :=
    match prog_main p with
    | Some f => match rev (f_services f) with
                | last :: _ => if has_dot m then m else sv_name last ++ dot :: m
                | [] => m
                end
    | None => m
    end.
  Definition patterns : list bytes := map qualify (c_methods c).
  Definition filtering : bool := negb (is_nil (c_methods c)).
  Definition main_has_services : bool :=
    match prog_main p with Some f => negb (is_nil (f_services f)) | None => false end.

  (* ------------------------------------------------------------ checkPreserve *)

  Definition check_preserve (fname : bytes) (k : sl_kind) (s : struct_like) : bool :=
    if c_force c then false
    else
      let name := if c_go_name c then to_go_name (sl_name s) else sl_name s in
      if existsb (beqb name) (c_preserved_structs c) then true
      else if negb (c_no_comment c) && comment_preserves (sl_comments s) then true
      else (* preserveFileStructs: only the Structs list of a preserved file *)
        match k with
        | SKStruct => existsb (beqb fname) (c_preserved_files c)
        | _ => false
        end.

  (* ------------------------------------------------------------ markType and friends *)

  (* open recursion: [rec] is markType's work on ONE non-plain type with less fuel *)
  Section Open.
    Variable rec : bytes -> ty -> mstate -> res mstate.

    (* markType on a list of types of file [fname] *)
    Definition mark_types_with (fname : bytes) (ts : list ty) (st : mstate) : res mstate :=
      fold_res (fun t => fold_res (rec fname) (ty_refs t)) ts st.

    (* markStructLike *)
    Definition mark_sl_with (fname : bytes) (k : sl_kind) (i : nat) (s : struct_like) (st : mstate) : res mstate :=
      if marked st (NStructLike fname k i) then Ok st
      else mark_types_with fname (map fd_type (sl_fields s)) (mark (NStructLike fname k i) st).

    (* markTypeDef (called with the file the type lives in) *)
    Definition mark_typedef_with (bname : bytes) (bf : file) (t : ty) (st : mstate) : res mstate :=
      match find_index (fun d => beqb (td_alias d) (ty_name t)) (f_typedefs bf) with
      | None => Ok st
      | Some (i, d) =>
        if marked st (NTypedef bname i) then Ok st
        else mark_types_with bname [td_type d] (mark (NTypedef bname i) st)
      end.

    (* the body of markType after the recursion into key / value types *)
    Definition mark_named_body (fname : bytes) (t : ty) (st : mstate) : res mstate :=
      match prog_file p fname with
      | None => Crash
      | Some f =>
        let base :=
          match ty_ref t with
          | Some r => match include_file p f (ref_index r) with
                      | Some (i, tn) => Ok (tn, mark (NInclude fname i) st)
                      | None => Crash
                      end
          | None => Ok (fname, st)
          end in
        bind base (fun '(bname, st1) =>
          match prog_file p bname with
          | None => Crash
          | Some bf =>
            match ty_is_typedef t with
            | Some _ => mark_typedef_with bname bf t st1
            | None =>
              match category_sl_kind (ty_category t) with
              | Some k =>
                match find_index (fun s => ty_name_ok t (sl_name s)) (sl_list k bf) with
                | Some (i, s) => mark_sl_with bname k i s st1
                | None => Ok st1
                end
              | None =>
                match ty_category t with
                | CatEnum =>
                  match find_index (fun e => ty_name_ok t (en_name e)) (f_enums bf) with
                  | Some (i, _) => Ok (mark (NEnum bname i) st1)
                  | None => Ok st1
                  end
                | _ => Ok st1
                end
              end
            end
          end)
      end.
  End Open.

  Fixpoint mark_named (fuel : nat) : bytes -> ty -> mstate -> res mstate :=
    match fuel with
    | O => fun _ _ _ => Fuel
    | S n => mark_named_body (mark_named n)
    end.

  Definition mark_types (fuel : nat) := mark_types_with (mark_named fuel).
  Definition mark_sl (fuel : nat) := mark_sl_with (mark_named fuel).

  (* markFunction *)
  Definition mark_function (fuel : nat) (fname : bytes) (si fi : nat) (fn : function) (st : mstate) : res mstate :=
    bind (mark_types fuel fname (map fd_type (fn_args fn)) (mark (NFunction fname si fi) st)) (fun st1 =>
    bind (mark_types fuel fname (map fd_type (fn_throws fn)) st1) (fun st2 =>
    if fn_void fn then Ok st2 else mark_types fuel fname [fn_type fn] st2)).

  (* ------------------------------------------------------------ services *)

  (* the name a function is matched under in markService *)
  Definition qualified (svc_name fn_name : bytes) : bytes := svc_name ++ dot :: fn_name.
  Definition service_func_name (s : service) (fn : function) : bytes :=
    qualified (sv_name s) (if c_go_name c then to_go_name (fn_name fn) else fn_name fn).
  (* markService's test: MatchString && (funcName == pattern || !HasPrefix(funcName, pattern)) *)
  Definition selects (pat name : bytes) : bool :=
    matches pat name && (beqb name pat || negb (is_prefix pat name)).

  (* the base service of [s] (file [fname] = [f]): file name and position *)
  Definition base_service (fname : bytes) (f : file) (s : service) : res (option (bytes * nat * service)) :=
    match sv_ref s with
    | None =>
      Ok (match find_index (fun x => beqb (sv_name x) (sv_extends s)) (f_services f) with
          | Some (i, b) => Some (fname, i, b)
          | None => None
          end)
    | Some r =>
      match include_file p f (ref_index r) with
      | None => Crash
      | Some (_, tn) =>
        match prog_file p tn with
        | None => Crash
        | Some tf =>
          Ok (match find_index (fun x => beqb (sv_name x) (ref_name r)) (f_services tf) with
              | Some (i, b) => Some (tn, i, b)
              | None => None
              end)
        end
      end
    end.

  (* markInclude for the include a service reference goes through *)
  Definition mark_service_include (fname : bytes) (f : file) (s : service) (st : mstate) : res mstate :=
    match sv_ref s with
    | None => Ok st
    | Some r => match include_file p f (ref_index r) with
                | Some (i, _) => Ok (mark (NInclude fname i) st)
                | None => Crash
                end
    end.

  (* traceExtendMethod; [fathers] are the names of the services on the way *)
  Section TraceOpen.
    Variable rec : list bytes -> bytes -> nat -> mstate -> res (mstate * bool).

    Definition trace_body (fuel : nat) (fathers : list bytes) (fname : bytes) (si : nat) (st : mstate)
      : res (mstate * bool) :=
      match prog_file p fname with
      | None => Crash
      | Some f =>
        match nth_error (f_services f) si with
        | None => Crash
        | Some s =>
          let step (jf : nat * function) (father : bytes) (pat : bytes) (acc : mstate * bool) : res (mstate * bool) :=
            if matches pat (qualified father (fn_name (snd jf)))
            then bind (mark_function fuel fname si (fst jf) (snd jf) (mark (NService fname si) (fst acc)))
                      (fun st' => Ok (st', true))
            else Ok acc in
          bind (fold_res (fun jf => fold_res (fun father => fold_res (step jf father) patterns) fathers)
                         (indexed (sv_functions s)) (st, false)) (fun '(st1, ret1) =>
          bind (if is_nil (sv_extends s) then Ok (st1, ret1)
                else
                  bind (base_service fname f s) (fun nb =>
                  match nb with
                  | None => Crash      (* nil *parser.Service dereferenced *)
                  | Some (bn, bi, b) =>
                    bind (rec (fathers ++ [sv_name b]) bn bi st1) (fun '(st2, back) =>
                    Ok (if back then st2 else add_ext fname si st2, back || ret1))
                  end)) (fun '(st3, ret) =>
          if ret
          then bind (mark_service_include fname f s (mark (NService fname si) st3)) (fun st4 => Ok (st4, true))
          else Ok (st3, false)))
        end
      end.
  End TraceOpen.

  Fixpoint trace (fuel : nat) : list bytes -> bytes -> nat -> mstate -> res (mstate * bool) :=
    match fuel with
    | O => fun _ _ _ _ => Fuel
    | S n => trace_body (trace n) fuel
    end.

  (* markService *)
  Section ServiceOpen.
    Variable rec : bytes -> nat -> mstate -> res mstate.

    Definition mark_service_body (fuel : nat) (fname : bytes) (si : nat) (st : mstate) : res mstate :=
      match prog_file p fname with
      | None => Crash
      | Some f =>
        match nth_error (f_services f) si with
        | None => Crash
        | Some s =>
          if marked st (NService fname si) then Ok st
          else
            let st0 := if filtering then st else mark (NService fname si) st in
            let on_function (jf : nat * function) (st : mstate) : res mstate :=
              if filtering
              then fold_res (fun pat st =>
                               if selects pat (service_func_name s (snd jf))
                               then mark_function fuel fname si (fst jf) (snd jf) (mark (NService fname si) st)
                               else Ok st) patterns st
              else mark_function fuel fname si (fst jf) (snd jf) st in
            bind (fold_res on_function (indexed (sv_functions s)) st0) (fun st1 =>
            bind (if filtering && (negb (is_nil (sv_extends s)) || negb (is_none (sv_ref s)))
                  then bind (trace fuel [sv_name s] fname si st1) (fun r => Ok (fst r))
                  else Ok st1) (fun st2 =>
            if negb (is_nil (sv_extends s)) && marked st2 (NService fname si)
            then
              match sv_ref s with
              | Some _ =>
                bind (mark_service_include fname f s st2) (fun st3 =>
                bind (base_service fname f s) (fun nb =>
                match nb with
                | Some (bn, bi, _) => rec bn bi st3
                | None => Ok st3
                end))
              | None =>
                (* repaired code: the base service of the same file *)
                bind (base_service fname f s) (fun nb =>
                match nb with
                | Some (bn, bi, _) => rec bn bi st2
                | None => Ok st2
                end)
              end
            else Ok st2))
        end
      end.
  End ServiceOpen.

  Fixpoint mark_service (fuel : nat) : bytes -> nat -> mstate -> res mstate :=
    match fuel with
    | O => fun _ _ _ => Fuel
    | S n => mark_service_body (mark_service n) fuel
    end.

  (* ------------------------------------------------------------ markKeptPart, preProcess *)

  Definition has_enum_const_typedef (f : file) : bool :=
    negb (is_nil (f_constants f) && is_nil (f_enums f) && is_nil (f_typedefs f)).

  (* markKeptPart; returns the new state and the (possibly cached) result *)
  Definition kept_part (fuel : nat) (fname : bytes) (st : mstate) : res (mstate * bool) :=
    match lookup fname (ms_cache st) with
    | Some v => Ok (st, v)
    | None =>
      match prog_file p fname with
      | None => Crash
      | Some f =>
        bind (mark_types fuel fname (map co_type (f_constants f)) st) (fun st1 =>
        bind (mark_types fuel fname (map td_type (f_typedefs f)) st1) (fun st2 =>
        let ret0 := has_enum_const_typedef f in
        let on_sl (k : sl_kind) (is : nat * struct_like) (acc : mstate * bool) : res (mstate * bool) :=
          if negb (marked (fst acc) (NStructLike fname k (fst is))) && check_preserve fname k (snd is)
          then bind (mark_sl fuel fname k (fst is) (snd is) (fst acc)) (fun st' => Ok (st', true))
          else Ok acc in
        bind (if c_force c then Ok (st2, ret0)
              else
                bind (fold_res (on_sl SKStruct) (indexed (f_structs f)) (st2, ret0)) (fun a1 =>
                bind (fold_res (on_sl SKUnion) (indexed (f_unions f)) a1) (fun a2 =>
                fold_res (on_sl SKException) (indexed (f_exceptions f)) a2))) (fun '(st3, ret) =>
        Ok (add_cache fname ret st3, ret))))
      end
    end.

  (* preProcess *)
  Fixpoint pre_process (fuel : nat) (fname : bytes) (st : mstate) : res (mstate * bool) :=
    match fuel with
    | O => Fuel
    | S n =>
      bind (kept_part fuel fname st) (fun '(st1, ret) =>
      match prog_file p fname with
      | None => Crash
      | Some f =>
        fold_res (fun (ii : nat * include) (acc : mstate * bool) =>
                    match include_file p f (Z.of_nat (fst ii)) with
                    | None => Crash
                    | Some (_, tn) =>
                      bind (pre_process n tn (fst acc)) (fun '(st', m) =>
                      Ok (if m then (mark (NInclude fname (fst ii)) st', true) else (st', snd acc)))
                    end)
                 (indexed (f_includes f)) (st1, ret)
      end)
    end.

  (* markAST *)
  Definition mark_ast (fuel : nat) : res mstate :=
    match prog_main p with
    | None => Crash
    | Some f =>
      bind (pre_process fuel main_name ms0) (fun '(st1, _) =>
      bind (fold_res (fun (is : nat * service) => mark_service fuel main_name (fst is))
                     (indexed (f_services f)) st1) (fun st2 =>
      bind (kept_part fuel main_name st2) (fun r => Ok (fst r))))
    end.

  (* ------------------------------------------------------------ traversal *)

  Definition keep_include (st : mstate) (fname : bytes) (ii : nat * include) : res bool :=
    match include_target p (snd ii) with
    | None => Crash
    | Some tf => Ok (marked st (NInclude fname (fst ii)) || has_enum_const_typedef tf)
    end.

  Fixpoint filter_res {A} (f : A -> res bool) (l : list A) : res (list A) :=
    match l with
    | [] => Ok []
    | x :: r => bind (f x) (fun b => bind (filter_res f r) (fun r' => Ok (if b then x :: r' else r')))
    end.

  Definition trim_service (st : mstate) (fname : bytes) (is : nat * service) : service :=
    let s := snd is in
    let fns := if filtering
               then map snd (filter (fun jf => marked st (NFunction fname (fst is) (fst jf))) (indexed (sv_functions s)))
               else sv_functions s in
    (* cleanServiceExtends *)
    if in_ext st fname (fst is)
    then Service (sv_name s) [] fns (sv_annos s) None (sv_comments s)
    else Service (sv_name s) (sv_extends s) fns (sv_annos s) (sv_ref s) (sv_comments s).

  Definition keep_sl (st : mstate) (fname : bytes) (k : sl_kind) (is : nat * struct_like) : bool :=
    marked st (NStructLike fname k (fst is)) || check_preserve fname k (snd is).

  (* what traversal leaves of one file *)
  Definition trim_file (st : mstate) (fname : bytes) (f : file) : res file :=
    bind (filter_res (keep_include st fname) (indexed (f_includes f))) (fun incs =>
    Ok (File (f_filename f)
             (map (fun ii => Include (in_path (snd ii)) (in_ref (snd ii)) None) incs)
             (f_cpp_includes f) (f_namespaces f) (f_typedefs f) (f_constants f) (f_enums f)
             (map snd (filter (keep_sl st fname SKStruct) (indexed (f_structs f))))
             (map snd (filter (keep_sl st fname SKUnion) (indexed (f_unions f))))
             (map snd (filter (keep_sl st fname SKException) (indexed (f_exceptions f))))
             (map (trim_service st fname)
                  (filter (fun is => marked st (NService fname (fst is))) (indexed (f_services f))))
             None)).

  (* the same, followed by what the second CheckAll + ResolveSymbols pass writes *)
  Definition trim_file_resolved (st : mstate) (fname : bytes) (f : file) : res file :=
    bind (filter_res (keep_include st fname) (indexed (f_includes f))) (fun incs =>
    bind (trim_file st fname f) (fun tf =>
    Ok (reresolve_file (map fst incs) tf))).

  (* the files traversal reaches (through the includes it keeps), each trimmed; main file
     first, depth first in include order, every Filename once (= astdump.Program).
     [full] = with the effect of the final re-resolution. *)
  Fixpoint reach (full : bool) (fuel : nat) (st : mstate) (fname : bytes) (acc : program) : res program :=
    if existsb (fun e => beqb (fst e) fname) acc then Ok acc
    else
      match fuel with
      | O => Fuel
      | S n =>
        match prog_file p fname with
        | None => Crash
        | Some f =>
          bind ((if full then trim_file_resolved else trim_file) st fname f) (fun tf =>
          fold_res (fun (inc : include) acc =>
                      match in_ref inc with
                      | Some tn => reach full n st tn acc
                      | None => Crash
                      end) (f_includes tf) (acc ++ [(fname, tf)]))
        end
      end.

  (* ------------------------------------------------------------ the whole thing *)

  Inductive outcome :=
  | Trimmed (q : program)     (* marking and traversal done; CheckAll / ResolveSymbols follow *)
  | BadPattern                (* regexp2.Compile failed: error, AST untouched *)
  | OutOfFuel
  | Panics.

  (* enough for every recursion depth: each level consumes a distinct definition or file *)
  Definition prog_size : nat :=
    fold_right (fun e acc => acc + 2 + file_def_count (snd e) + List.length (f_includes (snd e))) 2 p.

  Definition final_marks (fuel : nat) : res mstate := mark_ast fuel.

  Definition trim_with (full : bool) (fuel : nat) : outcome :=
    if main_has_services && negb (forallb compiles patterns) then BadPattern
    else
      match mark_ast fuel with
      | Fuel => OutOfFuel
      | Crash => Panics
      | Ok st =>
        match reach full fuel st main_name [] with
        | Ok q => Trimmed q
        | Fuel => OutOfFuel
        | Crash => Panics
        end
      end.

  (* markAST + traversal: what the trimmer itself does to the AST *)
  Definition trim : outcome := trim_with false prog_size.
  (* ... followed by CheckAll + ResolveSymbols on the result (doTrimAST as a whole, when
     that pass succeeds) *)
  Definition trim_resolved : outcome := trim_with true prog_size.
End Trim.
