(* Gen/Namespace.v — executable model of pkg/namespace/namespace.go (collision renaming).
   Model only.  The two Go maps are association lists; the rename function is a parameter
   (UnderscoreSuffix for scopes, a numbered suffix for imports). *)
From Coq Require Import List Arith Bool.
From Coq.Strings Require Import Byte.
From Verif Require Import Base.Bytes.
Import ListNotations.

Record ns := mkns { name2id : list (bytes * bytes); id2name : list (bytes * bytes) }.
Definition ns0 : ns := mkns [] [].

Definition ns_set (s : ns) (name id : bytes) : ns :=
  mkns (update name id (name2id s)) (update id name (id2name s)).

(* Reserve *)
Definition reserve (s : ns) (name id : bytes) : ns * bool :=
  match lookup name (name2id s) with
  | Some _ => (s, false)
  | None => (ns_set s name id, true)
  end.

(* Get / ID: "" when absent *)
Definition get (s : ns) (id : bytes) : bytes :=
  match lookup id (id2name s) with Some n => n | None => [] end.
Definition get_id (s : ns) (name : bytes) : bytes :=
  match lookup name (name2id s) with Some i => i | None => [] end.

(* Add: the for loop, with fuel.  [None] = out of fuel (the Go loop would still be running). *)
Fixpoint add_loop (rename : bytes -> nat -> bytes) (fuel : nat) (s : ns) (name id res : bytes) (cnt : nat)
  : option bytes :=
  match lookup res (name2id s) with
  | None => Some res
  | Some cur =>
    if beqb cur id then Some res
    else match fuel with
         | O => None
         | S f => add_loop rename f s name id (rename name (S cnt)) (S cnt)
         end
  end.

Definition add (rename : bytes -> nat -> bytes) (s : ns) (name id : bytes) : option (ns * bytes) :=
  match add_loop rename (S (List.length (name2id s))) s name id name 0 with
  | None => None
  | Some res => Some (ns_set s res id, res)
  end.

Definition underscore_suffix (name : bytes) (cnt : nat) : bytes := name ++ repeat x5f cnt.
Definition number_suffix (name : bytes) (cnt : nat) : bytes := name ++ digits cnt.

(* operation sequences, as driven by the correspondence harness *)
Inductive op :=
| OAdd (name id : bytes)
| OReserve (name id : bytes)
| OGet (id : bytes)
| OID (name : bytes).

Inductive outv := VName (n : bytes) | VBool (b : bool) | VFuel.

Definition step (rename : bytes -> nat -> bytes) (s : ns) (o : op) : ns * outv :=
  match o with
  | OAdd name id => match add rename s name id with
                    | Some (s', r) => (s', VName r)
                    | None => (s, VFuel)
                    end
  | OReserve name id => let '(s', b) := reserve s name id in (s', VBool b)
  | OGet id => (s, VName (get s id))
  | OID name => (s, VName (get_id s name))
  end.

Fixpoint run_ops (rename : bytes -> nat -> bytes) (s : ns) (ops : list op) : ns * list outv :=
  match ops with
  | [] => (s, [])
  | o :: r => let '(s1, v) := step rename s o in
              let '(s2, vs) := run_ops rename s1 r in (s2, v :: vs)
  end.

(* the import manager's rename function: fmt.Sprintf("%s%d", name, cnt-1) *)
Definition import_suffix (name : bytes) (cnt : nat) : bytes := name ++ digits (cnt - 1).
