package idlgen

import (
	"math"
	"strconv"

	"verif/harness/idlast"
	"verif/harness/rng"
)

// ---------------------------------------------------------------- fields

// idSeq hands out field ids: mostly previous+1 (so that the implicit form
// applies), with gaps, negatives, zero, and (Syntactic) repeats.
type idSeq struct {
	g    *gen
	used map[int32]bool
	cur  int32
}

func (g *gen) newIDSeq() *idSeq {
	s := &idSeq{g: g, used: map[int32]bool{}}
	if g.r.Chance(1, 10) {
		s.cur = int32(g.r.Range(1, 40)) // does not start at 1
	}
	return s
}

func (s *idSeq) next() int32 {
	g := s.g
	var v int32
	switch k := g.r.Intn(20); {
	case k < 14:
		v = s.cur + 1
	case k < 17:
		v = s.cur + int32(g.r.Range(2, 12))
	case k < 19:
		v = -int32(g.r.Range(1, 40))
	default:
		v = rng.Pick(g.r, []int32{0, 255, 256, 1000, 32767, -32768, 16})
	}
	if g.opt.CompileHostile && g.r.Chance(1, 12) || g.syn(1, 15) {
		v = rng.Pick(g.r, []int32{32768, 65536, 2147483646, -2147483647, 100000})
		g.stat("field.id.outside_i16")
	}
	if g.syn(1, 12) && len(s.used) > 0 {
		// a repeated id
		g.stat("field.id.duplicate")
		s.cur = v
		return v
	}
	i16only := g.valid() && !g.opt.CompileHostile // Thrift field ids are i16 on the wire
	for s.used[v] || v == math.MaxInt32 || (i16only && v > 32767) {
		if v >= 32767 {
			v = int32(g.r.Range(1, 3000))
		} else {
			v++
		}
	}
	s.used[v] = true
	switch {
	case v == s.cur+1:
		g.stat("field.id.sequential")
	case v < 0:
		g.stat("field.id.negative")
	case v == 0:
		g.stat("field.id.zero")
	default:
		g.stat("field.id.gap")
	}
	s.cur = v
	return v
}

func (g *gen) fieldName(names *nameSet) string {
	if g.opt.NamingStress && g.r.Chance(1, 2) {
		g.stat("name.stress.field")
		return names.fresh(g.stressSafe(rng.Pick(g.r, stressFieldNames)))
	}
	if len(names.list) > 0 && g.syn(1, 20) {
		g.stat("field.name.duplicate")
		return rng.Pick(g.r, names.list)
	}
	return names.fresh(rng.Pick(g.r, fieldWords))
}

func (g *gen) requiredness() idlast.Requiredness {
	switch k := g.r.Intn(20); {
	case k < 8:
		return idlast.ReqDefault
	case k < 15:
		return idlast.ReqOptional
	}
	return idlast.ReqRequired
}

func (g *gen) genStructFields(f *fileGen, s *symbol) {
	kind := map[symKind]idlast.SLKind{symStruct: idlast.SKStruct, symUnion: idlast.SKUnion, symException: idlast.SKException}[s.kind]
	sl := &idlast.StructLike{Category: kind, Name: idlast.B(s.name), Fields: []*idlast.Field{}, Annotations: g.annos(kind.Keyword(), 1, 4)}
	s.sl = sl
	n := g.r.Range(1, 7)
	if g.r.Chance(1, 12) {
		n = 0
		g.stat("struct.empty")
	}
	names := newNameSet(g.valid() && !g.opt.NamingStress)
	ids := g.newIDSeq()
	for i := 0; i < n; i++ {
		var t *sty
		if g.r.Chance(1, 8) {
			// recursion on purpose: directly, or through containers
			self := &sty{sym: s}
			switch g.r.Intn(4) {
			case 0:
				t = self
			case 1:
				t = &sty{base: "list", val: self}
			case 2:
				t = &sty{base: "map", key: &sty{base: "string"}, val: self}
			default:
				t = &sty{base: "map", key: self, val: &sty{base: "set", val: self}}
				g.stat("type.map.struct_key")
			}
			g.stat("field.recursive.self")
		} else {
			t = g.genType(f, typeCtx{})
		}
		req := g.requiredness()
		if u := underlying(t); g.valid() && u != nil && u.sym != nil && u.sym.kind.structLike() && u.sym.file == f && u.sym.index >= s.index {
			// direct (not through a container) reference to this or a later struct:
			// only through an optional field, so that required chains are acyclic
			if s.kind != symUnion {
				req = idlast.ReqOptional
			}
			g.stat("field.recursive.direct_optional")
		}
		fl := &idlast.Field{ID: ids.next(), Name: idlast.B(g.fieldName(names)), Requiredness: req, Type: g.toAST(f, t), Annotations: g.annos("field", 1, 5)}
		sl.Fields = append(sl.Fields, fl)
		s.ftypes = append(s.ftypes, t)
	}
}

var reqNames = map[idlast.Requiredness]string{idlast.ReqDefault: "default", idlast.ReqOptional: "optional", idlast.ReqRequired: "required"}

func (g *gen) genDefaults(f *fileGen, s *symbol) {
	given := false
	for i, fl := range s.sl.Fields {
		t := s.ftypes[i]
		want := g.r.Chance(1, 3)
		if s.kind == symUnion && given && !g.syn(1, 2) {
			want = false // at most one default in a union
		}
		if want && (g.constable(t) || g.opt.Envelope == Syntactic) {
			fl.Default = g.genValue(f, t, valCtx{})
			given = true
			g.stat("field.req=" + reqNames[fl.Requiredness] + ",default=yes")
		} else {
			g.stat("field.req=" + reqNames[fl.Requiredness] + ",default=no")
		}
	}
}

// ---------------------------------------------------------------- constant values

type valCtx struct {
	depth     int
	noIdent   bool // inside a struct literal of a struct defined in another file
	key       bool // map key: only values whose meaning is known here (no references to constants)
	noRef     bool // no reference to another constant at this position (nested positions are free again)
	limitRank bool // with maxRank: local constants must have a lower rank
	maxRank   int
}

// constable: a value may be written for a position of this type. A typedef'd
// container makes the Go backend dereference a nil ValueType.
func (g *gen) constable(t *sty) bool {
	if t == nil {
		return false
	}
	if t.raw != "" {
		return g.opt.Envelope == Syntactic
	}
	return !typedefContainer(t) || g.opt.TypedefContainerConsts
}

func cInt(v int64) *idlast.ConstValue { return &idlast.ConstValue{Kind: idlast.ConstInt, Int: v} }
func cDouble(v float64) *idlast.ConstValue {
	return &idlast.ConstValue{Kind: idlast.ConstDouble, DoubleBits: math.Float64bits(v)}
}
func cLit(s string) *idlast.ConstValue {
	return &idlast.ConstValue{Kind: idlast.ConstLiteral, Literal: idlast.B(s)}
}
func cIdent(s string) *idlast.ConstValue {
	return &idlast.ConstValue{Kind: idlast.ConstIdentifier, Identifier: idlast.B(s)}
}
func cList(xs []*idlast.ConstValue) *idlast.ConstValue {
	if xs == nil {
		xs = []*idlast.ConstValue{}
	}
	return &idlast.ConstValue{Kind: idlast.ConstList, List: xs}
}
func cMap(es []idlast.MapEntry) *idlast.ConstValue {
	if es == nil {
		es = []idlast.MapEntry{}
	}
	return &idlast.ConstValue{Kind: idlast.ConstMap, Map: es}
}

func intRange(base string) (lo, hi int64) {
	switch base {
	case "byte", "i8":
		return -128, 127
	case "i16":
		return -32768, 32767
	case "i32":
		return math.MinInt32, math.MaxInt32
	}
	return math.MinInt64, math.MaxInt64
}

func (g *gen) intValue(base string) int64 {
	lo, hi := intRange(base)
	switch k := g.r.Intn(10); {
	case k < 5:
		v := int64(g.r.Range(-100, 100))
		if v < lo {
			v = lo
		}
		return v
	case k < 6:
		return lo
	case k < 7:
		return hi
	case k < 8:
		return 0
	default:
		u := g.r.U64()
		if base == "i64" {
			return int64(u)
		}
		span := uint64(hi-lo) + 1
		return lo + int64(u%span)
	}
}

func (g *gen) doubleValue() float64 {
	switch g.r.Intn(12) {
	case 0:
		return 0
	case 1:
		return math.Copysign(0, -1)
	case 2:
		return math.MaxFloat64
	case 3:
		return math.SmallestNonzeroFloat64
	case 4:
		return float64(g.r.Range(-1000, 1000))
	case 5:
		return float64(g.r.Range(-1000, 1000)) / 8
	case 6:
		return float64(g.r.Range(1, 999)) / 1000
	case 7:
		return float64(g.r.Range(-99, 99)) * math.Pow(10, float64(g.r.Range(-30, 30)))
	case 8:
		return 1e21 // first magnitude strconv 'g' writes with an exponent
	case 9:
		return 123456789.125
	default:
		for {
			v := math.Float64frombits(g.r.U64())
			if !math.IsNaN(v) && !math.IsInf(v, 0) {
				return v
			}
		}
	}
}

// constRef returns the name of a visible constant of the same type, or "".
func (g *gen) constRef(f *fileGen, t *sty, c valCtx) string {
	if c.noIdent || c.key || c.noRef || !g.r.Chance(1, 3) {
		return ""
	}
	want := canon(t)
	cands := g.visible(f, func(s *symbol) bool {
		if s.kind != symConst || s.ctype == nil || s.canon != want {
			return false
		}
		if s.file == f && c.limitRank && s.rank >= c.maxRank {
			return false
		}
		return true
	})
	if len(cands) == 0 {
		return ""
	}
	s := rng.Pick(g.r, cands)
	if s.file == f {
		g.stat("const.ref.local")
	} else {
		g.stat("const.ref.qualified")
	}
	return g.refName(f, s)
}

// anyValue is an arbitrary constant (Syntactic: values need not fit their type).
func (g *gen) anyValue(depth int) *idlast.ConstValue {
	switch k := g.r.Intn(12); {
	case k < 2:
		return cInt(int64(g.r.U64()))
	case k < 4:
		return cDouble(g.doubleValue())
	case k < 6:
		return cLit(g.text())
	case k < 8:
		return cIdent(rng.Pick(g.r, []string{"true", "false", "UNDEFINED", "a.B", "a.b.C", "a.b.c.d", "x", "_1", "nil", "e5", "inf", "NaN", "required", "struct"}))
	case k < 10 && depth < 3:
		var xs []*idlast.ConstValue
		for i := g.r.Intn(4); i > 0; i-- {
			xs = append(xs, g.anyValue(depth+1))
		}
		return cList(xs)
	case depth < 3:
		var es []idlast.MapEntry
		for i := g.r.Intn(4); i > 0; i-- {
			es = append(es, idlast.MapEntry{Key: g.anyValue(depth + 1), Value: g.anyValue(depth + 1)})
		}
		return cMap(es)
	}
	return cInt(int64(g.r.Range(-9, 9)))
}

// genValue writes a value for a position of type t in file f.
func (g *gen) genValue(f *fileGen, t *sty, c valCtx) *idlast.ConstValue {
	if g.syn(1, 12) || t.raw != "" {
		g.stat("const.any_value")
		return g.anyValue(c.depth)
	}
	if typedefContainer(t) {
		g.stat("const.typedef_container")
	}
	if ref := g.constRef(f, t, c); ref != "" {
		return cIdent(ref)
	}
	c.noRef = false
	u := underlying(t)
	if u == nil || u.raw != "" {
		return g.anyValue(c.depth)
	}
	switch {
	case u.sym != nil && u.sym.kind == symEnum:
		return g.enumValue(f, t, u.sym, c)
	case u.sym != nil && u.sym.kind.structLike():
		return g.structValue(f, u.sym, c)
	case u.sym != nil:
		return g.anyValue(c.depth)
	}
	switch u.base {
	case "bool":
		switch k := g.r.Intn(10); {
		case k < 6:
			g.stat("const.bool.true_false")
			return cIdent(rng.Pick(g.r, []string{"true", "false"}))
		case k < 9:
			g.stat("const.bool.0_1")
			return cInt(int64(g.r.Intn(2)))
		}
		g.stat("const.bool.other_int")
		return cInt(int64(g.r.Range(-2, 3)))
	case "byte", "i8", "i16", "i32", "i64":
		if !c.key && g.r.Chance(1, 25) {
			g.stat("const.int.true_false")
			return cIdent(rng.Pick(g.r, []string{"true", "false"}))
		}
		g.stat("const.int.literal")
		return cInt(g.intValue(u.base))
	case "double":
		if g.r.Chance(1, 3) {
			g.stat("const.double.int_for_double")
			return cInt(int64(g.r.Range(-1000, 1000)))
		}
		g.stat("const.double.double")
		return cDouble(g.doubleValue())
	case "string", "binary":
		g.stat("const." + u.base + ".literal")
		return cLit(g.text())
	case "list", "set":
		var xs []*idlast.ConstValue
		n := g.r.Intn(4)
		if c.depth >= 4 || !g.constable(u.val) {
			n = 0
		}
		seen := map[string]bool{}
		for i := 0; i < n; i++ {
			inner := c
			inner.depth++
			inner.key = c.key || u.base == "set" // set elements: keep them distinct
			v := g.genValue(f, u.val, inner)
			if u.base == "set" && g.valid() {
				k := g.semKey(underlying(u.val), v)
				if seen[k] {
					continue
				}
				seen[k] = true
			}
			xs = append(xs, v)
		}
		g.stat("const." + u.base + ".len=" + strconv.Itoa(len(xs)))
		if eu := underlying(u.val); len(xs) > 0 && eu != nil {
			switch {
			case eu.sym != nil && eu.sym.kind.structLike():
				g.stat("const." + u.base + ".of_struct")
			case isContainer(eu):
				g.stat("const." + u.base + ".nested_container")
			}
		}
		return cList(xs)
	case "map":
		var es []idlast.MapEntry
		n := g.r.Intn(4)
		if c.depth >= 4 || !g.constable(u.key) || !g.constable(u.val) {
			n = 0
		}
		seen := map[string]bool{}
		for i := 0; i < n; i++ {
			kc := c
			kc.depth++
			kc.key = true
			k := g.genValue(f, u.key, kc)
			if g.valid() {
				sk := g.semKey(underlying(u.key), k)
				if seen[sk] {
					continue // Go rejects duplicate constant keys in a map literal
				}
				seen[sk] = true
			}
			vc := c
			vc.depth++
			es = append(es, idlast.MapEntry{Key: k, Value: g.genValue(f, u.val, vc)})
		}
		g.stat("const.map.len=" + strconv.Itoa(len(es)))
		if len(es) > 0 {
			if ku := underlying(u.key); ku != nil && ku.sym != nil && ku.sym.kind.structLike() {
				g.stat("const.map.struct_key")
			}
			if vu := underlying(u.val); vu != nil && (isContainer(vu) || (vu.sym != nil && vu.sym.kind.structLike())) {
				g.stat("const.map.nested_value")
			}
		}
		return cMap(es)
	}
	return g.anyValue(c.depth)
}

// semKey identifies the meaning of a key-position value so that map literals
// get distinct keys. Values that are pointers in Go (struct literals) and
// anything unknown are always distinct.
func (g *gen) semKey(u *sty, v *idlast.ConstValue) string {
	num := func(x float64) string { return strconv.FormatFloat(x, 'g', -1, 64) }
	isBool := u != nil && u.base == "bool"
	switch v.Kind {
	case idlast.ConstInt:
		if isBool {
			return strconv.FormatBool(v.Int > 0)
		}
		if u != nil && u.base == "double" {
			return num(float64(v.Int))
		}
		return strconv.FormatInt(v.Int, 10)
	case idlast.ConstDouble:
		return num(math.Float64frombits(v.DoubleBits))
	case idlast.ConstLiteral:
		return "s:" + string(v.Literal)
	case idlast.ConstIdentifier:
		id := string(v.Identifier)
		if id == "true" || id == "false" {
			if isBool {
				return id
			}
			if id == "true" {
				return "1"
			}
			return "0"
		}
		if u != nil && u.sym != nil && u.sym.kind == symEnum {
			// Enum.VALUE / inc.Enum.VALUE: the last segment names the value
			last := id
			for i := len(id) - 1; i >= 0; i-- {
				if id[i] == '.' {
					last = id[i+1:]
					break
				}
			}
			for _, ev := range u.sym.enum.Values {
				if string(ev.Name) == last {
					return strconv.FormatInt(ev.Value, 10)
				}
			}
		}
	}
	g.fnSeq++
	return "#" + strconv.Itoa(g.fnSeq)
}

func (g *gen) enumValue(f *fileGen, t *sty, e *symbol, c valCtx) *idlast.ConstValue {
	vals := e.enum.Values
	viaTypedef := t.sym != nil && t.sym.kind == symTypedef
	if len(vals) > 0 && !c.noIdent && g.r.Chance(2, 3) {
		v := rng.Pick(g.r, vals)
		if viaTypedef && g.opt.EnumViaTypedef && g.nameable(f, t.sym) && g.r.Bool() {
			g.stat("const.enum.ident.via_typedef")
			return cIdent(g.refName(f, t.sym) + "." + string(v.Name))
		}
		if g.nameable(f, e) {
			if e.file == f {
				g.stat("const.enum.ident.local")
			} else {
				g.stat("const.enum.ident.qualified")
			}
			if viaTypedef {
				g.stat("const.enum.typedef_type_real_enum_name")
			}
			return cIdent(g.refName(f, e) + "." + string(v.Name))
		}
	}
	g.stat("const.enum.number")
	if len(vals) > 0 && g.r.Chance(4, 5) {
		return cInt(rng.Pick(g.r, vals).Value)
	}
	return cInt(int64(g.r.Range(0, 50))) // a number the enum does not name
}

func (g *gen) structValue(f *fileGen, s *symbol, c valCtx) *idlast.ConstValue {
	var es []idlast.MapEntry
	foreign := s.file != f
	if c.depth < 3 && s.sl != nil {
		for i, fl := range s.sl.Fields {
			if i >= len(s.ftypes) {
				break
			}
			ft := s.ftypes[i]
			if !g.constable(ft) || !g.r.Chance(1, 2) {
				continue
			}
			if s.kind == symUnion && len(es) > 0 {
				break // a union value sets one member
			}
			dup := false
			for _, e := range es {
				if e.Key.Literal == fl.Name {
					dup = true // Syntactic programs may repeat field names; mention each once
				}
			}
			if dup {
				continue
			}
			inner := c
			inner.depth++
			inner.key = false
			inner.noRef = false
			if fu := underlying(ft); g.valid() && !g.opt.CompileHostile && fu != nil && fu.sym != nil {
				// the backend takes the address of whatever it emitted for a field it
				// stores by pointer: "&E_A" / "&0" for an optional enum field and
				// "&CONST" (a **T) for a struct field given by a constant's name are
				// accepted by thriftgo but do not compile
				if fu.sym.kind == symEnum && (fl.Requiredness == idlast.ReqOptional || s.kind == symUnion) {
					continue
				}
				if fu.sym.kind.structLike() {
					inner.noRef = true
				}
			}
			if foreign && !g.opt.IdentInForeignStructLiteral {
				inner.noIdent = true
			}
			v := g.genValue(f, ft, inner)
			if v.Kind == idlast.ConstIdentifier && foreign && c.noIdent == false && inner.noIdent == false {
				g.stat("const.struct.ident_in_foreign_literal")
			}
			es = append(es, idlast.MapEntry{Key: cLit(string(fl.Name)), Value: v})
		}
	}
	if foreign {
		g.stat("const.struct.foreign.fields=" + strconv.Itoa(len(es)))
	} else {
		g.stat("const.struct.local.fields=" + strconv.Itoa(len(es)))
	}
	return cMap(es)
}

func (g *gen) genConstant(f *fileGen, s *symbol) *idlast.Constant {
	var t *sty
	for try := 0; ; try++ {
		t = g.genType(f, typeCtx{})
		if g.constable(t) || g.opt.Envelope == Syntactic || try > 20 {
			break
		}
	}
	if !g.constable(t) && g.valid() {
		t = &sty{base: "i32"}
	}
	s.ctype = t
	s.canon = canon(t)
	c := &idlast.Constant{Name: idlast.B(s.name), Type: g.toAST(f, t), Annotations: g.annos("const", 1, 5)}
	c.Value = g.genValue(f, t, valCtx{limitRank: true, maxRank: s.rank})
	return c
}

// ---------------------------------------------------------------- services

func (g *gen) genService(f *fileGen, s *symbol) {
	svc := &idlast.Service{Name: idlast.B(s.name), Functions: []*idlast.Function{}, Annotations: g.annos("service", 1, 4)}
	s.svc = svc
	s.funcs = map[string]bool{}
	if bases := g.visible(f, func(o *symbol) bool {
		return o.kind == symService && o != s && o.svc != nil && (o.file != f || o.index < s.index)
	}); len(bases) > 0 && g.r.Chance(1, 2) {
		b := rng.Pick(g.r, bases)
		svc.Extends = idlast.B(g.refName(f, b))
		for k := range b.funcs {
			s.funcs[k] = true
		}
		if b.file == f {
			g.stat("service.extends.local")
		} else {
			g.stat("service.extends.included")
		}
	} else if g.syn(1, 8) {
		svc.Extends = idlast.B(rng.Pick(g.r, []string{"Nothing", "x.Y", "a.b.C"}))
	}
	n := g.r.Range(0, 5)
	for i := 0; i < n; i++ {
		svc.Functions = append(svc.Functions, g.genFunction(f, s))
	}
}

func (g *gen) genFunction(f *fileGen, s *symbol) *idlast.Function {
	var name string
	for {
		if g.opt.NamingStress && g.r.Chance(1, 2) {
			name = g.stressSafe(rng.Pick(g.r, stressFuncNames))
		} else {
			name = rng.Pick(g.r, funcWords)
		}
		if g.syn(1, 15) {
			break // may repeat
		}
		key := name
		if g.valid() && !g.opt.NamingStress {
			key = canonKey(name)
		}
		if !s.funcs[key] && !thriftKeywords[name] {
			s.funcs[key] = true
			break
		}
		g.fnSeq++
		name += strconv.Itoa(g.fnSeq)
		key = name
		if g.valid() && !g.opt.NamingStress {
			key = canonKey(name)
		}
		if !s.funcs[key] {
			s.funcs[key] = true
			break
		}
	}
	fn := &idlast.Function{Name: idlast.B(name), Arguments: []*idlast.Field{}, Throws: []*idlast.Field{}, Annotations: g.annos("function", 1, 5)}
	fn.Oneway = g.r.Chance(1, 6)
	fn.Void = fn.Oneway || g.r.Chance(1, 3)
	if fn.Oneway && g.syn(1, 3) {
		fn.Void = false
	}
	if fn.Void {
		fn.FunctionType = &idlast.Type{Name: "void"}
		g.stat("function.void")
	} else {
		fn.FunctionType = g.toAST(f, g.genType(f, typeCtx{}))
		g.stat("function.typed")
	}
	if fn.Oneway {
		g.stat("function.oneway")
	}
	names := newNameSet(g.valid() && !g.opt.NamingStress)
	ids := g.newIDSeq()
	for i := g.r.Intn(5); i > 0; i-- {
		t := g.genType(f, typeCtx{})
		a := &idlast.Field{ID: ids.next(), Name: idlast.B(g.fieldName(names)), Type: g.toAST(f, t), Annotations: g.annos("argument", 1, 8)}
		switch g.r.Intn(8) {
		case 0:
			a.Requiredness = idlast.ReqOptional
		case 1:
			a.Requiredness = idlast.ReqRequired
		}
		if g.r.Chance(1, 5) && (g.constable(t) || g.opt.Envelope == Syntactic) {
			a.Default = g.genValue(f, t, valCtx{noIdent: !g.opt.IdentInArgDefault})
			g.stat("function.arg.default")
		}
		fn.Arguments = append(fn.Arguments, a)
		g.stat("function.arg")
	}
	if !fn.Oneway || g.syn(1, 3) {
		ids = g.newIDSeq()
		usedEx := map[*symbol]bool{}
		for i := g.r.Intn(4); i > 0; i-- {
			t := g.genType(f, typeCtx{onlyKind: true, only: symException, noTypedef: true})
			if g.syn(1, 6) {
				t = g.genType(f, typeCtx{})
			}
			if t == nil {
				break
			}
			if t.sym != nil && usedEx[t.sym] {
				if !(g.opt.CompileHostile && g.r.Bool()) && g.valid() {
					continue // one case per exception type in the generated type switch
				}
				g.stat("function.throws.same_type_twice")
			}
			if t.sym != nil {
				usedEx[t.sym] = true
			}
			e := &idlast.Field{ID: ids.next(), Name: idlast.B(g.fieldName(names)), Requiredness: idlast.ReqOptional, Type: g.toAST(f, t), Annotations: g.annos("throws_field", 1, 8)}
			fn.Throws = append(fn.Throws, e)
			g.stat("function.throws")
		}
	}
	return fn
}
