(* Wire/FastBitsetLink.v — the required-field check of the reader model (Fast.fast_first_missing) is what the
   code emitted by bitset.go computes: fields are added in id order, a field's bit is set when it is read,
   and the emitted tests name the first required field (in id order) that was not read. *)
From Coq Require Import List ZArith Bool Lia Arith.
From Verif Require Import Base.Bytes Wire.TType Wire.Schema Wire.Value Wire.Std Wire.StdFacts Wire.Fast Wire.FastFacts
                          Wire.FastBitset Wire.FastBitsetFacts.
Import ListNotations.
Open Scope Z_scope.

(* isset.Add(f) for every required field, in the order of getSortedFields *)
Definition req_ids (s : sschema) : list Z :=
  map fst (filter (fun p : Z * field => is_required (snd p)) (sort_by_id (map (fun f => (f_id f, f)) (s_fields s)))).

Fixpoint index_of (l : list Z) (x : Z) : nat :=
  match l with [] => O | y :: r => if x =? y then O else S (index_of r x) end.

(* the id the generated `fid = ..; goto RequiredFieldNotSetError` reports, given the ids whose bit was set *)
Definition bitset_first_missing (s : sschema) (seen : list Z) : option Z :=
  let l := req_ids s in
  option_map (fun i => nth i l 0)
             (run (state (length l) (map (index_of l) seen)) (gen_if_not_set (length l))).

Lemma index_of_lt l x : In x l -> (index_of l x < length l)%nat.
Proof.
  induction l as [|y l IH]; [intros []|]. intro H. cbn [index_of length].
  destruct (Z.eqb_spec x y); [lia|]. destruct H as [->|H]; [congruence|]. specialize (IH H). lia.
Qed.

Lemma index_of_nth l i : NoDup l -> (i < length l)%nat -> index_of l (nth i l 0) = i.
Proof.
  intro Hnd. revert i. induction Hnd as [|y l Hnot _ IH]; intros i Hi; [cbn in Hi; lia|].
  destruct i as [|i]; cbn [nth index_of]; [rewrite Z.eqb_refl; reflexivity|].
  cbn [length] in Hi. destruct (Z.eqb_spec (nth i l 0) y) as [E|_].
  - exfalso. apply Hnot. rewrite <- E. apply nth_In. lia.
  - rewrite IH by lia. reflexivity.
Qed.

Lemma nth_index_of l x : In x l -> nth (index_of l x) l 0 = x.
Proof.
  induction l as [|y l IH]; [intros []|]. intro H. cbn [index_of].
  destruct (Z.eqb_spec x y) as [->|Hne]; [reflexivity|]. destruct H as [->|H]; [congruence|]. cbn [nth]. apply IH. exact H.
Qed.

Lemma find_ext_in {A} (f g : A -> bool) l : (forall x, In x l -> f x = g x) -> find f l = find g l.
Proof.
  induction l as [|x l IH]; intro H; [reflexivity|]. cbn [find]. rewrite (H x (or_introl eq_refl)).
  destruct (g x); [reflexivity|]. apply IH. intros y Hy. apply H. right. exact Hy.
Qed.

Lemma find_map {A B} (f : B -> bool) (g : A -> B) l : find f (map g l) = option_map g (find (fun x => f (g x)) l).
Proof. induction l as [|x l IH]; [reflexivity|]. cbn [map find]. destruct (f (g x)); [reflexivity | exact IH]. Qed.

Lemma find_seq_nth (P : Z -> bool) l :
  option_map (fun i => nth i l 0) (find (fun i => P (nth i l 0)) (seq 0 (length l))) = find P l.
Proof.
  induction l as [|y l IH]; [reflexivity|]. cbn [length seq find nth].
  destruct (P y); [reflexivity|]. rewrite <- seq_shift, find_map.
  rewrite <- IH. cbn [nth]. destruct (find (fun x => P (nth x l 0)) (seq 0 (length l))); reflexivity.
Qed.

Lemma head_filter {A} (f : A -> bool) l : match filter f l with x :: _ => Some x | [] => None end = find f l.
Proof. induction l as [|x l IH]; [reflexivity|]. cbn [filter find]. destruct (f x); [reflexivity | exact IH]. Qed.

Lemma filter_andb {A} (f g : A -> bool) l : filter (fun x => f x && g x) l = filter g (filter f l).
Proof.
  induction l as [|x l IH]; [reflexivity|]. cbn [filter]. destruct (f x); cbn [andb filter]; [|exact IH].
  destruct (g x); rewrite IH; reflexivity.
Qed.

Lemma fast_first_missing_find s seen :
  fast_first_missing s seen = find (fun id => negb (existsb (Z.eqb id) seen)) (req_ids s).
Proof.
  unfold fast_first_missing, req_ids.
  rewrite (filter_andb (fun p : Z * field => is_required (snd p)) (fun p => negb (existsb (Z.eqb (fst p)) seen))).
  set (L := filter (fun p : Z * field => is_required (snd p)) (sort_by_id (map (fun f => (f_id f, f)) (s_fields s)))).
  rewrite find_map.
  pose proof (head_filter (fun p : Z * field => negb (existsb (Z.eqb (fst p)) seen)) L) as H.
  destruct (filter (fun p : Z * field => negb (existsb (Z.eqb (fst p)) seen)) L) as [|p q]; rewrite <- H; reflexivity.
Qed.

(* the model's check = the emitted code's check, for every struct (any number of required fields), whatever
   required fields have been read, in any order and any number of times *)
Theorem bitset_first_missing_spec s seen :
  NoDup (req_ids s) -> Forall (fun id => In id (req_ids s)) seen ->
  bitset_first_missing s seen = fast_first_missing s seen.
Proof.
  intros Hnd Hseen. unfold bitset_first_missing. set (l := req_ids s) in *.
  rewrite gen_if_not_set_spec.
  - rewrite fast_first_missing_find. fold l. unfold first_unset.
    rewrite <- (find_seq_nth (fun id => negb (existsb (Z.eqb id) seen)) l). f_equal.
    apply find_ext_in. intros i Hi. apply in_seq in Hi. f_equal.
    clear -Hnd Hseen Hi. induction Hseen as [|x seen Hx _ IH]; [reflexivity|]. cbn [map existsb]. rewrite IH. f_equal.
    destruct (Z.eqb_spec (nth i l 0) x) as [<-|Hne].
    + rewrite index_of_nth by (assumption || lia). apply Nat.eqb_refl.
    + apply Nat.eqb_neq. intro E. apply Hne. rewrite E. apply nth_index_of. exact Hx.
  - rewrite Forall_forall in *. intros j Hj. apply in_map_iff in Hj. destruct Hj as (x & <- & Hx).
    apply index_of_lt. apply Hseen. exact Hx.
Qed.

Lemma NoDup_map_filter {A B} (g : A -> B) (f : A -> bool) l : NoDup (map g l) -> NoDup (map g (filter f l)).
Proof.
  induction l as [|x l IH]; intro H; [constructor|]. inversion H as [|? ? Hnot Hnd]; subst. cbn [filter].
  destruct (f x); [|apply IH; exact Hnd]. cbn [map]. constructor; [|apply IH; exact Hnd].
  intro Hin. apply Hnot. apply in_map_iff in Hin. destruct Hin as (y & Hy & Hyin). apply filter_In in Hyin.
  apply in_map_iff. exists y. tauto.
Qed.

Lemma req_ids_nodup s : NoDup (map f_id (s_fields s)) -> NoDup (req_ids s).
Proof.
  intro H. unfold req_ids. apply NoDup_map_filter.
  eapply Permutation.Permutation_NoDup; [apply Permutation.Permutation_map; apply sort_by_id_perm|].
  rewrite map_map. cbn [fst]. exact H.
Qed.

Lemma req_ids_in s f : In f (s_fields s) -> is_required f = true -> In (f_id f) (req_ids s).
Proof.
  intros Hin Hr. unfold req_ids. apply in_map_iff. exists (f_id f, f). split; [reflexivity|].
  apply filter_In. split; [|exact Hr].
  eapply Permutation.Permutation_in; [apply sort_by_id_perm|]. apply in_map_iff. exists f. auto.
Qed.

Corollary bitset_first_missing_wf s seen :
  wf_struct s = true -> Forall (fun id => In id (req_ids s)) seen ->
  bitset_first_missing s seen = fast_first_missing s seen.
Proof.
  intros Hs. apply bitset_first_missing_spec. apply req_ids_nodup. apply Verif.Wire.StdFacts.wf_struct_nodup. exact Hs.
Qed.
