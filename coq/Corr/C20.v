(* Corr/C20.v — correspondence record and comparison for property C20 (go backend options).
   A case is an option list run on the real code and what was observed:
     kind 0 (H)  CodeUtils.HandleOptions(args) on a new CodeUtils, in-process;
     kind 1 (T)  Arguments.Targets on `go[:a,b,...]` (ParseCompactArguments + checkOptions): the
                 options handed to the backend, then HandleOptions(Pack(options));
     kind 2 (P)  the thriftgo binary with -g go[:a,b,...] on a one-struct IDL: exit status and
                 whether the generated identifier for user_url has the initialism.
   [mismatches] returns (case index, code):
     1  model and implementation disagree                                    (correspondence)
     9  the table holds an action the translator did not recognise           (correspondence)
   property oracles, evaluated on the observed output with exact-name reading of the options and
   the documented defaults (Gen/OptionsDoc.v); they apply when every option name is exactly a
   table name or is matched by no table entry at all:
     2  accepted, but some setting is not "last option that names it, else the documented default"
     3  accepted although an option has an invalid value (non-boolean, unknown style/template,
        malformed use_package)
     4  rejected although every option is valid and no documented-invalid combination is present
     5  accepted although a combination documented as invalid is present
     6  nested structs on, no template option given, template is not slim     (kinds 1, 2)
     7  template slim with deep-equal still on
     8  the implementation panicked                                                       *)
From Coq Require Import List Arith Bool NArith.
From Coq.Strings Require Import Byte.
From Verif Require Import Base.Bytes Gen.OptionsSyntax Gen.OptionsTable Gen.OptionsDoc Gen.Options.
Import ListNotations.

Record obs := mkobs {
  o_feats : N;                       (* bit i = field i of Features *)
  o_style : bytes;
  o_init : bool;
  o_prefix : bytes;
  o_template : bytes;
  o_imports : list (bytes * bytes)   (* sorted by path *)
}.

Record case := mkcase {
  k_kind : N;
  k_colon : bool;                    (* kinds 1, 2: was there a ':' after the language *)
  k_args : list bytes;
  k_err : bool;
  k_obs : option obs;
  k_out : list (bytes * bytes);      (* kind 1: options after checkOptions *)
  k_pinit : option bool;             (* kind 2: generated identifier has the initialism *)
  k_panic : bool
}.

Definition bits (n : N) : list bool := map (fun i => N.testbit n (N.of_nat i)) (seq 0 nfeat).

Fixpoint bools_eqb (a b : list bool) : bool :=
  match a, b with
  | [], [] => true
  | x :: a', y :: b' => Bool.eqb x y && bools_eqb a' b'
  | _, _ => false
  end.

Definition cfg_matches (c : cfg) (o : obs) : bool :=
  bools_eqb (c_feats c) (bits (o_feats o)) &&
  beqb (c_style c) (o_style o) &&
  Bool.eqb (c_curinit c) (o_init o) &&
  beqb (c_prefix c) (o_prefix o) &&
  beqb (c_template c) (o_template o) &&
  (List.length (c_imports c) =? List.length (o_imports o)) &&
  forallb (fun kv => match lookup (fst kv) (c_imports c) with Some v => beqb v (snd kv) | None => false end) (o_imports o).

Definition is_some {A} (o : option A) : bool := match o with Some _ => true | None => false end.

Definition applicable (opts : list (bytes * bytes)) : bool :=
  forallb (fun o => is_some (exact_action (fst o)) ||
                    negb (existsb (fun e => prefixb (fst e) (fst o)) table)) opts.

(* doc_default_of, tabulated once (constants are evaluated once by the VM) *)
Definition doc_feat_defaults : list value := Eval vm_compute in map (fun i => doc_default_of (SFeat i)) (seq 0 nfeat).
Definition doc_style_default : value := Eval vm_compute in doc_default_of SStyle.
Definition doc_init_default : value := Eval vm_compute in doc_default_of SInit.
Definition doc_template_default : value := Eval vm_compute in doc_default_of STemplate.
Definition ddflt (s : setting) : value :=
  match s with
  | SFeat i => nth i doc_feat_defaults (default_of s)
  | SStyle => doc_style_default
  | SInit => doc_init_default
  | STemplate => doc_template_default
  | _ => doc_default_of s
  end.

Definition obs_as_expected (o : obs) (ws : list (option (setting * value))) : bool :=
  let fs := bits (o_feats o) in
  let ex := fun s => expected_w ddflt s ws in
  forallb (fun i => value_eqb (ex (SFeat i)) (VBool (nth i fs false))) (seq 0 nfeat) &&
  value_eqb (ex SStyle) (VStr (o_style o)) &&
  value_eqb (ex SInit) (VBool (o_init o)) &&
  value_eqb (ex SPrefix) (VStr (o_prefix o)) &&
  value_eqb (ex STemplate) (VStr (o_template o)) &&
  forallb (fun kv => value_eqb (ex (SImport (fst kv))) (VOpt (Some (snd kv)))) (o_imports o) &&
  forallb (fun w => match w with
                    | Some (SImport p, _) => value_eqb (ex (SImport p)) (VOpt (lookup p (o_imports o)))
                    | _ => true
                    end) ws.

(* every option is valid: it is unknown to the table, or it writes something *)
Definition all_valid (opts : list (bytes * bytes)) (ws : list (option (setting * value))) : bool :=
  forallb (fun ow => match snd ow with Some _ => true | None => negb (is_some (exact_action (fst (fst ow)))) end)
          (combine opts ws).

(* oracles on an observed outcome of HandleOptions for the parsed options [opts] *)
Definition oracle (opts : list (bytes * bytes)) (errd : bool) (o : option obs) : list N :=
  let ws := map wr opts in
  (if applicable opts then
     if errd then
       (if all_valid opts ws then (if combo_ok_w ddflt ws then [4%N] else []) else [])
     else
       if negb (all_valid opts ws) then [3%N]
       else if negb (combo_ok_w ddflt ws) then [5%N]
       else match o with
            | Some ob => if obs_as_expected ob ws then [] else [2%N]
            | None => []
            end
   else []) ++
  match o with
  | Some ob => if beqb (o_template ob) slim then (if nth ix_deep_equal (bits (o_feats ob)) false then [7%N] else []) else []
  | None => []
  end.

Definition corr (m : result cfg) (errd : bool) (o : option obs) : list N :=
  match m, errd, o with
  | Err EUnmodelled, _, _ => [9%N]
  | Ok c, false, Some ob => if cfg_matches c ob then [] else [1%N]
  | Err _, true, _ => []
  | _, _, _ => [1%N]
  end.

Fixpoint join_comma (l : list bytes) : bytes :=
  match l with
  | [] => []
  | [a] => a
  | a :: r => a ++ ch_comma :: join_comma r
  end.

Definition go_arg (c : case) : bytes :=
  if k_colon c then x67 :: x6f :: ch_colon :: join_comma (k_args c) else [x67; x6f].

Fixpoint pairs_eqb (a b : list (bytes * bytes)) : bool :=
  match a, b with
  | [], [] => true
  | x :: a', y :: b' => beqb (fst x) (fst y) && beqb (snd x) (snd y) && pairs_eqb a' b'
  | _, _ => false
  end.

Definition nested_oracle (input : list (bytes * bytes)) (o : option obs) : list N :=
  match o with
  | Some ob =>
      if nth ix_nested (bits (o_feats ob)) false
         && negb (existsb (fun op => beqb (fst op) template_name) input)
         && negb (beqb (o_template ob) slim)
      then [6%N] else []
  | None => []
  end.

Definition check (c : case) : list N :=
  (if k_panic c then [8%N] else []) ++
  match k_kind c with
  | 0%N =>
      let opts := map parse_arg (k_args c) in
      corr (handle opts default_cfg) (k_err c) (k_obs c) ++ oracle opts (k_err c) (k_obs c)
  | 1%N =>
      let input := snd (parse_compact (go_arg c)) in
      let out := targets (go_arg c) in
      (if pairs_eqb out (k_out c) then corr (handle_packed out) (k_err c) (k_obs c) else [1%N]) ++
      oracle (map parse_arg (map pack (k_out c))) (k_err c) (k_obs c) ++
      nested_oracle input (k_obs c)
  | _ =>
      let input := snd (parse_compact (go_arg c)) in
      let out := targets (go_arg c) in
      let m := handle_packed out in
      match m, k_err c with
      | Err EUnmodelled, _ => [9%N]
      | Ok cf, false => match k_pinit c with
                        | Some b => if Bool.eqb b (c_curinit cf) then [] else [1%N]
                        | None => []
                        end
      | Err _, true => []
      | _, _ => [1%N]
      end ++
      (let ws := map wr out in
       if applicable input then
         if k_err c then (if all_valid out ws then (if combo_ok_w ddflt ws then [4%N] else []) else [])
         else if negb (all_valid out ws) then [3%N]
         else if negb (combo_ok_w ddflt ws) then [5%N]
         else match k_pinit c with
              | Some b => if value_eqb (expected_w ddflt SInit ws) (VBool b) then [] else [2%N]
              | None => []
              end
       else [])
  end.

Fixpoint mismatches_from (i : N) (cs : list case) : list (N * N) :=
  match cs with
  | [] => []
  | c :: r => map (fun code => (i, code)) (check c) ++ mismatches_from (i + 1)%N r
  end.
Definition mismatches (cs : list case) : list (N * N) := mismatches_from 0%N cs.

(* ------------------------------------------------------------------ compact shard encoding
   The producer writes every string of a shard once into a pool and the cases refer to pool
   positions; [resolve] rebuilds the case.  This only shortens the generated files. *)
Record robs := mkro {
  ro_feats : N; ro_style : N; ro_init : bool; ro_prefix : N; ro_template : N; ro_imports : list (N * N)
}.
Record rcase := mkr {
  r_kind : N; r_colon : bool; r_args : list N; r_err : bool; r_obs : option robs;
  r_out : list (N * N); r_pinit : option bool; r_panic : bool
}.

Definition str (pool : list bytes) (i : N) : bytes := nth (N.to_nat i) pool [].

Definition resolve_obs (pool : list bytes) (o : robs) : obs :=
  mkobs (ro_feats o) (str pool (ro_style o)) (ro_init o) (str pool (ro_prefix o)) (str pool (ro_template o))
        (map (fun kv => (str pool (fst kv), str pool (snd kv))) (ro_imports o)).

Definition resolve (pool : list bytes) (r : rcase) : case :=
  mkcase (r_kind r) (r_colon r) (map (str pool) (r_args r)) (r_err r) (option_map (resolve_obs pool) (r_obs r))
         (map (fun kv => (str pool (fst kv), str pool (snd kv))) (r_out r)) (r_pinit r) (r_panic r).

Definition mismatches_pool (pool : list bytes) (rs : list rcase) : list (N * N) :=
  mismatches (map (resolve pool) rs).
