// translate-thrift is translator T-thrift: .thrift files of /repo -> a Coq term of Wire.Schema.env.
//
//	translate-thrift -name schema_plugin -out /verif/coq/Wire/SchemaPlugin.v \
//	    /repo/parser/AST.thrift /repo/plugin/protocol.thrift
//
// -name   Coq identifier of the generated [env] (also defines <name>_struct_names / _enum_names)
// -out    file to write (only rewritten when its content changes; "-" = stdout)
// -I dir  include search path (repeatable), as thriftgo -i
// Paths are used as given (relative include paths are resolved by the parser, relative to the
// working directory first, then to the including file).  Exit status 1 on any error; nothing is
// written then.
package main

import (
	"flag"
	"fmt"
	"os"

	"github.com/cloudwego/thriftgo/parser"

	"verif/harness/thriftschema"
)

type multi []string

func (m *multi) String() string     { return fmt.Sprint(*m) }
func (m *multi) Set(s string) error { *m = append(*m, s); return nil }

func main() {
	name := flag.String("name", "schema", "Coq identifier of the generated env")
	out := flag.String("out", "-", "output .v file")
	var inc multi
	flag.Var(&inc, "I", "include search path")
	flag.Parse()
	if flag.NArg() == 0 {
		fmt.Fprintln(os.Stderr, "usage: translate-thrift -name ident -out file.v a.thrift [b.thrift ...]")
		os.Exit(2)
	}
	var roots []*parser.Thrift
	for _, p := range flag.Args() {
		ast, err := thriftschema.Load(p, inc)
		if err != nil {
			fmt.Fprintln(os.Stderr, "translate-thrift:", err)
			os.Exit(1)
		}
		roots = append(roots, ast)
	}
	// the same file reached from two roots (AST.thrift directly and through protocol.thrift) is
	// parsed twice under possibly different spellings of its path: identify files by base name
	res, err := thriftschema.Translate(dedupe(roots))
	if err != nil {
		fmt.Fprintln(os.Stderr, "translate-thrift:", err)
		os.Exit(1)
	}
	text := thriftschema.CoqFile(*name, flag.Args(), res)
	if *out == "-" {
		fmt.Print(text)
		return
	}
	if old, err := os.ReadFile(*out); err == nil && string(old) == text {
		fmt.Printf("translate-thrift: %s unchanged (%d structs, %d fields, %d enums)\n", *out, res.Structs, res.Fields, res.Enums)
		return
	}
	if err := os.WriteFile(*out, []byte(text), 0o644); err != nil {
		fmt.Fprintln(os.Stderr, "translate-thrift:", err)
		os.Exit(1)
	}
	fmt.Printf("translate-thrift: wrote %s (%d structs, %d fields, %d enums)\n", *out, res.Structs, res.Fields, res.Enums)
}

// dedupe drops a root that is (by base name) included by an earlier or later root, so that one
// physical file given twice under different path spellings is translated once.
func dedupe(roots []*parser.Thrift) []*parser.Thrift {
	reach := func(r *parser.Thrift) map[string]bool {
		m := map[string]bool{}
		var walk func(f *parser.Thrift, top bool)
		walk = func(f *parser.Thrift, top bool) {
			if !top {
				m[thriftschema.FileKey(f)] = true
			}
			for _, i := range f.Includes {
				if i.Reference != nil {
					walk(i.Reference, false)
				}
			}
		}
		walk(r, true)
		return m
	}
	var out []*parser.Thrift
	for i, r := range roots {
		covered := false
		for j, o := range roots {
			if i != j && reach(o)[thriftschema.FileKey(r)] {
				covered = true
			}
		}
		if !covered {
			out = append(out, r)
		}
	}
	return out
}
