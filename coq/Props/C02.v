(* Props/C02.v — property C02: generated Read/Write implement the Thrift wire format of the IDL.
   Statements only; proofs are in Wire/CodecFacts.v and Wire/StdFacts.v.

   Model: Wire/Std.v (to_wire = generated Write, from_wire = generated Read, on compiled code tied by
   the correspondence of Corr/C02.v on every run), Wire/Codec.v (binary protocol, models apache/thrift
   TBinaryProtocol, trusted), Wire/GenTables.v (regenerated from /repo; ttype_of goes through it).
   All premises are decidable booleans: wf_env e (ids unique and 16 bit, union fields optional: what
   thriftgo's checker guarantees) and wt e s v (Wire/Value.v). *)
From Coq Require Import List ZArith Bool Lia Permutation.
From Verif Require Import Base.Bytes Base.BE Wire.TType Wire.WVal Wire.Codec Wire.CodecFacts
  Wire.Schema Wire.Value Wire.Std Wire.StdFacts Wire.StdPresFacts Wire.StdMoreFacts.
Import ListNotations.
Open Scope Z_scope.

(* ---- the binary protocol ---- *)

Theorem C02_dec_enc : forall n v r, (depth v <= n)%nat -> wf v ->
  dec n (wtype v) (enc v ++ r) = Some (v, r).
Proof. exact dec_enc. Qed.
Print Assumptions C02_dec_enc.

Theorem C02_skip_enc : forall n v r, (depth v <= n)%nat -> wf v -> skip n (wtype v) (enc v ++ r) = Some r.
Proof. exact skip_enc. Qed.
Print Assumptions C02_skip_enc.

Theorem C02_dec_local : forall f t bs v r, dec f t bs = Some (v, r) ->
  exists used, bs = used ++ r /\ forall r', dec f t (used ++ r') = Some (v, r').
Proof. exact (fun f t => dec_local f t). Qed.
Print Assumptions C02_dec_local.

Theorem C02_dec_prefix_fails : forall f v n, wf v -> (n < length (enc v))%nat ->
  dec f (wtype v) (firstn n (enc v)) = None.
Proof. exact dec_prefix_fails. Qed.
Print Assumptions C02_dec_prefix_fails.

Theorem C02_enc_length : forall v, length (enc v) = wsize v.
Proof. exact enc_length. Qed.
Print Assumptions C02_enc_length.

(* ---- Write then Read: every struct-like of every schema, every well-typed value ---- *)

(* Write succeeds and Read, started from NewX(), yields the normal form of the value
   (norm: enum truncated to i32, nil containers/binaries of written fields become empty, a nil struct
   in a non-optional position becomes NewX(), maps rebuilt by Go map assignment) *)
Theorem C02_write_read : forall e s v,
  wf_env e = true -> find_struct e (s_name s) = Some s -> wt e s v = true ->
  exists wfs, to_wire e s v = Ok (WStruct wfs) /\ read_new e s (WStruct wfs) = Ok (norm_struct e s v).
Proof. exact write_read. Qed.
Print Assumptions C02_write_read.

(* the same at every type (fields, elements, keys) *)
Theorem C02_write_read_any_type : forall e, wf_env e = true -> forall v t key,
  wt_val e key t v = true ->
  exists w, to_w e t v = Ok w /\ from_w e t w = Ok (norm e t v).
Proof. exact to_from. Qed.
Print Assumptions C02_write_read_any_type.

(* through bytes: the bytes of Write, followed by anything, read back to the value *)
Theorem C02_write_read_bytes : forall e s v,
  wf_env e = true -> find_struct e (s_name s) = Some s -> wt e s v = true ->
  exists bs, write_bytes e s v = Ok bs /\
    forall rest, read_bytes e s (new_struct e s) (bs ++ rest) = Ok (norm_struct e s v).
Proof. exact write_read_bytes. Qed.
Print Assumptions C02_write_read_bytes.

(* what Write emits is a well-formed wire value of the wire type Thrift prescribes *)
Theorem C02_written_well_formed : forall e, wf_env e = true -> forall v t key w,
  wt_val e key t v = true -> to_w e t v = Ok w -> wf w /\ wtype w = ttype_of e t.
Proof. exact to_w_wf. Qed.
Print Assumptions C02_written_well_formed.

(* ---- wire shape ---- *)

(* the wire type computed through the table regenerated from generator/golang/types.go is the one
   Thrift prescribes: enum as I32, binary as STRING, struct / union / exception as STRUCT *)
Theorem C02_wire_types : forall e t, ttype_of e t = spec_ttype t.
Proof. exact ttype_of_spec. Qed.
Print Assumptions C02_wire_types.

(* emitted fields = the present ones (non-optional always, optional iff set), declaration order,
   schema ids, prescribed wire types; every nested container header and nested field conforms too *)
Theorem C02_wire_shape : forall e s fs wfs,
  find_struct e (s_name s) = Some s ->
  to_wire e s (VStruct fs) = Ok (WStruct wfs) ->
  map hdr wfs = emitted_hdrs s fs /\
  Forall (fun wf => wtype (snd wf) = fst (fst wf)) wfs /\
  conforms e (TRef (s_name s)) (WStruct wfs) = true.
Proof. exact wire_shape. Qed.
Print Assumptions C02_wire_shape.

(* ---- Read ---- *)

(* fields with an id the schema does not have, or with a wire type other than the schema's, are
   skipped wherever they stand: reading equals reading the input without them *)
Theorem C02_read_ignores_unknown : forall e s init wfs,
  from_wire e s init (WStruct wfs) =
  from_wire e s init (WStruct (filter (fun wf => negb (skippable e s wf)) wfs)).
Proof. exact read_ignores_unknown. Qed.
Print Assumptions C02_read_ignores_unknown.

Theorem C02_read_ignores_inserted : forall e s init l1 u l2,
  skippable e s u = true ->
  from_wire e s init (WStruct (l1 ++ u :: l2)) = from_wire e s init (WStruct (l1 ++ l2)).
Proof. exact read_ignores_inserted. Qed.
Print Assumptions C02_read_ignores_inserted.

(* a required field that no input field provides (same id and the schema's wire type) makes Read
   fail; when the field loop itself succeeds the error is "required field not set" *)
Theorem C02_read_required_missing : forall e s init wfs f,
  wf_struct s = true -> In f (s_fields s) -> is_required f = true ->
  (forall x, ~ In (ttype_of e (f_ty f), f_id f, x) wfs) ->
  exists er, from_wire e s init (WStruct wfs) = Err er /\
    (forall st, (exists fs0, init = VStruct fs0 /\ foldM (read_step e s) wfs (fs0, []) = Ok st) ->
                exists id, er = ERequiredMissing id).
Proof. exact read_required_missing. Qed.
Print Assumptions C02_read_required_missing.

(* ---- unions ---- *)

Theorem C02_union_write_refused : forall e s fs,
  find_struct e (s_name s) = Some s -> is_union s = true ->
  count_set (s_fields s) fs <> 1%nat ->
  to_wire e s (VStruct fs) = Err (EUnionCount (count_set (s_fields s) fs)).
Proof. exact union_write_refused. Qed.
Print Assumptions C02_union_write_refused.

Theorem C02_union_write_exactly_one : forall e s fs w,
  find_struct e (s_name s) = Some s -> is_union s = true ->
  to_wire e s (VStruct fs) = Ok w -> count_set (s_fields s) fs = 1%nat.
Proof. exact union_write_exactly_one. Qed.
Print Assumptions C02_union_write_exactly_one.

(* ---- presentation-only options ---- *)

(* to_wire takes the schema and the value and nothing else: naming style, tags, setters, nil_safe,
   json_enum_as_text, type aliases, enum_as_int_32, value_type_in_container ... are not inputs.
   reorder_fields permutes the field lists of the struct-likes: the result of Write on an object does
   not change at all when only the schemas are reordered ... *)
Theorem C02_presentation_invariance : forall e e', env_equiv e e' -> forall v t, to_w e t v = to_w e' t v.
Proof. exact to_w_env_equiv. Qed.
Print Assumptions C02_presentation_invariance.

Theorem C02_reordered_schema_equiv : forall l l', NoDup (map f_id l) -> Permutation l l' ->
  forall id, find_field id l = find_field id l'.
Proof. exact find_field_perm. Qed.
Print Assumptions C02_reordered_schema_equiv.

(* ... and visiting the slots of the object in the reordered order yields a permutation of the fields *)
Theorem C02_reorder_fields_permutation : forall e s fs fs' wfs,
  find_struct e (s_name s) = Some s -> Permutation fs fs' ->
  to_wire e s (VStruct fs) = Ok (WStruct wfs) ->
  exists wfs', to_wire e s (VStruct fs') = Ok (WStruct wfs') /\ Permutation wfs wfs'.
Proof. exact to_wire_reorder. Qed.
Print Assumptions C02_reorder_fields_permutation.

(* ---- Read, at full strength: every nesting level, bytes, existing objects ---- *)

(* [strip e t w] removes, at EVERY struct level of w (inside list / set elements, map keys and values,
   nested fields), the fields a reader of the schema must skip; reading w is reading strip w *)
Theorem C02_read_ignores_nested : forall e w t, from_w e t (strip e t w) = from_w e t w.
Proof. exact read_ignores_nested. Qed.
Print Assumptions C02_read_ignores_nested.

Theorem C02_read_ignores_nested_top : forall e s init wfs,
  from_wire e s init (WStruct (strip_fields e s wfs)) = from_wire e s init (WStruct wfs).
Proof. exact read_ignores_nested_top. Qed.
Print Assumptions C02_read_ignores_nested_top.

(* two inputs that differ only in skippable fields, anywhere, read the same *)
Theorem C02_read_same_modulo_skippable : forall e t w1 w2,
  strip e t w1 = strip e t w2 -> from_w e t w1 = from_w e t w2.
Proof. exact read_same_modulo_skippable. Qed.
Print Assumptions C02_read_same_modulo_skippable.

(* byte level: the encoding of a skippable field spliced in at any field boundary changes nothing *)
Theorem C02_read_bytes_ignores_inserted : forall e s init l1 u l2 rest,
  wf (WStruct (l1 ++ u :: l2)) -> skippable e s u = true ->
  read_bytes e s init (flat_map enc_field l1 ++ enc_field u ++ enc (WStruct l2) ++ rest) =
  read_bytes e s init (flat_map enc_field l1 ++ enc (WStruct l2) ++ rest).
Proof. exact read_bytes_ignores_inserted. Qed.
Print Assumptions C02_read_bytes_ignores_inserted.

(* no proper prefix of the bytes Write produced is accepted, whatever object is read into *)
Theorem C02_written_bytes_truncated : forall e s v bs init n,
  wf_env e = true -> wt e s v = true -> write_bytes e s v = Ok bs -> (n < length bs)%nat ->
  read_bytes e s init (firstn n bs) = Err EDecode.
Proof. exact written_bytes_truncated. Qed.
Print Assumptions C02_written_bytes_truncated.

(* the reader never fails for lack of fuel: a decode consumes at least as many bytes as its result is
   deep, a result needs no more fuel than its depth, hence dec_struct (fuel = input length + 1) decodes
   whatever any amount of fuel decodes *)
Theorem C02_dec_consumed : forall f t bs v r, dec f t bs = Some (v, r) -> (depth v + length r <= length bs)%nat.
Proof. exact dec_consumed. Qed.
Print Assumptions C02_dec_consumed.

Theorem C02_dec_fuel_depth : forall f t bs v r, dec f t bs = Some (v, r) ->
  forall f', (depth v <= f')%nat -> dec f' t bs = Some (v, r).
Proof. exact dec_fuel_depth. Qed.
Print Assumptions C02_dec_fuel_depth.

Theorem C02_dec_struct_complete : forall f bs v r, dec f T_STRUCT bs = Some (v, r) -> dec_struct bs = Some (v, r).
Proof. exact dec_struct_complete. Qed.
Print Assumptions C02_dec_struct_complete.

(* Read into an existing object touches only the slots whose ids occur on the wire *)
Theorem C02_read_frame : forall e s fs0 wfs fs',
  from_wire e s (VStruct fs0) (WStruct wfs) = Ok (VStruct fs') ->
  map fst fs' = map fst fs0 /\
  forall id, ~ In id (map (fun wf => snd (fst wf)) wfs) -> slot_of id fs' = slot_of id fs0.
Proof. exact read_frame. Qed.
Print Assumptions C02_read_frame.

(* duplicates: the last occurrence of a field replaces the whole slot *)
Theorem C02_read_last_wins : forall e s fs0 wfs f x v fs',
  find_field (f_id f) (s_fields s) = Some f ->
  from_w e (f_ty f) x = Ok v ->
  from_wire e s (VStruct fs0) (WStruct (wfs ++ [(ttype_of e (f_ty f), f_id f, x)])) = Ok (VStruct fs') ->
  In (f_id f) (map fst fs0) ->
  slot_of (f_id f) fs' = Some (wrap_slot f v).
Proof. exact read_last_wins. Qed.
Print Assumptions C02_read_last_wins.

(* getters: a set field shows its payload, an unset one the declared default (or the zero value), a
   field without IsSet its slot; the pointer slot Read stores for an optional base field shows the payload *)
Theorem C02_getters : forall f v,
  (supports_isset f = true -> isset f v = true -> getter f v = deref f v) /\
  (supports_isset f = true -> isset f v = false -> getter f v = default_var f) /\
  (supports_isset f = false -> getter f v = v) /\
  (base_ptr f = true -> getter f (wrap_slot f v) = v).
Proof. exact getters_show. Qed.
Print Assumptions C02_getters.

(* ---- the hypotheses are satisfiable, and what lies outside them ---- *)

From Coq Require Import String.
Open Scope string_scope.
Definition exK := mkstruct (B "a.K") KStruct
  [mkfield 1 (B "x") Required TI32 None false; mkfield 2 (B "s") Optional TString (Some (LStr (B "hi"))) false].
Definition exU := mkstruct (B "a.U") KUnion
  [mkfield 1 (B "a") Optional TI32 None false; mkfield 2 (B "b") Optional TString None false].
Definition exS := mkstruct (B "a.S") KStruct [
  mkfield 1 (B "b") Default TBool None false;
  mkfield 2 (B "r") Required TByte None false;
  mkfield 3 (B "o") Optional TI16 None false;
  mkfield 4 (B "e") Default (TEnum (B "a.E")) None false;
  mkfield 5 (B "l") Default (TList (TRef (B "a.K"))) None false;
  mkfield 6 (B "m") Optional (TMap TString (TSet TDouble)) None false;
  mkfield 7 (B "u") Optional (TRef (B "a.U")) None false;
  mkfield (-3) (B "k") Default (TRef (B "a.K")) None false].
Definition exE := mkenv [exK; exU; exS] [mkenum (B "a.E") [(B "A", 1)]].
Definition exV := VStruct [(1, VBool true); (2, VInt (-3)); (3, VSome (VInt 300)); (4, VInt 4294967297);
  (5, VList [VStruct [(1, VInt 7); (2, VStr (B "hi"))]]); (6, VMap [(VStr (B "k"), VList [VDbl 0; VDbl 1])]);
  (7, VStruct [(1, VNil); (2, VSome (VStr (B "x")))]); (-3, VStruct [(1, VInt 0); (2, VStr [])])].

Example C02_domain_nonempty : (wf_env exE && wt exE exS exV) = true.
Proof. vm_compute. reflexivity. Qed.
Example C02_domain_nonempty_find : find_struct exE (s_name exS) = Some exS.
Proof. reflexivity. Qed.

(* outside wt: a nil struct pointer in a non-optional position whose target has a required field is
   written as an empty struct, which the reader of that struct rejects (modelled; not in the domain) *)
Definition exV2 := VStruct [(1, VBool true); (2, VInt 0); (3, VNil); (4, VInt 0); (5, VNil); (6, VNil); (7, VNil); (-3, VNil)].
Example C02_nil_struct_with_required_outside_domain : wt exE exS exV2 = false.
Proof. vm_compute. reflexivity. Qed.
Example C02_nil_struct_with_required_does_not_round_trip :
  match to_wire exE exS exV2 with Ok w => read_new exE exS w | Err er => Err er end = Err (ERequiredMissing 1).
Proof. vm_compute. reflexivity. Qed.

(* outside wt: a nil union pointer in a non-optional position makes the generated Write panic *)
Example C02_nil_union_panics :
  to_w exE (TList (TRef (B "a.U"))) (VList [VNil]) = Err ENilUnion.
Proof. vm_compute. reflexivity. Qed.
