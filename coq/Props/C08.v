(* Props/C08.v — property C08: the generated client and the generated processor carry a call
   end to end.  Statements only; the model is Wire/Rpc.v (no proofs there), the proofs are in
   Wire/RpcFacts.v on top of Wire/StdFacts.v (write_read, wire_shape) and Wire/CodecFacts.v.

   Reading guide.  E = rpc_env e ss is the user's env plus every synthesized <fn>_args /
   <fn>_result struct; rpc_wf e ss is a decidable check of what thriftgo's checker guarantees
   (arguments not optional, throws fields optional struct-likes, ids unique — in particular no
   exception under id 0 —, oneway functions void without throws, names of synthesized structs
   unique).  A method is (declaring service, function); tbl is the dispatch table of the service
   whose processor runs (own functions ++ table of the base service).  The handler h is an arbitrary
   function from (method, received arguments) to an outcome; hypotheses about it only say that what
   it returns is well typed.  apache/thrift v0.13.0 (TStandardClient, TApplicationException,
   TBinaryProtocol message framing) is modelled from its source: trusted, not verified. *)
From Coq Require Import List ZArith Bool Lia.
From Verif Require Import Base.Bytes Base.BE Base.Lit Wire.TType Wire.WVal Wire.Codec Wire.Schema Wire.Value Wire.Std
  Wire.StdFacts Wire.Rpc Wire.RpcFacts.
Import ListNotations.
Open Scope Z_scope.

(* ---- message framing: what WriteMessageBegin (strict) writes, ReadMessageBegin reads back ---- *)

Theorem C08_message_header : forall name ty seq rest,
  len_ok name = true -> 0 <= ty < 256 -> in_srange 4 seq ->
  read_msg_begin (msg_begin name ty seq ++ rest) = Some (name, ty, seq, rest).
Proof. exact read_msg_begin_msg_begin. Qed.
Print Assumptions C08_message_header.

(* ---- call_roundtrip: for every declared (own or inherited) non-oneway method, all well-typed
        arguments and every handler: the caller gets the image of what the handler returned ---- *)

Theorem C08_call_roundtrip : forall e ss, rpc_wf e ss = true ->
  forall fuel svc tbl, method_table fuel ss svc = Some tbl ->
  forall (h : handler) (m : method) st args,
  find_method tbl (fn_name (snd m)) = Some m ->
  fn_oneway (snd m) = false ->
  wt_args (rpc_env e ss) m args = true ->
  outcome_ok (rpc_env e ss) (snd m) (h m (norm_args (rpc_env e ss) (snd m) args)) = true ->
  exists req,
    client_send (rpc_env e ss) m st args = Ok (next_seq st, req) /\
    client_recv (rpc_env e ss) m (next_seq st) (fst (process (rpc_env e ss) tbl h req)) =
      image (rpc_env e ss) (snd m) (h m (norm_args (rpc_env e ss) (snd m) args)).
Proof. exact call_roundtrip. Qed.
Print Assumptions C08_call_roundtrip.

(* ---- handler_sees_args: exactly one handler invocation, of that method, with norm args ---- *)

Theorem C08_handler_sees_args : forall e ss, rpc_wf e ss = true ->
  forall fuel svc tbl, method_table fuel ss svc = Some tbl ->
  forall (h : handler) (m : method) st args,
  find_method tbl (fn_name (snd m)) = Some m ->
  wt_args (rpc_env e ss) m args = true ->
  exists wfs,
    client_send (rpc_env e ss) m st args =
      Ok (next_seq st, msg_begin (fn_name (snd m)) M_CALL (next_seq st) ++ enc (WStruct wfs)) /\
    snd (process (rpc_env e ss) tbl h (msg_begin (fn_name (snd m)) M_CALL (next_seq st) ++ enc (WStruct wfs))) =
      [(m, norm_args (rpc_env e ss) (snd m) args)].
Proof. exact handler_sees_args. Qed.
Print Assumptions C08_handler_sees_args.

(* ---- everything about one call at once (oneway included) ---- *)

Theorem C08_call_carried : forall e ss, rpc_wf e ss = true ->
  forall fuel svc tbl, method_table fuel ss svc = Some tbl ->
  forall (h : handler) (m : method) st args,
  find_method tbl (fn_name (snd m)) = Some m ->
  wt_args (rpc_env e ss) m args = true ->
  (fn_oneway (snd m) = false ->
   outcome_ok (rpc_env e ss) (snd m) (h m (norm_args (rpc_env e ss) (snd m) args)) = true) ->
  exists req,
    client_send (rpc_env e ss) m st args = Ok (next_seq st, req) /\
    snd (process (rpc_env e ss) tbl h req) = [(m, norm_args (rpc_env e ss) (snd m) args)] /\
    client_recv (rpc_env e ss) m (next_seq st) (fst (process (rpc_env e ss) tbl h req)) =
      (if fn_oneway (snd m) then COneway
       else image (rpc_env e ss) (snd m) (h m (norm_args (rpc_env e ss) (snd m) args))) /\
    (fn_oneway (snd m) = true -> fst (process (rpc_env e ss) tbl h req) = None).
Proof. exact call_carried. Qed.
Print Assumptions C08_call_carried.

(* ---- unknown method name: UNKNOWN_METHOD application exception, handler untouched ---- *)

Theorem C08_unknown_method_reply : forall E tbl h bs name ty seq body,
  read_msg_begin bs = Some (name, ty, seq, body) -> find_method tbl name = None ->
  process E tbl h bs = (Some (exc_reply name seq (msg_unknown name) UNKNOWN_METHOD), []).
Proof. exact unknown_method_reply. Qed.
Print Assumptions C08_unknown_method_reply.

(* the client of [svc] (table tbl) calls a processor with table ptbl that lacks the method *)
Theorem C08_unknown_method_is_app_exception : forall e ss, rpc_wf e ss = true ->
  forall fuel svc tbl, method_table fuel ss svc = Some tbl ->
  forall (h : handler) (ptbl : list method) (m : method) st args,
  In m tbl -> fn_oneway (snd m) = false -> wt_args (rpc_env e ss) m args = true ->
  find_method ptbl (fn_name (snd m)) = None ->
  len_ok (msg_unknown (fn_name (snd m))) = true ->
  exists req,
    client_send (rpc_env e ss) m st args = Ok (next_seq st, req) /\
    process (rpc_env e ss) ptbl h req =
      (Some (exc_reply (fn_name (snd m)) (next_seq st) (msg_unknown (fn_name (snd m))) UNKNOWN_METHOD), []) /\
    client_recv (rpc_env e ss) m (next_seq st) (fst (process (rpc_env e ss) ptbl h req)) = CAppExc UNKNOWN_METHOD.
Proof. exact unknown_method_is_app_exception. Qed.
Print Assumptions C08_unknown_method_is_app_exception.

(* ---- oneway: no reply, for any request bytes whose header names a oneway method ---- *)

Theorem C08_oneway_no_reply : forall E tbl h bs name ty seq body (m : method),
  read_msg_begin bs = Some (name, ty, seq, body) -> find_method tbl name = Some m ->
  fn_oneway (snd m) = true -> fst (process E tbl h bs) = None.
Proof. exact oneway_no_reply. Qed.
Print Assumptions C08_oneway_no_reply.

(* ---- inherited methods are dispatched (base service addressed by qualified name: same file or
        included file); through any number of extends steps the ancestor's table is contained ---- *)

Theorem C08_inherited_dispatch : forall ss k n s b tb name (m : method),
  find_service ss n = Some s -> sv_extends s = Some b -> method_table k ss b = Some tb ->
  find_method tb name = Some m -> find_method (own_methods s) name = None ->
  exists t, method_table (S k) ss n = Some t /\ find_method t name = Some m.
Proof. exact inherited_dispatch. Qed.
Print Assumptions C08_inherited_dispatch.

Theorem C08_inherited_table : forall ss n c, derives ss n c -> forall fuel t,
  method_table fuel ss n = Some t ->
  exists k tc, method_table k ss c = Some tc /\ incl tc t.
Proof. exact inherited_table. Qed.
Print Assumptions C08_inherited_table.

(* ---- wire_message_shape ---- *)

(* request = <name as written in the IDL, CALL (also for oneway: TStandardClient), next seqid> ++
   args struct: the arguments in declaration order under their IDL ids, wire types of the spec *)
Theorem C08_wire_message_shape_request : forall e ss, rpc_wf e ss = true ->
  forall fuel svc tbl, method_table fuel ss svc = Some tbl ->
  forall (m : method) st args,
  In m tbl -> wt_args (rpc_env e ss) m args = true ->
  exists wfs,
    client_send (rpc_env e ss) m st args =
      Ok (next_seq st, msg_begin (fn_name (snd m)) M_CALL (next_seq st) ++ enc (WStruct wfs)) /\
    map hdr wfs = map (fun a => (spec_ttype (f_ty a), f_id a)) (fn_args (snd m)) /\
    read_msg_begin (msg_begin (fn_name (snd m)) M_CALL (next_seq st) ++ enc (WStruct wfs)) =
      Some (fn_name (snd m), M_CALL, next_seq st, enc (WStruct wfs)).
Proof. exact request_shape. Qed.
Print Assumptions C08_wire_message_shape_request.

(* reply = <name, REPLY, same seqid> ++ result struct with success under id 0 (absent for nil),
   a declared exception under its IDL id as a STRUCT, nothing for void;
   <name, EXCEPTION, same seqid> ++ TApplicationException(INTERNAL_ERROR) for any other error *)
Theorem C08_wire_message_shape_reply : forall e ss, rpc_wf e ss = true ->
  forall fuel svc tbl, method_table fuel ss svc = Some tbl ->
  forall (m : method) seq oc,
  In m tbl -> fn_oneway (snd m) = false -> in_srange 4 seq ->
  outcome_ok (rpc_env e ss) (snd m) oc = true ->
  match oc with
  | Ret v =>
      exists rfs, reply_of (rpc_env e ss) m seq oc =
                    Some (msg_begin (fn_name (snd m)) M_REPLY seq ++ enc (WStruct rfs)) /\
                  map hdr rfs = match fn_ret (snd m) with
                                | Some t => if is_nil v then [] else [(spec_ttype t, 0)]
                                | None => [] end
  | Void => reply_of (rpc_env e ss) m seq oc =
              Some (msg_begin (fn_name (snd m)) M_REPLY seq ++ enc (WStruct []))
  | Throw n v =>
      match find_throw n (fn_throws (snd m)) with
      | Some g => exists rfs, reply_of (rpc_env e ss) m seq oc =
                                Some (msg_begin (fn_name (snd m)) M_REPLY seq ++ enc (WStruct rfs)) /\
                              map hdr rfs = [(T_STRUCT, f_id g)]
      | None => reply_of (rpc_env e ss) m seq oc =
                  Some (exc_reply (fn_name (snd m)) seq (msg_internal (fn_name (snd m)) msg_opaque) INTERNAL_ERROR)
      end
  | OtherError text =>
      reply_of (rpc_env e ss) m seq oc =
        Some (exc_reply (fn_name (snd m)) seq (msg_internal (fn_name (snd m)) text) INTERNAL_ERROR)
  end.
Proof. exact reply_shape. Qed.
Print Assumptions C08_wire_message_shape_reply.

(* ---- sequence_of_calls: any list of calls on one connection (induction over the list); hs k is
        the handler's behaviour during call k; per call: sequence id, caller's result, handler log ---- *)

Theorem C08_sequence_of_calls : forall e ss, rpc_wf e ss = true ->
  forall fuel svc tbl, method_table fuel ss svc = Some tbl ->
  forall (hs : nat -> handler) cs k st,
  calls_ok (rpc_env e ss) tbl hs k cs ->
  map view (run_calls (rpc_env e ss) tbl hs k st cs) = expected (rpc_env e ss) hs k st cs.
Proof. exact sequence_of_calls. Qed.
Print Assumptions C08_sequence_of_calls.

(* sequence ids: next_seq iterated (st+1, st+2, ... as long as int32 does not overflow) *)
Theorem C08_sequence_ids : forall e ss, rpc_wf e ss = true ->
  forall fuel svc tbl, method_table fuel ss svc = Some tbl ->
  forall (hs : nat -> handler) cs k st,
  calls_ok (rpc_env e ss) tbl hs k cs ->
  map o_seq (run_calls (rpc_env e ss) tbl hs k st cs) = seqs st (length cs).
Proof. exact sequence_ids. Qed.
Print Assumptions C08_sequence_ids.

Theorem C08_next_seq_small : forall st, in_srange 4 (st + 1) -> next_seq st = st + 1.
Proof. exact next_seq_small. Qed.
Print Assumptions C08_next_seq_small.

(* ---- streaming functions (annotation streaming.mode, no thrift_streaming option) are taken out of the
        services of the main file before generation; every other function stays, in order, and is
        dispatched under its IDL name; a removed function's name is unknown to the processor ---- *)

Theorem C08_streaming_removed : forall l g,
  In g (remove_streaming l) <-> exists f, In f l /\ fs_fn f = g /\ fs_stream f = None.
Proof. exact remove_streaming_spec. Qed.
Print Assumptions C08_streaming_removed.

Theorem C08_kept_function_dispatched : forall s f,
  In f (ss_funs s) -> fs_stream f = None ->
  NoDup (map fn_name (sv_funs (effective s))) ->
  find_method (own_methods (effective s)) (fn_name (fs_fn f)) = Some (ss_name s, fs_fn f).
Proof. exact kept_function_dispatched. Qed.
Print Assumptions C08_kept_function_dispatched.

Theorem C08_streaming_function_unknown : forall s name,
  ss_main s = true ->
  (forall f, In f (ss_funs s) -> fn_name (fs_fn f) = name -> fs_stream f <> None) ->
  find_method (own_methods (effective s)) name = None.
Proof. exact streaming_function_unknown. Qed.
Print Assumptions C08_streaming_function_unknown.

(* ---- the hypotheses are satisfiable: a base service in file "b", a service extending it in
        file "a" (value / void / oneway methods, two declared exceptions) ---- *)

From Coq.Strings Require Import String.
Local Open Scope string_scope.

Definition ex_E1 : sschema :=
  mkstruct (B "b.E1") KException [mkfield 1 (B "msg") Default TString None false; mkfield 2 (B "code") Required TI32 None false].
Definition ex_E2 : sschema := mkstruct (B "a.E2") KException [mkfield 1 (B "why") Optional TString None false].
Definition ex_env : env := mkenv [ex_E1; ex_E2] [].
Definition ex_ping : function :=
  mkfun (B "ping") false (Some TI32) [mkfield 1 (B "a") Default TI32 None false]
        [mkfield 1 (B "e") Optional (TRef (B "b.E1")) None false].
Definition ex_add : function :=
  mkfun (B "add") false (Some (TList TString))
        [mkfield 1 (B "type") Default TI32 None false; mkfield 4 (B "err") Required (TList TI64) None false]
        [mkfield 1 (B "e1") Optional (TRef (B "b.E1")) None false; mkfield 3 (B "e2") Optional (TRef (B "a.E2")) None false].
Definition ex_fire : function := mkfun (B "fire") true None [mkfield 1 (B "msg") Default TString None false] [].
Definition ex_nop : function := mkfun (B "nop") false None [] [].
Definition ex_ss : list service :=
  [mksvc (B "b.Base") None [ex_ping]; mksvc (B "a.Svc") (Some (B "b.Base")) [ex_add; ex_fire; ex_nop]].
Definition ex_tbl : list method :=
  [(B "a.Svc", ex_add); (B "a.Svc", ex_fire); (B "a.Svc", ex_nop); (B "b.Base", ex_ping)].

Example ex_wf : rpc_wf ex_env ex_ss = true.
Proof. vm_compute. reflexivity. Qed.
Example ex_table : method_table 2 ex_ss (B "a.Svc") = Some ex_tbl.
Proof. vm_compute. reflexivity. Qed.
Example ex_inherited : find_method ex_tbl (B "ping") = Some (B "b.Base", ex_ping).
Proof. vm_compute. reflexivity. Qed.

(* a scripted handler: add throws E2, ping returns 7, the others return nothing *)
Definition ex_handler : handler := fun m _ =>
  if beqb (fn_name (snd m)) (B "add") then Throw (B "a.E2") (VStruct [(1, VSome (VStr (B "no")))])
  else if beqb (fn_name (snd m)) (B "ping") then Ret (VInt 7) else Void.
Definition ex_calls : list call :=
  [mkcall (B "a.Svc", ex_add) [VInt 5; VNil]; mkcall (B "a.Svc", ex_fire) [VStr (B "x")];
   mkcall (B "b.Base", ex_ping) [VInt (-1)]; mkcall (B "a.Svc", ex_nop) []].

Example ex_calls_ok : calls_ok (rpc_env ex_env ex_ss) ex_tbl (fun _ => ex_handler) 0 ex_calls.
Proof. vm_compute. repeat split; try reflexivity; intros; reflexivity. Qed.

Example ex_run :
  map view (run_calls (rpc_env ex_env ex_ss) ex_tbl (fun _ => ex_handler) 0 0 ex_calls) =
  [ (1, CExc (B "a.E2") (VStruct [(1, VSome (VStr (B "no")))]), [((B "a.Svc", ex_add), [VInt 5; VList []])]);
    (2, COneway, [((B "a.Svc", ex_fire), [VStr (B "x")])]);
    (3, CRet (VInt 7), [((B "b.Base", ex_ping), [VInt (-1)])]);
    (4, CVoid, [((B "a.Svc", ex_nop), [])]) ].
Proof. vm_compute. reflexivity. Qed.

(* the same service as written in the IDL, with a streaming function between add and fire *)
Definition ex_src : service_src :=
  mksrc (B "a.Svc") (Some (B "b.Base")) true
        [mkfsrc ex_add None;
         mkfsrc (mkfun (B "watch") false (Some TString) [mkfield 1 (B "req") Default TString None false] []) (Some [mode_server]);
         mkfsrc ex_fire None; mkfsrc ex_nop None].
Example ex_effective : effective ex_src = mksvc (B "a.Svc") (Some (B "b.Base")) [ex_add; ex_fire; ex_nop].
Proof. vm_compute. reflexivity. Qed.
