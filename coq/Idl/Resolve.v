(* Idl/Resolve.v — executable model of symbol resolution (semantic/semantic.go,
   semantic/split.go; property C05).  Definitions only; proofs are in
   Idl/ResolveFacts.v, the declarative specification in Idl/ResolveSpec.v.

   What is mirrored (statement by statement unless said otherwise):

     ResolveSymbols / ResolveAST   [resolve_program], [resolve_rec], [resolve_file_in]
       - the includes of a file are resolved first, depth first, each file once
         (Go memoises with "Name2Category != nil"; the model with the accumulator
         [done] of finished files);
       - RegisterNames                                    [register]
       - ResolveType on the type of every typedef, constant, struct/union/exception
         field, function result (unless void), argument and throws field
                                                          [resolve_ty]
       - ResolveConstValue on every constant value and on the default of every
         field (struct-like fields, and — after the repair
         proposed_fixes/C05-argument-defaults — arguments and throws fields)
                                                          [resolve_cv]
       - getEnum (typedef'd enums, across includes)       [get_enum], fuelled: the Go
         function recurses without a visited set, a local typedef cycle overflows
         the Go stack; the model's image is [ErrOutOfFuel]
       - union fields forced to optional                  [resolve_field]
       - ResolveBaseService                               [resolve_base]
       - ResolveTypedefs / ResolveTypedef                 [te_fix], [te_round]
       - Include.Used                                     [file_marks], [mark_includes]
     Deref                                                [deref]

   Order of the steps = order of the Go statements, so that the FIRST error is the one
   the Go code reports (typedef types, constants, structs, unions, exceptions,
   services, then the typedef fixpoint).

   Deliberate differences, none observable on the domain of the property:
     - Go records a (Type node, AST, name) "typedef pair" for every type occurrence
       that names a typedef and retries ALL pairs round after round, copying the
       category of the typedef's own type once that is no longer Typedef.  Only pairs
       whose node is the type of a LOCAL typedef are ever read by another pair, so the
       model iterates over those ([tde] entries, same in-place order within a round,
       same "no progress => error" exit) and afterwards gives every other occurrence
       the final category of the typedef it names ([fix_ty]).  The number of rounds is
       not observable; error/ok and all final categories are the same.
     - Include.Used is written by Go at the moment a reference through the include is
       found; the model computes the set of such references from the resolved file
       ([file_marks]).  On success the two coincide (every Go assignment of Used is
       paired with storing the include index in a Reference or Extra that survives).
     - cyclic include graphs: Go marks a file "in progress" and silently sees an empty
       name table through a back edge; every thriftgo pipeline rejects include cycles
       (parser.CircleDetect) before the semantic pass, so the model just reports
       [ErrIncludeCycle] / [ErrOutOfFuel] for them.
     - the input is what the parser produces: resolution fields are the zero value.
       The model overwrites them (Go only ever sets them). *)
From Coq Require Import List Bool Arith NArith ZArith.
From Coq.Strings Require Import Byte String.
From Verif Require Import Base.Bytes Idl.Ast Idl.AstUtil.
Import ListNotations.

(* ---------------------------------------------------------------- result monad *)

Inductive resolve_error :=
| ErrNotParsed          (* an include without parsed Reference / a file missing from the program *)
| ErrDupName            (* "multiple definition of" (RegisterNames) *)
| ErrUndefinedType      (* "undefined type" *)
| ErrNotAType           (* "unexpected type category": a local constant or service used as a type *)
| ErrInvalidTypeName    (* "invalid type name" (empty name) *)
| ErrTypedefUnresolved  (* "typedefs can not be resolved" (cycle, or chain into one) *)
| ErrUndefinedValue     (* "undefined value" *)
| ErrAmbiguousValue     (* "ambiguous const value" *)
| ErrBaseService        (* "base service ... not found" *)
| ErrInternal           (* a Go panic / impossible branch (nil key type of a map, ...) *)
| ErrIncludeCycle       (* the include graph has a cycle (outside the domain, see above) *)
| ErrOutOfFuel.         (* model fuel exhausted: image of the getEnum stack overflow *)

Inductive result (A : Type) := Ok (a : A) | Error (e : resolve_error).
Arguments Ok {A} a.
Arguments Error {A} e.

Definition bind {A B} (r : result A) (k : A -> result B) : result B :=
  match r with Ok a => k a | Error e => Error e end.

Declare Scope resolve_scope.
Delimit Scope resolve_scope with resolve.
Notation "x <- a ;; b" := (bind a (fun x => b))
  (at level 61, a at next level, right associativity) : resolve_scope.
Local Open Scope resolve_scope.

Fixpoint mapM {A B} (f : A -> result B) (l : list A) : result (list B) :=
  match l with
  | [] => Ok []
  | x :: r => y <- f x ;; ys <- mapM f r ;; Ok (y :: ys)
  end.

Definition resolve_error_code (e : resolve_error) : N :=
  match e with
  | ErrNotParsed => 1 | ErrDupName => 2 | ErrUndefinedType => 3 | ErrNotAType => 4
  | ErrInvalidTypeName => 5 | ErrTypedefUnresolved => 6 | ErrUndefinedValue => 7
  | ErrAmbiguousValue => 8 | ErrBaseService => 9 | ErrInternal => 10
  | ErrIncludeCycle => 11 | ErrOutOfFuel => 12
  end%N.

(* ---------------------------------------------------------------- Name2Category *)

(* Go strings compare bytewise; astdump lists Name2Category sorted that way *)
Fixpoint bytes_ltb (a b : bytes) : bool :=
  match a, b with
  | [], [] => false
  | [], _ :: _ => true
  | _ :: _, [] => false
  | x :: a', y :: b' =>
    if (Byte.to_N x <? Byte.to_N y)%N then true
    else if (Byte.to_N y <? Byte.to_N x)%N then false
    else bytes_ltb a' b'
  end.

Fixpoint n2c_insert (k : bytes) (c : category) (m : list (bytes * category)) : list (bytes * category) :=
  match m with
  | [] => [(k, c)]
  | (k', c') :: r => if bytes_ltb k k' then (k, c) :: m else (k', c') :: n2c_insert k c r
  end.

(* RegisterNames / AddName: every global name once *)
Fixpoint register (defs acc : list (bytes * category)) : result (list (bytes * category)) :=
  match defs with
  | [] => Ok acc
  | (n, c) :: r =>
    match lookup n acc with
    | Some _ => Error ErrDupName
    | None => register r (n2c_insert n c acc)
    end
  end.

Definition n2c_of (f : file) : list (bytes * category) :=
  match f_name2cat f with Some l => l | None => [] end.

(* c >= Category_Enum && c <= Category_Typedef *)
Definition is_type_cat (c : category) : bool :=
  match c with CatEnum | CatStruct | CatUnion | CatException | CatTypedef => true | _ => false end.
Definition is_service_cat (c : category) : bool :=
  match c with CatService => true | _ => false end.
Definition is_constant_cat (c : category) : bool :=
  match c with CatConstant => true | _ => false end.
Definition is_typedef_cat (c : category) : bool :=
  match c with CatTypedef => true | _ => false end.

(* ---------------------------------------------------------------- file updates *)

Definition with_name2cat (f : file) (m : option (list (bytes * category))) : file :=
  File (f_filename f) (f_includes f) (f_cpp_includes f) (f_namespaces f) (f_typedefs f) (f_constants f)
       (f_enums f) (f_structs f) (f_unions f) (f_exceptions f) (f_services f) m.
Definition with_typedefs (f : file) (tds : list typedef) : file :=
  File (f_filename f) (f_includes f) (f_cpp_includes f) (f_namespaces f) tds (f_constants f)
       (f_enums f) (f_structs f) (f_unions f) (f_exceptions f) (f_services f) (f_name2cat f).
Definition with_includes (f : file) (incs : list include) : file :=
  File (f_filename f) incs (f_cpp_includes f) (f_namespaces f) (f_typedefs f) (f_constants f)
       (f_enums f) (f_structs f) (f_unions f) (f_exceptions f) (f_services f) (f_name2cat f).

(* ---------------------------------------------------------------- ResolveType *)

(* the first include of the list (numbered from [idx]) whose IDL prefix is [pre] and
   whose (resolved) target registers [m] with a category accepted by [ok] *)
Fixpoint find_include (done : program) (ok : category -> bool) (pre m : bytes)
         (incs : list include) (idx : nat) : option (nat * category) :=
  match incs with
  | [] => None
  | i :: r =>
    let next := find_include done ok pre m r (S idx) in
    if beqb (idl_prefix (in_path i)) pre then
      match include_target done i with
      | Some g =>
        match lookup m (n2c_of g) with
        | Some c => if ok c then Some (idx, c) else next
        | None => next
        end
      | None => next
      end
    else next
  end.

Definition typedef_flag (c : category) : option bool :=
  if is_typedef_cat c then Some true else None.

(* [f] must carry the registered names of the current file ([f_name2cat]) *)
Fixpoint resolve_ty (done : program) (f : file) (t : ty) : result ty :=
  match t with
  | Ty n k v cpp an _ _ _ =>
    match builtin_category n with
    | Some CatMap =>
      k' <- match k with Some kt => resolve_ty done f kt | None => Error ErrInternal end ;;
      v' <- match v with Some vt => resolve_ty done f vt | None => Error ErrInternal end ;;
      Ok (Ty n (Some k') (Some v') cpp an CatMap None None)
    | Some CatList =>
      v' <- match v with Some vt => resolve_ty done f vt | None => Error ErrInternal end ;;
      Ok (Ty n k (Some v') cpp an CatList None None)
    | Some CatSet =>
      v' <- match v with Some vt => resolve_ty done f vt | None => Error ErrInternal end ;;
      Ok (Ty n k (Some v') cpp an CatSet None None)
    | Some c => Ok (Ty n k v cpp an c None None)
    | None =>
      match split_type n with
      | [a] =>
        match lookup a (n2c_of f) with
        | Some c =>
          if is_type_cat c then Ok (Ty n k v cpp an c None (typedef_flag c))
          else Error ErrNotAType
        | None => Error ErrUndefinedType
        end
      | [pre; m] =>
        match find_include done is_type_cat pre m (f_includes f) 0 with
        | Some (idx, c) => Ok (Ty n k v cpp an c (Some (Ref m (Z.of_nat idx))) (typedef_flag c))
        | None => Error ErrUndefinedType
        end
      | _ => Error ErrInvalidTypeName
      end
    end
  end.

(* ---------------------------------------------------------------- getEnum *)

(* [g] is a resolved file of [done], or the current file with its names registered
   and the types of its typedefs resolved (ResolveAST resolves them before any
   constant).  Result: the enum and the index getEnum reports (-1 = reached without
   leaving [g] through a Reference of one of g's own typedefs). *)
Fixpoint get_enum (fuel : nat) (done : program) (g : file) (name : bytes) : result (option (enum * Z)) :=
  match fuel with
  | O => Error ErrOutOfFuel
  | S k =>
    match lookup name (n2c_of g) with
    | Some CatEnum =>
      match find_enum g name with
      | Some e => Ok (Some (e, (-1)%Z))
      | None => Error ErrInternal
      end
    | Some CatTypedef =>
      match find_typedef g name with
      | None => Error ErrInternal
      | Some x =>
        r1 <- match ty_ref (td_type x) with
              | Some r =>
                match reference_target done g r with
                | Some h =>
                  e <- get_enum k done h (ref_name r) ;;
                  Ok (match e with Some (en, _) => Some (en, ref_index r) | None => None end)
                | None => Error ErrInternal
                end
              | None => Ok None
              end ;;
        match r1 with
        | Some x1 => Ok (Some x1)
        | None => get_enum k done g (ty_name (td_type x))
        end
      end
    | _ => Ok None
    end
  end.

Definition prog_typedef_count (p : program) : nat :=
  fold_right (fun e acc => List.length (f_typedefs (snd e)) + acc) 0 p.
(* enough for every acyclic typedef graph: a call chain visits distinct typedefs *)
Definition enum_fuel (done : program) (f : file) : nat :=
  prog_typedef_count done + List.length (f_typedefs f) + 2.

(* ---------------------------------------------------------------- ResolveConstValue *)

Definition ident_is_bool (s : bytes) : bool := beqb s (B "true"%string) || beqb s (B "false"%string).

(* one candidate per enum value called [v] (the checker rejects duplicates) *)
Definition enum_cands (e : enum) (v : bytes) (x : const_extra) : list const_extra :=
  map (fun _ => x) (filter (fun ev => beqb (ev_name ev) v) (en_values e)).

(* every include with prefix [pre], in order, contributes [h idx target] *)
Fixpoint inc_cands (done : program) (h : nat -> file -> result (list const_extra)) (pre : bytes)
         (incs : list include) (idx : nat) : result (list const_extra) :=
  match incs with
  | [] => Ok []
  | i :: r =>
    here <- (if beqb (idl_prefix (in_path i)) pre then
               match include_target done i with
               | Some g => h idx g
               | None => Error ErrInternal
               end
             else Ok []) ;;
    rest <- inc_cands done h pre r (S idx) ;;
    Ok (here ++ rest)
  end.

(* the candidates of one SplitValue alternative *)
Definition alt_cands (fuel : nat) (done : program) (f : file) (ss : list bytes) : result (list const_extra) :=
  match ss with
  | [a] =>
    Ok (match lookup a (n2c_of f) with
        | Some CatConstant => [Extra false (-1)%Z a []]
        | _ => []
        end)
  | [i; v] =>
    ge <- get_enum fuel done f i ;;
    let c1 := match ge with Some (e, idx) => enum_cands e v (Extra true idx v i) | None => [] end in
    c2 <- inc_cands done (fun idx g =>
            Ok (match lookup v (n2c_of g) with
                | Some CatConstant => [Extra false (Z.of_nat idx) v i]
                | _ => []
                end)) i (f_includes f) 0 ;;
    Ok (c1 ++ c2)
  | [i; e; v] =>
    inc_cands done (fun idx g =>
      ge <- get_enum fuel done g e ;;
      Ok (match ge with Some (en, _) => enum_cands en v (Extra true (Z.of_nat idx) v e) | None => [] end))
      i (f_includes f) 0
  | _ => Ok []
  end.

Fixpoint all_cands (fuel : nat) (done : program) (f : file) (sss : list (list bytes)) : result (list const_extra) :=
  match sss with
  | [] => Ok []
  | ss :: r => a <- alt_cands fuel done f ss ;; b <- all_cands fuel done f r ;; Ok (a ++ b)
  end.

Definition resolve_ident (fuel : nat) (done : program) (f : file) (s : bytes) : result (option const_extra) :=
  if ident_is_bool s then Ok None
  else
    cs <- all_cands fuel done f (split_value s) ;;
    match cs with
    | [] => Error ErrUndefinedValue
    | [e] => Ok (Some e)
    | _ => Error ErrAmbiguousValue
    end.

Fixpoint resolve_cv (fuel : nat) (done : program) (f : file) (c : const_value) : result const_value :=
  match c with
  | CIdent s _ => e <- resolve_ident fuel done f s ;; Ok (CIdent s e)
  | CList l =>
    l' <- (fix go (l : list const_value) : result (list const_value) :=
             match l with
             | [] => Ok []
             | x :: r => x' <- resolve_cv fuel done f x ;; r' <- go r ;; Ok (x' :: r')
             end) l ;;
    Ok (CList l')
  | CMap l =>
    l' <- (fix go (l : list (const_value * const_value)) : result (list (const_value * const_value)) :=
             match l with
             | [] => Ok []
             | (k, v) :: r =>
               k' <- resolve_cv fuel done f k ;; v' <- resolve_cv fuel done f v ;;
               r' <- go r ;; Ok ((k', v') :: r')
             end) l ;;
    Ok (CMap l')
  | other => Ok other
  end.

(* ---------------------------------------------------------------- definitions *)

Definition resolve_typedef (done : program) (f : file) (td : typedef) : result typedef :=
  t <- resolve_ty done f (td_type td) ;;
  Ok (Typedef t (td_alias td) (td_annos td) (td_comments td)).

Definition resolve_constant (fuel : nat) (done : program) (f : file) (c : constant) : result constant :=
  t <- resolve_ty done f (co_type c) ;;
  v <- resolve_cv fuel done f (co_value c) ;;
  Ok (Constant (co_name c) t v (co_annos c) (co_comments c)).

(* ResolveStructField (also used, after the repair, for arguments and throws) *)
Definition resolve_field (fuel : nat) (done : program) (f : file) (force_optional : bool) (fd : field) : result field :=
  t <- resolve_ty done f (fd_type fd) ;;
  d <- match fd_default fd with
       | Some c => c' <- resolve_cv fuel done f c ;; Ok (Some c')
       | None => Ok None
       end ;;
  Ok (Field (fd_id fd) (fd_name fd) (if force_optional then ReqOptional else fd_req fd) t d
            (fd_annos fd) (fd_comments fd)).

Definition is_union (s : struct_like) : bool :=
  match sl_category s with SKUnion => true | _ => false end.

Definition resolve_struct_like (fuel : nat) (done : program) (f : file) (s : struct_like) : result struct_like :=
  fs <- mapM (resolve_field fuel done f (is_union s)) (sl_fields s) ;;
  Ok (StructLike (sl_category s) (sl_name s) fs (sl_annos s) (sl_comments s)).

Definition resolve_function (fuel : nat) (done : program) (f : file) (fn : function) : result function :=
  rt <- (if fn_void fn then Ok (fn_type fn) else resolve_ty done f (fn_type fn)) ;;
  args <- mapM (resolve_field fuel done f false) (fn_args fn) ;;
  throws <- mapM (resolve_field fuel done f false) (fn_throws fn) ;;
  Ok (Function (fn_name fn) (fn_oneway fn) (fn_void fn) rt args throws (fn_annos fn) (fn_comments fn)).

(* ResolveBaseService *)
Definition resolve_base (done : program) (f : file) (sv : service) : result (option reference) :=
  match split_type (sv_extends sv) with
  | [a] =>
    match lookup a (n2c_of f) with
    | Some CatService => Ok None
    | _ => Error ErrBaseService
    end
  | [pre; m] =>
    match find_include done is_service_cat pre m (f_includes f) 0 with
    | Some (idx, _) => Ok (Some (Ref m (Z.of_nat idx)))
    | None => Error ErrBaseService
    end
  | _ => Ok None
  end.

Definition resolve_service (fuel : nat) (done : program) (f : file) (sv : service) : result service :=
  fns <- mapM (resolve_function fuel done f) (sv_functions sv) ;;
  r <- resolve_base done f sv ;;
  Ok (Service (sv_name sv) (sv_extends sv) fns (sv_annos sv) r (sv_comments sv)).

(* ---------------------------------------------------------------- ResolveTypedefs *)

(* one entry per local typedef: its alias, the LOCAL typedef its type names while
   that is still pending, and the current category of its type *)
Record tde := Tde { te_alias : bytes; te_local : option bytes; te_cat : category }.

(* category of the type of typedef [ref_name r] in the include [ref_index r] of [f] *)
Definition ext_typedef_cat (done : program) (f : file) (r : reference) : option category :=
  match reference_target done f r with
  | Some g =>
    match find_typedef g (ref_name r) with
    | Some td => Some (ty_category (td_type td))
    | None => None
    end
  | None => None
  end.

(* [td] has its type resolved by [resolve_ty].  A typedef of an included typedef takes
   that one's category at once: the included file is completely resolved (Go does the
   same copy in the first round). *)
Definition te_init (done : program) (f : file) (td : typedef) : tde :=
  let t := td_type td in
  if is_typedef_cat (ty_category t) then
    match ty_ref t with
    | Some r =>
      match ext_typedef_cat done f r with
      | Some c => Tde (td_alias td) None c
      | None => Tde (td_alias td) None CatTypedef
      end
    | None => Tde (td_alias td) (Some (ty_name t)) CatTypedef
    end
  else Tde (td_alias td) None (ty_category t).

Definition te_lookup (st : list tde) (a : bytes) : option category :=
  match find_by te_alias a st with Some e => Some (te_cat e) | None => None end.

(* ResolveTypedef on the type of a local typedef *)
Definition te_step (st : list tde) (e : tde) : tde :=
  if is_typedef_cat (te_cat e) then
    match te_local e with
    | Some a =>
      match te_lookup st a with
      | Some c => if is_typedef_cat c then e else Tde (te_alias e) (te_local e) c
      | None => e
      end
    | None => e
    end
  else e.

(* one round over all entries, in place: an entry sees the updates of the entries
   before it *)
Fixpoint te_round (pre rest : list tde) : list tde :=
  match rest with
  | [] => pre
  | e :: r => te_round (pre ++ [te_step (pre ++ e :: r) e]) r
  end.

Definition te_pending (st : list tde) : nat :=
  List.length (filter (fun e => is_typedef_cat (te_cat e)) st).

Fixpoint te_fix (fuel : nat) (st : list tde) : result (list tde) :=
  if te_pending st =? 0 then Ok st
  else
    match fuel with
    | O => Error ErrOutOfFuel
    | S k =>
      let st' := te_round [] st in
      if te_pending st' =? te_pending st then Error ErrTypedefUnresolved
      else te_fix k st'
    end.

(* second pass: an occurrence that names a typedef takes the final category *)
Fixpoint fix_ty (done : program) (f : file) (st : list tde) (t : ty) : result ty :=
  match t with
  | Ty n k v cpp an c r td =>
    k' <- match k with Some x => y <- fix_ty done f st x ;; Ok (Some y) | None => Ok None end ;;
    v' <- match v with Some x => y <- fix_ty done f st x ;; Ok (Some y) | None => Ok None end ;;
    if is_typedef_cat c then
      match (match r with
             | Some rf => ext_typedef_cat done f rf
             | None => te_lookup st n
             end) with
      | Some c' => if is_typedef_cat c' then Error ErrTypedefUnresolved
                   else Ok (Ty n k' v' cpp an c' r td)
      | None => Error ErrInternal
      end
    else Ok (Ty n k' v' cpp an c r td)
  end.

Definition fix_typedef done f st (td : typedef) : result typedef :=
  t <- fix_ty done f st (td_type td) ;; Ok (Typedef t (td_alias td) (td_annos td) (td_comments td)).
Definition fix_constant done f st (c : constant) : result constant :=
  t <- fix_ty done f st (co_type c) ;; Ok (Constant (co_name c) t (co_value c) (co_annos c) (co_comments c)).
Definition fix_field done f st (fd : field) : result field :=
  t <- fix_ty done f st (fd_type fd) ;;
  Ok (Field (fd_id fd) (fd_name fd) (fd_req fd) t (fd_default fd) (fd_annos fd) (fd_comments fd)).
Definition fix_struct_like done f st (s : struct_like) : result struct_like :=
  fs <- mapM (fix_field done f st) (sl_fields s) ;;
  Ok (StructLike (sl_category s) (sl_name s) fs (sl_annos s) (sl_comments s)).
Definition fix_function done f st (fn : function) : result function :=
  rt <- fix_ty done f st (fn_type fn) ;;
  args <- mapM (fix_field done f st) (fn_args fn) ;;
  throws <- mapM (fix_field done f st) (fn_throws fn) ;;
  Ok (Function (fn_name fn) (fn_oneway fn) (fn_void fn) rt args throws (fn_annos fn) (fn_comments fn)).
Definition fix_service done f st (sv : service) : result service :=
  fns <- mapM (fix_function done f st) (sv_functions sv) ;;
  Ok (Service (sv_name sv) (sv_extends sv) fns (sv_annos sv) (sv_ref sv) (sv_comments sv)).

(* ---------------------------------------------------------------- Include.Used *)

Definition ty_mark (t : ty) : list Z :=
  match ty_ref t with Some r => [ref_index r] | None => [] end.
Definition cv_mark (c : const_value) : list Z :=
  match c with
  | CIdent _ (Some e) => if (0 <=? ex_index e)%Z then [ex_index e] else []
  | _ => []
  end.
Definition sv_mark (s : service) : list Z :=
  match sv_ref s with Some r => [ref_index r] | None => [] end.

(* the include indices something of the (resolved) file refers through *)
Definition file_marks (f : file) : list Z :=
  flat_map' ty_mark (file_types f) ++ flat_map' cv_mark (file_const_values f) ++
  flat_map' sv_mark (f_services f).

Fixpoint mark_includes (marks : list Z) (incs : list include) (idx : nat) : list include :=
  match incs with
  | [] => []
  | i :: r =>
    Include (in_path i) (in_ref i)
            (if existsb (Z.eqb (Z.of_nat idx)) marks then Some true else in_used i)
    :: mark_includes marks r (S idx)
  end.

(* ---------------------------------------------------------------- one file *)

(* [done]: the resolved files so far; contains every include target of [f] *)
Definition resolve_file_in (done : program) (f : file) : result file :=
  n2c <- register (file_def_names f) [] ;;
  let f0 := with_name2cat f (Some n2c) in
  tds1 <- mapM (resolve_typedef done f0) (f_typedefs f) ;;
  let f1 := with_typedefs f0 tds1 in
  let fuel := enum_fuel done f1 in
  cs1 <- mapM (resolve_constant fuel done f1) (f_constants f) ;;
  ss1 <- mapM (resolve_struct_like fuel done f1) (f_structs f) ;;
  us1 <- mapM (resolve_struct_like fuel done f1) (f_unions f) ;;
  es1 <- mapM (resolve_struct_like fuel done f1) (f_exceptions f) ;;
  sv1 <- mapM (resolve_service fuel done f1) (f_services f) ;;
  st <- te_fix (S (List.length tds1)) (map (te_init done f1) tds1) ;;
  tds2 <- mapM (fix_typedef done f1 st) tds1 ;;
  cs2 <- mapM (fix_constant done f1 st) cs1 ;;
  ss2 <- mapM (fix_struct_like done f1 st) ss1 ;;
  us2 <- mapM (fix_struct_like done f1 st) us1 ;;
  es2 <- mapM (fix_struct_like done f1 st) es1 ;;
  sv2 <- mapM (fix_service done f1 st) sv1 ;;
  let f2 := File (f_filename f) (f_includes f) (f_cpp_includes f) (f_namespaces f)
                 tds2 cs2 (f_enums f) ss2 us2 es2 sv2 (Some n2c) in
  Ok (with_includes f2 (mark_includes (file_marks f2) (f_includes f) 0)).

(* ---------------------------------------------------------------- the program *)

(* depth-first over the include graph; [p] is the parsed program, [done] the files
   resolved so far (most recent first) *)
Fixpoint resolve_rec (fuel : nat) (p done : program) (fn : bytes) : result program :=
  match lookup fn done with
  | Some _ => Ok done
  | None =>
    match fuel with
    | O => Error ErrOutOfFuel
    | S k =>
      match prog_file p fn with
      | None => Error ErrNotParsed
      | Some f =>
        done1 <- (fix go (incs : list include) (d : program) : result program :=
                    match incs with
                    | [] => Ok d
                    | i :: r =>
                      match in_ref i with
                      | None => Error ErrNotParsed
                      | Some g => d' <- resolve_rec k p d g ;; go r d'
                      end
                    end) (f_includes f) done ;;
        match lookup fn done1 with
        | Some _ => Error ErrIncludeCycle
        | None => f' <- resolve_file_in done1 f ;; Ok ((fn, f') :: done1)
        end
      end
    end
  end.

(* ResolveSymbols on the main file of [p]: every file reachable from the main file
   is replaced by its resolved form, the order of [p] is kept *)
Definition resolve_program (p : program) : result program :=
  match p with
  | [] => Ok []
  | (mainfn, _) :: _ =>
    done <- resolve_rec (S (List.length p)) p [] mainfn ;;
    Ok (map (fun e => (fst e, match lookup (fst e) done with Some f' => f' | None => snd e end)) p)
  end.

(* ---------------------------------------------------------------- Deref *)

(* semantic.Deref on a resolved program: the file and the type a (possibly
   typedef'd, possibly external) type finally stands for *)
Fixpoint deref (fuel : nat) (p : program) (f : file) (t : ty) : result (file * ty) :=
  match fuel with
  | O => Error ErrOutOfFuel
  | S k =>
    match ty_ref t with
    | None =>
      match ty_is_typedef t with
      | Some true =>
        match find_typedef f (ty_name t) with
        | Some td => deref k p f (td_type td)
        | None => Error ErrInternal
        end
      | _ => Ok (f, t)
      end
    | Some r =>
      match reference_target p f r with
      | None => Error ErrInternal
      | Some g =>
        match f_name2cat g with
        | None => Error ErrInternal
        | Some m =>
          match lookup (ref_name r) m with
          | Some CatTypedef =>
            match find_typedef g (ref_name r) with
            | Some td => deref k p g (td_type td)
            | None => Error ErrInternal
            end
          | Some c =>
            match c with
            | CatEnum | CatStruct | CatUnion | CatException =>
              Ok (g, Ty (ref_name r) None None [] [] c None None)
            | _ => Error ErrInternal
            end
          | None => Error ErrInternal
          end
        end
      end
    end
  end.

Definition deref_fuel (p : program) : nat := prog_typedef_count p + 2.
