// c19 produces correspondence cases for property C19: runs of the real
// generator.asyncPostProcess.OnFinished (through generator.VerifOnFinished) and
// of the real Generator.Persist (through generator.VerifPersist), built with
// -tags verif, under forced and free-running schedules and every fault subset,
// with the recorded event trace, result class and completed writes.
package main

import (
	"errors"
	"flag"
	"fmt"
	"os"
	"path/filepath"
	"runtime"
	"sort"
	"strconv"
	"strings"
	"sync"
	"sync/atomic"
	"time"

	"github.com/cloudwego/thriftgo/generator"
	"github.com/cloudwego/thriftgo/generator/backend"
	"github.com/cloudwego/thriftgo/plugin"

	"verif/harness/casefile"
	"verif/harness/coqfmt"
	"verif/harness/rng"
)

type Config struct {
	Kind   int         `json:"kind"` // 0 = OnFinished, 1 = Persist
	What   string      `json:"what"`
	ResErr bool        `json:"res_err,omitempty"`
	Jobs   [][2]string `json:"jobs"`
	K      int         `json:"k"`
	PPNil  bool        `json:"pp_nil,omitempty"`
	FPP    []int       `json:"fail_pp"`
	FW     []int       `json:"fail_w"`
}

type Obs struct {
	Mode    string      `json:"mode"` // forced | free
	Procs   int         `json:"gomaxprocs"`
	Trace   string      `json:"trace"`
	Res     string      `json:"result"` // nil | err:<job>:<pp|w> | other | pre | hang | panic
	ErrText string      `json:"err_text,omitempty"`
	Written [][2]string `json:"written"`
	Failed  []int       `json:"failed"`
	Late    int         `json:"late"`
	// real-post-processor stream: how often the slice handed to the write callback changed
	// while the callback was running
	Unstable int `json:"unstable"`
}

type Case struct {
	Config
	Obs
	Count int `json:"-"`
}

type jobErr struct {
	job   int
	stage string
}

func (e *jobErr) Error() string { return fmt.Sprintf("job %d failed in %s", e.job, e.stage) }

func contentOf(j int, payload string) string { return fmt.Sprintf("c%d;%s", j, payload) }

func jobOf(content []byte) int {
	if len(content) < 3 || content[0] != 'c' {
		return -1
	}
	i := 1
	for i < len(content) && content[i] != ';' {
		i++
	}
	v, err := strconv.Atoi(string(content[1:i]))
	if err != nil {
		return -1
	}
	return v
}

func has(l []int, j int) bool {
	for _, x := range l {
		if x == j {
			return true
		}
	}
	return false
}

// runState is what the harness's own callbacks observe.
type runState struct {
	cfg      *Config
	mu       sync.Mutex
	written  [][2]string
	failed   map[int]bool
	active   int32
	returned int32
	late     int32
	r        *rng.R // free mode: random yields inside callbacks
	yield    int
}

func (rs *runState) enter() {
	if atomic.LoadInt32(&rs.returned) == 1 {
		atomic.AddInt32(&rs.late, 1)
	}
	atomic.AddInt32(&rs.active, 1)
	rs.maybeYield()
}

func (rs *runState) exit() {
	rs.maybeYield()
	atomic.AddInt32(&rs.active, -1)
	if atomic.LoadInt32(&rs.returned) == 1 {
		atomic.AddInt32(&rs.late, 1)
	}
}

func (rs *runState) maybeYield() {
	if rs.r == nil {
		return
	}
	rs.mu.Lock()
	x := rs.r.Intn(100)
	rs.mu.Unlock()
	if x < rs.yield {
		runtime.Gosched()
	}
}

func (rs *runState) markReturned() {
	atomic.StoreInt32(&rs.returned, 1)
	if a := atomic.LoadInt32(&rs.active); a > 0 {
		atomic.AddInt32(&rs.late, a)
	}
}

func (rs *runState) fail(j int) {
	rs.mu.Lock()
	rs.failed[j] = true
	rs.mu.Unlock()
}

type hpp struct{ rs *runState }

func (p hpp) PostProcess(path string, content []byte) ([]byte, error) {
	p.rs.enter()
	defer p.rs.exit()
	j := jobOf(content)
	if has(p.rs.cfg.FPP, j) {
		p.rs.fail(j)
		return content, &jobErr{j, "pp"}
	}
	out := make([]byte, 0, len(content)+len(path)+4)
	out = append(out, content...)
	out = append(out, "#pp:"...)
	out = append(out, path...)
	return out, nil
}

func (rs *runState) write(path string, content []byte) error {
	rs.enter()
	defer rs.exit()
	j := jobOf(content)
	if has(rs.cfg.FW, j) {
		rs.fail(j)
		return &jobErr{j, "w"}
	}
	rs.mu.Lock()
	rs.written = append(rs.written, [2]string{path, string(content)})
	rs.mu.Unlock()
	return nil
}

func classify(err error, cfg *Config) (string, string) {
	if err == nil {
		return "nil", ""
	}
	var je *jobErr
	if errors.As(err, &je) {
		return fmt.Sprintf("err:%d:%s", je.job, je.stage), ""
	}
	msg := err.Error()
	if cfg.Kind == 1 {
		// a real write failure of Persist names the directory it could not create
		for j, jb := range cfg.Jobs {
			if strings.Contains(msg, "'"+filepath.Dir(jb[0])+"'") || strings.Contains(msg, "'"+jb[0]+"'") {
				return fmt.Sprintf("err:%d:w", j), msg
			}
		}
		return "pre", msg
	}
	return "other", msg
}

var hangs int

const maxHangs = 5

type forcedStats struct {
	bothReady, bothAcquire, bothRecv, timeouts int
}

var fstats forcedStats

// runForced runs OnFinished under the controlling scheduler.
func runForced(cfg *Config, r *rng.R, quick bool) Obs {
	rs := &runState{cfg: cfg, failed: map[int]bool{}}
	f := newForced(r, len(cfg.Jobs), cfg.K)
	generator.VerifHook = f.hook
	var pp backend.PostProcessor
	if !cfg.PPNil {
		pp = hpp{rs}
	}
	done := make(chan struct{})
	var err error
	var panicked interface{}
	go func() {
		defer close(done)
		defer func() {
			if p := recover(); p != nil {
				panicked = p
				rs.markReturned()
			}
		}()
		err = generator.VerifOnFinished(pp, cfg.K, cfg.Jobs, rs.write)
		rs.markReturned()
	}()
	hangAfter := 2 * time.Second
	hang := f.run(done, func() {}, 25*time.Millisecond, hangAfter)
	generator.VerifHook = nil
	fstats.bothReady += f.bothReady
	fstats.bothAcquire += f.bothAcquire
	fstats.bothRecv += f.bothRecv
	fstats.timeouts += f.timeouts
	o := Obs{Mode: "forced", Procs: runtime.GOMAXPROCS(0)}
	f.mu.Lock()
	o.Trace = string(f.trace)
	f.mu.Unlock()
	if hang {
		hangs++
		o.Res = "hang"
	} else if panicked != nil {
		o.Res, o.ErrText = "panic", fmt.Sprint(panicked)
	} else {
		o.Res, o.ErrText = classify(err, cfg)
	}
	rs.collect(&o)
	return o
}

func (rs *runState) collect(o *Obs) {
	rs.mu.Lock()
	defer rs.mu.Unlock()
	o.Written = append([][2]string{}, rs.written...)
	for j := range rs.failed {
		o.Failed = append(o.Failed, j)
	}
	sort.Ints(o.Failed)
	o.Late = int(atomic.LoadInt32(&rs.late))
}

// runFree runs OnFinished (kind 0) or Persist (kind 1) with free-running goroutines.
func runFree(cfg *Config, r *rng.R, procs int, fsdir string) Obs {
	rs := &runState{cfg: cfg, failed: map[int]bool{}, r: rng.New(r.U64()), yield: []int{0, 20, 50, 80}[r.Intn(4)]}
	fr := &free{r: rng.New(r.U64()), yield: []int{0, 10, 40, 80}[r.Intn(4)]}
	old := runtime.GOMAXPROCS(procs)
	defer runtime.GOMAXPROCS(old)
	generator.VerifHook = fr.hook
	var pp backend.PostProcessor
	if !cfg.PPNil {
		pp = hpp{rs}
	}
	done := make(chan struct{})
	var err error
	var panicked interface{}
	go func() {
		defer close(done)
		defer func() {
			if p := recover(); p != nil {
				panicked = p
				rs.markReturned()
			}
		}()
		if cfg.Kind == 0 {
			err = generator.VerifOnFinished(pp, cfg.K, cfg.Jobs, rs.write)
		} else {
			res := &plugin.Response{}
			if cfg.ResErr {
				e := "response error"
				res.Error = &e
			}
			for _, jb := range cfg.Jobs {
				name := jb[0]
				res.Contents = append(res.Contents, &plugin.Generated{Name: &name, Content: jb[1]})
			}
			err = generator.VerifPersist(pp, backend.DummyLogFunc(), res)
		}
		rs.markReturned()
	}()
	o := Obs{Mode: "free", Procs: procs}
	hang := false
	select {
	case <-done:
	case <-time.After(5 * time.Second):
		hang = true
	}
	var snap1 [][2]string
	if cfg.Kind == 1 && !hang {
		snap1 = readTree(fsdir)
	}
	// grace period: give goroutines that (wrongly) outlive the call a chance to show up
	for i := 0; i < 50; i++ {
		_, sp, rl := fr.snapshot()
		if sp == rl && atomic.LoadInt32(&rs.active) == 0 && i >= 2 {
			break
		}
		if hang {
			break
		}
		runtime.Gosched()
		time.Sleep(200 * time.Microsecond)
	}
	generator.VerifHook = nil
	o.Trace, _, _ = fr.snapshot()
	if hang {
		hangs++
		o.Res = "hang"
	} else if panicked != nil {
		o.Res, o.ErrText = "panic", fmt.Sprint(panicked)
	} else {
		o.Res, o.ErrText = classify(err, cfg)
	}
	rs.collect(&o)
	if cfg.Kind == 1 {
		// the observable of Persist is the directory tree; a failing real write
		// is visible as the worker's err-send event
		o.Written = readTree(fsdir)
		if !hang && !sameTree(snap1, o.Written) {
			o.Late++
		}
		for j := range cfg.Jobs {
			if strings.Contains(o.Trace, "e"+strconv.Itoa(j)) && !has(o.Failed, j) {
				o.Failed = append(o.Failed, j)
			}
		}
		sort.Ints(o.Failed)
	}
	return o
}

func readTree(dir string) [][2]string {
	var out [][2]string
	filepath.Walk(dir, func(p string, info os.FileInfo, err error) error {
		if err != nil || info.IsDir() || strings.HasPrefix(info.Name(), "blocker") {
			return nil
		}
		b, _ := os.ReadFile(p)
		out = append(out, [2]string{p, string(b)})
		return nil
	})
	return out
}

func sameTree(a, b [][2]string) bool {
	if len(a) != len(b) {
		return false
	}
	for i := range a {
		if a[i] != b[i] {
			return false
		}
	}
	return true
}

// ---------------------------------------------------------------- Coq output

// pairNames abbreviates the (path, content) pairs of the standard jobs and of
// their post-processed outputs: the shard header defines J<j> and O<j> once, so
// that the case terms stay small (elaborating string literals dominates coqc time).
var pairNames = map[[2]string]string{}

func stdJob(j int) [2]string {
	return [2]string{fmt.Sprintf("gen/pkg%d/file%d.go", j, j), contentOf(j, fmt.Sprintf("package p%d", j))}
}

func shardHeader(srcs []source, persistRoot string) string {
	var b strings.Builder
	b.WriteString("From Verif Require Import Base.Bytes Gen.Persist Corr.C19.\nFrom Coq Require Import String.\n")
	for j := 0; j < 8; j++ {
		jb := stdJob(j)
		ob := [2]string{jb[0], jb[1] + "#pp:" + jb[0]}
		pairNames[jb] = fmt.Sprintf("J%d", j)
		pairNames[ob] = fmt.Sprintf("O%d", j)
		fmt.Fprintf(&b, "Definition J%d := (B \"%s\"%%string, B \"%s\"%%string).\n", j, jb[0], jb[1])
		fmt.Fprintf(&b, "Definition O%d := (B \"%s\"%%string, B \"%s\"%%string).\n", j, ob[0], ob[1])
	}
	// the sources of the real-post-processor stream: (path, digest of the expected content)
	for i, sr := range srcs {
		pr := [2]string{sr.path, digest(sr.expected)}
		pairNames[pr] = fmt.Sprintf("G%d", i)
		fmt.Fprintf(&b, "Definition G%d := (B \"%s\"%%string, B \"%s\"%%string).\n", i, pr[0], pr[1])
		pp := [2]string{filepath.Join(persistRoot, sr.path), pr[1]}
		if !strings.ContainsAny(pp[0], "\"\\") {
			pairNames[pp] = fmt.Sprintf("P%d", i)
			fmt.Fprintf(&b, "Definition P%d := (B \"%s\"%%string, B \"%s\"%%string).\n", i, pp[0], pp[1])
		}
	}
	return b.String()
}

func coqPairs(ps [][2]string) string {
	var items []string
	for _, p := range ps {
		if name, ok := pairNames[p]; ok {
			items = append(items, name)
			continue
		}
		items = append(items, fmt.Sprintf("(%s, %s)", coqfmt.Bytes(p[0]), coqfmt.Bytes(p[1])))
	}
	return coqfmt.List(items)
}

func coqNats(l []int) string {
	var items []string
	for _, x := range l {
		items = append(items, strconv.Itoa(x))
	}
	return coqfmt.List(items)
}

func coqRes(res string) string {
	switch {
	case res == "nil":
		return "RNil"
	case res == "other":
		return "ROther"
	case res == "pre":
		return "RPre"
	case res == "hang":
		return "RHang"
	case res == "panic":
		return "RPanic"
	case strings.HasPrefix(res, "err:"):
		parts := strings.Split(res, ":")
		st := "SW"
		if parts[2] == "pp" {
			st = "SPP"
		}
		j, _ := strconv.Atoi(parts[1])
		if j < 0 {
			return "ROther"
		}
		return fmt.Sprintf("(RErr %d %s)", j, st)
	}
	return "ROther"
}

func coqCase(c *Case) string {
	k := c.K
	if k < 0 {
		k = 0 // concurrency <= 0 is treated as 1 by the code; the model does the same for 0
	}
	tr := c.Trace
	if strings.ContainsAny(tr, "\"\\") {
		tr = "??"
	}
	mode := 0
	if c.Mode == "free" {
		mode = 1
	}
	return fmt.Sprintf("mkcase %d %d %s %s %d %s %s %s \"%s\" %s %s %s %d %d",
		c.Kind, mode, coqfmt.Bool(c.ResErr), coqPairs(c.Jobs), k, coqfmt.Bool(c.PPNil), coqNats(c.FPP), coqNats(c.FW),
		tr, coqRes(c.Res), coqPairs(c.Written), coqNats(c.Failed), c.Late, c.Unstable)
}

// ---------------------------------------------------------------- generation

type stats struct {
	Evaluations        int            `json:"evaluations"`
	DistinctNontrivial int            `json:"distinct_nontrivial"`
	Rule               string         `json:"rule"`
	Samples            []interface{}  `json:"samples"`
	DistinctCases      int            `json:"distinct_cases"`
	DistinctTraces     int            `json:"distinct_traces"`
	Configs            int            `json:"configs"`
	ByMode             map[string]int `json:"runs_by_mode"`
	ByJobs             map[int]int    `json:"runs_by_job_count"`
	ByLimit            map[int]int    `json:"runs_by_limit"`
	ByProcs            map[int]int    `json:"free_runs_by_gomaxprocs"`
	ByResult           map[string]int `json:"runs_by_result_class"`
	ByKind             map[string]int `json:"runs_by_kind"`
	BothArmsReady      int            `json:"forced_select_both_arms_ready"`
	BothTookAcquire    int            `json:"forced_select_both_ready_took_acquire"`
	BothTookRecv       int            `json:"forced_select_both_ready_took_recv_err"`
	RecvErrInLoop      int            `json:"runs_with_error_received_in_loop"`
	ErrAtFinalSelect   int            `json:"runs_with_error_at_final_select"`
	SchedTimeouts      int            `json:"forced_scheduler_timeouts"`
	Hangs              int            `json:"hangs"`
	MaxTraceEvents     int            `json:"max_trace_events"`
	FaultConfigs       int            `json:"fault_assignments_enumerated"`
	RealPPSources      int            `json:"real_postprocessor_sources"`
	RealPPSourceBytes  int            `json:"real_postprocessor_source_bytes"`
	RealPPRuns         int            `json:"real_postprocessor_runs"`
	RealPPFilesChecked int            `json:"real_postprocessor_files_content_checked"`
}

func main() {
	seed := flag.Uint64("seed", 1, "seed")
	tier := flag.String("tier", "quick", "quick|thorough")
	out := flag.String("out", "cases", "output directory")
	flag.Parse()
	if err := os.MkdirAll(*out, 0o755); err != nil {
		fmt.Fprintln(os.Stderr, err)
		os.Exit(2)
	}
	fsbase := filepath.Join(*out, "fs")
	os.MkdirAll(fsbase, 0o755)
	thorough := *tier == "thorough"
	r := rng.New(*seed*0x9e3779b97f4a7c15 + 19)
	realSrcs, realBE, err := realSources(20, rng.New(*seed*0x9e3779b97f4a7c15+1919))
	if err != nil {
		fmt.Fprintln(os.Stderr, "real post-processor stream:", err)
		os.Exit(2)
	}
	persistRoot, _ := filepath.Abs(filepath.Join(fsbase, "rp"))
	w := casefile.New(*out, shardHeader(realSrcs, persistRoot), 700)
	st := &stats{ByMode: map[string]int{}, ByJobs: map[int]int{}, ByLimit: map[int]int{}, ByProcs: map[int]int{},
		ByResult: map[string]int{}, ByKind: map[string]int{}}
	seen := map[string]*Case{}
	var order []string
	traces := map[string]bool{}
	nontrivial := map[string]bool{}

	record := func(cfg *Config, o Obs) {
		c := &Case{Config: *cfg, Obs: o}
		term := coqCase(c)
		st.Evaluations++
		st.ByMode[o.Mode]++
		st.ByJobs[len(cfg.Jobs)]++
		st.ByLimit[cfg.K]++
		if o.Mode == "free" {
			st.ByProcs[o.Procs]++
		}
		rc := o.Res
		if strings.HasPrefix(rc, "err:") {
			rc = "error"
		}
		st.ByResult[rc]++
		st.ByKind[cfg.What]++
		if cfg.Kind == 2 {
			st.RealPPRuns++
			st.RealPPFilesChecked += len(o.Written)
		}
		if strings.Contains(o.Trace, "r") {
			st.RecvErrInLoop++
		} else if strings.HasPrefix(o.Res, "err:") {
			st.ErrAtFinalSelect++
		}
		if n := len(o.Trace) / 2; n > st.MaxTraceEvents {
			st.MaxTraceEvents = n
		}
		traces[fmt.Sprintf("%d|%d|%s", len(cfg.Jobs), cfg.K, o.Trace)] = true
		if prev, ok := seen[term]; ok {
			prev.Count++
			return
		}
		c.Count = 1
		seen[term] = c
		order = append(order, term)
		if len(cfg.Jobs) >= 2 {
			nontrivial[term] = true
		}
	}

	mkJobs := func(n int) [][2]string {
		var js [][2]string
		for j := 0; j < n; j++ {
			js = append(js, stdJob(j))
		}
		return js
	}
	faults := func(n, code int) (fpp, fw []int) {
		fpp, fw = []int{}, []int{}
		for j := 0; j < n; j++ {
			switch code % 3 {
			case 1:
				fpp = append(fpp, j)
			case 2:
				fw = append(fw, j)
			}
			code /= 3
		}
		return
	}
	pow3 := func(n int) int {
		p := 1
		for i := 0; i < n; i++ {
			p *= 3
		}
		return p
	}

	maxN, maxK, forcedPer, freePer := 4, 3, 2, 1
	if thorough {
		maxN, maxK, forcedPer, freePer = 6, 4, 5, 0
	}
	procsList := []int{1, 2, 3, 4, 8, 16}

	stop := func() bool { return hangs >= maxHangs }

	// 0. corpus: fixed configurations that exercise both select arms and the final select
	corpus := []Config{
		{What: "corpus", Jobs: mkJobs(2), K: 1, FPP: []int{}, FW: []int{0}},
		{What: "corpus", Jobs: mkJobs(3), K: 1, FPP: []int{0}, FW: []int{}},
		{What: "corpus", Jobs: mkJobs(3), K: 2, FPP: []int{1}, FW: []int{2}},
		{What: "corpus", Jobs: mkJobs(1), K: 1, FPP: []int{}, FW: []int{0}},
		{What: "corpus", Jobs: mkJobs(4), K: 4, FPP: []int{0, 1, 2, 3}, FW: []int{}},
	}
	for i := range corpus {
		for rep := 0; rep < 6 && !stop(); rep++ {
			record(&corpus[i], runForced(&corpus[i], r.Fork(), !thorough))
		}
	}

	// 1. every job count, limit and fault assignment; forced schedules + free runs
	for n := 0; n <= maxN && !stop(); n++ {
		for k := 1; k <= maxK && !stop(); k++ {
			for code := 0; code < pow3(n) && !stop(); code++ {
				fpp, fw := faults(n, code)
				cfg := &Config{What: "enumerated", Jobs: mkJobs(n), K: k, FPP: fpp, FW: fw}
				if len(fpp) == 0 && r.Chance(1, 4) {
					cfg.PPNil = true
				}
				st.Configs++
				if k == 1 {
					st.FaultConfigs++
				}
				reps := forcedPer
				if code == 0 {
					reps = forcedPer * 8 // the successful configuration gets more schedules
				}
				for rep := 0; rep < reps && !stop(); rep++ {
					record(cfg, runForced(cfg, r.Fork(), !thorough))
				}
				for rep := 0; rep < freePer && !stop(); rep++ {
					record(cfg, runFree(cfg, r.Fork(), rng.Pick(r, procsList), ""))
				}
			}
		}
	}

	// 2. free-running runs under GOMAXPROCS 1..16 with random yields
	nfree := 300
	if thorough {
		nfree = 2000
	}
	for i := 0; i < nfree && !stop(); i++ {
		n := r.Range(1, maxN)
		k := r.Range(1, maxK)
		code := r.Intn(pow3(n))
		if r.Chance(1, 3) {
			code = 0
		}
		fpp, fw := faults(n, code)
		cfg := &Config{What: "free-random", Jobs: mkJobs(n), K: k, FPP: fpp, FW: fw}
		if r.Chance(1, 8) { // both stages marked failing: PostProcess fails first
			for _, j := range fpp {
				cfg.FW = append(cfg.FW, j)
			}
			sort.Ints(cfg.FW)
		}
		st.Configs++
		record(cfg, runFree(cfg, r.Fork(), 1+r.Intn(16), ""))
	}

	// 3. special shapes: limit <= 0, two jobs with one path, identical jobs
	special := []Config{
		{What: "limit-zero", Jobs: mkJobs(3), K: 0, FPP: []int{}, FW: []int{}},
		{What: "limit-negative", Jobs: mkJobs(3), K: -2, FPP: []int{}, FW: []int{1}},
		{What: "limit-above-jobs", Jobs: mkJobs(2), K: 7, FPP: []int{}, FW: []int{}},
		{What: "same-path", Jobs: [][2]string{{"gen/a.go", contentOf(0, "x")}, {"gen/a.go", contentOf(1, "y")}}, K: 2, FPP: []int{}, FW: []int{}},
		{What: "same-path", Jobs: [][2]string{{"gen/a.go", contentOf(0, "x")}, {"gen/a.go", contentOf(1, "y")}, {"gen/b.go", contentOf(2, "z")}}, K: 2, FPP: []int{}, FW: []int{1}},
		{What: "empty-content", Jobs: [][2]string{{"gen/e.go", ""}}, K: 1, PPNil: true, FPP: []int{}, FW: []int{}},
	}
	for i := range special {
		for rep := 0; rep < 4 && !stop(); rep++ {
			record(&special[i], runForced(&special[i], r.Fork(), !thorough))
			record(&special[i], runFree(&special[i], r.Fork(), rng.Pick(r, procsList), ""))
		}
	}

	// 4. the real Generator.Persist on a real directory tree
	npersist := 60
	if thorough {
		npersist = 400
	}
	for i := 0; i < npersist && !stop(); i++ {
		dir, err := os.MkdirTemp(fsbase, "p")
		if err != nil {
			fmt.Fprintln(os.Stderr, err)
			os.Exit(2)
		}
		n := r.Range(0, maxN)
		procs := r.Range(1, 4)
		code := r.Intn(pow3(n))
		if r.Chance(1, 3) {
			code = 0
		}
		fpp, fw := faults(n, code)
		cfg := &Config{Kind: 1, What: "persist", K: procs, FPP: fpp, FW: fw, PPNil: len(fpp) == 0 && r.Chance(1, 3)}
		for j := 0; j < n; j++ {
			sub := fmt.Sprintf("d%d", j)
			if has(fw, j) {
				// a regular file where a directory is needed: MkdirAll fails
				sub = fmt.Sprintf("blocker%d", j)
				os.WriteFile(filepath.Join(dir, sub), []byte("x"), 0o644)
			}
			cfg.Jobs = append(cfg.Jobs, [2]string{filepath.Join(dir, sub, fmt.Sprintf("f%d.go", j)), contentOf(j, "package q")})
		}
		switch r.Intn(12) {
		case 0:
			cfg.ResErr = true
			cfg.What = "persist-response-error"
		case 1:
			if n > 0 {
				cfg.Jobs[r.Intn(n)][0] = ""
				cfg.What = "persist-empty-name"
			}
		}
		st.Configs++
		record(cfg, runFree(cfg, r.Fork(), procs, dir))
		os.RemoveAll(dir)
	}

	// 5. the REAL Go backend post-processor on many really generated sources, concurrency >= 2
	nForcedReal, nFreeReal, nPersistReal := 25, 45, 15
	if thorough {
		nForcedReal, nFreeReal, nPersistReal = 300, 600, 150
	}
	if !stop() {
		srcs, be := realSrcs, realBE
		st.RealPPSources = len(srcs)
		for _, s := range srcs {
			st.RealPPSourceBytes += len(s.content)
		}
		pickFW := func() []int {
			if r.Chance(1, 6) {
				return []int{r.Intn(16)}
			}
			return []int{}
		}
		for i := 0; i < nForcedReal && !stop(); i++ {
			cfg, o := runReal(srcs, be, "forced", r.Range(2, 8), r.Range(1, 8), pickFW(), r.Fork(), "")
			st.Configs++
			record(&cfg, o)
		}
		for i := 0; i < nFreeReal && !stop(); i++ {
			cfg, o := runReal(srcs, be, "free", r.Range(2, 8), r.Range(1, 8), pickFW(), r.Fork(), "")
			st.Configs++
			record(&cfg, o)
		}
		for i := 0; i < nPersistReal && !stop(); i++ {
			dir := persistRoot
			os.RemoveAll(dir)
			os.MkdirAll(dir, 0o755)
			procs := r.Range(2, 8)
			cfg, o := runReal(srcs, be, "persist", procs, procs, []int{}, r.Fork(), dir)
			st.Configs++
			record(&cfg, o)
			os.RemoveAll(dir)
		}
	}
	os.RemoveAll(fsbase)

	// write the distinct cases
	for _, term := range order {
		c := seen[term]
		if err := w.Add(term, map[string]interface{}{"config": c.Config, "observed": c.Obs, "times_observed": c.Count}); err != nil {
			fmt.Fprintln(os.Stderr, err)
			os.Exit(2)
		}
		if len(st.Samples) < 6 && len(c.Jobs) >= 2 && (len(st.Samples)%2 == 0 || strings.Contains(c.Trace, "r")) {
			st.Samples = append(st.Samples, map[string]interface{}{"jobs": len(c.Jobs), "limit": c.K, "fail_pp": c.FPP, "fail_w": c.FW,
				"mode": c.Mode, "trace": c.Trace, "result": c.Res, "writes": len(c.Written)})
		}
	}
	if err := w.Close(); err != nil {
		fmt.Fprintln(os.Stderr, err)
		os.Exit(2)
	}
	st.DistinctCases = len(order)
	st.DistinctNontrivial = len(nontrivial)
	st.DistinctTraces = len(traces)
	st.BothArmsReady, st.BothTookAcquire, st.BothTookRecv = fstats.bothReady, fstats.bothAcquire, fstats.bothRecv
	st.SchedTimeouts = fstats.timeouts
	st.Hangs = hangs
	st.Rule = "a run = one call of the real OnFinished/Persist under one schedule; job counts 0..N, limits 1..K, every assignment ok/fail-in-PostProcess/fail-in-write to the jobs, forced schedules chosen by the seeded PRNG plus free-running runs under GOMAXPROCS 1..16; distinct = distinct (configuration, event trace, result, writes); non-trivial = at least 2 jobs (so that goroutines interleave)"
	if err := casefile.WriteMeta(*out, map[string]interface{}{"stats": st, "shards": w.Shards, "total": w.Total()}); err != nil {
		fmt.Fprintln(os.Stderr, err)
		os.Exit(2)
	}
}
