(* Wire/MaskedRead.v — the specification of Read under a mask for ARBITRARY wire input.

   What a masked Read stores is a function of the message, not of the value a plain Read would
   produce (a field that is absent from the message keeps the start value whole, also when that
   is a default container the mask would cut).  The specification is therefore the MESSAGE
   restricted to the selection:

     filter_w e st t w      the wire value w with the filtered elements, entries and fields
                            removed (fields the reader skips anyway - unknown id, wrong wire
                            type - stay), recursively with the sub selectors; map entries are
                            selected by the decoded key
     relax e                the schema with every required field made a default field: a masked
                            Read never reports a filtered required field as missing

   Theorem (Wire/MaskedReadFacts.v): whenever the masked Read succeeds it yields what a plain
   Read of the filtered message yields under the relaxed schema, and it succeeds whenever the
   plain Read of the whole message does.  No proofs in this file. *)
From Coq Require Import List ZArith Bool Lia.
From Verif Require Import Base.Bytes Base.BE Wire.TType Wire.WVal Wire.Codec Wire.Schema Wire.Value
  Wire.GenTables Wire.Std Wire.Masked.
Import ListNotations.
Open Scope Z_scope.

Definition relax_f (f : field) : field :=
  mkfield (f_id f) (f_name f) (match f_req f with Required => Default | r => r end) (f_ty f) (f_default f) (f_typedef f).
Definition relax_s (s : sschema) : sschema := mkstruct (s_name s) (s_kind s) (map relax_f (s_fields s)).
Definition relax (e : env) : env := mkenv (map relax_s (structs e)) (enums e).

Section Filter.
  Variable St : Type.
  Variable step : St -> qkey -> St * bool.
  Variable topst : St.                     (* the nil mask: map keys are not filtered *)

  Fixpoint filter_w (e : env) (st : St) (t : ty) (w : wval) {struct w} : wval :=
    match w with
    | WList et l =>
        match t with
        | TList a => WList et (sel_map St step idx_key st (fun s x => filter_w e s a x) 0 l)
        | _ => w end
    | WSet et l =>
        match t with
        | TSet a => WSet et (sel_map St step idx_key st (fun s x => filter_w e s a x) 0 l)
        | _ => w end
    | WMap kt vt kvs =>
        match t with
        | TMap a b =>
            WMap kt vt (sel_map St step
                          (fun _ kv => match from_w e a (fst kv) with Ok k => map_qkey a k | Err _ => QI 0 end)
                          st (fun s kv => (filter_w e topst a (fst kv), filter_w e s b (snd kv))) 0 kvs)
        | _ => w end
    | WStruct wfs =>
        match t with
        | TRef n =>
          match find_struct e n with
          | Some s =>
              WStruct (cat_somes (map (fun wf =>
                 match find_field (snd (fst wf)) (s_fields s) with
                 | Some f =>
                     if ttype_eqb (fst (fst wf)) (ttype_of e (f_ty f)) then
                       if snd (step st (QF (f_id f)))
                       then Some (fst wf, filter_w e (fst (step st (QF (f_id f)))) (f_ty f) (snd wf))
                       else None
                     else Some wf
                 | None => Some wf end) wfs))
          | None => w end
        | _ => w end
    | _ => w
    end.
End Filter.

Definition filter_w_mask := filter_w (option mask) mquery None.
