(* Corr/C03.v — correspondence record and comparison for property C03.

   A case is one IDL file: the calls of parser.ParseString (filename, source) on the real
   parser for each rendering (layout) of it with what they returned, plus — for documents
   rendered from a generated IDL model — the AST the generator intended (the AST the
   Thrift grammar assigns to the text; comments blank).  All layouts of a file being equal
   to the one intended AST up to comments is layout independence.  [mismatches] returns
   (case index, code):

     1  the model Idl.Parse.parse and the implementation disagree on this source
        (accept / reject, or any field of the AST including recorded comments)
                                                                   (correspondence)
     2  the implementation's AST differs from the intended AST in something other than
        recorded comments                                          (property oracle)
     3  the implementation panicked                                (property oracle)
     4  the implementation did not return within the time limit    (property oracle)
     6  the implementation rejected a document rendered from a model (property oracle)
     7  the generated parser and the PEG interpreter (Idl/Peg.v on the grammar that
        translate-peg produced from thrift.peg) disagree on accepting a text  (correspondence)
     9  the PEG interpreter ran out of fuel (never expected)

   Stream kinds: 0 = rendered document (model, implementation and intended AST are all
   compared), 1 = document without intended AST (model against implementation only),
   2 = totality stream (arbitrary bytes, mutated documents): only "returned an AST or an
   error, in time, without panic" is required — model and implementation need not agree
   on which garbage is accepted, so the source is not even shipped to Coq,
   3 = PEG stream (short, mostly malformed texts): ObsOk = the PEG stage of the generated
   parser accepted the text, ObsErr = it reported a syntax error; compared with the PEG
   interpreter on the translated grammar. *)
From Coq Require Import List Bool NArith.
From Verif Require Import Base.Bytes Idl.Ast Idl.Lex Idl.Parse Idl.Peg Idl.PegGrammar.
Import ListNotations.

Inductive obs :=
| ObsOk (f : file)      (* returned an AST *)
| ObsErr                (* returned an error *)
| ObsPanic              (* panicked (recovered by the harness) *)
| ObsTimeout            (* did not return in time *)
| ObsBatch (n_ok n_err n_panic n_timeout : N).
                        (* totality stream: a batch of inputs, counted by outcome *)

(* one case = one file: its intended AST (when it was rendered from a model) and every
   run of the parser on a rendering of it (source bytes, observation) *)
Record case := mkcase {
  c_kind : N;
  c_filename : bytes;
  c_intended : option file;
  c_runs : list (bytes * obs) }.

Definition check_run (kind : N) (filename : bytes) (intended : option file) (run : bytes * obs) : list N :=
  let (src, o) := run in
  let totality :=
    match o with
    | ObsPanic => [3%N]
    | ObsTimeout => [4%N]
    | ObsBatch _ _ p t => (if (0 <? p)%N then [3%N] else []) ++ (if (0 <? t)%N then [4%N] else [])
    | _ => []
    end in
  let corr :=
    if (kind =? 2)%N then []
    else if (kind =? 3)%N then
      match accepts (100 * (List.length src + 20)) thrift_grammar src, o with
      | Some true, ObsOk _ | Some false, ObsErr => []
      | None, _ => [9%N]
      | _, ObsPanic | _, ObsTimeout | _, ObsBatch _ _ _ _ => []
      | _, _ => [7%N]
      end
    else
      match parse filename src, o with
      | Some m, ObsOk f => if file_eqb m f then [] else [1%N]
      | None, ObsErr => []
      | _, ObsPanic | _, ObsTimeout | _, ObsBatch _ _ _ _ => []     (* reported above *)
      | _, _ => [1%N]
      end in
  let faithful :=
    match intended, o with
    | Some a, ObsOk f => if file_eqb_nc f a then [] else [2%N]
    | Some _, ObsErr => [6%N]
    | _, _ => []
    end in
  totality ++ corr ++ faithful.

Definition check (c : case) : list N :=
  nodup N.eq_dec (flat_map (check_run (c_kind c) (c_filename c) (c_intended c)) (c_runs c)).

Fixpoint mismatches_from (i : N) (cs : list case) : list (N * N) :=
  match cs with
  | [] => []
  | c :: r => map (fun code => (i, code)) (check c) ++ mismatches_from (i + 1)%N r
  end.
Definition mismatches (cs : list case) : list (N * N) := mismatches_from 0%N cs.
