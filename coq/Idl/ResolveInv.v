(* Idl/ResolveInv.v — the invariant that ties resolved files to the parsed program,
   and the bridge from the model's lookups to the declarative specification. *)
From Coq Require Import List Bool Arith Lia NArith ZArith Permutation.
From Coq.Strings Require Import Byte.
From Verif Require Import Base.Bytes Idl.Ast Idl.AstUtil Idl.AstFacts Idl.Resolve Idl.ResolveSpec Idl.ResolveTd Idl.ResolveLemmas.
Import ListNotations.
Local Open Scope resolve_scope.

(* everything the property says about one resolved type occurrence [t] of file [fn] *)
Definition occ_good (p : program) (fn : bytes) (f : file) (t : ty) : Prop :=
  match builtin_category (ty_name t) with
  | Some c => ty_category t = c /\ ty_ref t = None /\ ty_is_typedef t = None
  | None =>
    match split_type (ty_name t) with
    | [a] => exists k d, def_of p fn a = Some k /\ is_type_kind k = true /\ def_denotes p fn a d /\
               ty_category t = kind d /\ ty_ref t = None /\ ty_is_typedef t = typedef_flag (dkind_cat k)
    | [pre; m] => exists i gn k d,
               spec_include p is_type_kind pre m (file_incs f) 0 = Some (i, gn) /\
               def_of p gn m = Some k /\ def_denotes p gn m d /\ ty_category t = kind d /\
               ty_ref t = Some (Ref m (Z.of_nat i)) /\ ty_is_typedef t = typedef_flag (dkind_cat k)
    | _ => False
    end
  end.

Definition inc_key (i : include) : bytes * option bytes := (idl_prefix (in_path i), in_ref i).

Record good (p done : program) (gn : bytes) (g g' : file) : Prop := {
  gd_nodup : NoDup (map fst (file_defs g));
  gd_n2c : forall n, lookup n (n2c_of g') = option_map dkind_cat (lookup n (file_defs g));
  gd_resolved : f_name2cat g' <> None;
  gd_incs : map (fun i => (in_path i, in_ref i)) (f_includes g') = map (fun i => (in_path i, in_ref i)) (f_includes g);
  gd_targets : forall i, In i (f_includes g) -> exists hn, in_ref i = Some hn /\ lookup hn done <> None;
  gd_enums : f_enums g' = f_enums g;
  gd_tds : Forall2 (fun td td' => td_alias td' = td_alias td /\ ty_name (td_type td') = ty_name (td_type td))
                   (f_typedefs g) (f_typedefs g');
  gd_occs : Forall (occ_good p gn g) (file_occs g');
  gd_used : f_includes g' = mark_includes (file_marks g') (f_includes g) 0;
  gd_consts : plain_names p = true -> Forall (cv_bound p gn) (file_const_values g') }.

Definition inv (p done : program) : Prop :=
  forall gn g', lookup gn done = Some g' -> exists g, prog_file p gn = Some g /\ good p done gn g g'.

(* ---------------------------------------------------------------- small facts *)

Lemma def_of_file p fn f n : prog_file p fn = Some f -> def_of p fn n = lookup n (file_defs f).
Proof. unfold def_of. intros ->. reflexivity. Qed.

Lemma dkind_typedef k : dkind_cat k = CatTypedef -> exists tgt, k = DkTypedef tgt.
Proof. destruct k as [t| |vs|s|]; cbn; try discriminate; [eauto | destruct s; discriminate]. Qed.

Lemma dkind_type_nontypedef k :
  is_type_cat (dkind_cat k) = true -> is_typedef_cat (dkind_cat k) = false ->
  (exists vs, k = DkEnum vs) \/ (exists s, k = DkStruct s).
Proof. destruct k as [t| |vs|s|]; cbn; try discriminate; eauto. Qed.

Lemma nth_include_nat f i : nth_include f (Z.of_nat i) = nth_error (f_includes f) i.
Proof.
  unfold nth_include. destruct (Z.of_nat i <? 0)%Z eqn:E; [apply Z.ltb_lt in E; lia|].
  rewrite Nat2Z.id. reflexivity.
Qed.

Lemma spec_include_nth p ok pre m : forall incs idx i gn,
  spec_include p ok pre m incs idx = Some (i, gn) ->
  idx <= i /\ nth_error incs (i - idx) = Some (pre, Some gn) /\
  exists k, def_of p gn m = Some k /\ ok k = true.
Proof.
  induction incs as [|[pre' ref] incs IH]; intros idx i gn H; cbn [spec_include] in H; [discriminate|].
  assert (Hnext : spec_include p ok pre m incs (S idx) = Some (i, gn) ->
                  idx <= i /\ nth_error ((pre', ref) :: incs) (i - idx) = Some (pre, Some gn) /\
                  exists k, def_of p gn m = Some k /\ ok k = true).
  { intros Hn. destruct (IH _ _ _ Hn) as (Hle & Hnth & Hk). split; [lia|]. split; [|exact Hk].
    replace (i - idx) with (S (i - S idx)) by lia. exact Hnth. }
  destruct (beqb pre' pre) eqn:Ep; [|auto]. destruct ref as [hn|]; [|auto].
  destruct (def_of p hn m) as [k|] eqn:Dk; [|auto]. destruct (ok k) eqn:Ok; [|auto].
  injection H as <- <-. apply beqb_true in Ep. subst. split; [lia|]. rewrite Nat.sub_diag. cbn. eauto.
Qed.

(* ---------------------------------------------------------------- find_include against the specification *)

Lemma include_target_done done i hn : in_ref i = Some hn -> include_target done i = lookup hn done.
Proof. unfold include_target, prog_file. intros ->. reflexivity. Qed.

Lemma find_include_spec p done (okc : category -> bool) (okk : dkind -> bool) pre m :
  inv p done -> (forall k, okk k = okc (dkind_cat k)) ->
  forall incs idx i c,
  (forall x, In x incs -> exists hn, in_ref x = Some hn /\ lookup hn done <> None) ->
  find_include done okc pre m incs idx = Some (i, c) ->
  exists gn k, spec_include p okk pre m (map inc_key incs) idx = Some (i, gn) /\
               def_of p gn m = Some k /\ dkind_cat k = c.
Proof.
  intros Hinv Hok. induction incs as [|x incs IH]; intros idx i c Hin H; cbn [find_include] in H; [discriminate|].
  cbn [map spec_include]. unfold inc_key at 1.
  assert (Hin' : forall y, In y incs -> exists hn, in_ref y = Some hn /\ lookup hn done <> None)
    by (intros y Hy; apply Hin; right; exact Hy).
  destruct (beqb (idl_prefix (in_path x)) pre) eqn:Ep; [|apply IH; assumption].
  destruct (Hin x (or_introl eq_refl)) as (hn & Hr & Hd). rewrite Hr.
  rewrite (include_target_done done x hn Hr) in H.
  destruct (lookup hn done) as [g'|] eqn:Lg; [|congruence].
  destruct (Hinv hn g' Lg) as (g & Hg & Gd).
  rewrite (gd_n2c _ _ _ _ _ Gd) in H. rewrite (def_of_file p hn g m Hg).
  destruct (lookup m (file_defs g)) as [k|] eqn:Lk; cbn [option_map] in H; [|apply IH; assumption].
  rewrite Hok. destruct (okc (dkind_cat k)); [|apply IH; assumption].
  injection H as <- <-. exists hn, k. rewrite (def_of_file p hn g m Hg). auto.
Qed.

(* ---------------------------------------------------------------- typedefs of a good file *)

Lemma lookup_typedef_part tds n td rest :
  NoDup (map fst (map (fun t => (td_alias t, DkTypedef (ty_name (td_type t)))) tds ++ rest)) ->
  In td tds -> td_alias td = n ->
  lookup n (map (fun t => (td_alias t, DkTypedef (ty_name (td_type t)))) tds ++ rest) =
  Some (DkTypedef (ty_name (td_type td))).
Proof.
  intros ND Hin <-. apply lookup_NoDup_In; [exact ND|]. apply in_or_app. left.
  apply (in_map (fun t => (td_alias t, DkTypedef (ty_name (td_type t))))). exact Hin.
Qed.

Lemma file_defs_typedef g td :
  NoDup (map fst (file_defs g)) -> In td (f_typedefs g) ->
  lookup (td_alias td) (file_defs g) = Some (DkTypedef (ty_name (td_type td))).
Proof. intros ND Hin. unfold file_defs in *. apply lookup_typedef_part; auto. Qed.

Lemma In_top_occs_file_occs f t : In t (file_top_occs f) -> incl (ty_occs t) (file_occs f).
Proof.
  intros Hin x Hx. unfold file_occs, flat_map'. apply in_concat. exists (ty_occs t). split; [|exact Hx].
  apply in_map. exact Hin.
Qed.

Lemma ty_occs_head t : In t (ty_occs t).
Proof. destruct t. cbn [ty_occs]. left. reflexivity. Qed.

Lemma good_typedef p done gn g g' m td' :
  good p done gn g g' -> find_typedef g' m = Some td' ->
  lookup m (file_defs g) = Some (DkTypedef (ty_name (td_type td'))) /\ occ_good p gn g (td_type td').
Proof.
  intros Gd Hf. unfold find_typedef in Hf. destruct (find_by_In _ _ _ _ Hf) as (Hin & Ha).
  destruct (Forall2_In_r _ _ _ _ (gd_tds _ _ _ _ _ Gd) Hin) as (td & Hin0 & (Hal & Hnm)).
  split.
  - rewrite Hnm, <- Ha, Hal. apply file_defs_typedef; [exact (gd_nodup _ _ _ _ _ Gd) | exact Hin0].
  - pose proof (gd_occs _ _ _ _ _ Gd) as Ho. rewrite Forall_forall in Ho. apply Ho.
    apply (In_top_occs_file_occs g' (td_type td')); [|apply ty_occs_head].
    unfold file_top_occs. apply in_or_app. left. apply in_map. exact Hin.
Qed.

Lemma occ_good_denotes p fn f t :
  prog_file p fn = Some f -> occ_good p fn f t ->
  exists d, name_denotes p fn (ty_name t) d /\ ty_category t = kind d.
Proof.
  intros Hf H. unfold occ_good in H. destruct (builtin_category (ty_name t)) as [c|] eqn:Bn.
  - destruct H as (Hc & _). exists (TBuiltin c). split; [apply nd_builtin; exact Bn | exact Hc].
  - destruct (split_type (ty_name t)) as [|a [|m [|? ?]]] eqn:Sn; try contradiction.
    + destruct H as (k & d & Hk & _ & Hd & Hc & _). exists d. split; [|exact Hc].
      eapply nd_local; eauto.
    + destruct H as (i & gn & k & d & Hs & Hk & Hd & Hc & _). exists d. split; [|exact Hc].
      eapply nd_qualified; eauto.
Qed.


Lemma resolve_ty_ctx done fa fb : n2c_of fa = n2c_of fb -> f_includes fa = f_includes fb ->
  forall t, resolve_ty done fa t = resolve_ty done fb t.
Proof.
  intros Hn Hi. induction t as [n k v cpp an cat r td IHk IHv] using ty_ind'.
  cbn [resolve_ty]. rewrite Hn, Hi.
  assert (Ek : match k with Some kt => resolve_ty done fa kt | None => Error ErrInternal end =
               match k with Some kt => resolve_ty done fb kt | None => Error ErrInternal end)
    by (destruct k; [apply IHk|]; reflexivity).
  assert (Ev : match v with Some kt => resolve_ty done fa kt | None => Error ErrInternal end =
               match v with Some kt => resolve_ty done fb kt | None => Error ErrInternal end)
    by (destruct v; [apply IHv|]; reflexivity).
  rewrite Ek, Ev. reflexivity.
Qed.

Lemma NoDup_app_l {A} (l1 l2 : list A) : NoDup (l1 ++ l2) -> NoDup l1.
Proof.
  induction l1 as [|x l IH]; cbn [app]; intros H; [constructor|]. inversion H as [|? ? Hn H']; subst.
  constructor; [intros Hx; apply Hn; apply in_or_app; auto | auto].
Qed.

Lemma Forall2_impl' {A B} (R S : A -> B -> Prop) l l' :
  (forall x y, R x y -> S x y) -> Forall2 R l l' -> Forall2 S l l'.
Proof. intros H. induction 1; constructor; auto. Qed.

(* ---------------------------------------------------------------- one file *)

Section OneFile.
  Variables (p done : program) (fn : bytes) (f : file).
  Hypothesis Hinv : inv p done.
  Hypothesis Hf : prog_file p fn = Some f.
  Hypothesis Htargets : forall i, In i (f_includes f) -> exists hn, in_ref i = Some hn /\ lookup hn done <> None.
  Variable n2c : list (bytes * category).
  Hypothesis Hreg : register (file_def_names f) [] = Ok n2c.
  Variable tds1 : list typedef.
  Hypothesis Htds1 : mapM (resolve_typedef done (with_name2cat f (Some n2c))) (f_typedefs f) = Ok tds1.

  Definition cur0 : file := with_name2cat f (Some n2c).
  Definition cur1 : file := with_typedefs cur0 tds1.

  Lemma cur1_n2c : n2c_of cur1 = n2c. Proof. reflexivity. Qed.
  Lemma cur1_incs : f_includes cur1 = f_includes f. Proof. reflexivity. Qed.

  Lemma cur_nodup : NoDup (map fst (file_defs f)).
  Proof. exact (proj1 (register_file f n2c Hreg)). Qed.

  Lemma cur_lookup a : lookup a (n2c_of cur1) = option_map dkind_cat (def_of p fn a).
  Proof. rewrite cur1_n2c, (def_of_file p fn f a Hf). exact (proj2 (register_file f n2c Hreg) a). Qed.

  Lemma cur_find_include okc okk pre m i c :
    (forall k, okk k = okc (dkind_cat k)) ->
    find_include done okc pre m (f_includes cur1) 0 = Some (i, c) ->
    exists gn k, spec_include p okk pre m (file_incs f) 0 = Some (i, gn) /\
                 def_of p gn m = Some k /\ dkind_cat k = c.
  Proof. intros Hok H. exact (find_include_spec p done okc okk pre m Hinv Hok _ _ _ _ Htargets H). Qed.

  Lemma tds1_aligned :
    Forall2 (fun td td1 => td_alias td1 = td_alias td /\ ty_name (td_type td1) = ty_name (td_type td) /\
                           Forall (head1 done cur1) (ty_occs (td_type td1))) (f_typedefs f) tds1.
  Proof.
    pose proof (mapM_Forall2 _ _ _ Htds1) as H. eapply Forall2_impl'; [|exact H].
    intros td td1 E. unfold resolve_typedef in E. inv_bind E. injection E as <-. cbn [td_alias td_type].
    rewrite (resolve_ty_ctx done (with_name2cat f (Some n2c)) cur1 eq_refl eq_refl) in E0.
    destruct (resolve_ty_head1 _ _ _ _ E0). auto.
  Qed.

  Lemma tds1_def td1 : In td1 tds1 ->
    def_of p fn (td_alias td1) = Some (DkTypedef (ty_name (td_type td1))) /\ head1 done cur1 (td_type td1).
  Proof.
    intros Hin. destruct (Forall2_In_r _ _ _ _ tds1_aligned Hin) as (td & Hin0 & (Ha & Hn & Ho)).
    split.
    - rewrite (def_of_file p fn f _ Hf), Ha, Hn. apply file_defs_typedef; [exact cur_nodup | exact Hin0].
    - destruct (td_type td1). exact (Forall_inv Ho).
  Qed.

  Lemma ext_typedef_denotes pre m i gn c' :
    spec_include p is_type_kind pre m (file_incs f) 0 = Some (i, gn) ->
    ext_typedef_cat done cur1 (Ref m (Z.of_nat i)) = Some c' ->
    exists d, def_denotes p gn m d /\ kind d = c'.
  Proof.
    intros Hs He. destruct (spec_include_nth _ _ _ _ _ _ _ _ Hs) as (_ & Hnth & _).
    rewrite Nat.sub_0_r in Hnth. unfold file_incs in Hnth. rewrite nth_error_map in Hnth.
    destruct (nth_error (f_includes f) i) as [x|] eqn:Nx; [|discriminate]. cbn [option_map] in Hnth.
    injection Hnth as _ Hr.
    unfold ext_typedef_cat, reference_target in He. cbn [ref_index ref_name] in He.
    rewrite nth_include_nat, cur1_incs, Nx, (include_target_done done x gn Hr) in He.
    destruct (lookup gn done) as [g'|] eqn:Lg; [|discriminate].
    destruct (Hinv gn g' Lg) as (g & Hg & Gd).
    destruct (find_typedef g' m) as [td'|] eqn:Ft; [|discriminate]. injection He as <-.
    destruct (good_typedef _ _ _ _ _ _ _ Gd Ft) as (Hl & Ho).
    destruct (occ_good_denotes p gn g _ Hg Ho) as (d & Hd & Hc).
    exists d. split; [|symmetry; exact Hc].
    eapply dd_typedef; [rewrite (def_of_file p gn g m Hg); exact Hl | exact Hd].
  Qed.

  Lemma head1_nontypedef_denotes t :
    head1 done cur1 t -> is_typedef_cat (ty_category t) = false ->
    exists d, name_denotes p fn (ty_name t) d /\ kind d = ty_category t.
  Proof.
    unfold head1. intros H Hn. destruct (builtin_category (ty_name t)) as [c|] eqn:Bn.
    - destruct H as (-> & _). exists (TBuiltin c). split; [apply nd_builtin; exact Bn | reflexivity].
    - destruct (split_type (ty_name t)) as [|a [|m [|? ?]]] eqn:Sn; try contradiction.
      + destruct H as (c & La & Tc & Hc & _). rewrite cur_lookup in La.
        destruct (def_of p fn a) as [k|] eqn:Dk; [|discriminate]. cbn [option_map] in La. injection La as <-.
        rewrite Hc in Hn. destruct (dkind_type_nontypedef k Tc Hn) as [(vs & ->)|(s & ->)].
        * exists (TEnum fn a). split; [|rewrite Hc; reflexivity]. eapply nd_local; eauto. eapply dd_enum; eauto.
        * exists (TStruct fn a s). split; [|rewrite Hc; reflexivity]. eapply nd_local; eauto. eapply dd_struct; eauto.
      + destruct H as (idx & c & Fi & Hc & _).
        destruct (cur_find_include is_type_cat is_type_kind a m idx c (fun k => eq_refl) Fi) as (gn & k & Hs & Dk & Hk).
        destruct (spec_include_nth _ _ _ _ _ _ _ _ Hs) as (_ & _ & (k' & Dk' & Tk)).
        rewrite Dk in Dk'. injection Dk' as <-. rewrite Hc, <- Hk in Hn.
        destruct (dkind_type_nontypedef k Tk Hn) as [(vs & ->)|(s & ->)].
        * exists (TEnum gn m). split; [|rewrite Hc, <- Hk; reflexivity]. eapply nd_qualified; eauto. eapply dd_enum; eauto.
        * exists (TStruct gn m s). split; [|rewrite Hc, <- Hk; reflexivity]. eapply nd_qualified; eauto. eapply dd_struct; eauto.
  Qed.

  Definition st0 : list tde := map (te_init done cur1) tds1.

  Lemma chain_denotes a c : te_chain st0 a c -> exists d, def_denotes p fn a d /\ kind d = c.
  Proof.
    induction 1 as [e Hin Hp | e b c Hin Hp Hl Hch IH].
    - unfold st0 in Hin. apply in_map_iff in Hin. destruct Hin as (td1 & <- & Hin1).
      destruct (tds1_def td1 Hin1) as (Hdef & Hh). revert Hp. unfold te_init.
      destruct (is_typedef_cat (ty_category (td_type td1))) eqn:Tc.
      + destruct (ty_ref (td_type td1)) as [r|] eqn:Rr; [|cbn; discriminate].
        destruct (ext_typedef_cat done cur1 r) as [c|] eqn:Ec; [|cbn; discriminate].
        cbn [te_cat te_alias]. intros Hc.
        unfold head1 in Hh. destruct (builtin_category (ty_name (td_type td1))) as [cb|] eqn:Bn.
        { destruct Hh as (_ & Hr0 & _). congruence. }
        destruct (split_type (ty_name (td_type td1))) as [|pre [|m [|? ?]]] eqn:Sn; try contradiction.
        { destruct Hh as (? & _ & _ & _ & Hr0 & _). congruence. }
        destruct Hh as (idx & c0 & Fi & Hc0 & Hr0 & _). rewrite Rr in Hr0. injection Hr0 as ->.
        destruct (cur_find_include is_type_cat is_type_kind pre m idx c0 (fun k => eq_refl) Fi) as (gn & k & Hs & Dk & Hk).
        destruct (ext_typedef_denotes pre m idx gn c Hs Ec) as (d & Hd & Hkd).
        exists d. split; [|exact Hkd]. eapply dd_typedef; [exact Hdef|]. eapply nd_qualified; eauto.
      + cbn [te_cat te_alias]. intros _.
        destruct (head1_nontypedef_denotes _ Hh Tc) as (d & Hd & Hk).
        exists d. split; [|exact Hk]. eapply dd_typedef; eauto.
    - destruct IH as (d & Hd & Hk). unfold st0 in Hin. apply in_map_iff in Hin. destruct Hin as (td1 & <- & Hin1).
      destruct (tds1_def td1 Hin1) as (Hdef & Hh). revert Hp Hl. unfold te_init.
      destruct (is_typedef_cat (ty_category (td_type td1))) eqn:Tc; [|cbn; congruence].
      destruct (ty_ref (td_type td1)) as [r|] eqn:Rr.
      { destruct (ext_typedef_cat done cur1 r); cbn; discriminate. }
      cbn [te_cat te_alias te_local]. intros _ [= <-].
      exists d. split; [|exact Hk]. eapply dd_typedef; [exact Hdef|].
      unfold head1 in Hh. destruct (builtin_category (ty_name (td_type td1))) as [cb|] eqn:Bn.
      { destruct Hh as (Hc & _). destruct (builtin_cases _ _ Bn) as (Hn & _). congruence. }
      destruct (split_type (ty_name (td_type td1))) as [|a [|m [|? ?]]] eqn:Sn; try contradiction.
      + pose proof (split_type_single _ _ Sn) as ->. eapply nd_local; eauto.
      + destruct Hh as (? & ? & _ & _ & Hr0 & _). congruence.
  Qed.

  Lemma st0_nodup : NoDup (map te_alias st0).
  Proof.
    unfold st0. rewrite map_map.
    assert (E : map (fun x => te_alias (te_init done cur1 x)) tds1 = map td_alias (f_typedefs f)).
    { pose proof tds1_aligned as H. clear -H. induction H as [|td td1 l l' (Ha & _) _ IH]; [reflexivity|].
      cbn [map]. rewrite IH. f_equal. rewrite <- Ha. unfold te_init.
      destruct (is_typedef_cat _); [|reflexivity]. destruct (ty_ref _); [|reflexivity].
      destruct (ext_typedef_cat _ _ _); reflexivity. }
    rewrite E. pose proof cur_nodup as ND. unfold file_defs in ND. rewrite map_app in ND.
    apply NoDup_app_l in ND. rewrite map_map in ND. exact ND.
  Qed.

  Variable st : list tde.
  Hypothesis Hfix : te_fix (S (length tds1)) st0 = Ok st.

  Lemma head2_occ_good t : head2 done cur1 st t -> occ_good p fn f t.
  Proof.
    unfold head2, occ_good. destruct (builtin_category (ty_name t)) as [c|] eqn:Bn; [auto|].
    destruct (split_type (ty_name t)) as [|a [|m [|? ?]]] eqn:Sn; try contradiction.
    - intros (c & La & Tc & Hr & Ht & Hcat). rewrite cur_lookup in La.
      destruct (def_of p fn a) as [k|] eqn:Dk; [|discriminate]. cbn [option_map] in La. injection La as <-.
      pose proof (split_type_single _ _ Sn) as Ea.
      destruct (is_typedef_cat (dkind_cat k)) eqn:Td.
      + destruct Hcat as (Hk & Hn).
        pose proof (te_fix_lookup st0 _ st _ _ st0_nodup Hfix Hk) as Hch.
        destruct (chain_denotes _ _ Hch) as (d & Hd & Hkd).
        exists k, d. rewrite Ea in *. repeat split; auto.
      + destruct (dkind_type_nontypedef k Tc Td) as [(vs & ->)|(s & ->)].
        * exists (DkEnum vs), (TEnum fn a). repeat split; auto. eapply dd_enum; eauto.
        * exists (DkStruct s), (TStruct fn a s). repeat split; auto. eapply dd_struct; eauto.
    - intros (idx & c & Fi & Hr & Ht & Hcat).
      destruct (cur_find_include is_type_cat is_type_kind a m idx c (fun k => eq_refl) Fi) as (gn & k & Hs & Dk & Hk).
      destruct (spec_include_nth _ _ _ _ _ _ _ _ Hs) as (_ & _ & (k' & Dk' & Tk)).
      rewrite Dk in Dk'. injection Dk' as <-. subst c.
      destruct (is_typedef_cat (dkind_cat k)) eqn:Td.
      + destruct Hcat as (He & Hn). destruct (ext_typedef_denotes a m idx gn _ Hs He) as (d & Hd & Hkd).
        exists idx, gn, k, d. repeat split; auto.
      + destruct (dkind_type_nontypedef k Tk Td) as [(vs & ->)|(s & ->)].
        * exists idx, gn, (DkEnum vs), (TEnum gn m). repeat split; auto. eapply dd_enum; eauto.
        * exists idx, gn, (DkStruct s), (TStruct gn m s). repeat split; auto. eapply dd_struct; eauto.
  Qed.

  (* a top-level type through both passes *)
  Lemma two_pass_good t t1 t2 :
    resolve_ty done cur1 t = Ok t1 -> fix_ty done cur1 st t1 = Ok t2 ->
    ty_name t2 = ty_name t /\ Forall (occ_good p fn f) (ty_occs t2).
  Proof.
    intros H1 H2. destruct (resolve_ty_head1 _ _ _ _ H1) as (N1 & O1).
    destruct (fix_ty_head2 _ _ _ _ _ O1 H2) as (N2 & O2). split; [congruence|].
    eapply Forall_impl; [|exact O2]. intros x. apply head2_occ_good.
  Qed.

  Definition OG := occ_good p fn f.

  Lemma typedef_good td td1 td2 :
    resolve_typedef done (with_name2cat f (Some n2c)) td = Ok td1 -> fix_typedef done cur1 st td1 = Ok td2 ->
    td_alias td2 = td_alias td /\ ty_name (td_type td2) = ty_name (td_type td) /\ Forall OG (ty_occs (td_type td2)).
  Proof.
    unfold resolve_typedef, fix_typedef. intros H1 H2. inv_bind H1. inv_bind H2.
    injection H1 as <-. injection H2 as <-. cbn [td_alias td_type] in *.
    rewrite (resolve_ty_ctx done (with_name2cat f (Some n2c)) cur1 eq_refl eq_refl) in E.
    destruct (two_pass_good _ _ _ E E0). auto.
  Qed.

  Lemma constant_good fuel c c1 c2 :
    resolve_constant fuel done cur1 c = Ok c1 -> fix_constant done cur1 st c1 = Ok c2 ->
    Forall OG (ty_occs (co_type c2)).
  Proof.
    unfold resolve_constant, fix_constant. intros H1 H2. inv_bind H1. inv_bind H2.
    injection H1 as <-. injection H2 as <-. cbn [co_type] in *. exact (proj2 (two_pass_good _ _ _ E E1)).
  Qed.

  Lemma field_good fuel b fd fd1 fd2 :
    resolve_field fuel done cur1 b fd = Ok fd1 -> fix_field done cur1 st fd1 = Ok fd2 ->
    Forall OG (ty_occs (fd_type fd2)).
  Proof.
    unfold resolve_field, fix_field. intros H1 H2. inv_bind H1. inv_bind H2.
    injection H1 as <-. injection H2 as <-. cbn [fd_type] in *. exact (proj2 (two_pass_good _ _ _ E E1)).
  Qed.

  Lemma fields_good fuel b l l1 l2 :
    mapM (resolve_field fuel done cur1 b) l = Ok l1 -> mapM (fix_field done cur1 st) l1 = Ok l2 ->
    Forall OG (flat_map' ty_occs (map fd_type l2)).
  Proof.
    intros H1 H2. pose proof (Forall2_compose _ _ _ _ _ (mapM_Forall2 _ _ _ H1) (mapM_Forall2 _ _ _ H2)) as H.
    clear H1 H2. unfold flat_map'. induction H as [|x z l l' (y & Hxy & Hyz) _ IH]; cbn [map concat]; [constructor|].
    apply Forall_app. split; [eapply field_good; eauto | exact IH].
  Qed.

  Lemma struct_good fuel s s1 s2 :
    resolve_struct_like fuel done cur1 s = Ok s1 -> fix_struct_like done cur1 st s1 = Ok s2 ->
    Forall OG (flat_map' ty_occs (map fd_type (sl_fields s2))).
  Proof.
    unfold resolve_struct_like, fix_struct_like. intros H1 H2. inv_bind H1. inv_bind H2.
    injection H1 as <-. injection H2 as <-. cbn [sl_fields] in *. eapply fields_good; eauto.
  Qed.

  Lemma function_good fuel fu fu1 fu2 :
    resolve_function fuel done cur1 fu = Ok fu1 -> fix_function done cur1 st fu1 = Ok fu2 ->
    Forall OG (flat_map' ty_occs (function_top_types fu2)).
  Proof.
    unfold resolve_function, fix_function. intros H1 H2. inv_bind H1. inv_bind H2.
    injection H1 as <-. injection H2 as <-. cbn [fn_type fn_void fn_args fn_throws] in *.
    unfold function_top_types, function_fields. cbn [fn_type fn_void fn_args fn_throws].
    rewrite map_app. unfold flat_map'. rewrite !map_app, !concat_app.
    apply Forall_app. split; [|apply Forall_app; split; [exact (fields_good _ _ _ _ _ E0 E3) | exact (fields_good _ _ _ _ _ E1 E4)]].
    destruct (fn_void fu); [constructor|]. cbn [map concat]. rewrite app_nil_r.
    exact (proj2 (two_pass_good _ _ _ E E2)).
  Qed.

  Lemma service_good fuel sv sv1 sv2 :
    resolve_service fuel done cur1 sv = Ok sv1 -> fix_service done cur1 st sv1 = Ok sv2 ->
    Forall OG (flat_map' ty_occs (flat_map' function_top_types (sv_functions sv2))).
  Proof.
    unfold resolve_service, fix_service. intros H1 H2. inv_bind H1. inv_bind H2.
    injection H1 as <-. injection H2 as <-. cbn [sv_functions] in *.
    pose proof (Forall2_compose _ _ _ _ _ (mapM_Forall2 _ _ _ E) (mapM_Forall2 _ _ _ E1)) as H.
    clear E E1. unfold flat_map'. induction H as [|a z l l' (y & Hxy & Hyz) _ IH]; cbn [map concat]; [constructor|].
    rewrite map_app, concat_app. apply Forall_app. split; [eapply function_good; eauto | exact IH].
  Qed.
End OneFile.
