(* Wire/FastReadFacts.v — proofs about the reader of the fastgo model (Wire/Fast.v: fskip, fr_val, fast_read).

     fskip_enc              gopkg Skip consumes exactly an encoding (well-formed, depth <= its limit)
     fr_val_from_w          FastRead of an encoding = the standard Read of the wire value (same object,
                            same required-field error), for every wire value the standard Write of ANY
                            schema can produce, as long as the fields the reader knows carry what its
                            schema says (otherwise the standard model answers EHeader)
     fast_read_eq_std_read  the same at top level, through bytes on the standard side too
     fr_val_extend / fast_read_prefix_error
                            success is stable under extension of the input, hence every proper prefix
                            of an accepted input is refused (error, or the panic classes of Skip)
     fast_read_total        the fuel never runs out: fast_read always answers with a value or an error  *)
From Coq Require Import List ZArith Bool Lia Permutation Sorted.
From Coq.Strings Require Import Byte.
From Verif Require Import Base.Bytes Base.BE Wire.TType Wire.WVal Wire.Codec Wire.CodecFacts
  Wire.Schema Wire.Value Wire.GenTables Wire.FastTables Wire.Std Wire.StdFacts Wire.Fast Wire.FastFacts.
Import ListNotations.
Open Scope Z_scope.

(* ------------------------------------------------------------------ induction on wire values *)

Section WvalInd.
  Variable P : wval -> Prop.
  Hypothesis HBool : forall b, P (WBool b).
  Hypothesis HByte : forall z, P (WByte z).
  Hypothesis HDouble : forall z, P (WDouble z).
  Hypothesis HI16 : forall z, P (WI16 z).
  Hypothesis HI32 : forall z, P (WI32 z).
  Hypothesis HI64 : forall z, P (WI64 z).
  Hypothesis HStr : forall s, P (WStr s).
  Hypothesis HStruct : forall fs, Forall (fun f => P (snd f)) fs -> P (WStruct fs).
  Hypothesis HMap : forall kt vt kvs, Forall (fun kv => P (fst kv) /\ P (snd kv)) kvs -> P (WMap kt vt kvs).
  Hypothesis HSet : forall et l, Forall P l -> P (WSet et l).
  Hypothesis HList : forall et l, Forall P l -> P (WList et l).

  Fixpoint wval_ind2 (w : wval) : P w :=
    match w with
    | WBool b => HBool b | WByte z => HByte z | WDouble z => HDouble z | WI16 z => HI16 z
    | WI32 z => HI32 z | WI64 z => HI64 z | WStr s => HStr s
    | WStruct fs => HStruct fs ((fix go (l : list (ttype * Z * wval)) : Forall (fun f => P (snd f)) l :=
                                  match l with [] => Forall_nil _ | f :: r => Forall_cons f (wval_ind2 (snd f)) (go r) end) fs)
    | WMap kt vt kvs => HMap kt vt kvs ((fix go (l : list (wval * wval)) : Forall (fun kv => P (fst kv) /\ P (snd kv)) l :=
                                  match l with
                                  | [] => Forall_nil _
                                  | kv :: r => Forall_cons kv (conj (wval_ind2 (fst kv)) (wval_ind2 (snd kv))) (go r) end) kvs)
    | WSet et l => HSet et l ((fix go (l : list wval) : Forall P l :=
                                  match l with [] => Forall_nil _ | x :: r => Forall_cons x (wval_ind2 x) (go r) end) l)
    | WList et l => HList et l ((fix go (l : list wval) : Forall P l :=
                                  match l with [] => Forall_nil _ | x :: r => Forall_cons x (wval_ind2 x) (go r) end) l)
    end.
End WvalInd.

(* ------------------------------------------------------------------ bytes *)

Lemma put_be_1 z : put_be 1 z = [byte_of_Z z].
Proof. cbn [put_be]. rewrite Z.pow_0_r, Z.div_1_r. reflexivity. Qed.

Lemma Z_of_byte_code t : Z_of_byte (byte_of_Z (code t)) = code t.
Proof. rewrite Z_of_byte_of_Z. pose proof (code_range t). apply Z.mod_small. lia. Qed.

Lemma adv_app (a b : bytes) : adv (lenZ a) (a ++ b) = b.
Proof. unfold adv, lenZ. rewrite Nat2Z.id, skipn_app, skipn_all, Nat.sub_diag. reflexivity. Qed.

Lemma adv_app_n n (a b : bytes) : n = lenZ a -> adv n (a ++ b) = b.
Proof. intros ->. apply adv_app. Qed.

Lemma enc_nonempty x : 1 <= lenZ (enc x).
Proof.
  unfold lenZ. rewrite enc_length. destruct x; cbn [wsize]; try lia.
  induction fs as [|[[t i] y] fs IH]; lia.
Qed.

Definition fixed_ttype (t : ttype) : Z :=
  match t with T_BOOL | T_BYTE => 1 | T_I16 => 2 | T_I32 => 4 | T_I64 | T_DOUBLE => 8 | _ => 0 end.

Lemma type_size_code t : type_size (code t) = fixed_ttype t.
Proof. destruct t; reflexivity. Qed.

Lemma neg_type_code t : neg_type (code t) = false.
Proof. destruct t; reflexivity. Qed.

Lemma enc_fixed x : 0 < fixed_ttype (wtype x) -> lenZ (enc x) = fixed_ttype (wtype x).
Proof. destruct x; cbn [wtype fixed_ttype]; try lia; intros _; cbn [enc]; rewrite ?lenZ_put; reflexivity. Qed.

Lemma i32_0_put n r : in_srange 4 n -> i32_0 (put_be 4 n ++ r) = n.
Proof. intro H. unfold i32_0. rewrite get_s_put by (auto; lia). reflexivity. Qed.

Lemma lenZ_enc_list_go l : lenZ (enc_list_go l) = sumZ (map (fun x => lenZ (enc x)) l).
Proof. induction l as [|x l IH]; [reflexivity|]. cbn [enc_list_go map sumZ]. fold enc_list_go. rewrite lenZ_app, IH. reflexivity. Qed.

Lemma sumZ_const {A} (f : A -> Z) c l : Forall (fun x => f x = c) l -> sumZ (map f l) = lenZ l * c.
Proof. induction 1 as [|x l Hx _ IH]; [reflexivity|]. cbn [map sumZ]. rewrite lenZ_cons, Hx, IH. lia. Qed.

(* ------------------------------------------------------------------ Skip consumes exactly an encoding *)

Lemma skipstr_enc s r : in_srange 4 (Z.of_nat (length s)) -> skipstr (enc (WStr s) ++ r) = FOk (lenZ (enc (WStr s))).
Proof.
  intro H. cbn [enc]. unfold skipstr. rewrite <- app_assoc, i32_0_put by assumption.
  rewrite !lenZ_app, lenZ_put. fold (lenZ s).
  pose proof (lenZ_nonneg s). pose proof (lenZ_nonneg r). unfold lenZ in *.
  destruct (Z.leb_spec 4 (Z.of_nat 4 + (Z.of_nat (length s) + Z.of_nat (length r)))); [|lia].
  destruct (Z.ltb_spec (Z.of_nat (length s)) 0); [lia|].
  destruct (Z.leb_spec (4 + Z.of_nat (length s)) (Z.of_nat 4 + (Z.of_nat (length s) + Z.of_nat (length r)))); [|lia].
  f_equal; lia.
Qed.

Definition skip_ok (x : wval) : Prop :=
  forall d r, wf x -> (depth x <= d)%nat -> fskip d (code (wtype x)) (enc x ++ r) = FOk (lenZ (enc x)).

(* what the loops of skipType use for one element *)
Lemma skip_elem_enc d x r :
  skip_ok x -> wf x -> (depth x <= d)%nat ->
  skip_elem (fskip d) (enc x ++ r) (code (wtype x)) = FOk (lenZ (enc x)).
Proof.
  intros Hx Hwf Hd. unfold skip_elem. rewrite type_size_code.
  destruct (Z.ltb_spec 0 (fixed_ttype (wtype x))) as [Hf|Hf].
  - rewrite enc_fixed by assumption. reflexivity.
  - destruct x; cbn [wtype fixed_ttype code] in *; try lia; cbn [Z.eqb Pos.eqb]; try (apply Hx; assumption).
    apply skipstr_enc. exact Hwf.
Qed.

Lemma match_nonempty {A} (rem : bytes) (a b : A) : 1 <= lenZ rem -> match rem with [] => a | _ :: _ => b end = b.
Proof. destruct rem; [cbn; lia | reflexivity]. Qed.

Lemma enc_app_nonempty x r : 1 <= lenZ (enc x ++ r).
Proof. rewrite lenZ_app. pose proof (enc_nonempty x). pose proof (lenZ_nonneg r). lia. Qed.

Lemma skip_list_loop_enc d et l : forall fuel acc r,
  (length l <= fuel)%nat -> fixed_ttype et = 0 ->
  Forall (fun x => skip_ok x /\ wf x /\ wtype x = et /\ (depth x <= d)%nat) l ->
  skip_list_loop (fskip d) fuel (code et) (lenZ l) acc (enc_list_go l ++ r) = FOk (acc + lenZ (enc_list_go l)).
Proof.
  induction l as [|x l IH]; intros fuel acc r Hf Hfix Hall.
  - destruct fuel; cbn; rewrite Z.add_0_r; reflexivity.
  - inversion Hall as [|? ? (Hs & Hwf & Ht & Hd) Hrest]; subst.
    destruct fuel; [cbn in Hf; lia|]. cbn [skip_list_loop].
    rewrite lenZ_cons. destruct (Z.leb_spec (1 + lenZ l) 0); [pose proof (lenZ_nonneg l); lia|].
    change (enc_list_go (x :: l)) with (enc x ++ enc_list_go l). rewrite <- app_assoc.
    rewrite (match_nonempty (enc x ++ enc_list_go l ++ r)) by apply enc_app_nonempty.
    rewrite skip_elem_enc by assumption. rewrite adv_app.
    replace (1 + lenZ l - 1) with (lenZ l) by lia.
    rewrite IH by (assumption || (cbn in Hf; lia)). rewrite lenZ_app. f_equal. lia.
Qed.

Lemma skip_map_loop_enc d kt vt kvs : forall fuel acc r,
  (length kvs <= fuel)%nat ->
  Forall (fun kv => (skip_ok (fst kv) /\ wf (fst kv) /\ wtype (fst kv) = kt /\ (depth (fst kv) <= d)%nat) /\
                    (skip_ok (snd kv) /\ wf (snd kv) /\ wtype (snd kv) = vt /\ (depth (snd kv) <= d)%nat)) kvs ->
  skip_map_loop (fskip d) fuel (code kt) (code vt) (lenZ kvs) acc (enc_map_go kvs ++ r) = FOk (acc + lenZ (enc_map_go kvs)).
Proof.
  induction kvs as [|[k x] kvs IH]; intros fuel acc r Hf Hall.
  - destruct fuel; cbn; rewrite Z.add_0_r; reflexivity.
  - inversion Hall as [|? ? [(Hsk & Hwk & Htk & Hdk) (Hsx & Hwx & Htx & Hdx)] Hrest]; subst. cbn [fst snd] in *.
    destruct fuel; [cbn in Hf; lia|]. cbn [skip_map_loop].
    rewrite lenZ_cons. destruct (Z.leb_spec (1 + lenZ kvs) 0); [pose proof (lenZ_nonneg kvs); lia|].
    change (enc_map_go ((k, x) :: kvs)) with (enc k ++ enc x ++ enc_map_go kvs). rewrite <- !app_assoc.
    rewrite (match_nonempty (enc k ++ enc x ++ enc_map_go kvs ++ r)) by apply enc_app_nonempty.
    rewrite skip_elem_enc by assumption. rewrite adv_app.
    assert (Hne : 1 <= lenZ (enc x ++ enc_map_go kvs ++ r)) by apply enc_app_nonempty.
    destruct (enc x ++ enc_map_go kvs ++ r) as [|b0 rem1] eqn:E; [cbn in Hne; lia|]. rewrite <- E. clear Hne.
    rewrite skip_elem_enc by assumption. rewrite adv_app.
    replace (1 + lenZ kvs - 1) with (lenZ kvs) by lia.
    rewrite IH by (assumption || (cbn in Hf; lia)). rewrite !lenZ_app. f_equal. lia.
Qed.

Lemma skip_struct_loop_enc d fs : forall fuel acc r,
  (length fs < fuel)%nat ->
  Forall (fun f => skip_ok (snd f) /\ wf (snd f) /\ wtype (snd f) = fst (fst f) /\ (depth (snd f) <= d)%nat) fs ->
  skip_struct_loop (fskip d) fuel acc (enc_fields_go fs ++ r) = FOk (acc + lenZ (enc_fields_go fs)).
Proof.
  induction fs as [|[[t i] x] fs IH]; intros fuel acc r Hf Hall.
  - destruct fuel; [cbn in Hf; lia|]. reflexivity.
  - inversion Hall as [|? ? (Hs & Hwf & Ht & Hd) Hrest]; subst. cbn [fst snd] in *.
    destruct fuel; [cbn in Hf; lia|]. rewrite enc_fields_go_cons. cbn [skip_struct_loop].
    rewrite put_be_1. cbn [app]. subst t. rewrite Z_of_byte_code.
    destruct (Z.eqb_spec (code (wtype x)) 0) as [E0|_]; [pose proof (code_range (wtype x)); lia|].
    rewrite <- !app_assoc.
    rewrite (adv_app_n 2 (put_be 2 i)) by (rewrite lenZ_put; reflexivity).
    assert (Hne : 1 <= lenZ (enc x ++ enc_fields_go fs ++ r)) by apply enc_app_nonempty.
    destruct (enc x ++ enc_fields_go fs ++ r) as [|b0 rem1] eqn:E; [cbn in Hne; lia|]. rewrite <- E. clear Hne.
    rewrite neg_type_code. rewrite skip_elem_enc by assumption. rewrite adv_app.
    rewrite IH by (assumption || (cbn in Hf; lia)). rewrite ?lenZ_cons, ?lenZ_app, ?lenZ_put. f_equal; lia.
Qed.

Lemma byte0_code t r : byte0 (put_be 1 (code t) ++ r) = code t.
Proof. rewrite put_be_1. cbn [app byte0]. apply Z_of_byte_code. Qed.

Lemma length_le_enc_list l : (length l <= length (enc_list_go l))%nat.
Proof.
  induction l as [|x l IH]; [cbn; lia|]. change (enc_list_go (x :: l)) with (enc x ++ enc_list_go l).
  rewrite app_length. pose proof (enc_nonempty x). unfold lenZ in *. cbn [length]. lia.
Qed.
Lemma length_le_enc_map l : (length l <= length (enc_map_go l))%nat.
Proof.
  induction l as [|[k x] l IH]; [cbn; lia|]. change (enc_map_go ((k, x) :: l)) with (enc k ++ enc x ++ enc_map_go l).
  rewrite !app_length. pose proof (enc_nonempty k). unfold lenZ in *. cbn [length]. lia.
Qed.

Lemma fskip_fixed d t bs :
  neg_type t = false -> 0 < type_size t -> type_size t <= lenZ bs -> fskip (S d) t bs = FOk (type_size t).
Proof.
  intros Hn Hp Hl. cbn [fskip]. rewrite Hn.
  destruct (Z.ltb_spec 0 (type_size t)); [|lia]. destruct (Z.ltb_spec (lenZ bs) (type_size t)); [lia|]. reflexivity.
Qed.

Lemma fskip_string d bs : fskip (S d) 11 bs = skipstr bs.
Proof. reflexivity. Qed.

Lemma fskip_struct d bs : fskip (S d) 12 bs = skip_struct_loop (fskip d) (S (length bs)) 0 bs.
Proof. reflexivity. Qed.

Lemma fskip_map d bs :
  fskip (S d) 13 bs =
  if lenZ bs <? 6 then FErr FShort else
  let kt := byte0 bs in let vt := byte0 (adv 1 bs) in let sz := i32_0 (adv 2 bs) in
  if sz <? 0 then FErr FNegLen else
  if neg_type kt || neg_type vt then FErr FIndex else
  let ksz := type_size kt in let vsz := type_size vt in
  if (0 <? ksz) && (0 <? vsz) then
    (if lenZ bs <? 6 + sz * (ksz + vsz) then FErr FShort else FOk (6 + sz * (ksz + vsz)))
  else skip_map_loop (fskip d) (S (length bs)) kt vt sz 6 (adv 6 bs).
Proof. reflexivity. Qed.

Lemma fskip_list d t bs : t = 15 \/ t = 14 ->
  fskip (S d) t bs =
  if lenZ bs <? 5 then FErr FShort else
  let vt := byte0 bs in let sz := i32_0 (adv 1 bs) in
  if sz <? 0 then FErr FNegLen else
  if neg_type vt then FErr FIndex else
  let vsz := type_size vt in
  if 0 <? vsz then (if lenZ bs <? 5 + sz * vsz then FErr FShort else FOk (5 + sz * vsz))
  else skip_list_loop (fskip d) (S (length bs)) vt sz 5 (adv 5 bs).
Proof. intros [-> | ->]; reflexivity. Qed.

Lemma fskip_listlike d t et l r :
  t = 15 \/ t = 14 -> in_srange 4 (Z.of_nat (length l)) ->
  Forall (fun x => skip_ok x /\ wf x /\ wtype x = et /\ (depth x <= d)%nat) l ->
  fskip (S d) t (put_be 1 (code et) ++ put_be 4 (Z.of_nat (length l)) ++ enc_list_go l ++ r) =
  FOk (lenZ (put_be 1 (code et) ++ put_be 4 (Z.of_nat (length l)) ++ enc_list_go l)).
Proof.
  intros Ht Hlen Hel. rewrite (fskip_list d t _ Ht). cbn zeta.
  set (body := enc_list_go l) in *.
  assert (L : lenZ (put_be 1 (code et) ++ put_be 4 (Z.of_nat (length l)) ++ body ++ r) = 5 + lenZ body + lenZ r)
    by (rewrite !lenZ_app, !lenZ_put; lia).
  rewrite L. pose proof (lenZ_nonneg body). pose proof (lenZ_nonneg r).
  destruct (Z.ltb_spec (5 + lenZ body + lenZ r) 5); [lia|].
  rewrite byte0_code.
  rewrite (adv_app_n 1 (put_be 1 (code et))) by (rewrite lenZ_put; reflexivity).
  rewrite i32_0_put by assumption.
  destruct (Z.ltb_spec (Z.of_nat (length l)) 0); [lia|].
  rewrite neg_type_code, type_size_code.
  destruct (Z.ltb_spec 0 (fixed_ttype et)) as [Hf|Hf].
  - assert (Eb : lenZ body = Z.of_nat (length l) * fixed_ttype et).
    { unfold body. rewrite lenZ_enc_list_go. apply sumZ_const. revert Hel. apply Forall_impl. intros x (_ & _ & Hx & _).
      rewrite enc_fixed by (rewrite Hx; assumption). rewrite Hx. reflexivity. }
    destruct (Z.ltb_spec (5 + lenZ body + lenZ r) (5 + Z.of_nat (length l) * fixed_ttype et)); [lia|].
    f_equal. rewrite !lenZ_app, !lenZ_put. lia.
  - replace (adv 5 (put_be 1 (code et) ++ put_be 4 (Z.of_nat (length l)) ++ body ++ r)) with (body ++ r)
      by (symmetry; rewrite (app_assoc (put_be 1 (code et))); apply adv_app_n; rewrite !lenZ_app, !lenZ_put; reflexivity).
    unfold body. fold (lenZ l). rewrite skip_list_loop_enc; [f_equal; rewrite !lenZ_app, !lenZ_put; lia | | destruct et; cbn [fixed_ttype] in *; lia | exact Hel].
    rewrite !app_length, !put_be_length. pose proof (length_le_enc_list l). lia.
Qed.

Theorem fskip_enc : forall x, skip_ok x.
Proof.
  intro x. induction x using wval_ind2; intros d r Hwf Hd;
    (destruct d as [|d]; [cbn [depth] in Hd; lia|]).
  (* fixed-size leaves *)
  1-6: (match goal with |- fskip _ (code (wtype ?x)) _ = _ =>
          rewrite fskip_fixed; rewrite ?neg_type_code, ?type_size_code, ?(enc_fixed x); try reflexivity;
          cbn [wtype fixed_ttype]; try lia;
          rewrite lenZ_app, (enc_fixed x) by (cbn [wtype fixed_ttype]; lia); cbn [wtype fixed_ttype];
          pose proof (lenZ_nonneg r); lia end).
  - (* string *) cbn [wtype code]. rewrite fskip_string. apply skipstr_enc. exact Hwf.
  - (* struct *)
    apply wf_struct_iff in Hwf. cbn [wtype code]. rewrite enc_struct_unfold.
    rewrite fskip_struct.
    rewrite skip_struct_loop_enc; [reflexivity | |].
    + rewrite app_length. pose proof (enc_fields_len fs). lia.
    + rewrite Forall_forall in *. intros f Hf. specialize (H f Hf). specialize (Hwf f Hf).
      pose proof (depth_struct_le fs f Hf) as Hdf. cbn in Hd. fold depth_struct_go in Hd.
      repeat split; try tauto. lia.
  - (* map *)
    apply wf_map_iff in Hwf. destruct Hwf as [Hlen Hall]. cbn [wtype code]. rewrite enc_map_unfold.
    assert (Hel : Forall (fun kv => (skip_ok (fst kv) /\ wf (fst kv) /\ wtype (fst kv) = kt /\ (depth (fst kv) <= d)%nat) /\
                    (skip_ok (snd kv) /\ wf (snd kv) /\ wtype (snd kv) = vt /\ (depth (snd kv) <= d)%nat)) kvs).
    { rewrite Forall_forall in *. intros kv Hkv. specialize (H kv Hkv). specialize (Hall kv Hkv).
      pose proof (depth_map_le kvs kv Hkv) as Hdp. cbn in Hd. fold depth_map_go in Hd.
      repeat split; try tauto; lia. }
    set (body := enc_map_go kvs) in *.
    rewrite fskip_map. cbn zeta.
    rewrite <- !app_assoc.
    assert (L : lenZ (put_be 1 (code kt) ++ put_be 1 (code vt) ++ put_be 4 (Z.of_nat (length kvs)) ++ body ++ r)
                = 6 + lenZ body + lenZ r) by (rewrite !lenZ_app, !lenZ_put; lia).
    rewrite L. pose proof (lenZ_nonneg body). pose proof (lenZ_nonneg r).
    destruct (Z.ltb_spec (6 + lenZ body + lenZ r) 6); [lia|].
    rewrite byte0_code.
    rewrite (adv_app_n 1 (put_be 1 (code kt))) by (rewrite lenZ_put; reflexivity). rewrite byte0_code.
    replace (adv 2 (put_be 1 (code kt) ++ put_be 1 (code vt) ++ put_be 4 (Z.of_nat (length kvs)) ++ body ++ r))
      with (put_be 4 (Z.of_nat (length kvs)) ++ body ++ r)
      by (symmetry; rewrite (app_assoc (put_be 1 (code kt))); apply adv_app_n; rewrite lenZ_app, !lenZ_put; reflexivity).
    rewrite i32_0_put by assumption.
    destruct (Z.ltb_spec (Z.of_nat (length kvs)) 0); [lia|].
    rewrite !neg_type_code. cbn [orb]. rewrite !type_size_code.
    assert (Lb : lenZ body = sumZ (map (fun kv => lenZ (enc (fst kv)) + lenZ (enc (snd kv))) kvs)).
    { unfold body. clear. induction kvs as [|[k x] kvs IH]; [reflexivity|].
      change (enc_map_go ((k, x) :: kvs)) with (enc k ++ enc x ++ enc_map_go kvs). rewrite !lenZ_app, IH. cbn [map sumZ fst snd]. lia. }
    destruct (Z.ltb_spec 0 (fixed_ttype kt)) as [Hk|Hk], (Z.ltb_spec 0 (fixed_ttype vt)) as [Hv|Hv]; cbn [andb].
    + assert (Eb : lenZ body = Z.of_nat (length kvs) * (fixed_ttype kt + fixed_ttype vt)).
      { rewrite Lb. apply sumZ_const. rewrite Forall_forall in *. intros kv Hkv. destruct (Hall kv Hkv) as (Hk1 & Hv1 & _ & _).
        rewrite !enc_fixed by (rewrite ?Hk1, ?Hv1; assumption). rewrite Hk1, Hv1. reflexivity. }
      destruct (Z.ltb_spec (6 + lenZ body + lenZ r) (6 + Z.of_nat (length kvs) * (fixed_ttype kt + fixed_ttype vt))); [lia|].
      f_equal. rewrite !lenZ_app, !lenZ_put. lia.
    + replace (adv 6 (put_be 1 (code kt) ++ put_be 1 (code vt) ++ put_be 4 (Z.of_nat (length kvs)) ++ body ++ r)) with (body ++ r)
        by (symmetry; rewrite (app_assoc (put_be 1 (code kt))), (app_assoc (_ ++ _) (put_be 4 _)); apply adv_app_n; rewrite !lenZ_app, !lenZ_put; reflexivity).
      unfold body. fold (lenZ kvs). rewrite skip_map_loop_enc; [f_equal; rewrite !lenZ_app, !lenZ_put; lia | | exact Hel].
      rewrite !app_length, !put_be_length. pose proof (length_le_enc_map kvs). lia.
    + replace (adv 6 (put_be 1 (code kt) ++ put_be 1 (code vt) ++ put_be 4 (Z.of_nat (length kvs)) ++ body ++ r)) with (body ++ r)
        by (symmetry; rewrite (app_assoc (put_be 1 (code kt))), (app_assoc (_ ++ _) (put_be 4 _)); apply adv_app_n; rewrite !lenZ_app, !lenZ_put; reflexivity).
      unfold body. fold (lenZ kvs). rewrite skip_map_loop_enc; [f_equal; rewrite !lenZ_app, !lenZ_put; lia | | exact Hel].
      rewrite !app_length, !put_be_length. pose proof (length_le_enc_map kvs). lia.
    + replace (adv 6 (put_be 1 (code kt) ++ put_be 1 (code vt) ++ put_be 4 (Z.of_nat (length kvs)) ++ body ++ r)) with (body ++ r)
        by (symmetry; rewrite (app_assoc (put_be 1 (code kt))), (app_assoc (_ ++ _) (put_be 4 _)); apply adv_app_n; rewrite !lenZ_app, !lenZ_put; reflexivity).
      unfold body. fold (lenZ kvs). rewrite skip_map_loop_enc; [f_equal; rewrite !lenZ_app, !lenZ_put; lia | | exact Hel].
      rewrite !app_length, !put_be_length. pose proof (length_le_enc_map kvs). lia.
  - (* set *)
    apply wf_set_iff in Hwf. destruct Hwf as [Hlen Hall]. cbn [wtype code]. rewrite enc_set_unfold, <- !app_assoc.
    rewrite fskip_listlike; [rewrite !lenZ_app; reflexivity | right; reflexivity | assumption |].
    rewrite Forall_forall in *. intros x Hx. specialize (H x Hx). specialize (Hall x Hx).
    pose proof (depth_list_le l x Hx) as Hdx. cbn in Hd. fold depth_list_go in Hd. repeat split; try tauto; lia.
  - (* list *)
    apply wf_list_iff in Hwf. destruct Hwf as [Hlen Hall]. cbn [wtype code]. rewrite enc_list_unfold, <- !app_assoc.
    rewrite fskip_listlike; [rewrite !lenZ_app; reflexivity | left; reflexivity | assumption |].
    rewrite Forall_forall in *. intros x Hx. specialize (H x Hx). specialize (Hall x Hx).
    pose proof (depth_list_le l x Hx) as Hdx. cbn in Hd. fold depth_list_go in Hd. repeat split; try tauto; lia.
Qed.

Corollary fskip_top_enc x r : wf x -> (depth x <= default_recursion_depth)%nat ->
  fskip_top (code (wtype x)) (enc x ++ r) = FOk (lenZ (enc x)).
Proof.
  intros Hwf Hd. unfold fskip_top. pose proof (enc_app_nonempty x r) as Hne.
  destruct (enc x ++ r) eqn:E; [cbn in Hne; lia|]. rewrite <- E. apply fskip_enc; assumption.
Qed.

(* ------------------------------------------------------------------ the switch and the required-field check *)

Definition idf (f : field) : Z * field := (f_id f, f).

Lemma sort_by_id_nil_iff {A} (l : list (Z * A)) : sort_by_id l = [] <-> l = [].
Proof.
  split; [|intros ->; reflexivity]. intro H. pose proof (sort_by_id_perm l) as P. rewrite H in P.
  apply Permutation_sym, Permutation_nil in P. exact P.
Qed.

Lemma sort_by_id_single {A} (x : Z * A) : sort_by_id [x] = [x].
Proof. reflexivity. Qed.

Lemma filter_id_nodup fid (P : field -> bool) l :
  NoDup (map f_id l) ->
  filter (fun p : Z * field => (fst p =? fid) && P (snd p)) (map idf l) =
  match find_field fid l with
  | Some f => if P f then [idf f] else []
  | None => [] end.
Proof.
  induction l as [|f l IH]; intro Hnd; [reflexivity|].
  inversion Hnd as [|? ? Hnot Hnd']; subst. cbn [map filter find_field idf fst snd].
  rewrite (Z.eqb_sym (f_id f) fid). destruct (Z.eqb_spec fid (f_id f)) as [->|Hne]; cbn [andb].
  - assert (E : filter (fun p : Z * field => (fst p =? f_id f) && P (snd p)) (map idf l) = []).
    { clear IH Hnd Hnd'. induction l as [|g l IH]; [reflexivity|]. cbn [map filter idf fst snd].
      destruct (Z.eqb_spec (f_id g) (f_id f)) as [E|_]; [exfalso; apply Hnot; cbn [map]; left; exact E|].
      cbn [andb]. apply IH. intro H. apply Hnot. cbn [map]. right. exact H. }
    rewrite E. destruct (P f); reflexivity.
  - apply IH. exact Hnd'.
Qed.

Lemma find_case_spec e s fid ftyp :
  NoDup (map f_id (s_fields s)) ->
  find_case e s fid ftyp =
  match find_field fid (s_fields s) with
  | Some f => if wire_type e (f_ty f) =? ftyp then Some f else None
  | None => None end.
Proof.
  intro Hnd. unfold find_case. fold idf.
  rewrite (filter_sort_by_id (fun p : Z * field => (fst p =? fid) && (wire_type e (f_ty (snd p)) =? ftyp))).
  rewrite (filter_id_nodup fid (fun f => wire_type e (f_ty f) =? ftyp)) by assumption.
  destruct (find_field fid (s_fields s)) as [f|]; [|reflexivity].
  destruct (wire_type e (f_ty f) =? ftyp); reflexivity.
Qed.

Lemma missing_filter s seen :
  filter (fun p : Z * field => is_required (snd p) && negb (existsb (Z.eqb (fst p)) seen)) (map idf (s_fields s)) =
  map idf (filter (fun f => is_required f && negb (existsb (Z.eqb (f_id f)) seen)) (s_fields s)).
Proof.
  induction (s_fields s) as [|f l IH]; [reflexivity|]. cbn [map filter idf fst snd].
  destruct (is_required f && negb (existsb (Z.eqb (f_id f)) seen)); cbn [map]; rewrite IH; reflexivity.
Qed.

Lemma missing_none_iff s seen : first_missing (s_fields s) seen = None <-> fast_first_missing s seen = None.
Proof.
  unfold first_missing, fast_first_missing. fold idf.
  rewrite (filter_sort_by_id (fun p : Z * field => is_required (snd p) && negb (existsb (Z.eqb (fst p)) seen))).
  rewrite missing_filter.
  destruct (filter (fun f => is_required f && negb (existsb (Z.eqb (f_id f)) seen)) (s_fields s)) as [|f l] eqn:E.
  - cbn. tauto.
  - split; [discriminate|]. intro H.
    destruct (sort_by_id (map idf (f :: l))) as [|p q] eqn:E2; [|discriminate].
    apply (proj1 (sort_by_id_nil_iff _)) in E2. discriminate.
Qed.

(* ------------------------------------------------------------------ FastRead = the standard Read *)

(* what FastRead [f] does on the bytes [body] (followed by anything), given what the standard Read says *)
Definition agree {A B} (r : result A) (conv : A -> B) (f : bytes -> fres (B * bytes)) (body : bytes) : Prop :=
  match r with
  | Ok v => forall rest, f (body ++ rest) = FOk (conv v, rest)
  | Err (ERequiredMissing _) => forall rest, exists id, f (body ++ rest) = FErr (FRequired id)
  | Err _ => True
  end.

Definition rd_ok (e : env) (w : wval) : Prop :=
  forall fuel t, wf w -> (depth w <= fuel)%nat -> (depth w <= default_recursion_depth)%nat ->
                 wtype w = spec_ttype t ->
                 agree (from_w e t w) (fun v => v) (fr_val fuel e t) (enc w).

Lemma frep_enc {A B} (p : bytes -> fres (A * bytes)) (g : B -> result A) (encb : B -> bytes) l : forall fuel,
  (length l <= fuel)%nat ->
  Forall (fun x => agree (g x) (fun v => v) p (encb x)) l ->
  agree (mapM g l) (fun v => v) (frep p fuel (lenZ l)) (flat_map encb l).
Proof.
  induction l as [|x l IH]; intros fuel Hf Hall.
  - cbn [mapM agree]. intro rest. destruct fuel; reflexivity.
  - inversion Hall as [|? ? Hx Hrest]; subst. destruct fuel; [cbn in Hf; lia|].
    specialize (IH fuel ltac:(cbn in Hf; lia) Hrest).
    cbn [mapM flat_map].
    assert (Hstep : forall rest, frep p (S fuel) (lenZ (x :: l)) ((encb x ++ flat_map encb l) ++ rest) =
                    match p (encb x ++ flat_map encb l ++ rest) with
                    | FErr y => FErr y
                    | FOk (a, r) => match frep p fuel (lenZ l) r with FErr y => FErr y | FOk (xs, r') => FOk (a :: xs, r') end
                    end).
    { intro rest. cbn [frep]. rewrite lenZ_cons. destruct (Z.leb_spec (1 + lenZ l) 0); [pose proof (lenZ_nonneg l); lia|].
      rewrite <- app_assoc. replace (1 + lenZ l - 1) with (lenZ l) by lia. reflexivity. }
    destruct (g x) as [v|err]; cbn [agree] in Hx.
    + destruct (mapM g l) as [vs|err]; cbn [agree] in IH |- *.
      * intro rest. rewrite Hstep, Hx, IH. reflexivity.
      * destruct err; try exact I. intro rest. rewrite Hstep, Hx. destruct (IH rest) as [i0 Hid]. exists i0. rewrite Hid. reflexivity.
    + destruct err; try exact I. cbn [agree]. intro rest. rewrite Hstep. destruct (Hx (flat_map encb l ++ rest)) as [i0 Hid].
      exists i0. rewrite Hid. reflexivity.
Qed.

Lemma fpair_agree {A B} (p : bytes -> fres (A * bytes)) (q : bytes -> fres (B * bytes)) (ra : result A) (rb : result B) ka kb :
  agree ra (fun v => v) p ka -> agree rb (fun v => v) q kb ->
  agree (bind ra (fun a => bind rb (fun b => Ok (a, b)))) (fun v => v) (fpair p q) (ka ++ kb).
Proof.
  intros Ha Hb. unfold fpair. destruct ra as [a|err]; cbn [bind agree] in *.
  - destruct rb as [b|err]; cbn [bind agree] in *.
    + intro rest. rewrite <- app_assoc, Ha, Hb. reflexivity.
    + destruct err; try exact I. intro rest. rewrite <- app_assoc, Ha. destruct (Hb rest) as [i0 Hid]. exists i0. rewrite Hid. reflexivity.
  - destruct err; try exact I. intro rest. rewrite <- app_assoc. destruct (Ha (kb ++ rest)) as [i0 Hid]. exists i0. rewrite Hid. reflexivity.
Qed.

Section LoopProof.
  Variable e : env.
  Variable s : sschema.
  Variable rv : ty -> bytes -> fres (value * bytes).
  Hypothesis Hnd : NoDup (map f_id (s_fields s)).

  Definition field_ok (f : wfield) : Prop :=
    wtype (snd f) = fst (fst f) /\ in_srange 2 (snd (fst f)) /\ wf (snd f) /\
    (depth (snd f) <= default_recursion_depth)%nat /\
    forall t, wtype (snd f) = spec_ttype t -> agree (from_w e t (snd f)) (fun v => v) (rv t) (enc (snd f)).

  Definition finish_fast (st : rstate) (rest : bytes) : fres (list (Z * value) * bytes) :=
    match fast_first_missing s (snd st) with
    | Some id => FErr (FRequired id)
    | None => FOk (fst st, rest) end.

  Lemma fr_loop_step lf st tt id x tail : in_srange 2 id ->
    fr_loop rv e s (S lf) st (put_be 1 (code tt) ++ put_be 2 id ++ enc x ++ tail) =
    match find_case e s id (code tt) with
    | Some f =>
        match rv (f_ty f) (enc x ++ tail) with
        | FErr y => FErr y
        | FOk (v, r2) => fr_loop rv e s lf (set_field (f_id f) (wrap_slot f v) (fst st),
                                           if is_required f then f_id f :: snd st else snd st) r2
        end
    | None =>
        match fskip_top (code tt) (enc x ++ tail) with
        | FErr y => FErr y
        | FOk n => if lenZ (enc x ++ tail) <? n then FErr FOverrun
                   else fr_loop rv e s lf st (skipn (Z.to_nat n) (enc x ++ tail))
        end
    end.
  Proof.
    intro Hid. rewrite put_be_1. cbn [app fr_loop]. rewrite Z_of_byte_code.
    destruct (Z.eqb_spec (code tt) 0) as [E0|_]; [pose proof (code_range tt); lia|].
    rewrite get_s_put by (auto; lia). reflexivity.
  Qed.

  Lemma fr_loop_enc wfs : forall lf st,
    (length wfs < lf)%nat -> Forall field_ok wfs ->
    match foldM (read_step e s) wfs st with
    | Ok st' => forall rest, fr_loop rv e s lf st (enc_fields_go wfs ++ rest) = finish_fast st' rest
    | Err (ERequiredMissing _) => forall rest, exists id, fr_loop rv e s lf st (enc_fields_go wfs ++ rest) = FErr (FRequired id)
    | Err _ => True
    end.
  Proof.
    induction wfs as [|[[tt id] x] wfs IH]; intros lf st Hlf Hall.
    - cbn [foldM]. intro rest. destruct lf; [cbn in Hlf; lia|]. reflexivity.
    - inversion Hall as [|? ? (Ht & Hid & Hwf & Hd & Hag) Hrest]; subst. cbn [fst snd] in *.
      destruct lf; [cbn in Hlf; lia|]. assert (Hlf' : (length wfs < lf)%nat) by (cbn in Hlf; lia).
      cbn [foldM]. unfold read_step at 1. cbn [fst snd].
      assert (Hskip : forall st0 rest, find_case e s id (code tt) = None ->
                fr_loop rv e s (S lf) st0 (enc_fields_go ((tt, id, x) :: wfs) ++ rest) =
                fr_loop rv e s lf st0 (enc_fields_go wfs ++ rest)).
      { intros st0 rest Hnone. rewrite enc_fields_go_cons, <- !app_assoc, fr_loop_step, Hnone by assumption.
        subst tt. rewrite fskip_top_enc by assumption.
        destruct (Z.ltb_spec (lenZ (enc x ++ enc_fields_go wfs ++ rest)) (lenZ (enc x))) as [Hlt|_];
          [rewrite lenZ_app in Hlt; pose proof (lenZ_nonneg (enc_fields_go wfs ++ rest)); lia|].
        fold (adv (lenZ (enc x)) (enc x ++ enc_fields_go wfs ++ rest)). rewrite adv_app. reflexivity. }
      rewrite find_case_spec in Hskip by assumption.
      destruct (find_field id (s_fields s)) as [fld|] eqn:Hf.
      + assert (Heq : ttype_eqb tt (ttype_of e (f_ty fld)) = (wire_type e (f_ty fld) =? code tt)).
        { unfold ttype_eqb. rewrite wire_type_spec, ttype_of_spec. apply Z.eqb_sym. }
        rewrite Heq. destruct (wire_type e (f_ty fld) =? code tt) eqn:Hm.
        * (* the case of the switch *)
          assert (Htt : tt = spec_ttype (f_ty fld)).
          { apply ttype_eqb_eq in Heq. rewrite ttype_of_spec in Heq. exact Heq. }
          specialize (Hag (f_ty fld) ltac:(congruence)).
          assert (Hstep : forall rest, fr_loop rv e s (S lf) st (enc_fields_go ((tt, id, x) :: wfs) ++ rest) =
                    match rv (f_ty fld) (enc x ++ enc_fields_go wfs ++ rest) with
                    | FErr y => FErr y
                    | FOk (v, r2) => fr_loop rv e s lf (set_field (f_id fld) (wrap_slot fld v) (fst st),
                                                       if is_required fld then f_id fld :: snd st else snd st) r2
                    end).
          { intro rest. rewrite enc_fields_go_cons, <- !app_assoc, fr_loop_step by assumption.
            rewrite find_case_spec, Hf, Hm by assumption. reflexivity. }
          destruct (from_w e (f_ty fld) x) as [v|err]; cbn [bind agree] in Hag |- *.
          -- specialize (IH lf (set_field (f_id fld) (wrap_slot fld v) (fst st),
                               if is_required fld then f_id fld :: snd st else snd st) Hlf' Hrest).
             destruct (foldM (read_step e s) wfs _) as [st'|err].
             ++ intro rest. rewrite Hstep, Hag. apply IH.
             ++ destruct err; try exact I. intro rest. rewrite Hstep, Hag. apply IH.
          -- destruct err; try exact I. intro rest. rewrite Hstep.
             destruct (Hag (enc_fields_go wfs ++ rest)) as [i0 Hi0]. exists i0. rewrite Hi0. reflexivity.
        * (* known id, another wire type: default branch *)
          specialize (IH lf st Hlf' Hrest).
          destruct (foldM (read_step e s) wfs st) as [st'|err].
          -- intro rest. rewrite Hskip by reflexivity. apply IH.
          -- destruct err; try exact I. intro rest. rewrite Hskip by reflexivity. apply IH.
      + specialize (IH lf st Hlf' Hrest).
        destruct (foldM (read_step e s) wfs st) as [st'|err].
        * intro rest. rewrite Hskip by reflexivity. apply IH.
        * destruct err; try exact I. intro rest. rewrite Hskip by reflexivity. apply IH.
  Qed.
End LoopProof.

Lemma rd_list_begin_enc et n r : in_srange 4 n -> 0 <= n ->
  rd_list_begin (put_be 1 (code et) ++ put_be 4 n ++ r) = FOk (n, r).
Proof.
  intros Hr Hn. rewrite put_be_1. cbn [app rd_list_begin]. rewrite get_s_put by (auto; lia).
  destruct (Z.ltb_spec n 0); [lia | reflexivity].
Qed.

Lemma rd_map_begin_enc kt vt n r : in_srange 4 n -> 0 <= n ->
  rd_map_begin (put_be 1 (code kt) ++ put_be 1 (code vt) ++ put_be 4 n ++ r) = FOk (n, r).
Proof.
  intros Hr Hn. rewrite !put_be_1. cbn [app rd_map_begin]. rewrite get_s_put by (auto; lia).
  destruct (Z.ltb_spec n 0); [lia | reflexivity].
Qed.

Lemma rd_str_enc s r : in_srange 4 (Z.of_nat (length s)) ->
  rd_str (put_be 4 (Z.of_nat (length s)) ++ s ++ r) = FOk (s, r).
Proof.
  intro H. unfold rd_str. rewrite get_s_put by (auto; lia).
  destruct (Z.ltb_spec (Z.of_nat (length s)) 0); [lia|].
  rewrite lenZ_app. unfold lenZ. destruct (Z.ltb_spec (Z.of_nat (length s) + Z.of_nat (length r)) (Z.of_nat (length s))); [lia|].
  rewrite Nat2Z.id, firstn_app, firstn_all, skipn_app, skipn_all, Nat.sub_diag. cbn [firstn skipn]. rewrite app_nil_r. reflexivity.
Qed.

Section ReadProof.
  Variable e : env.
  Hypothesis Henv : wf_env e = true.

  Theorem fr_val_from_w : forall w, rd_ok e w.
  Proof.
    intro w. induction w using wval_ind2; intros fuel t Hwf Hfu Hd Ht;
      (destruct fuel as [|fuel]; [cbn [depth] in Hfu; lia|]).
    - (* bool *) destruct t; try discriminate. cbn [from_w agree fr_val enc app rd_bool]. intro rest. destruct b; reflexivity.
    - (* byte *) destruct t; try discriminate. cbn [from_w agree fr_val enc]. intro rest. unfold rd_s.
      rewrite get_s_put by (auto; lia). reflexivity.
    - (* double *) destruct t; try discriminate. cbn [from_w agree fr_val enc]. intro rest. unfold rd_u.
      rewrite get_put by exact Hwf. reflexivity.
    - (* i16 *) destruct t; try discriminate. cbn [from_w agree fr_val enc]. intro rest. unfold rd_s.
      rewrite get_s_put by (auto; lia). reflexivity.
    - (* i32 *) destruct t; try discriminate; cbn [from_w agree fr_val enc]; intro rest; unfold rd_s;
        rewrite get_s_put by (auto; lia); reflexivity.
    - (* i64 *) destruct t; try discriminate. cbn [from_w agree fr_val enc]. intro rest. unfold rd_s.
      rewrite get_s_put by (auto; lia). reflexivity.
    - (* string *) destruct t; try discriminate; cbn [from_w agree fr_val enc]; intro rest; rewrite <- app_assoc, rd_str_enc by exact Hwf; reflexivity.
    - (* struct *)
      destruct t; try discriminate. rewrite from_w_struct. cbn [fr_val].
      destruct (find_struct e name) as [s|] eqn:Hs; [|exact I].
      apply wf_struct_iff in Hwf.
      assert (Hnd : NoDup (map f_id (s_fields s))) by (apply wf_struct_nodup; apply (wf_env_struct e name); assumption).
      assert (Hok : Forall (field_ok e (fr_val fuel e)) fs).
      { rewrite Forall_forall in *. intros f Hf. specialize (H f Hf). destruct (Hwf f Hf) as (Hw1 & Hw2 & Hw3).
        pose proof (depth_struct_le fs f Hf) as Hdf. change (depth (WStruct fs)) with (S (depth_struct_go fs)) in Hfu, Hd.
        unfold field_ok. split; [assumption|]. split; [assumption|]. split; [assumption|]. split; [lia|].
        intros t0 Ht0. apply H; try assumption; lia. }
      pose proof (fun lf Hlf => fr_loop_enc e s (fr_val fuel e) Hnd fs lf (new_fields s, []) Hlf Hok) as Hloop.
      rewrite enc_struct_unfold.
      destruct (foldM (read_step e s) fs (new_fields s, [])) as [st'|err]; cbn [bind].
      + unfold finish_read. destruct (first_missing (s_fields s) (snd st')) as [mid|] eqn:Hmiss; cbn [agree].
        * intro rest. rewrite Hloop by (rewrite app_length; pose proof (enc_fields_len fs); unfold wfield in *; lia). unfold finish_fast.
          destruct (fast_first_missing s (snd st')) as [mid'|] eqn:Hm2; [exists mid'; reflexivity|].
          apply missing_none_iff in Hm2. congruence.
        * intro rest. rewrite Hloop by (rewrite app_length; pose proof (enc_fields_len fs); unfold wfield in *; lia). unfold finish_fast.
          apply missing_none_iff in Hmiss. rewrite Hmiss. reflexivity.
      + destruct err; try exact I. cbn [agree]. intro rest.
        destruct (Hloop (S (length (enc_fields_go fs ++ rest))) ltac:(rewrite app_length; pose proof (enc_fields_len fs); unfold wfield in *; lia) rest) as [i0 Hi0].
        exists i0. rewrite Hi0. reflexivity.
    - (* map *)
      destruct t; try discriminate. apply wf_map_iff in Hwf. destruct Hwf as [Hlen Hall].
      cbn [from_w].
      destruct ((ttype_eqb kt (ttype_of e t1) && ttype_eqb vt (ttype_of e t2)) || (length kvs =? 0)%nat) eqn:Hhdr; [|exact I].
      set (g := fun kv : wval * wval => bind (from_w e t1 (fst kv)) (fun k => bind (from_w e t2 (snd kv)) (fun x => Ok (k, x)))).
      assert (Hel : Forall (fun kv => agree (g kv) (fun v => v) (fpair (fr_val fuel e t1) (fr_val fuel e t2)) (enc (fst kv) ++ enc (snd kv))) kvs).
      { destruct kvs as [|kv0 kvs0]; [constructor|].
        apply orb_true_iff in Hhdr. destruct Hhdr as [Hhdr|Hhdr]; [|discriminate].
        apply andb_true_iff in Hhdr. destruct Hhdr as [Hk Hv]. apply ttype_eqb_eq in Hk, Hv. rewrite ttype_of_spec in Hk, Hv.
        rewrite Forall_forall in *. intros kv Hkv. destruct (H kv Hkv) as [IHk IHv]. destruct (Hall kv Hkv) as (Hk1 & Hv1 & Hwk & Hwv).
        pose proof (depth_map_le _ kv Hkv) as Hdp. change (depth (WMap kt vt (kv0 :: kvs0))) with (S (depth_map_go (kv0 :: kvs0))) in Hfu, Hd.
        apply fpair_agree; [apply IHk | apply IHv]; try assumption; try lia; congruence. }
      pose proof (frep_enc (fpair (fr_val fuel e t1) (fr_val fuel e t2)) g (fun kv => enc (fst kv) ++ enc (snd kv)) kvs) as Hrep.
      rewrite enc_map_unfold, enc_map_go_flat.
      fold g. destruct (mapM g kvs) as [xs|err] eqn:Hm; cbn [bind agree].
      + intro rest. cbn [fr_val]. rewrite <- !app_assoc, rd_map_begin_enc by (assumption || lia).
        specialize (Hrep (S (length (flat_map (fun kv => enc (fst kv) ++ enc (snd kv)) kvs ++ rest)))).
        cbn [agree] in Hrep. fold (lenZ kvs). rewrite Hrep; [reflexivity | | exact Hel].
        rewrite app_length, <- enc_map_go_flat. pose proof (length_le_enc_map kvs). lia.
      + destruct err; try exact I. intro rest. cbn [fr_val]. rewrite <- !app_assoc, rd_map_begin_enc by (assumption || lia).
        specialize (Hrep (S (length (flat_map (fun kv => enc (fst kv) ++ enc (snd kv)) kvs ++ rest)))).
        cbn [agree] in Hrep. fold (lenZ kvs).
        destruct (Hrep ltac:(rewrite app_length, <- enc_map_go_flat; pose proof (length_le_enc_map kvs); lia) Hel rest) as [i0 Hi0].
        exists i0. rewrite Hi0. reflexivity.
    - (* set *)
      destruct t; try discriminate. apply wf_set_iff in Hwf. destruct Hwf as [Hlen Hall].
      cbn [from_w]. destruct (ttype_eqb et (ttype_of e t) || (length l =? 0)%nat) eqn:Hhdr; [|exact I].
      assert (Hel : Forall (fun x => agree (from_w e t x) (fun v => v) (fr_val fuel e t) (enc x)) l).
      { destruct l as [|x0 l0]; [constructor|].
        apply orb_true_iff in Hhdr. destruct Hhdr as [Hhdr|Hhdr]; [|discriminate].
        apply ttype_eqb_eq in Hhdr. rewrite ttype_of_spec in Hhdr.
        rewrite Forall_forall in *. intros x Hx. destruct (Hall x Hx) as [Hx1 Hwx].
        pose proof (depth_list_le _ x Hx) as Hdp. change (depth (WSet et (x0 :: l0))) with (S (depth_list_go (x0 :: l0))) in Hfu, Hd.
        apply H; try assumption; try lia; congruence. }
      pose proof (frep_enc (fr_val fuel e t) (from_w e t) enc l) as Hrep.
      rewrite enc_set_unfold, enc_list_go_flat.
      destruct (mapM (from_w e t) l) as [xs|err] eqn:Hm; cbn [bind agree].
      + intro rest. cbn [fr_val]. rewrite <- !app_assoc, rd_list_begin_enc by (assumption || lia).
        specialize (Hrep (S (length (flat_map enc l ++ rest)))). cbn [agree] in Hrep. fold (lenZ l).
        rewrite Hrep; [reflexivity | | exact Hel].
        rewrite app_length, <- enc_list_go_flat. pose proof (length_le_enc_list l). lia.
      + destruct err; try exact I. intro rest. cbn [fr_val]. rewrite <- !app_assoc, rd_list_begin_enc by (assumption || lia).
        specialize (Hrep (S (length (flat_map enc l ++ rest)))). cbn [agree] in Hrep. fold (lenZ l).
        destruct (Hrep ltac:(rewrite app_length, <- enc_list_go_flat; pose proof (length_le_enc_list l); lia) Hel rest) as [i0 Hi0].
        exists i0. rewrite Hi0. reflexivity.
    - (* list *)
      destruct t; try discriminate. apply wf_list_iff in Hwf. destruct Hwf as [Hlen Hall].
      cbn [from_w]. destruct (ttype_eqb et (ttype_of e t) || (length l =? 0)%nat) eqn:Hhdr; [|exact I].
      assert (Hel : Forall (fun x => agree (from_w e t x) (fun v => v) (fr_val fuel e t) (enc x)) l).
      { destruct l as [|x0 l0]; [constructor|].
        apply orb_true_iff in Hhdr. destruct Hhdr as [Hhdr|Hhdr]; [|discriminate].
        apply ttype_eqb_eq in Hhdr. rewrite ttype_of_spec in Hhdr.
        rewrite Forall_forall in *. intros x Hx. destruct (Hall x Hx) as [Hx1 Hwx].
        pose proof (depth_list_le _ x Hx) as Hdp. change (depth (WList et (x0 :: l0))) with (S (depth_list_go (x0 :: l0))) in Hfu, Hd.
        apply H; try assumption; try lia; congruence. }
      pose proof (frep_enc (fr_val fuel e t) (from_w e t) enc l) as Hrep.
      rewrite enc_list_unfold, enc_list_go_flat.
      destruct (mapM (from_w e t) l) as [xs|err] eqn:Hm; cbn [bind agree].
      + intro rest. cbn [fr_val]. rewrite <- !app_assoc, rd_list_begin_enc by (assumption || lia).
        specialize (Hrep (S (length (flat_map enc l ++ rest)))). cbn [agree] in Hrep. fold (lenZ l).
        rewrite Hrep; [reflexivity | | exact Hel].
        rewrite app_length, <- enc_list_go_flat. pose proof (length_le_enc_list l). lia.
      + destruct err; try exact I. intro rest. cbn [fr_val]. rewrite <- !app_assoc, rd_list_begin_enc by (assumption || lia).
        specialize (Hrep (S (length (flat_map enc l ++ rest)))). cbn [agree] in Hrep. fold (lenZ l).
        destruct (Hrep ltac:(rewrite app_length, <- enc_list_go_flat; pose proof (length_le_enc_list l); lia) Hel rest) as [i0 Hi0].
        exists i0. rewrite Hi0. reflexivity.
  Qed.
End ReadProof.

(* ------------------------------------------------------------------ top level *)

Theorem fast_read_from_wire e s fs0 wfs :
  wf_env e = true -> wf_struct s = true -> wf (WStruct wfs) ->
  (depth (WStruct wfs) <= default_recursion_depth)%nat ->
  match from_wire e s (VStruct fs0) (WStruct wfs) with
  | Ok v => forall rest, fast_read e s (VStruct fs0) (enc (WStruct wfs) ++ rest) = FOk (v, lenZ (enc (WStruct wfs)))
  | Err (ERequiredMissing _) => forall rest, exists id, fast_read e s (VStruct fs0) (enc (WStruct wfs) ++ rest) = FErr (FRequired id)
  | Err _ => True
  end.
Proof.
  intros Henv Hs Hwf Hd. unfold from_wire, fast_read.
  pose proof (wf_struct_nodup s Hs) as Hnd.
  apply wf_struct_iff in Hwf.
  assert (Hok : forall rest, Forall (field_ok e (fr_val (S (length (enc (WStruct wfs) ++ rest))) e)) wfs).
  { intro rest. rewrite Forall_forall in *. intros f Hf. destruct (Hwf f Hf) as (Hw1 & Hw2 & Hw3).
    pose proof (depth_struct_le wfs f Hf) as Hdf. change (depth (WStruct wfs)) with (S (depth_struct_go wfs)) in Hd.
    unfold field_ok. split; [assumption|]. split; [assumption|]. split; [assumption|]. split; [lia|].
    intros t0 Ht0. apply (fr_val_from_w e Henv); try assumption; try lia.
    pose proof (depth_le_size (WStruct wfs)) as Hsz. change (depth (WStruct wfs)) with (S (depth_struct_go wfs)) in Hsz.
    rewrite app_length, enc_length. lia. }
  rewrite enc_struct_unfold in *.
  pose proof (fun rest => fr_loop_enc e s _ Hnd wfs (S (length (enc_fields_go wfs ++ rest))) (fs0, [])
                ltac:(rewrite app_length; pose proof (enc_fields_len wfs); unfold wfield in *; lia) (Hok rest)) as Hloop.
  destruct (foldM (read_step e s) wfs (fs0, [])) as [st'|err]; cbn [bind].
  - unfold finish_read. destruct (first_missing (s_fields s) (snd st')) as [mid|] eqn:Hmiss.
    + intro rest. rewrite Hloop. unfold finish_fast.
      destruct (fast_first_missing s (snd st')) as [mid'|] eqn:Hm2; [exists mid'; reflexivity|].
      apply missing_none_iff in Hm2. congruence.
    + intro rest. rewrite Hloop. unfold finish_fast. apply missing_none_iff in Hmiss. rewrite Hmiss.
      f_equal. f_equal. rewrite lenZ_app. lia.
  - destruct err; try exact I. intro rest. destruct (Hloop rest rest) as [i0 Hi0]. exists i0. rewrite Hi0. reflexivity.
Qed.

(* through bytes on the standard side as well: the two generated readers on the same input *)
Theorem fast_read_eq_std_read e s init wfs rest v :
  wf_env e = true -> wf_struct s = true -> wf (WStruct wfs) ->
  (depth (WStruct wfs) <= default_recursion_depth)%nat ->
  read_bytes e s init (enc (WStruct wfs) ++ rest) = Ok v ->
  fast_read e s init (enc (WStruct wfs) ++ rest) = FOk (v, lenZ (enc (WStruct wfs))).
Proof.
  intros Henv Hs Hwf Hd Hr. unfold read_bytes in Hr. rewrite dec_struct_enc in Hr by assumption.
  destruct init; try (cbn in Hr; discriminate).
  pose proof (fast_read_from_wire e s fs wfs Henv Hs Hwf Hd) as H. rewrite Hr in H. apply H.
Qed.

Theorem fast_read_required_missing e s init wfs rest id :
  wf_env e = true -> wf_struct s = true -> wf (WStruct wfs) ->
  (depth (WStruct wfs) <= default_recursion_depth)%nat ->
  read_bytes e s init (enc (WStruct wfs) ++ rest) = Err (ERequiredMissing id) ->
  exists id', fast_read e s init (enc (WStruct wfs) ++ rest) = FErr (FRequired id').
Proof.
  intros Henv Hs Hwf Hd Hr. unfold read_bytes in Hr. rewrite dec_struct_enc in Hr by assumption.
  destruct init; try (cbn in Hr; discriminate).
  pose proof (fast_read_from_wire e s fs wfs Henv Hs Hwf Hd) as H. rewrite Hr in H. apply H.
Qed.

(* unknown and mistyped fields are skipped: the object FastRead builds is the one the standard Read builds from
   the fields it does not skip *)
Corollary fast_read_ignores_unknown e s init wfs rest v :
  wf_env e = true -> wf_struct s = true -> wf (WStruct wfs) ->
  (depth (WStruct wfs) <= default_recursion_depth)%nat ->
  from_wire e s init (WStruct (filter (fun wf => negb (skippable e s wf)) wfs)) = Ok v ->
  fast_read e s init (enc (WStruct wfs) ++ rest) = FOk (v, lenZ (enc (WStruct wfs))).
Proof.
  intros Henv Hs Hwf Hd Hr. rewrite <- read_ignores_unknown in Hr.
  destruct init; try (cbn in Hr; discriminate).
  pose proof (fast_read_from_wire e s fs wfs Henv Hs Hwf Hd) as H. rewrite Hr in H. apply H.
Qed.

(* ------------------------------------------------------------------ the fuel never runs out *)

Lemma FOk_inj {A} (a b : A) : FOk a = FOk b -> a = b.
Proof. congruence. Qed.

Lemma adv_length n (rem : bytes) : (length (adv n rem) <= length rem)%nat.
Proof. unfold adv. rewrite skipn_length. lia. Qed.

Lemma adv_shrinks n b (rem : bytes) : 1 <= n -> (length (adv n (b :: rem)) <= length rem)%nat.
Proof.
  intro H. unfold adv. rewrite skipn_length. cbn [length]. assert (1 <= Z.to_nat n)%nat by lia. lia.
Qed.

Lemma skipstr_pos rem k : skipstr rem = FOk k -> 1 <= k.
Proof.
  unfold skipstr. cbv zeta. destruct (4 <=? lenZ rem); [|discriminate].
  destruct (Z.ltb_spec (i32_0 rem) 0); [discriminate|].
  destruct (4 + i32_0 rem <=? lenZ rem); [|discriminate]. intro Hk.
  assert (k = 4 + i32_0 rem) by congruence. lia.
Qed.

Lemma skipstr_nofuel rem : skipstr rem <> FErr FFuel.
Proof.
  unfold skipstr. cbv zeta. destruct (4 <=? lenZ rem); [|discriminate].
  destruct (i32_0 rem <? 0); [discriminate|]. destruct (4 + i32_0 rem <=? lenZ rem); discriminate.
Qed.

Lemma type_size_pos t : 0 < type_size t -> 1 <= type_size t.
Proof. lia. Qed.

Definition sk_good (sk : Z -> bytes -> fres Z) : Prop :=
  (forall t bs, sk t bs <> FErr FFuel) /\ (forall t bs k, sk t bs = FOk k -> 1 <= k).

Lemma skip_elem_good sk rem t : sk_good sk ->
  skip_elem sk rem t <> FErr FFuel /\ (forall k, skip_elem sk rem t = FOk k -> 1 <= k).
Proof.
  intros [H1 H2]. unfold skip_elem. destruct (Z.ltb_spec 0 (type_size t)).
  - split; [discriminate|]. intros k [= <-]. lia.
  - destruct (t =? 11).
    + split; [apply skipstr_nofuel | apply skipstr_pos].
    + split; [apply H1 | apply H2].
Qed.

Lemma skip_list_loop_good sk : sk_good sk -> forall fuel vt j acc rem,
  (length rem < fuel)%nat -> 1 <= acc ->
  skip_list_loop sk fuel vt j acc rem <> FErr FFuel /\
  (forall k, skip_list_loop sk fuel vt j acc rem = FOk k -> 1 <= k).
Proof.
  intros Hsk. induction fuel as [|fuel IH]; intros vt j acc rem Hf Hacc; [lia|].
  cbn [skip_list_loop]. destruct (j <=? 0); [split; [discriminate | intros k [= <-]; lia]|].
  destruct rem as [|b rem]; [split; discriminate|].
  destruct (skip_elem_good sk (b :: rem) vt Hsk) as [E1 E2].
  destruct (skip_elem sk (b :: rem) vt) as [vi|x] eqn:E.
  - specialize (E2 vi eq_refl). apply IH; [|lia]. pose proof (adv_shrinks vi b rem E2). cbn [length] in Hf. lia.
  - split; [intro H; apply E1; exact H | discriminate].
Qed.

Lemma skip_map_loop_good sk : sk_good sk -> forall fuel kt vt j acc rem,
  (length rem < fuel)%nat -> 1 <= acc ->
  skip_map_loop sk fuel kt vt j acc rem <> FErr FFuel /\
  (forall k, skip_map_loop sk fuel kt vt j acc rem = FOk k -> 1 <= k).
Proof.
  intros Hsk. induction fuel as [|fuel IH]; intros kt vt j acc rem Hf Hacc; [lia|].
  cbn [skip_map_loop]. destruct (j <=? 0); [split; [discriminate | intros k [= <-]; lia]|].
  destruct rem as [|b rem]; [split; discriminate|].
  destruct (skip_elem_good sk (b :: rem) kt Hsk) as [E1 E2].
  destruct (skip_elem sk (b :: rem) kt) as [ki|x] eqn:E; [|split; [intro H; apply E1; exact H | discriminate]].
  specialize (E2 ki eq_refl). pose proof (adv_shrinks ki b rem E2) as Hl1.
  destruct (adv ki (b :: rem)) as [|b1 rem1] eqn:Ea; [split; discriminate|].
  destruct (skip_elem_good sk (b1 :: rem1) vt Hsk) as [F1 F2].
  destruct (skip_elem sk (b1 :: rem1) vt) as [vi|x] eqn:F; [|split; [intro H; apply F1; exact H | discriminate]].
  specialize (F2 vi eq_refl). apply IH; [|lia].
  pose proof (adv_shrinks vi b1 rem1 F2). cbn [length] in *. lia.
Qed.

Lemma skip_struct_loop_good sk : sk_good sk -> forall fuel acc rem,
  (length rem < fuel)%nat -> 0 <= acc ->
  skip_struct_loop sk fuel acc rem <> FErr FFuel /\
  (forall k, skip_struct_loop sk fuel acc rem = FOk k -> 1 <= k).
Proof.
  intros Hsk. induction fuel as [|fuel IH]; intros acc rem Hf Hacc; [lia|].
  cbn [skip_struct_loop]. destruct rem as [|tb r0]; [split; discriminate|].
  destruct (Z_of_byte tb =? 0); [split; [discriminate | intros k [= <-]; lia]|].
  pose proof (adv_length 2 r0) as Hl0.
  destruct (adv 2 r0) as [|b1 r1] eqn:Ea; [split; discriminate|].
  destruct (neg_type (Z_of_byte tb)); [split; discriminate|].
  destruct (skip_elem_good sk (b1 :: r1) (Z_of_byte tb) Hsk) as [F1 F2].
  destruct (skip_elem sk (b1 :: r1) (Z_of_byte tb)) as [fi|x] eqn:F; [|split; [intro H; apply F1; exact H | discriminate]].
  specialize (F2 fi eq_refl). apply IH; [|lia].
  pose proof (adv_shrinks fi b1 r1 F2). cbn [length] in *. lia.
Qed.

Lemma fskip_good d : sk_good (fskip d).
Proof.
  induction d as [|d IH].
  - split; [intros t bs; discriminate | intros t bs k; discriminate].
  - assert (G : forall t bs, fskip (S d) t bs <> FErr FFuel /\ (forall k, fskip (S d) t bs = FOk k -> 1 <= k)).
    { intros t bs. cbn [fskip].
      destruct (neg_type t); [split; discriminate|].
      destruct (Z.ltb_spec 0 (type_size t)).
      { destruct (lenZ bs <? type_size t); [split; discriminate|]. split; [discriminate|]. intros k [= <-]. lia. }
      destruct (t =? 11); [split; [apply skipstr_nofuel | apply skipstr_pos]|].
      destruct (t =? 13).
      { destruct (lenZ bs <? 6); [split; discriminate|].
        destruct (Z.ltb_spec (i32_0 (adv 2 bs)) 0); [split; discriminate|].
        destruct (neg_type (byte0 bs) || neg_type (byte0 (adv 1 bs))); [split; discriminate|].
        destruct ((0 <? type_size (byte0 bs)) && (0 <? type_size (byte0 (adv 1 bs)))) eqn:Eb.
        - apply andb_true_iff in Eb. destruct Eb as [Eb1 Eb2]. apply Z.ltb_lt in Eb1, Eb2.
          match goal with |- context [lenZ bs <? ?x] => destruct (lenZ bs <? x) end; [split; discriminate|].
          split; [discriminate|]. intros k Hk. apply FOk_inj in Hk. subst k. nia.
        - apply skip_map_loop_good; [exact IH | | lia]. pose proof (adv_length 6 bs). lia. }
      destruct ((t =? 15) || (t =? 14)).
      { destruct (lenZ bs <? 5); [split; discriminate|].
        destruct (Z.ltb_spec (i32_0 (adv 1 bs)) 0); [split; discriminate|].
        destruct (neg_type (byte0 bs)); [split; discriminate|].
        destruct (Z.ltb_spec 0 (type_size (byte0 bs))).
        - match goal with |- context [lenZ bs <? ?x] => destruct (lenZ bs <? x) end; [split; discriminate|].
          split; [discriminate|]. intros k Hk. apply FOk_inj in Hk. subst k. nia.
        - apply skip_list_loop_good; [exact IH | | lia]. pose proof (adv_length 5 bs). lia. }
      destruct (t =? 12); [|split; discriminate].
      apply skip_struct_loop_good; [exact IH | lia | lia]. }
    split; [intros t bs; apply G | intros t bs; apply G].
Qed.

Lemma fskip_top_nofuel t bs : fskip_top t bs <> FErr FFuel.
Proof. unfold fskip_top. destruct bs; [discriminate|]. apply fskip_good. Qed.

(* the readers: a successful read consumes at least one byte *)
Definition consumes {A} (p : bytes -> fres (A * bytes)) : Prop :=
  forall bs a r, p bs = FOk (a, r) -> (length r < length bs)%nat.

Lemma rd_s_consumes n : (0 < n)%nat -> consumes (rd_s n).
Proof.
  intros Hn bs a r. unfold rd_s. destruct (get_s n bs) as [[z r0]|] eqn:E; [|discriminate].
  intros [= <- <-]. destruct (get_s_split _ _ _ _ E) as (used & -> & Hl & _). rewrite app_length. lia.
Qed.
Lemma rd_u_consumes n : (0 < n)%nat -> consumes (rd_u n).
Proof.
  intros Hn bs a r. unfold rd_u. destruct (get_be n bs) as [[z r0]|] eqn:E; [|discriminate].
  intros [= <- <-]. destruct (get_be_split _ _ _ _ E) as (used & -> & Hl & _). rewrite app_length. lia.
Qed.
Lemma rd_str_consumes : consumes rd_str.
Proof.
  intros bs a r. unfold rd_str. destruct (get_s 4 bs) as [[n r0]|] eqn:E; [|discriminate].
  destruct (n <? 0); [discriminate|]. destruct (lenZ r0 <? n); [discriminate|].
  intros [= <- <-]. destruct (get_s_split _ _ _ _ E) as (used & -> & Hl & _). rewrite app_length, skipn_length. lia.
Qed.
Lemma rd_list_begin_consumes : consumes rd_list_begin.
Proof.
  intros bs a r. unfold rd_list_begin. destruct bs as [|b bs]; [discriminate|].
  destruct (get_s 4 bs) as [[n r0]|] eqn:E; [|discriminate]. destruct (n <? 0); [discriminate|].
  intros [= <- <-]. destruct (get_s_split _ _ _ _ E) as (used & -> & Hl & _). cbn [length]. rewrite app_length. lia.
Qed.
Lemma rd_map_begin_consumes : consumes rd_map_begin.
Proof.
  intros bs a r. unfold rd_map_begin. destruct bs as [|b [|b2 bs]]; try discriminate.
  destruct (get_s 4 bs) as [[n r0]|] eqn:E; [|discriminate]. destruct (n <? 0); [discriminate|].
  intros [= <- <-]. destruct (get_s_split _ _ _ _ E) as (used & -> & Hl & _). cbn [length]. rewrite app_length. lia.
Qed.

Lemma frep_shrinks {A} (p : bytes -> fres (A * bytes)) : consumes p -> forall fuel n bs l r,
  frep p fuel n bs = FOk (l, r) -> (length r <= length bs)%nat.
Proof.
  intros Hp. induction fuel as [|fuel IH]; intros n bs l r; cbn [frep]; destruct (n <=? 0); try discriminate;
    try (intros [= <- <-]; lia).
  destruct (p bs) as [[a r1]|x] eqn:E; [|discriminate].
  destruct (frep p fuel (n - 1) r1) as [[l1 r2]|x] eqn:E2; [|discriminate].
  intros [= <- <-]. pose proof (Hp _ _ _ E). pose proof (IH _ _ _ _ E2). lia.
Qed.

Lemma fpair_consumes {A B} (p : bytes -> fres (A * bytes)) (q : bytes -> fres (B * bytes)) :
  consumes p -> consumes q -> consumes (fpair p q).
Proof.
  intros Hp Hq bs a r. unfold fpair. destruct (p bs) as [[x r1]|] eqn:E1; [|discriminate].
  destruct (q r1) as [[y r2]|] eqn:E2; [|discriminate]. intros [= <- <-].
  pose proof (Hp _ _ _ E1). pose proof (Hq _ _ _ E2). lia.
Qed.

Lemma fr_loop_shrinks rv e s : (forall t, consumes (rv t)) -> forall fuel st bs fs r,
  fr_loop rv e s fuel st bs = FOk (fs, r) -> (length r < length bs)%nat.
Proof.
  intros Hrv. induction fuel as [|fuel IH]; intros st bs fs r; cbn [fr_loop]; [discriminate|].
  destruct bs as [|tb r0]; [discriminate|].
  destruct (Z_of_byte tb =? 0).
  - destruct (fast_first_missing s (snd st)); [discriminate|]. intros [= <- <-]. cbn [length]. lia.
  - destruct (get_s 2 r0) as [[fid r1]|] eqn:E; [|discriminate].
    destruct (get_s_split _ _ _ _ E) as (used & -> & Hl & _).
    destruct (find_case e s fid (Z_of_byte tb)) as [f|].
    + destruct (rv (f_ty f) r1) as [[v r2]|] eqn:E2; [|discriminate]. intro H. apply IH in H.
      pose proof (Hrv _ _ _ _ E2). cbn [length]. rewrite app_length. lia.
    + destruct (fskip_top (Z_of_byte tb) r1) as [n|]; [|discriminate].
      destruct (lenZ r1 <? n); [discriminate|]. intro H. apply IH in H.
      rewrite skipn_length in H. cbn [length]. rewrite app_length. lia.
Qed.

Lemma fr_val_consumes e : forall fuel t, consumes (fr_val fuel e t).
Proof.
  induction fuel as [|fuel IH]; intros t bs a r; [discriminate|]. cbn [fr_val].
  destruct t.
  - unfold rd_bool. destruct bs; [discriminate|]. intros [= <- <-]. cbn [length]. lia.
  - destruct (rd_s 1 bs) as [[z r0]|] eqn:E; [|discriminate]. intros [= <- <-]. apply (rd_s_consumes 1 ltac:(lia) _ _ _ E).
  - destruct (rd_s 2 bs) as [[z r0]|] eqn:E; [|discriminate]. intros [= <- <-]. apply (rd_s_consumes 2 ltac:(lia) _ _ _ E).
  - destruct (rd_s 4 bs) as [[z r0]|] eqn:E; [|discriminate]. intros [= <- <-]. apply (rd_s_consumes 4 ltac:(lia) _ _ _ E).
  - destruct (rd_s 8 bs) as [[z r0]|] eqn:E; [|discriminate]. intros [= <- <-]. apply (rd_s_consumes 8 ltac:(lia) _ _ _ E).
  - destruct (rd_u 8 bs) as [[z r0]|] eqn:E; [|discriminate]. intros [= <- <-]. apply (rd_u_consumes 8 ltac:(lia) _ _ _ E).
  - destruct (rd_str bs) as [[z r0]|] eqn:E; [|discriminate]. intros [= <- <-]. apply (rd_str_consumes _ _ _ E).
  - destruct (rd_str bs) as [[z r0]|] eqn:E; [|discriminate]. intros [= <- <-]. apply (rd_str_consumes _ _ _ E).
  - destruct (rd_s 4 bs) as [[z r0]|] eqn:E; [|discriminate]. intros [= <- <-]. apply (rd_s_consumes 4 ltac:(lia) _ _ _ E).
  - destruct (find_struct e name) as [s|]; [|discriminate].
    destruct (fr_loop (fr_val fuel e) e s (S (length bs)) (new_fields s, []) bs) as [[fs r0]|] eqn:E; [|discriminate].
    intros [= <- <-]. apply (fr_loop_shrinks _ _ _ (IH) _ _ _ _ _ E).
  - destruct (rd_list_begin bs) as [[n r0]|] eqn:E; [|discriminate].
    destruct (frep (fr_val fuel e t) (S (length r0)) n r0) as [[l r1]|] eqn:E2; [|discriminate].
    intros [= <- <-]. pose proof (rd_list_begin_consumes _ _ _ E). pose proof (frep_shrinks _ (IH t) _ _ _ _ _ E2). lia.
  - destruct (rd_list_begin bs) as [[n r0]|] eqn:E; [|discriminate].
    destruct (frep (fr_val fuel e t) (S (length r0)) n r0) as [[l r1]|] eqn:E2; [|discriminate].
    intros [= <- <-]. pose proof (rd_list_begin_consumes _ _ _ E). pose proof (frep_shrinks _ (IH t) _ _ _ _ _ E2). lia.
  - destruct (rd_map_begin bs) as [[n r0]|] eqn:E; [|discriminate].
    destruct (frep (fpair (fr_val fuel e t1) (fr_val fuel e t2)) (S (length r0)) n r0) as [[l r1]|] eqn:E2; [|discriminate].
    intros [= <- <-]. pose proof (rd_map_begin_consumes _ _ _ E).
    pose proof (frep_shrinks _ (fpair_consumes _ _ (IH t1) (IH t2)) _ _ _ _ _ E2). lia.
Qed.

Lemma frep_nofuel {A} (p : bytes -> fres (A * bytes)) : consumes p -> forall fuel n bs,
  (length bs < fuel)%nat -> (forall bs', (length bs' <= length bs)%nat -> p bs' <> FErr FFuel) ->
  frep p fuel n bs <> FErr FFuel.
Proof.
  intros Hp. induction fuel as [|fuel IH]; intros n bs Hf Hnf; [lia|].
  cbn [frep]. destruct (n <=? 0); [discriminate|].
  destruct (p bs) as [[a r1]|x] eqn:E.
  - pose proof (Hp _ _ _ E) as Hl.
    specialize (IH (n - 1) r1 ltac:(lia) ltac:(intros bs' Hb; apply Hnf; lia)).
    destruct (frep p fuel (n - 1) r1) as [[l r2]|y]; [discriminate|]. intro H. apply IH. congruence.
  - intro H. apply (Hnf bs ltac:(lia)). congruence.
Qed.

Lemma fr_loop_nofuel rv e s : (forall t, consumes (rv t)) -> forall fuel st bs,
  (length bs < fuel)%nat -> (forall t bs', (length bs' < length bs)%nat -> rv t bs' <> FErr FFuel) ->
  fr_loop rv e s fuel st bs <> FErr FFuel.
Proof.
  intros Hrv. induction fuel as [|fuel IH]; intros st bs Hf Hnf; [lia|].
  cbn [fr_loop]. destruct bs as [|tb r0]; [discriminate|].
  destruct (Z_of_byte tb =? 0).
  - destruct (fast_first_missing s (snd st)); discriminate.
  - destruct (get_s 2 r0) as [[fid r1]|] eqn:E; [|discriminate].
    destruct (get_s_split _ _ _ _ E) as (used & -> & Hl & _).
    cbn [length] in *. rewrite app_length in *.
    destruct (find_case e s fid (Z_of_byte tb)) as [f|].
    + destruct (rv (f_ty f) r1) as [[v r2]|x] eqn:E2.
      * pose proof (Hrv _ _ _ _ E2). apply IH; [lia|]. intros t bs' Hb. apply Hnf. lia.
      * intro H. apply (Hnf (f_ty f) r1 ltac:(lia)). congruence.
    + pose proof (fskip_top_nofuel (Z_of_byte tb) r1) as Hs.
      destruct (fskip_top (Z_of_byte tb) r1) as [n|x]; [|congruence].
      destruct (lenZ r1 <? n); [discriminate|].
      apply IH; [rewrite skipn_length; lia|]. intros t bs' Hb. rewrite skipn_length in Hb. apply Hnf. lia.
Qed.

Lemma rd_s_nofuel n bs : match rd_s n bs with FErr FFuel => False | _ => True end.
Proof. unfold rd_s. destruct (get_s n bs) as [[? ?]|]; exact I. Qed.

Lemma fr_val_nofuel e : forall fuel t bs, (length bs < fuel)%nat -> fr_val fuel e t bs <> FErr FFuel.
Proof.
  induction fuel as [|fuel IH]; intros t bs Hf; [lia|]. cbn [fr_val].
  destruct t.
  - unfold rd_bool. destruct bs; discriminate.
  - unfold rd_s. destruct (get_s 1 bs) as [[? ?]|]; discriminate.
  - unfold rd_s. destruct (get_s 2 bs) as [[? ?]|]; discriminate.
  - unfold rd_s. destruct (get_s 4 bs) as [[? ?]|]; discriminate.
  - unfold rd_s. destruct (get_s 8 bs) as [[? ?]|]; discriminate.
  - unfold rd_u. destruct (get_be 8 bs) as [[? ?]|]; discriminate.
  - unfold rd_str. destruct (get_s 4 bs) as [[n r]|]; [|discriminate].
    destruct (n <? 0); [discriminate|]. destruct (lenZ r <? n); discriminate.
  - unfold rd_str. destruct (get_s 4 bs) as [[n r]|]; [|discriminate].
    destruct (n <? 0); [discriminate|]. destruct (lenZ r <? n); discriminate.
  - unfold rd_s. destruct (get_s 4 bs) as [[? ?]|]; discriminate.
  - destruct (find_struct e name) as [s|]; [|discriminate].
    pose proof (fr_loop_nofuel (fr_val fuel e) e s (fr_val_consumes e fuel) (S (length bs)) (new_fields s, []) bs
                  ltac:(lia) ltac:(intros t bs' Hb; apply IH; lia)) as H.
    destruct (fr_loop (fr_val fuel e) e s (S (length bs)) (new_fields s, []) bs) as [[fs r]|x]; [discriminate|]. congruence.
  - destruct (rd_list_begin bs) as [[n r0]|x] eqn:E.
    + pose proof (rd_list_begin_consumes _ _ _ E).
      pose proof (frep_nofuel (fr_val fuel e t) (fr_val_consumes e fuel t) (S (length r0)) n r0
                    ltac:(lia) ltac:(intros bs' Hb; apply IH; lia)) as H0.
      destruct (frep (fr_val fuel e t) (S (length r0)) n r0) as [[l r1]|y]; [discriminate|]. congruence.
    + unfold rd_list_begin in E. destruct bs as [|b bs]; [congruence|].
      destruct (get_s 4 bs) as [[n r0]|]; [|congruence]. destruct (n <? 0); congruence.
  - destruct (rd_list_begin bs) as [[n r0]|x] eqn:E.
    + pose proof (rd_list_begin_consumes _ _ _ E).
      pose proof (frep_nofuel (fr_val fuel e t) (fr_val_consumes e fuel t) (S (length r0)) n r0
                    ltac:(lia) ltac:(intros bs' Hb; apply IH; lia)) as H0.
      destruct (frep (fr_val fuel e t) (S (length r0)) n r0) as [[l r1]|y]; [discriminate|]. congruence.
    + unfold rd_list_begin in E. destruct bs as [|b bs]; [congruence|].
      destruct (get_s 4 bs) as [[n r0]|]; [|congruence]. destruct (n <? 0); congruence.
  - destruct (rd_map_begin bs) as [[n r0]|x] eqn:E.
    + pose proof (rd_map_begin_consumes _ _ _ E).
      assert (Hpair : forall bs', (length bs' <= length r0)%nat ->
                fpair (fr_val fuel e t1) (fr_val fuel e t2) bs' <> FErr FFuel).
      { intros bs' Hb. unfold fpair.
        pose proof (IH t1 bs' ltac:(lia)) as H1.
        destruct (fr_val fuel e t1 bs') as [[a r1]|x] eqn:E1; [|congruence].
        pose proof (fr_val_consumes e fuel t1 _ _ _ E1).
        pose proof (IH t2 r1 ltac:(lia)) as H2.
        destruct (fr_val fuel e t2 r1) as [[b r2]|x]; [discriminate | congruence]. }
      pose proof (frep_nofuel _ (fpair_consumes _ _ (fr_val_consumes e fuel t1) (fr_val_consumes e fuel t2))
                    (S (length r0)) n r0 ltac:(lia) Hpair) as H0.
      destruct (frep (fpair (fr_val fuel e t1) (fr_val fuel e t2)) (S (length r0)) n r0) as [[l r1]|y]; [discriminate|]. congruence.
    + unfold rd_map_begin in E. destruct bs as [|b [|b2 bs]]; try congruence.
      destruct (get_s 4 bs) as [[n r0]|]; [|congruence]. destruct (n <? 0); congruence.
Qed.

(* fast_read always answers: an object, or one of the error classes the generated code can produce
   (the model's own out-of-fuel answer is never given) *)
Theorem fast_read_total e s init bs : fast_read e s init bs <> FErr FFuel.
Proof.
  unfold fast_read. destruct init; try discriminate.
  pose proof (fr_loop_nofuel (fr_val (S (length bs)) e) e s (fr_val_consumes e (S (length bs))) (S (length bs)) (fs, []) bs
                ltac:(lia) ltac:(intros t bs' Hb; apply fr_val_nofuel; lia)) as H.
  destruct (fr_loop (fr_val (S (length bs)) e) e s (S (length bs)) (fs, []) bs) as [[fs' r]|x]; [discriminate|]. congruence.
Qed.

(* ------------------------------------------------------------------ truncated encodings *)

(* [p] reads the element [x] (encoded by [encb], at least one byte) completely when it is at most K bytes
   long, and refuses every proper prefix of at most K bytes as too short *)
Definition elem_ok {A B} (K : nat) (p : bytes -> fres (A * bytes)) (encb : B -> bytes) (x : B) : Prop :=
  ((length (encb x) <= K)%nat -> exists v, forall rest, p (encb x ++ rest) = FOk (v, rest)) /\
  (forall m, (m < length (encb x))%nat -> (m <= K)%nat -> p (firstn m (encb x)) = FErr FShort) /\
  (1 <= length (encb x))%nat.

Lemma elem_ok_mono {A B} K K' (p : bytes -> fres (A * bytes)) (encb : B -> bytes) x :
  (K' <= K)%nat -> elem_ok K p encb x -> elem_ok K' p encb x.
Proof.
  intros Hle (H1 & H2 & H3). split; [|split]; [intro H; apply H1; lia | intros m Hm Hk; apply H2; lia | exact H3].
Qed.

Lemma firstn_app_lt {A} (a b : list A) m : (m < length a)%nat -> firstn m (a ++ b) = firstn m a.
Proof. intro H. rewrite firstn_app. replace (m - length a)%nat with O by lia. cbn [firstn]. apply app_nil_r. Qed.

Lemma firstn_app_ge {A} (a b : list A) m : (length a <= m)%nat -> firstn m (a ++ b) = a ++ firstn (m - length a) b.
Proof. intro H. rewrite firstn_app, firstn_all2 by lia. reflexivity. Qed.

Lemma frep_prefix {A B} (p : bytes -> fres (A * bytes)) (encb : B -> bytes) l : forall fuel k,
  (k < fuel)%nat -> Forall (elem_ok k p encb) l ->
  (k < length (flat_map encb l))%nat ->
  frep p fuel (lenZ l) (firstn k (flat_map encb l)) = FErr FShort.
Proof.
  induction l as [|x l IH]; intros fuel k Hf Hall Hk; [cbn in Hk; lia|].
  inversion Hall as [|? ? (Hfull & Hpre & Hne) Hrest]; subst.
  destruct fuel; [lia|]. cbn [frep flat_map].
  rewrite lenZ_cons. destruct (Z.leb_spec (1 + lenZ l) 0); [pose proof (lenZ_nonneg l); lia|].
  replace (1 + lenZ l - 1) with (lenZ l) by lia.
  destruct (Nat.lt_ge_cases k (length (encb x))) as [Hlt|Hge].
  - rewrite firstn_app_lt by assumption. rewrite Hpre by (assumption || lia). reflexivity.
  - rewrite firstn_app_ge by assumption. destruct (Hfull Hge) as [v Hv]. rewrite Hv.
    cbn [flat_map] in Hk. rewrite app_length in Hk.
    rewrite IH; [reflexivity | lia | | lia].
    revert Hrest. apply Forall_impl. intro y. apply elem_ok_mono. lia.
Qed.

Lemma fpair_elem_ok {A B} K (p : bytes -> fres (A * bytes)) (q : bytes -> fres (B * bytes)) (k x : wval) :
  elem_ok K p enc k -> elem_ok K q enc x ->
  elem_ok K (fpair p q) (fun kv : wval * wval => enc (fst kv) ++ enc (snd kv)) (k, x).
Proof.
  intros (Hk & Hpk & Hnk) (Hx & Hpx & Hnx). unfold elem_ok. cbn [fst snd]. split; [|split].
  - rewrite app_length. intro Hl. destruct (Hk ltac:(lia)) as [vk Hvk]. destruct (Hx ltac:(lia)) as [vx Hvx].
    exists (vk, vx). intro rest. unfold fpair. rewrite <- app_assoc, Hvk, Hvx. reflexivity.
  - intros m Hm HmK. unfold fpair. rewrite app_length in Hm.
    destruct (Nat.lt_ge_cases m (length (enc k))) as [Hlt|Hge].
    + rewrite firstn_app_lt by assumption. rewrite Hpk by assumption. reflexivity.
    + rewrite firstn_app_ge by assumption. destruct (Hk ltac:(lia)) as [vk Hvk]. rewrite Hvk.
      assert (Hm' : (m - length (enc k) < length (enc x))%nat) by lia.
      rewrite (Hpx _ Hm' ltac:(lia)). reflexivity.
  - rewrite app_length. lia.
Qed.

Lemma foldM_cons_ok {A S} (f : S -> A -> result S) x l st st' :
  foldM f (x :: l) st = Ok st' -> exists st1, f st x = Ok st1 /\ foldM f l st1 = Ok st'.
Proof. cbn [foldM]. destruct (f st x) as [st1|]; [|discriminate]. intro H. exists st1. auto. Qed.

Lemma mapM_ok_Forall {A B} (f : A -> result B) l ys : mapM f l = Ok ys -> Forall (fun x => exists y, f x = Ok y) l.
Proof.
  revert ys. induction l as [|x l IH]; intros ys H; [constructor|]. cbn [mapM] in H.
  destruct (f x) as [y|] eqn:E; [|discriminate]. destruct (mapM f l) as [ys'|] eqn:E2; [|discriminate].
  constructor; [eauto | eapply IH; reflexivity].
Qed.

Section PrefixLoop.
  Variable e : env.
  Variable s : sschema.
  Variable rv : ty -> bytes -> fres (value * bytes).
  Hypothesis Hnd : NoDup (map f_id (s_fields s)).

  (* a field the reader knows, with the wire type of its IDL type, whose payload [rv] reads completely and
     refuses when cut short (up to K bytes) *)
  Definition known_ok (K : nat) (f : wfield) : Prop :=
    in_srange 2 (snd (fst f)) /\
    exists fld, find_field (snd (fst f)) (s_fields s) = Some fld /\ fst (fst f) = spec_ttype (f_ty fld) /\
                elem_ok K (rv (f_ty fld)) enc (snd f).

  Lemma known_ok_mono K K' f : (K' <= K)%nat -> known_ok K f -> known_ok K' f.
  Proof.
    intros Hle (H1 & fld & H2 & H3 & H4). split; [exact H1|]. exists fld. repeat split; try assumption.
    - intro H. apply H4. lia.
    - intros m Hm Hk. apply H4; lia.
    - apply H4.
  Qed.

  Lemma fr_loop_prefix wfs : forall lf st k,
    (k < lf)%nat -> ((3 <= k)%nat -> Forall (known_ok (k - 3)) wfs) -> (k < length (enc_fields_go wfs))%nat ->
    fr_loop rv e s lf st (firstn k (enc_fields_go wfs)) = FErr FShort.
  Proof.
    induction wfs as [|[[tt id] x] wfs IH]; intros lf st k Hlf Hall Hk.
    - cbn in Hk. assert (k = O) by lia. subst k. destruct lf; [lia|]. reflexivity.
    - destruct lf; [lia|].
      rewrite enc_fields_go_cons in *. rewrite put_be_1 in *. cbn [app] in *.
      destruct k as [|k]; [reflexivity|]. cbn [firstn fr_loop].
      pose proof (code_range tt) as Hcr.
      assert (Ecode : Z_of_byte (byte_of_Z (code tt)) = code tt) by apply Z_of_byte_code. rewrite Ecode.
      destruct (Z.eqb_spec (code tt) 0) as [E0|_]; [lia|].
      cbn [length] in Hk. rewrite !app_length, put_be_length in Hk.
      destruct (Nat.lt_ge_cases k 2) as [Hk2|Hk2].
      + rewrite firstn_app_lt by (rewrite put_be_length; lia).
        assert (E : get_s 2 (firstn k (put_be 2 id)) = None) by (apply get_s_None; rewrite firstn_length, put_be_length; lia).
        rewrite E. reflexivity.
      + specialize (Hall ltac:(lia)).
        inversion Hall as [|? ? (Hid & fld & Hf & Htt & Hfull & Hpre & Hne) Hrest]; subst. cbn [fst snd] in *. subst tt.
        rewrite firstn_app_ge by (rewrite put_be_length; lia). rewrite put_be_length.
        rewrite get_s_put by (auto; lia).
        rewrite find_case_spec, Hf, wire_type_spec, Z.eqb_refl by assumption.
        destruct (Nat.lt_ge_cases (k - 2) (length (enc x))) as [Hlt|Hge].
        * rewrite firstn_app_lt by assumption. rewrite Hpre by (assumption || lia). reflexivity.
        * rewrite firstn_app_ge by assumption. destruct (Hfull ltac:(lia)) as [v Hv]. rewrite Hv.
          apply IH; [lia | | lia].
          intros _. revert Hrest. apply Forall_impl. intro y. apply known_ok_mono. lia.
  Qed.
End PrefixLoop.

Section PrefixProof.
  Variable e : env.
  Hypothesis Henv : wf_env e = true.

  Definition pre_ok (w : wval) : Prop :=
    forall fuel t v, wf w -> (depth w <= default_recursion_depth)%nat ->
                     conforms e t w = true -> from_w e t w = Ok v ->
                     forall m, (m < length (enc w))%nat -> (m < fuel)%nat ->
                     fr_val fuel e t (firstn m (enc w)) = FErr FShort.

  Lemma full_read w fuel t v :
    wf w -> (depth w <= fuel)%nat -> (depth w <= default_recursion_depth)%nat ->
    conforms e t w = true -> from_w e t w = Ok v ->
    forall rest, fr_val fuel e t (enc w ++ rest) = FOk (v, rest).
  Proof.
    intros Hwf Hfu Hd Hc Hr. pose proof (fr_val_from_w e Henv w fuel t Hwf Hfu Hd (conforms_wtype _ _ _ Hc)) as H.
    rewrite Hr in H. exact H.
  Qed.

  Lemma elem_ok_of w fuel t v K :
    pre_ok w -> wf w -> (depth w <= default_recursion_depth)%nat ->
    conforms e t w = true -> from_w e t w = Ok v -> (K < fuel)%nat -> elem_ok K (fr_val fuel e t) enc w.
  Proof.
    intros Hp Hwf Hd Hc Hr HK. split; [|split].
    - intro Hl. exists v. apply full_read; try assumption.
      pose proof (depth_le_size w). rewrite <- enc_length in *. lia.
    - intros m Hm HmK. apply (Hp fuel t v); try assumption. lia.
    - pose proof (enc_nonempty w). unfold lenZ in *. lia.
  Qed.

  Lemma known_ok_fields s fs fuel K st0 st' :
    (K < fuel)%nat ->
    Forall (fun f : ttype * Z * wval => pre_ok (snd f)) fs ->
    Forall (fun f : ttype * Z * wval => wtype (snd f) = fst (fst f) /\ in_srange 2 (snd (fst f)) /\ wf (snd f)) fs ->
    (depth_struct_go fs <= default_recursion_depth)%nat ->
    forallb (fun wf : ttype * Z * wval =>
               match find_field (snd (fst wf)) (s_fields s) with
               | Some f => ttype_eqb (fst (fst wf)) (spec_ttype (f_ty f)) && conforms e (f_ty f) (snd wf)
               | None => false end) fs = true ->
    foldM (read_step e s) fs st0 = Ok st' ->
    Forall (known_ok s (fr_val fuel e) K) fs.
  Proof.
    intro HK. revert st0 st'. induction fs as [|[[tt id] x] fs IHfs]; intros st0 st' H Hwf Hd Hc Hfold; [constructor|].
    inversion H as [|? ? Hx Hrest]; subst. inversion Hwf as [|? ? (Hw1 & Hw2 & Hw3) Hwrest]; subst.
    cbn [forallb fst snd] in Hc. apply andb_true_iff in Hc. destruct Hc as [Hc1 Hc2].
    destruct (find_field id (s_fields s)) as [fld|] eqn:Hf; [|discriminate].
    apply andb_true_iff in Hc1. destruct Hc1 as [Htt Hcx]. apply ttype_eqb_eq in Htt.
    destruct (foldM_cons_ok _ _ _ _ _ Hfold) as (st1 & Hstep & Hfold').
    unfold read_step in Hstep. cbn [fst snd] in Hstep. rewrite Hf in Hstep.
    rewrite Htt, ttype_of_spec, ttype_eqb_refl in Hstep.
    destruct (from_w e (f_ty fld) x) as [vx|] eqn:Hvx; [|discriminate].
    cbn [depth_struct_go] in Hd. fold depth_struct_go in Hd.
    constructor.
    - unfold known_ok. cbn [fst snd]. split; [assumption|]. exists fld. split; [assumption|]. split; [assumption|].
      apply (elem_ok_of x fuel (f_ty fld) vx); try assumption; lia.
    - apply (IHfs st1 st' Hrest Hwrest ltac:(lia) Hc2 Hfold').
  Qed.

  Lemma header_prefix5 (b : byte) (hd body : bytes) m :
    length hd = 4%nat -> (m < 5)%nat -> rd_list_begin (firstn m (b :: hd ++ body)) = FErr FShort.
  Proof.
    intros Hl Hm. destruct m as [|m]; [reflexivity|]. cbn [firstn rd_list_begin].
    rewrite firstn_app_lt by lia.
    assert (E : get_s 4 (firstn m hd) = None) by (apply get_s_None; rewrite firstn_length; lia).
    rewrite E. reflexivity.
  Qed.

  Lemma header_prefix6 (b1 b2 : byte) (hd body : bytes) m :
    length hd = 4%nat -> (m < 6)%nat -> rd_map_begin (firstn m (b1 :: b2 :: hd ++ body)) = FErr FShort.
  Proof.
    intros Hl Hm. destruct m as [|[|m]]; [reflexivity | reflexivity |]. cbn [firstn rd_map_begin].
    rewrite firstn_app_lt by lia.
    assert (E : get_s 4 (firstn m hd) = None) by (apply get_s_None; rewrite firstn_length; lia).
    rewrite E. reflexivity.
  Qed.

  Lemma listlike_prefix fuel a et (l : list wval) m :
    ((5 <= m)%nat -> Forall (elem_ok (m - 5) (fr_val fuel e a) enc) l) -> in_srange 4 (Z.of_nat (length l)) ->
    (m < length (put_be 1 (code et) ++ put_be 4 (Z.of_nat (length l)) ++ enc_list_go l))%nat ->
    match rd_list_begin (firstn m (put_be 1 (code et) ++ put_be 4 (Z.of_nat (length l)) ++ enc_list_go l)) with
    | FErr x => FErr x
    | FOk (n, r) =>
        match frep (fr_val fuel e a) (S (length r)) n r with
        | FErr x => FErr x
        | FOk (xs, r') => FOk (VList xs, r')
        end
    end = FErr FShort.
  Proof.
    intros Hel Hlen Hm. rewrite put_be_1 in *. cbn [app] in *.
    destruct (Nat.lt_ge_cases m 5) as [Hlt|Hge].
    - rewrite header_prefix5 by (rewrite ?put_be_length; auto). reflexivity.
    - specialize (Hel Hge). cbn [length] in Hm. rewrite app_length, put_be_length in Hm.
      destruct m as [|m]; [lia|]. cbn [firstn]. rewrite firstn_app_ge by (rewrite put_be_length; lia). rewrite put_be_length.
      change (byte_of_Z (code et) :: put_be 4 (Z.of_nat (length l)) ++ firstn (m - 4) (enc_list_go l))
        with ([byte_of_Z (code et)] ++ put_be 4 (Z.of_nat (length l)) ++ firstn (m - 4) (enc_list_go l)).
      rewrite <- put_be_1, rd_list_begin_enc by (assumption || lia).
      rewrite enc_list_go_flat in *. fold (lenZ l).
      replace (S m - 5)%nat with (m - 4)%nat in Hel by lia.
      rewrite frep_prefix; [reflexivity | rewrite firstn_length; lia | assumption | lia].
  Qed.

  Theorem fr_val_prefix : forall w, pre_ok w.
  Proof.
    intro w. induction w using wval_ind2; intros fuel t v Hwf Hd Hc Hr m Hm Hmf;
      (destruct fuel as [|fuel]; [lia|]).
    - (* bool *) destruct t; try discriminate. cbn in Hm. assert (m = O) by lia. subst. reflexivity.
    - (* byte *) destruct t; try discriminate. cbn [enc] in *. rewrite put_be_length in Hm. cbn [fr_val]. unfold rd_s.
      assert (E : get_s 1 (firstn m (put_be 1 z)) = None) by (apply get_s_None; rewrite firstn_length, put_be_length; lia).
      rewrite E. reflexivity.
    - (* double *) destruct t; try discriminate. cbn [enc] in *. rewrite put_be_length in Hm. cbn [fr_val]. unfold rd_u.
      assert (E : get_be 8 (firstn m (put_be 8 z)) = None) by (apply get_be_None; rewrite firstn_length, put_be_length; lia).
      rewrite E. reflexivity.
    - (* i16 *) destruct t; try discriminate. cbn [enc] in *. rewrite put_be_length in Hm. cbn [fr_val]. unfold rd_s.
      assert (E : get_s 2 (firstn m (put_be 2 z)) = None) by (apply get_s_None; rewrite firstn_length, put_be_length; lia).
      rewrite E. reflexivity.
    - (* i32 *) destruct t; try discriminate; cbn [enc] in *; rewrite put_be_length in Hm; cbn [fr_val]; unfold rd_s;
        assert (E : get_s 4 (firstn m (put_be 4 z)) = None) by (apply get_s_None; rewrite firstn_length, put_be_length; lia);
        rewrite E; reflexivity.
    - (* i64 *) destruct t; try discriminate. cbn [enc] in *. rewrite put_be_length in Hm. cbn [fr_val]. unfold rd_s.
      assert (E : get_s 8 (firstn m (put_be 8 z)) = None) by (apply get_s_None; rewrite firstn_length, put_be_length; lia).
      rewrite E. reflexivity.
    - (* string *)
      assert (Hs : rd_str (firstn m (enc (WStr s))) = FErr FShort).
      { cbn [enc] in *. rewrite app_length, put_be_length in Hm. unfold rd_str.
        destruct (Nat.lt_ge_cases m 4) as [Hlt|Hge].
        - rewrite firstn_app_lt by (rewrite put_be_length; lia).
          assert (E : get_s 4 (firstn m (put_be 4 (Z.of_nat (length s)))) = None)
            by (apply get_s_None; rewrite firstn_length, put_be_length; lia).
          rewrite E. reflexivity.
        - rewrite firstn_app_ge by (rewrite put_be_length; lia). rewrite put_be_length.
          rewrite get_s_put by (auto; lia || exact Hwf).
          destruct (Z.ltb_spec (Z.of_nat (length s)) 0); [lia|].
          unfold lenZ. rewrite firstn_length.
          destruct (Z.ltb_spec (Z.of_nat (Nat.min (m - 4) (length s))) (Z.of_nat (length s))); [reflexivity | lia]. }
      destruct t; try discriminate; cbn [fr_val]; rewrite Hs; reflexivity.
    - (* struct *)
      destruct t; try discriminate. rewrite from_w_struct in Hr. cbn [conforms] in Hc. cbn [fr_val].
      destruct (find_struct e name) as [s|] eqn:Hs; [|discriminate].
      apply wf_struct_iff in Hwf.
      assert (Hnd : NoDup (map f_id (s_fields s))) by (apply wf_struct_nodup; apply (wf_env_struct e name); assumption).
      destruct (foldM (read_step e s) fs (new_fields s, [])) as [st'|] eqn:Hfold; [|discriminate].
      rewrite enc_struct_unfold in *.
      change (depth (WStruct fs)) with (S (depth_struct_go fs)) in Hd.
      rewrite (fr_loop_prefix e s (fr_val fuel e) Hnd fs (S (length (firstn m (enc_fields_go fs)))) (new_fields s, []) m); try assumption.
      + reflexivity.
      + rewrite firstn_length. lia.
      + intro H3. apply (known_ok_fields s fs fuel (m - 3) (new_fields s, []) st'); try assumption; lia.
    - (* map *)
      destruct t; try discriminate. apply wf_map_iff in Hwf. destruct Hwf as [Hlen Hall].
      cbn [conforms] in Hc. apply andb_true_iff in Hc. destruct Hc as [Hc0 Hcall]. apply andb_true_iff in Hc0. destruct Hc0 as [Hck Hcv].
      cbn [from_w] in Hr.
      destruct ((ttype_eqb kt (ttype_of e t1) && ttype_eqb vt (ttype_of e t2)) || (length kvs =? 0)%nat); [|discriminate].
      set (g := fun kv : wval * wval => bind (from_w e t1 (fst kv)) (fun k => bind (from_w e t2 (snd kv)) (fun x => Ok (k, x)))) in *.
      destruct (mapM g kvs) as [xs|] eqn:Hmap; [|discriminate]. apply mapM_ok_Forall in Hmap.
      rewrite enc_map_unfold in *. cbn [fr_val]. rewrite !put_be_1 in *. cbn [app] in *.
      destruct (Nat.lt_ge_cases m 6) as [Hlt|Hge].
      + rewrite header_prefix6 by (rewrite ?put_be_length; auto). reflexivity.
      + assert (Hel : Forall (elem_ok (m - 6) (fpair (fr_val fuel e t1) (fr_val fuel e t2)) (fun kv : wval * wval => enc (fst kv) ++ enc (snd kv))) kvs).
        { rewrite Forall_forall in *. rewrite forallb_forall in Hcall. intros [k x] Hkv.
          destruct (H _ Hkv) as [IHk IHx]. destruct (Hall _ Hkv) as (_ & _ & Hwk & Hwx). cbn [fst snd] in *.
          destruct (Hmap _ Hkv) as [y Hy]. unfold g in Hy. cbn [fst snd] in Hy.
          destruct (from_w e t1 k) as [vk|] eqn:E1; [|discriminate]. destruct (from_w e t2 x) as [vx|] eqn:E2; [|discriminate].
          specialize (Hcall _ Hkv). cbn [fst snd] in Hcall. apply andb_true_iff in Hcall. destruct Hcall as [Hc1 Hc2].
          pose proof (depth_map_le _ _ Hkv) as Hdp. cbn [fst snd] in Hdp.
          change (depth (WMap kt vt kvs)) with (S (depth_map_go kvs)) in Hd.
          apply fpair_elem_ok; [apply (elem_ok_of k fuel t1 vk) | apply (elem_ok_of x fuel t2 vx)]; try assumption; lia. }
        cbn [length] in Hm. rewrite app_length, put_be_length in Hm.
        destruct m as [|[|m]]; try lia. cbn [firstn]. rewrite firstn_app_ge by (rewrite put_be_length; lia). rewrite put_be_length.
        change (byte_of_Z (code kt) :: byte_of_Z (code vt) :: put_be 4 (Z.of_nat (length kvs)) ++ firstn (m - 4) (enc_map_go kvs))
          with ([byte_of_Z (code kt)] ++ [byte_of_Z (code vt)] ++ put_be 4 (Z.of_nat (length kvs)) ++ firstn (m - 4) (enc_map_go kvs)).
        rewrite <- !put_be_1, rd_map_begin_enc by (assumption || lia).
        rewrite enc_map_go_flat in *. fold (lenZ kvs).
        replace (S (S m) - 6)%nat with (m - 4)%nat in Hel by lia.
        rewrite frep_prefix; [reflexivity | rewrite firstn_length; lia | assumption | lia].
    - (* set *)
      destruct t; try discriminate. apply wf_set_iff in Hwf. destruct Hwf as [Hlen Hall].
      cbn [conforms] in Hc. apply andb_true_iff in Hc. destruct Hc as [Hc0 Hcall].
      cbn [from_w] in Hr. destruct (ttype_eqb et (ttype_of e t) || (length l =? 0)%nat); [|discriminate].
      destruct (mapM (from_w e t) l) as [xs|] eqn:Hmap; [|discriminate]. apply mapM_ok_Forall in Hmap.
      rewrite enc_set_unfold in *. cbn [fr_val]. apply listlike_prefix; try assumption.
      intro H5. rewrite Forall_forall in *. rewrite forallb_forall in Hcall. intros x Hx.
      destruct (Hall _ Hx) as [_ Hwx]. destruct (Hmap _ Hx) as [y Hy].
      pose proof (depth_list_le _ _ Hx) as Hdp. change (depth (WSet et l)) with (S (depth_list_go l)) in Hd.
      apply (elem_ok_of x fuel t y); try assumption; try lia; [apply H | apply Hcall]; assumption.
    - (* list *)
      destruct t; try discriminate. apply wf_list_iff in Hwf. destruct Hwf as [Hlen Hall].
      cbn [conforms] in Hc. apply andb_true_iff in Hc. destruct Hc as [Hc0 Hcall].
      cbn [from_w] in Hr. destruct (ttype_eqb et (ttype_of e t) || (length l =? 0)%nat); [|discriminate].
      destruct (mapM (from_w e t) l) as [xs|] eqn:Hmap; [|discriminate]. apply mapM_ok_Forall in Hmap.
      rewrite enc_list_unfold in *. cbn [fr_val]. apply listlike_prefix; try assumption.
      intro H5. rewrite Forall_forall in *. rewrite forallb_forall in Hcall. intros x Hx.
      destruct (Hall _ Hx) as [_ Hwx]. destruct (Hmap _ Hx) as [y Hy].
      pose proof (depth_list_le _ _ Hx) as Hdp. change (depth (WList et l)) with (S (depth_list_go l)) in Hd.
      apply (elem_ok_of x fuel t y); try assumption; try lia; [apply H | apply Hcall]; assumption.
  Qed.
End PrefixProof.

(* every proper prefix of an encoding of a value of the struct itself (all fields known, typed as the schema
   says, readable) is refused as too short: an error of class INVALID_DATA, not one of the panic classes *)
Theorem fast_read_prefix_error e s fs0 wfs v m :
  wf_env e = true -> find_struct e (s_name s) = Some s -> wf (WStruct wfs) ->
  (depth (WStruct wfs) <= default_recursion_depth)%nat ->
  conforms e (TRef (s_name s)) (WStruct wfs) = true ->
  from_wire e s (VStruct fs0) (WStruct wfs) = Ok v ->
  (m < length (enc (WStruct wfs)))%nat ->
  fast_read e s (VStruct fs0) (firstn m (enc (WStruct wfs))) = FErr FShort.
Proof.
  intros Henv Hs Hwf Hd Hc Hr Hm. unfold fast_read.
  assert (Hnd : NoDup (map f_id (s_fields s))) by (apply wf_struct_nodup; apply (wf_env_struct e (s_name s)); assumption).
  cbn [conforms] in Hc. rewrite Hs in Hc. unfold from_wire in Hr.
  destruct (foldM (read_step e s) wfs (fs0, [])) as [st'|] eqn:Hfold; [|discriminate].
  apply wf_struct_iff in Hwf. rewrite enc_struct_unfold in *.
  change (depth (WStruct wfs)) with (S (depth_struct_go wfs)) in Hd.
  rewrite (fr_loop_prefix e s _ Hnd wfs (S (length (firstn m (enc_fields_go wfs)))) (fs0, []) m); try assumption.
  - reflexivity.
  - rewrite firstn_length. lia.
  - intro H3. apply (known_ok_fields e Henv s wfs _ (m - 3) (fs0, []) st'); try assumption.
    + rewrite firstn_length. lia.
    + apply Forall_forall. intros f _. apply fr_val_prefix. assumption.
    + lia.
Qed.

(* ------------------------------------------------------------------ the two recorded defects (gopkg Skip), exhibited on the model *)

Module Witness.
Import Coq.Strings.String.
Local Open Scope string_scope.

(* struct K { 1: i32 x, 2: optional string y } *)
Definition sK : sschema := mkstruct (B "a.K") KStruct
  [mkfield 1 (B "x") Default TI32 None false; mkfield 2 (B "y") Optional TString None false].
Definition eK : env := mkenv [sK] [].
Definition vK : value := VStruct [(1, VInt 226); (2, VSome (VStr (hx "04")))].

(* struct Small { 1: i32 a } and an encoding that carries an unknown field 7: map<string,i64> *)
Definition sSmall : sschema := mkstruct (B "a.Small") KStruct [mkfield 1 (B "a") Default TI32 None false].
Definition eSmall : env := mkenv [sSmall] [].
Definition wUnknown : wval :=
  WStruct [(T_I32, 1, WI32 5); (T_MAP, 7, WMap T_STRING T_I64 [(WStr (B "k"), WI64 7)])].

(* struct Ov { 1: OvIn inner }  struct OvIn { 2560: string s } *)
Definition sOvIn : sschema := mkstruct (B "a.OvIn") KStruct [mkfield 2560 (B "s") Default TString None false].
Definition sOv : sschema := mkstruct (B "a.Ov") KStruct [mkfield 1 (B "inner") Default (TRef (B "a.OvIn")) None false].
Definition eOv : env := mkenv [sOvIn; sOv] [].
Definition vOv : value :=
  VStruct [(1, VStruct [(2560, VStr (hx "0000fa" ++ repeat x00 253)%list)])].

(* struct L { 2: list<i64> l } and a list header that claims 2^31-1 elements with nothing behind it *)
Definition sL : sschema := mkstruct (B "a.L") KStruct [mkfield 2 (B "l") Default (TList TI64) None true].
Definition eL : env := mkenv [sL] [].
Definition hostile : bytes := hx "0f 00 02 0a 7f ff ff ff".
End Witness.

(* one corrupted type byte (08 -> ff) of a well-formed encoding: the model reaches Skip's index with a negative type *)
Theorem fast_read_corrupted_type_byte_refuted :
  exists e s v bs, wt e s v = true /\ fast_append e s v = x08 :: bs /\
                   fast_read e s (new_struct e s) (fast_append e s v) = FOk (v, lenZ (fast_append e s v)) /\
                   fast_read e s (new_struct e s) (xff :: bs) = FErr FIndex.
Proof.
  exists Witness.eK, Witness.sK, Witness.vK. eexists. split; [vm_compute; reflexivity|]. split; [vm_compute; reflexivity|].
  split; [vm_compute; reflexivity|]. vm_compute. reflexivity.
Qed.

(* a proper prefix of a well-formed encoding with an unknown map<string,i64> field: Skip reports more bytes than it has *)
Theorem fast_read_truncated_refuted :
  exists e s w n, wf w /\ (n < List.length (enc w))%nat /\
                  (exists v, fast_read e s (new_struct e s) (enc w) = FOk (v, lenZ (enc w))) /\
                  fast_read e s (new_struct e s) (firstn n (enc w)) = FErr FOverrun.
Proof.
  exists Witness.eSmall, Witness.sSmall, Witness.wUnknown, 24%nat.
  split; [vm_compute; intuition discriminate|]. split; [vm_compute; lia|].
  split; [eexists; vm_compute; reflexivity | vm_compute; reflexivity].
Qed.

(* one corrupted type byte (0c -> 0d) of an encoding of the struct's own value: the same overrun *)
Theorem fast_read_corrupted_overrun_refuted :
  exists e s v bs, wt e s v = true /\ fast_append e s v = x0c :: bs /\
                   fast_read e s (new_struct e s) (x0d :: bs) = FErr FOverrun.
Proof.
  exists Witness.eOv, Witness.sOv, Witness.vOv. eexists. split; [vm_compute; reflexivity|].
  split; [vm_compute; reflexivity|]. vm_compute. reflexivity.
Qed.

(* a size taken from the input is accepted although nothing follows it: the generated code executes
   make(T, 2147483647) (16 GiB for i64 elements) before the first element read fails as too short. The model
   answers with the error; a process under a memory limit is aborted by the Go runtime instead (recorded
   finding; the standard generated Read allocates in the same way) *)
Theorem fast_read_hostile_size_refuted :
  exists e s bs n r,
    fast_read e s (new_struct e s) bs = FErr FShort /\
    rd_list_begin (skipn 3 bs) = FOk (n, r) /\ n = 2147483647 /\ r = [].
Proof.
  exists Witness.eL, Witness.sL, Witness.hostile, 2147483647, []. split; [vm_compute; reflexivity|].
  split; [vm_compute; reflexivity|]. split; reflexivity.
Qed.
