(* Corr/C14.v — correspondence record and comparison for property C14 (field-mask library).
   A case is what the harness did to the real library and what it saw.
   [mismatches] returns (case index, code):
     1   model and implementation disagree (built/err, a query flag, All, Exist, the set
         children, GetPath, the JSON text, anything after Unmarshal)            (correspondence)
     9   the model left its fragment (fuel, TOut token) or the harness record is inconsistent
     2   queries disagree with the path-set specification ON the domain       (property oracle)
     3   ... outside the domain: a star and a key at one position (finding: reset on star)
     4   ... outside the domain: black list, a path ends with a star (finding)
     5   ... outside the domain: a path is a proper prefix of another / other conflict
     6   answers change over the JSON round trip ON the domain
     7   JSON round trip fails: a string key that strconv.Quote prints in non-JSON form
     8   JSON round trip fails: the empty mask
     10  a path outside the grammar was accepted
     11  a permutation / regrouping of the same path set gives different answers ON the domain
     12  the library panicked
     13  the library did not return
     14  a path through a field whose type has no mask type (union, exception) was accepted
         (finding: the field can then not be selected)
     15  a path going on below a struct star was accepted (finding: typed by the first field)
     16  a well-typed conflict-free path list was rejected
     17  JSON round trip changes answers: the string key "*" is read back as the any-star
     18  bytes returned by Marshal / MarshalJSON changed (or read back differently) after later
         operations on other masks: the JSON text is not stable over a history              *)
From Coq Require Import List Bool ZArith NArith.
From Coq.Strings Require Import Byte.
From Verif Require Import Base.Bytes Mask.Path Mask.Desc Mask.Trie Mask.Json Mask.Spec Mask.Print.
Import ListNotations.

(* flags of every step, All(), Exist(), keys of the set children of the last sub mask *)
Definition obs := (list bool * bool * bool * list key)%type.

Record variant := mkvar {
  v_paths : list bytes;
  v_gram : list (list pseg);
  v_ok : bool;
  v_obs_opt : option (list obs) }.       (* None: the same answers as the base list *)

Inductive case :=
| CPaths (env : senv) (d : ty) (black : bool) (paths : list bytes)
         (gram : option (list (list pseg)))           (* the grammar paths the strings were printed from *)
         (ok : bool)                                   (* NewFieldMask returned a mask *)
         (probes : list (list qkey)) (ob : list obs)   (* query sequences and their answers *)
         (gpaths : list (bytes * bool * bool))         (* GetPath: path, exist, All() of the result *)
         (json : bytes)                                (* MarshalJSON *)
         (un_ok : bool) (un_ob_opt : option (list obs)) (* Unmarshal(json) and the same probes; None: same answers *)
         (vars : list variant)                         (* permutations / regroupings *)
| CTree (t : jtree) (text : bytes) (ok : bool) (probes : list (list qkey)) (ob : list obs) (again : bytes)
| CHist (env : senv) (d : ty)
        (masks : list (bool * list bytes))            (* mode and paths of mask 0, 1, .. (all built) *)
        (probes : list (list qkey))
        (texts : list (nat * bytes * bytes))          (* mask, the bytes when Marshal/MarshalJSON returned them, the same slice at the end *)
        (reads : list (nat * bool * bool * list obs * list obs))
                                                      (* mask; UnmarshalJSON of the kept slice / of the copy: ok, answers *)
| CPanic
| CHang.

Fixpoint list_eqb {A} (eqb : A -> A -> bool) (a b : list A) : bool :=
  match a, b with
  | [], [] => true
  | x :: a', y :: b' => eqb x y && list_eqb eqb a' b'
  | _, _ => false
  end.

Definition token_eqb (a b : token) : bool :=
  match a, b with
  | TLitStr x, TLitStr y | TStr x, TStr y => beqb x y
  | TLitInt x, TLitInt y => (x =? y)%Z
  | TRoot, TRoot | TField, TField | TIndexL, TIndexL | TIndexR, TIndexR
  | TMapL, TMapL | TMapR, TMapR | TElem, TElem | TAny, TAny | TErr, TErr | TOut, TOut => true
  | _, _ => false
  end.

Definition keys_same (a b : list key) : bool :=
  forallb (fun x => existsb (key_eqb x) b) a && forallb (fun x => existsb (key_eqb x) a) b.

Definition obs_eqb (a b : obs) : bool :=
  let '(o1, a1, e1, k1) := a in
  let '(o2, a2, e2, k2) := b in
  list_eqb Bool.eqb o1 o2 && Bool.eqb a1 a2 && Bool.eqb e1 e2 && keys_same k1 k2.

Definition model_obs (m : mask) (q : list qkey) : obs :=
  let '(oks, a, e) := observe (Some m) q in
  (oks, a, e, set_children (fst (walk_to (Some m) q))).

Definition probes_agree (m : mask) (probes : list (list qkey)) (ob : list obs) : bool :=
  list_eqb obs_eqb (map (model_obs m) probes) ob.

(* ---- property oracles on observed answers *)

Fixpoint firstn_q (n : nat) (q : list qkey) : list qkey :=
  match n, q with
  | S n', k :: r => k :: firstn_q n' r
  | _, _ => []
  end.

(* cumulative flags against spec_pass of every prefix; then All() if everything passed *)
Fixpoint steps_ok (black : bool) (ps : list spath) (q : list qkey) (oks : list bool) (i : nat) : bool :=
  match oks with
  | [] => true
  | o :: r =>
      Bool.eqb o (spec_pass black ps (firstn_q (S i) q)) &&
      (if o then steps_ok black ps q r (S i) else true)
  end.

Definition obs_meets_spec (black : bool) (ps : list spath) (q : list qkey) (o : obs) : bool :=
  let '(oks, a, _, _) := o in
  steps_ok black ps q oks 0 &&
  (if forallb (fun x => x) oks then Bool.eqb a (spec_all black ps q) else true).

Fixpoint all_meet_spec (black : bool) (ps : list spath) (probes : list (list qkey)) (ob : list obs) : bool :=
  match probes, ob with
  | q :: pr, o :: orest => obs_meets_spec black ps q o && all_meet_spec black ps pr orest
  | _, _ => true
  end.

Definition star_vs_key (a b : gpath) : bool :=
  (fix go (a b : gpath) : bool :=
     match a, b with
     | GFld i _ :: a', GFld j _ :: b' => if (i =? j)%Z then go a' b' else false
     | GInts x _ :: a', GInts y _ :: b' => if disjointb Z.eqb x y then false else go a' b'
     | GStrs x _ :: a', GStrs y _ :: b' => if disjointb beqb x y then false else go a' b'
     | GStar _ :: a', GStar _ :: b' => go a' b'
     | GStar _ :: _, GInts _ _ :: _ | GStar _ :: _, GStrs _ _ :: _
     | GInts _ _ :: _, GStar _ :: _ | GStrs _ _ :: _, GStar _ :: _
     | GStarF _ :: _, GFld _ _ :: _ | GFld _ _ :: _, GStarF _ :: _ => true
     | _, _ => false
     end) a b.

Fixpoint any_pair {A} (f : A -> A -> bool) (l : list A) : bool :=
  match l with
  | [] => false
  | x :: r => existsb (f x) r || any_pair f r
  end.

Definition json_safe_byte (b : byte) : bool :=
  let n := Byte.to_N b in (32 <=? n)%N && (n <? 127)%N.

Definition key_json_safe (g : gseg) : bool :=
  match g with GStrs ss _ => forallb (forallb json_safe_byte) ss | _ => true end.

Definition key_is_star (g : gseg) : bool :=
  match g with GStrs ss _ => existsb (beqb [x2a]) ss | _ => false end.

Fixpoint untyped_field (env : senv) (d : ty) (p : list pseg) : bool :=
  match p with
  | [] => false
  | s :: r =>
      let fld (x : option field) :=
        match x with
        | Some f => negb (ok_ft (switch_ft env (f_ty f))) || untyped_field env (f_ty f) r
        | None => false
        end in
      match s with
      | PName n => match struct_fields env d with Some fs => fld (field_by_name fs n) | None => false end
      | PId id => match struct_fields env d with Some fs => fld (field_by_id fs id) | None => false end
      | PStarF => match struct_fields env d with
                  | Some (f0 :: _) => negb (ok_ft (switch_ft env (f_ty f0)))
                  | _ => false
                  end
      | PIdx _ | PIdxStar => match list_elem d with Some e => untyped_field env e r | None => false end
      | PKeyI _ | PKeyS _ | PKeyStar => match map_kv d with Some (_, v) => untyped_field env v r | None => false end
      end
  end.

Fixpoint past_struct_star (p : list pseg) : bool :=
  match p with
  | [] => false
  | PStarF :: (_ :: _) => true
  | _ :: r => past_struct_star r
  end.

Definition res_ok {A} (r : res A) : bool := match r with Ok _ => true | _ => false end.
Definition is_fuel {A} (r : res A) : bool := match r with Fuel => true | _ => false end.

Definition check_paths (env : senv) (d : ty) (black : bool) (paths : list bytes)
  (gram : option (list (list pseg))) (ok : bool) (probes : list (list qkey)) (ob : list obs)
  (gpaths : list (bytes * bool * bool)) (json : bytes) (un_ok : bool) (un_ob_opt : option (list obs))
  (vars : list variant) : list N :=
  let un_ob := match un_ob_opt with Some x => x | None => ob end in
  let v_obs (v : variant) := match v_obs_opt v with Some x => x | None => ob end in
  let toks := map tokenize paths in
  let model := new_mask env d black paths in
  let strs := flat_map (fun t => match t with TStr s => [s] | _ => [] end) (List.concat toks) in
  let text_modelled := forallb quotable strs in
  let text_safe := forallb (forallb json_safe_byte) strs in
  if existsb has_out toks || is_fuel model then [9%N] else
  (* correspondence *)
  let corr :=
    match model with
    | Ok m =>
        if negb ok then [1%N] else
        (if probes_agree m probes ob then [] else [1%N]) ++
        (if forallb (fun g => let '(p, ex, al) := g in
                     match path_in_mask env d m p with
                     | Some (ex', al') => Bool.eqb ex ex' && (if ex then Bool.eqb al al' else true)
                     | None => false end) gpaths then [] else [1%N]) ++
        (if text_modelled then (if beqb (to_json_text m) json then [] else [1%N]) else []) ++
        (match of_json (to_json m) with
         | Ok m2 => if un_ok then (if probes_agree m2 probes un_ob then [] else [1%N])
                    else (* the text -> tree step is Go's: only a text in plain JSON must read back *)
                         (if text_safe then [1%N] else [])
         | _ => if un_ok then [1%N] else []
         end)
    | _ => if ok then [1%N] else []
    end in
  let corr_vars :=
    flat_map (fun v =>
      match new_mask env d black (v_paths v) with
      | Ok mv => if v_ok v then (if probes_agree mv probes (v_obs v) then [] else [1%N]) else [1%N]
      | Fuel => [9%N]
      | Err _ => if v_ok v then [1%N] else []
      end) vars in
  (* property oracles on what the implementation answered *)
  let spec :=
    match gram with
    | None =>
        (* not printed from the grammar: accepted although some path is not grammatical? *)
        if ok && negb (forallb grammatical toks) then [10%N] else []
    | Some pss =>
        if negb (list_eqb (list_eqb token_eqb) toks (map tokens_of pss)) then [9%N] else
        (* the strings are what Mask/Print.v prints for these paths *)
        if negb (list_eqb beqb (map print_path pss) paths) then [9%N] else
        match elab_all env d pss with
        | None =>
            if negb ok then []
            else if existsb (untyped_field env d) pss then [14%N]
            else if existsb past_struct_star pss then [15%N]
            else [2%N]
        | Some gs =>
            if negb ok then
              (if ok_ft (switch_ft env d) && forallb wf_path pss && no_conflict gs then [16%N] else [])
            else
            let ps := path_set gs in
            let dom := in_domain black gs in
            let q_ok := all_meet_spec black ps probes ob in
            let spec_codes :=
              if q_ok then [] else
              if dom then [2%N]
              else if any_pair star_vs_key gs then [3%N]
              else if black && no_conflict gs then [4%N]
              else [5%N] in
            let json_codes :=
              let same := un_ok && list_eqb obs_eqb ob un_ob in
              if same then [] else
              match pss with
              | [] => [8%N]
              | _ => if existsb (existsb key_is_star) gs then [17%N]
                     else if negb (forallb (forallb key_json_safe) gs) then [7%N]
                     else if no_conflict gs then [6%N] else []
              end in
            let var_codes :=
              if dom then
                flat_map (fun v =>
                  match elab_all env d (v_gram v) with
                  | Some gv =>
                      if negb (same_set ps (path_set gv)) || negb (list_eqb beqb (map print_path (v_gram v)) (v_paths v)) then [9%N]
                      else if v_ok v && list_eqb obs_eqb ob (v_obs v) then [] else [11%N]
                  | None => [9%N]
                  end) vars
              else [] in
            spec_codes ++ json_codes ++ var_codes
        end
    end in
  corr ++ corr_vars ++ spec.

Definition check_tree (t : jtree) (text : bytes) (ok : bool) (probes : list (list qkey)) (ob : list obs)
  (again : bytes) : list N :=
  if negb (beqb (print_jt t) text) then [9%N] else
  match of_json t with
  | Ok m =>
      if negb ok then [1%N] else
      (if probes_agree m probes ob then [] else [1%N]) ++
      (if beqb (to_json_text m) again then [] else [1%N])
  | Fuel => [9%N]
  | Err _ => if ok then [1%N] else []
  end.

Definition strs_of_paths (paths : list bytes) : list bytes :=
  flat_map (fun t => match t with TStr x => [x] | _ => [] end) (List.concat (map tokenize paths)).

Definition check_hist (env : senv) (d : ty) (masks : list (bool * list bytes)) (probes : list (list qkey))
  (texts : list (nat * bytes * bytes)) (reads : list (nat * bool * bool * list obs * list obs)) : list N :=
  let models := map (fun bp => new_mask env d (fst bp) (snd bp)) masks in
  if existsb is_fuel models || existsb (fun bp => existsb has_out (map tokenize (snd bp))) masks then [9%N] else
  let modelled (i : nat) := match nth_error masks i with Some bp => forallb quotable (strs_of_paths (snd bp)) | None => false end in
  let safe (i : nat) := match nth_error masks i with Some bp => forallb (forallb json_safe_byte) (strs_of_paths (snd bp)) | None => false end in
  flat_map (fun t => let '(i, ret, fin) := t in
     (match nth_error models i with
      | Some (Ok m) => if modelled i then (if beqb (to_json_text m) ret then [] else [1%N]) else []
      | Some _ => [1%N]
      | None => [9%N]
      end) ++
     (if beqb ret fin then [] else [18%N])) texts ++
  flat_map (fun rd => let '(i, okr, okc, obr, obc) := rd in
     (if Bool.eqb okr okc && list_eqb obs_eqb obr obc then [] else [18%N]) ++
     (match nth_error models i with
      | Some (Ok m) =>
          match of_json (to_json m) with
          | Ok m2 => if okc then (if probes_agree m2 probes obc then [] else [1%N]) else (if safe i then [1%N] else [])
          | _ => if okc then [1%N] else []
          end
      | Some _ => [1%N]
      | None => [9%N]
      end)) reads.

Definition check (c : case) : list N :=
  match c with
  | CPaths env d black paths gram ok probes ob gpaths json un_ok un_ob_opt vars =>
      check_paths env d black paths gram ok probes ob gpaths json un_ok un_ob_opt vars
  | CTree t text ok probes ob again => check_tree t text ok probes ob again
  | CHist env d masks probes texts reads => check_hist env d masks probes texts reads
  | CPanic => [12%N]
  | CHang => [13%N]
  end.

Fixpoint dedup (l : list N) : list N :=
  match l with
  | [] => []
  | x :: r => if existsb (N.eqb x) r then dedup r else x :: dedup r
  end.

Fixpoint mismatches_from (i : N) (cs : list case) : list (N * N) :=
  match cs with
  | [] => []
  | c :: r => map (fun code => (i, code)) (dedup (check c)) ++ mismatches_from (i + 1)%N r
  end.
Definition mismatches (cs : list case) : list (N * N) := mismatches_from 0%N cs.
