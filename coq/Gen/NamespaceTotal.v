(* Gen/NamespaceTotal.v — Add with the UnderscoreSuffix rename always terminates within the fuel
   the model gives it (pigeonhole over the candidates name, name_, name__, ...). *)
From Coq Require Import List Arith Bool Lia FinFun.
From Coq.Strings Require Import Byte.
From Verif Require Import Base.Bytes Gen.Namespace Gen.NamespaceFacts.
Import ListNotations.

(* Add with the underscore rename never runs out of fuel: the candidates name, name_, name__, ...
   are pairwise distinct, so among (number of keys + 1) of them one is free (pigeonhole). *)
Lemma underscore_inj name a b : underscore_suffix name a = underscore_suffix name b -> a = b.
Proof.
  unfold underscore_suffix. intro H. apply app_inv_head in H.
  apply (f_equal (@List.length byte)) in H. rewrite !repeat_length in H. exact H.
Qed.

Lemma lookup_Some_In {A} k (v : A) m : lookup k m = Some v -> In k (map fst m).
Proof. intro H. apply lookup_In in H. apply in_map_iff. exists (k, v). auto. Qed.

Definition cand (name : bytes) (c : nat) : bytes := underscore_suffix name c.

Lemma cands_nodup name n : NoDup (map (cand name) (seq 0 n)).
Proof.
  apply FinFun.Injective_map_NoDup; [|apply seq_NoDup].
  intros a b H. eapply underscore_inj. exact H.
Qed.

Lemma add_loop_total : forall fuel s name id cnt,
  (forall c, c < cnt -> In (cand name c) (map fst (name2id s))) ->
  cnt + fuel >= List.length (name2id s) ->
  add_loop underscore_suffix fuel s name id (cand name cnt) cnt <> None.
Proof.
  induction fuel as [|f IH]; intros s name id cnt Hocc Hlen; cbn [add_loop].
  - destruct (lookup (cand name cnt) (name2id s)) as [cur|] eqn:E; [|discriminate].
    destruct (beqb cur id); [discriminate|]. exfalso.
    (* cnt+1 distinct candidates all among the keys, but there are at most cnt keys *)
    assert (Hincl : incl (map (cand name) (seq 0 (S cnt))) (map fst (name2id s))).
    { intros x Hx. apply in_map_iff in Hx. destruct Hx as (c & <- & Hc). apply in_seq in Hc.
      destruct (Nat.eq_dec c cnt) as [->|Hne]; [eapply lookup_Some_In; exact E | apply Hocc; lia]. }
    apply NoDup_incl_length in Hincl; [|apply cands_nodup].
    rewrite !map_length, seq_length in Hincl. lia.
  - destruct (lookup (cand name cnt) (name2id s)) as [cur|] eqn:E; [|discriminate].
    destruct (beqb cur id); [discriminate|].
    apply IH.
    + intros c Hc. destruct (Nat.eq_dec c cnt) as [->|Hne]; [eapply lookup_Some_In; exact E | apply Hocc; lia].
    + lia.
Qed.

Theorem add_underscore_total s name id : add underscore_suffix s name id <> None.
Proof.
  unfold add.
  assert (H : add_loop underscore_suffix (S (List.length (name2id s))) s name id (cand name 0) 0 <> None).
  { apply add_loop_total; [intros c Hc; lia | lia]. }
  unfold cand, underscore_suffix in H. cbn [repeat] in H. rewrite app_nil_r in H.
  destruct (add_loop underscore_suffix (S (List.length (name2id s))) s name id name 0) eqn:E; [discriminate | exfalso; apply H; exact E].
Qed.
