package idlgen

import (
	"fmt"
	"math"
	"os"
	"path/filepath"
	"strconv"
	"strings"

	"verif/harness/idlast"
	"verif/harness/rng"
)

// ---------------------------------------------------------------- token writer

type tokClass int

const (
	tcWord  tokClass = iota // identifiers, keywords, numbers: two of them need something in between
	tcPunct                 // punctuation
	tcLit                   // quoted literal
)

// hint is what SpacingPretty writes before the next token.
type hint int

const (
	hSpace hint = iota
	hGlue       // nothing
	hLine       // newline + indent
	hBlank      // empty line + indent
)

type writer struct {
	sb       strings.Builder
	l        *Layout
	r        *rng.R
	prevWord bool
	started  bool
	next     hint
	indent   int
}

func newWriter(l *Layout, salt string) *writer {
	seed := l.Seed
	for i := 0; i < len(salt); i++ { // FNV-1a over the file name
		seed = (seed ^ uint64(salt[i])) * 0x100000001b3
	}
	return &writer{l: l, r: rng.New(seed ^ 0x6c61796f7574), next: hGlue}
}

var blankPieces = []string{" ", " ", " ", "  ", "\t", "\v", "\n", "\n", "\r\n", "\r", "\n\n", " \t ", "\n  "}

var commentWords = []string{"todo", "struct", "required", "x", "\"quoted\"", "'single'", "include", "été", "日本", "a*b", "1/2",
	"{", "}", "(", ")", "=", "#", "//", "/*", "*", "/", "const i32 X = 1", "\\", "0x1F", "1e5", ",", ";", "<>", "`tick`", "@"}

func (w *writer) commentText(multiline bool) string {
	n := w.r.Intn(5)
	parts := make([]string, 0, n)
	for i := 0; i < n; i++ {
		s := rng.Pick(w.r, commentWords)
		if multiline && w.r.Chance(1, 4) {
			s += rng.Pick(w.r, []string{"\n", "\r\n", "\n * "})
		}
		parts = append(parts, s)
	}
	return strings.Join(parts, " ")
}

// comment returns a comment that is complete in itself (a line comment carries
// its terminating line break).
func (w *writer) comment() string {
	eol := rng.Pick(w.r, []string{"\n", "\n", "\r\n", "\r"})
	switch w.r.Intn(4) {
	case 0:
		return "//" + w.commentText(false) + eol
	case 1:
		return "#" + w.commentText(false) + eol
	default:
		// the text must not contain the terminator, and must not end in '*' right
		// after the opener ("/*/" is not a complete comment)
		t := strings.ReplaceAll(w.commentText(true), "*/", "* /")
		return "/*" + t + " */"
	}
}

func (w *writer) randomGap(needSep bool) string {
	var sb strings.Builder
	n := 0
	switch k := w.r.Intn(10); {
	case k < 3:
		n = 0
	case k < 7:
		n = 1
	case k < 9:
		n = 2
	default:
		n = 3
	}
	for i := 0; i < n; i++ {
		if w.l.Comments == CommentsRandom && w.r.Chance(1, 4) {
			sb.WriteString(w.comment())
		} else {
			sb.WriteString(rng.Pick(w.r, blankPieces))
		}
	}
	if needSep && sb.Len() == 0 {
		if w.l.Comments == CommentsRandom && w.r.Chance(1, 6) {
			sb.WriteString("/**/") // a comment alone separates two words
		} else {
			sb.WriteString(rng.Pick(w.r, blankPieces))
		}
	}
	return sb.String()
}

func (w *writer) gap(nextWord bool) {
	needSep := w.prevWord && nextWord
	switch w.l.Spacing {
	case SpacingRandom:
		w.sb.WriteString(w.randomGap(needSep))
	case SpacingMinimal:
		if w.l.Comments == CommentsRandom && w.r.Chance(1, 8) {
			w.sb.WriteString(w.comment())
		} else if needSep {
			w.sb.WriteByte(' ')
		}
	default: // pretty
		h := w.next
		if !w.started {
			h = hGlue
		}
		switch h {
		case hSpace:
			w.sb.WriteByte(' ')
		case hGlue:
			if needSep {
				w.sb.WriteByte(' ')
			}
		case hLine, hBlank:
			w.sb.WriteByte('\n')
			if h == hBlank {
				w.sb.WriteByte('\n')
			}
			w.sb.WriteString(strings.Repeat("  ", w.indent))
		}
		if w.l.Comments == CommentsRandom && w.r.Chance(1, 8) {
			c := w.comment()
			w.sb.WriteString(c)
			if !strings.HasSuffix(c, "\n") && !strings.HasSuffix(c, "\r") {
				w.sb.WriteByte(' ')
			} else {
				w.sb.WriteString(strings.Repeat("  ", w.indent))
			}
		}
	}
	w.next = hSpace
}

func (w *writer) tok(text string, c tokClass) {
	w.gap(c == tcWord)
	w.sb.WriteString(text)
	w.prevWord = c == tcWord
	w.started = true
}

func (w *writer) word(s string)  { w.tok(s, tcWord) }
func (w *writer) punct(s string) { w.tok(s, tcPunct) }

// glue / line / blank only steer SpacingPretty.
func (w *writer) glue()  { w.next = hGlue }
func (w *writer) line()  { w.next = hLine }
func (w *writer) blank() { w.next = hBlank }

// open / close write a bracket and move the indent.
func (w *writer) open(s string) {
	w.punct(s)
	w.indent++
}
func (w *writer) close(s string) {
	w.indent--
	w.punct(s)
}

func (w *writer) finish() string {
	// trailing Skip before end of input
	switch w.l.Spacing {
	case SpacingRandom:
		w.sb.WriteString(w.randomGap(false))
	case SpacingPretty:
		if w.started {
			w.sb.WriteByte('\n')
		}
	}
	if w.sb.Len() == 0 {
		// the parser rejects a zero-byte file ("not document") although the grammar
		// matches the empty input; one line break is enough
		return "\n"
	}
	return w.sb.String()
}

// ---------------------------------------------------------------- leaf spellings

func (w *writer) triYes(t Tri) bool {
	switch t {
	case Always:
		return true
	case Random:
		return w.r.Chance(1, 3)
	}
	return false
}

func (w *writer) formOmit(f Form) bool {
	switch f {
	case FormImplicit:
		return true
	case FormRandom:
		return w.r.Bool()
	}
	return false
}

// literal writes s so that the parser's unescaping (only \q -> q for the
// enclosing quote q) gives back exactly s.
func (w *writer) literal(s string) {
	q := byte('"')
	switch w.l.Quotes {
	case QuoteSingle:
		q = '\''
	case QuoteRandom:
		if w.r.Bool() {
			q = '\''
		}
	}
	var sb strings.Builder
	sb.WriteByte(q)
	for i := 0; i < len(s); i++ {
		if s[i] == q {
			sb.WriteByte('\\')
		}
		sb.WriteByte(s[i])
	}
	sb.WriteByte(q)
	w.tok(sb.String(), tcLit)
}

func (w *writer) hexDigits(v uint64) string {
	s := strconv.FormatUint(v, 16)
	switch w.r.Intn(3) {
	case 0:
		s = strings.ToUpper(s)
	case 1:
		// mixed case
		b := []byte(s)
		for i := range b {
			if w.r.Bool() {
				b[i] = strings.ToUpper(string(b[i]))[0]
			}
		}
		s = string(b)
	}
	return s
}

func (w *writer) integer(v int64, sp IntSpelling) {
	if sp == IntRandom {
		sp = IntSpelling(w.r.Intn(4))
		if w.r.Bool() {
			sp = IntDecimal
		}
	}
	if v < 0 {
		w.word(strconv.FormatInt(v, 10))
		return
	}
	switch sp {
	case IntPlus:
		w.word("+" + strconv.FormatInt(v, 10))
	case IntHex:
		w.word("0x" + w.hexDigits(uint64(v)))
	case IntOctal:
		w.word("0o" + strconv.FormatUint(uint64(v), 8))
	default:
		w.word(strconv.FormatInt(v, 10))
	}
}

func plainDouble(v float64) string {
	s := strconv.FormatFloat(v, 'f', -1, 64)
	if !strings.Contains(s, ".") {
		s += ".0"
	}
	return s
}

func (w *writer) double(bits uint64) {
	v := math.Float64frombits(bits)
	if math.IsNaN(v) || math.IsInf(v, 0) {
		panic("idlgen: NaN / Inf cannot be written in IDL")
	}
	sp := w.l.Doubles
	extra := false
	if sp == DoubleRandom {
		sp = DoubleSpelling(w.r.Intn(3))
		extra = true
	}
	var s string
	switch sp {
	case DoubleExponent:
		s = strconv.FormatFloat(v, 'e', -1, 64)
	case DoubleShortest:
		s = strconv.FormatFloat(v, 'g', -1, 64)
		if !strings.ContainsAny(s, ".e") {
			s += ".0"
		}
	default:
		s = plainDouble(v)
	}
	if extra {
		if strings.Contains(s, "e") {
			switch w.r.Intn(3) {
			case 0:
				s = strings.Replace(s, "e", "E", 1)
			case 1:
				s = strings.Replace(s, "e+", "e", 1) // 1e+05 -> 1e05
			}
		}
		if w.r.Chance(1, 4) && !strings.HasPrefix(s, "-") {
			s = "+" + s
		}
		if w.r.Chance(1, 3) { // 0.5 -> .5, -0.5 -> -.5
			switch {
			case strings.HasPrefix(s, "0."):
				s = s[1:]
			case strings.HasPrefix(s, "-0."), strings.HasPrefix(s, "+0."):
				s = s[:1] + s[2:]
			}
		}
	}
	w.word(s)
}

type sepCtx int

const (
	scField sepCtx = iota
	scEnumValue
	scFunction
	scConstDef
	scElem
	scAnno
)

// sep writes the optional list separator.
func (w *writer) sep(ctx sepCtx, last bool) {
	k := w.l.Separators
	if k == SepRandom {
		k = Sep(1 + w.r.Intn(3))
	}
	switch k {
	case SepConventional:
		switch ctx {
		case scFunction, scConstDef:
			return
		case scElem, scAnno:
			if last {
				return
			}
		}
		w.glue()
		w.punct(",")
	case SepComma:
		w.glue()
		w.punct(",")
	case SepSemicolon:
		w.glue()
		w.punct(";")
	}
}

// ---------------------------------------------------------------- nodes

type annoPair struct{ k, v string }

func (w *writer) annoSequence(as idlast.Annotations) []annoPair {
	var out []annoPair
	if w.l.AnnotationOrder != OrderInterleaved {
		for _, a := range as {
			for _, v := range a.Values {
				out = append(out, annoPair{string(a.Key), string(v)})
			}
		}
		return out
	}
	// random merge: keys open in order, values of a key stay in order
	pos := make([]int, len(as))
	opened := 0
	for {
		var cand []int
		for i := 0; i < opened; i++ {
			if pos[i] < len(as[i].Values) {
				cand = append(cand, i)
			}
		}
		// skip keys without values (not expressible in text)
		for opened < len(as) && len(as[opened].Values) == 0 {
			opened++
		}
		if opened < len(as) {
			cand = append(cand, opened)
		}
		if len(cand) == 0 {
			return out
		}
		i := rng.Pick(w.r, cand)
		if i == opened {
			opened++
		}
		out = append(out, annoPair{string(as[i].Key), string(as[i].Values[pos[i]])})
		pos[i]++
	}
}

// annotations writes "( k = "v" … )", or "()" / nothing when there are none.
func (w *writer) annotations(as idlast.Annotations) {
	seq := w.annoSequence(as)
	if len(seq) == 0 {
		if w.triYes(w.l.EmptyAnnotations) {
			w.punct("(")
			w.glue()
			w.punct(")")
		}
		return
	}
	w.punct("(")
	w.glue()
	for i, p := range seq {
		w.word(p.k)
		w.punct("=")
		w.literal(p.v)
		w.sep(scAnno, i == len(seq)-1)
	}
	w.glue()
	w.punct(")")
}

func (w *writer) cppType(s idlast.B) {
	if s != "" {
		w.word("cpp_type")
		w.literal(string(s))
	}
}

func (w *writer) typ(t *idlast.Type) {
	if t == nil {
		panic("idlgen: nil type")
	}
	switch {
	case t.Name == "map" && t.KeyType != nil && t.ValueType != nil:
		w.word("map")
		w.cppType(t.CppType)
		w.glue()
		w.punct("<")
		w.glue()
		w.typ(t.KeyType)
		w.glue()
		w.punct(",") // mandatory
		w.typ(t.ValueType)
		w.glue()
		w.punct(">")
	case t.Name == "set" && t.ValueType != nil:
		w.word("set")
		w.cppType(t.CppType)
		w.glue()
		w.punct("<")
		w.glue()
		w.typ(t.ValueType)
		w.glue()
		w.punct(">")
	case t.Name == "list" && t.ValueType != nil:
		w.word("list")
		w.glue()
		w.punct("<")
		w.glue()
		w.typ(t.ValueType)
		w.glue()
		w.punct(">")
		w.cppType(t.CppType)
	default:
		w.word(string(t.Name))
	}
	w.annotations(t.Annotations)
}

func (w *writer) constValue(c *idlast.ConstValue) {
	switch c.Kind {
	case idlast.ConstDouble:
		w.double(c.DoubleBits)
	case idlast.ConstInt:
		w.integer(c.Int, w.l.Ints)
	case idlast.ConstLiteral:
		w.literal(string(c.Literal))
	case idlast.ConstIdentifier:
		w.word(string(c.Identifier))
	case idlast.ConstList:
		w.punct("[")
		w.glue()
		for i, e := range c.List {
			w.constValue(e)
			w.sep(scElem, i == len(c.List)-1)
		}
		w.glue()
		w.punct("]")
	case idlast.ConstMap:
		w.punct("{")
		w.glue()
		for i, e := range c.Map {
			w.constValue(e.Key)
			w.glue()
			w.punct(":")
			w.constValue(e.Value)
			w.sep(scElem, i == len(c.Map)-1)
		}
		w.glue()
		w.punct("}")
	default:
		panic(fmt.Sprintf("idlgen: const kind %d", int(c.Kind)))
	}
}

type fieldCtx int

const (
	fcStruct fieldCtx = iota
	fcArgs
	fcThrows
)

func (w *writer) fields(fs []*idlast.Field, ctx fieldCtx) {
	prev := int32(0)
	for i, f := range fs {
		if ctx == fcStruct {
			w.line()
		} else if i == 0 {
			w.glue()
		}
		if !(f.ID == prev+1 && w.formOmit(w.l.FieldIDForm)) {
			w.integer(int64(f.ID), w.l.FieldIDs)
			w.glue()
			w.punct(":")
		}
		prev = f.ID
		switch {
		case ctx == fcThrows && f.Requiredness == idlast.ReqOptional:
			k := w.l.ThrowsReq
			if k == ThrowsRandom {
				k = ThrowsReq(w.r.Intn(3))
			}
			switch k {
			case ThrowsOptional:
				w.word("optional")
			case ThrowsRequired:
				w.word("required")
			}
		case f.Requiredness == idlast.ReqRequired:
			w.word("required")
		case f.Requiredness == idlast.ReqOptional:
			w.word("optional")
		}
		w.typ(f.Type)
		w.word(string(f.Name))
		if f.Default != nil {
			w.punct("=")
			w.constValue(f.Default)
		}
		w.annotations(f.Annotations)
		if ctx == fcStruct {
			w.sep(scField, false)
		} else {
			w.sep(scElem, i == len(fs)-1) // conventional: commas between arguments only
		}
	}
}

func (w *writer) structLike(s *idlast.StructLike) {
	w.word(s.Category.Keyword())
	w.word(string(s.Name))
	w.open("{")
	w.fields(s.Fields, fcStruct)
	w.line()
	w.close("}")
	w.annotations(s.Annotations)
}

func (w *writer) enum(e *idlast.Enum) {
	w.word("enum")
	w.word(string(e.Name))
	w.open("{")
	prev := int64(-1)
	for _, v := range e.Values {
		w.line()
		w.word(string(v.Name))
		if !(v.Value == prev+1 && w.formOmit(w.l.EnumValueForm)) {
			w.punct("=")
			w.integer(v.Value, w.l.Ints)
		}
		prev = v.Value
		w.annotations(v.Annotations)
		w.sep(scEnumValue, false)
	}
	w.line()
	w.close("}")
	w.annotations(e.Annotations)
}

func (w *writer) service(s *idlast.Service) {
	w.word("service")
	w.word(string(s.Name))
	if s.Extends != "" {
		w.word("extends")
		w.word(string(s.Extends))
	}
	w.open("{")
	for _, f := range s.Functions {
		w.line()
		if f.Oneway {
			w.word("oneway")
		}
		if f.Void {
			w.word("void")
		} else {
			w.typ(f.FunctionType)
		}
		w.word(string(f.Name))
		w.glue()
		w.punct("(")
		w.fields(f.Arguments, fcArgs)
		w.glue()
		w.punct(")")
		if len(f.Throws) > 0 || (!f.Oneway && w.triYes(w.l.EmptyThrows)) {
			w.word("throws")
			w.punct("(")
			w.fields(f.Throws, fcThrows)
			w.glue()
			w.punct(")")
		}
		w.annotations(f.Annotations)
		w.sep(scFunction, false)
	}
	w.line()
	w.close("}")
	w.annotations(s.Annotations)
}

// mergeOrder returns, for lists of the given lengths, a sequence of list
// indices: grouped (0…0 1…1 …) or a random merge.
func (w *writer) mergeOrder(lens []int, o Order) []int {
	var out []int
	if o != OrderInterleaved {
		for i, n := range lens {
			for j := 0; j < n; j++ {
				out = append(out, i)
			}
		}
		return out
	}
	left := append([]int(nil), lens...)
	total := 0
	for _, n := range left {
		total += n
	}
	for total > 0 {
		k := w.r.Intn(total)
		for i, n := range left {
			if k < n {
				out = append(out, i)
				left[i]--
				break
			}
			k -= n
		}
		total--
	}
	return out
}

// RenderFile spells one file. It works on any idlast.File whose texts respect
// the grammar (identifiers are identifiers, literals have no backslash directly
// before a quote character or at the end, doubles are finite); resolution info
// and Comments are ignored.
func RenderFile(f *idlast.File, l *Layout) string {
	if l == nil {
		l = &Layout{}
	}
	w := newWriter(l, string(f.Filename))

	hi := [3]int{}
	for _, k := range w.mergeOrder([]int{len(f.Includes), len(f.CppIncludes), len(f.Namespaces)}, l.HeaderOrder) {
		w.line()
		switch k {
		case 0:
			w.word("include")
			w.literal(string(f.Includes[hi[0]].Path))
		case 1:
			w.word("cpp_include")
			w.literal(string(f.CppIncludes[hi[1]]))
		case 2:
			n := f.Namespaces[hi[2]]
			w.word("namespace")
			if n.Language == "*" {
				w.punct("*")
			} else {
				w.word(string(n.Language))
			}
			w.word(string(n.Name))
			w.annotations(n.Annotations)
		}
		hi[k]++
	}

	di := [7]int{}
	lens := []int{len(f.Typedefs), len(f.Constants), len(f.Enums), len(f.Structs), len(f.Unions), len(f.Exceptions), len(f.Services)}
	for _, k := range w.mergeOrder(lens, l.DefinitionOrder) {
		w.blank()
		i := di[k]
		di[k]++
		switch k {
		case 0:
			t := f.Typedefs[i]
			w.word("typedef")
			w.typ(t.Type)
			w.word(string(t.Alias))
			w.annotations(t.Annotations) // no separator is grammatical here
		case 1:
			c := f.Constants[i]
			w.word("const")
			w.typ(c.Type)
			w.word(string(c.Name))
			w.punct("=")
			w.constValue(c.Value)
			w.sep(scConstDef, false)
			w.annotations(c.Annotations)
		case 2:
			w.enum(f.Enums[i])
		case 3:
			w.structLike(f.Structs[i])
		case 4:
			w.structLike(f.Unions[i])
		case 5:
			w.structLike(f.Exceptions[i])
		case 6:
			w.service(f.Services[i])
		}
	}
	return w.finish()
}

// Render spells every file of the program: Filename -> text.
func (p *Program) Render(l *Layout) map[string]string {
	out := make(map[string]string, len(p.Files))
	for _, e := range p.Files {
		out[string(e.Filename)] = RenderFile(e.File, l)
	}
	return out
}

// WriteTree writes every file under dir (creating directories) and returns the
// path of the main file (dir joined with the main Filename). Parse it after
// chdir(dir) with the root-relative name p.Main() so that Filenames and the
// include search agree with the intended AST.
func (p *Program) WriteTree(dir string, l *Layout) (string, error) {
	texts := p.Render(l)
	for _, e := range p.Files { // program order: deterministic
		name := string(e.Filename)
		full := filepath.Join(dir, filepath.FromSlash(name))
		if err := os.MkdirAll(filepath.Dir(full), 0o755); err != nil {
			return "", err
		}
		if err := os.WriteFile(full, []byte(texts[name]), 0o644); err != nil {
			return "", err
		}
	}
	return filepath.Join(dir, filepath.FromSlash(p.Main())), nil
}
