"""C20 — every documented go backend option switches exactly its own feature
(generator/golang/option.go, util.go, args/args.go checkOptions, README.md, thriftgo -h)."""
import json
import os
import time

import vlib

# the machine is shared: keep coqc parallelism moderate (override with VERIF_JOBS)
vlib.NPROC = max(1, min(vlib.NPROC, int(os.environ.get("VERIF_JOBS", "8") or 8)))


class TranslatorFailed(Exception):
    def __init__(self, obj):
        Exception.__init__(self, obj.get("kind"))
        self.obj = obj


class S(vlib.Spec):
    prop = "C20"
    design_ref = "DESIGN.md section 3 / C20"
    coq_targets = ["Props/C20.vo", "Corr/C20.vo"]
    props_file = "Props/C20.v"
    harness_pkg = "./cmd/c20"
    harness_name = "c20"
    needs_thriftgo = True
    corr_codes = {1, 9}
    code_names = {
        1: "model and implementation disagree",
        2: "accepted, but a setting is neither the last option naming it nor its documented default (an option switched something else, or a default is not the documented one)",
        3: "an option with an invalid value (non-boolean, unknown naming style/template, malformed use_package) was accepted",
        4: "a list of valid options without a documented-invalid combination was rejected",
        5: "a combination documented as invalid was accepted",
        6: "nested structs on and no template option given, but the template is not slim",
        7: "slim template with deep-equal still on",
        8: "the implementation panicked",
        9: "the option table holds an action the translator did not recognise",
    }
    modelled = ("generator/golang/option.go: allParams prefix lookup, checkBool, the six hand-written actions, Features.params, "
                "HandleOptions, validateOptions; util.go: NewCodeUtils, SetNamingStyle, UseInitialisms, UseTemplate, UsePackage; "
                "args/args.go: Targets/checkOptions; plugin/plugin.go: ParseCompactArguments, Pack -> coq/Gen/Options.v (hand-written, "
                "tied by correspondence on every run) over coq/Gen/OptionsTable.v and coq/Gen/OptionsDoc.v (regenerated on every run)")
    trusted_base = [
        "translator harness/opttable + harness/cmd/c20 -translate: option order, names and defaults are read from the freshly built packages "
        "(GoBackend.Options, reflection over golang.Features, NewCodeUtils) and cross-checked against a go/ast read of option.go; the action of the "
        "six hand-written parameters is classified from the CodeUtils setter their closure calls; README table and `thriftgo -h` text are parsed with regular expressions",
        "hand-written model coq/Gen/Options.v (apply/step/run/post/validate/check_options mirror the Go statements); the specification functions "
        "writes/last_setting/expected in the same file",
        "harness/cmd/c20 (drives HandleOptions, Arguments.Targets and the thriftgo binary; reads importReplace by reflection as the only map[string]string field of "
        "CodeUtils; observes initialism correction through NamingStyle().Identify(\"user_url\"); resets the process-global naming style objects to their fresh-process "
        "state before every in-process case), harness/coqfmt, harness/casefile, lib/vlib.py",
        "error values are compared as accepted/rejected only (never message text); warnings are not observed",
    ]
    assumptions = [
        "one thriftgo process handles one option list from a fresh state (naming style objects are process-global in the implementation)",
        "option names contain no '=' and option values no ',' on the command-line path (ParseCompactArguments splits on them)",
    ]

    def __init__(self):
        self.translated = None

    def translators(self, ctx):
        ok, log, binp = vlib.go_build(self.harness_pkg, self.harness_name)
        if not ok:
            raise TranslatorFailed(dict(kind="harness-build-failed", note="the harness/translator no longer compiles against the repository: an API it reads changed", log=log[-6000:]))
        okb, logb, tg = vlib.build_thriftgo()
        if not okb:
            raise TranslatorFailed(dict(kind="thriftgo-build-failed", log=logb[-6000:]))
        rc, out = vlib.sh([binp, "-translate", "-coq", vlib.COQ, "-thriftgo", tg], cwd=ctx.scratch, timeout=300)
        if rc != 0:
            raise TranslatorFailed(dict(kind="translator-failed", note="the option table or its documentation could not be read back from the repository "
                                        "(source and built package disagree, or the shape of option.go / README.md / -h changed)", log=out[-6000:]))
        try:
            self.translated = json.loads(out.strip().splitlines()[-1])
        except Exception:
            self.translated = dict(raw=out[-500:])
        return [dict(name="T-opt/T-readme", output=["Gen/OptionsTable.v", "Gen/OptionsDoc.v"], result=self.translated)]

    def producer_args(self, ctx):
        return ["-seed", str(ctx.seed), "-tier", ctx.tier, "-out", ctx.out, "-thriftgo", ctx.thriftgo]

    def classify(self, code, case):
        case = case or {}
        kind = case.get("kind", "?")
        tag = {2: "wrong-setting", 3: "invalid-value-accepted", 4: "valid-options-rejected",
               5: "invalid-combination-accepted", 6: "nested-struct-without-slim", 7: "slim-with-deep-equal", 8: "panic"}.get(code, "code-%d" % code)
        if code == 2:
            # which settings are off although no option names them / which named option was not taken
            return "C20-%s[%s;unexplained=%s;not-set=%s]" % (tag, kind, ",".join(case.get("unexplained_settings") or [])[:160],
                                                            ",".join(case.get("named_but_not_set") or [])[:80])
        if code == 3:
            vals = sorted({a.split("=", 1)[1] for a in case.get("args") or [] if "=" in a and a.split("=", 1)[1] not in ("true", "false")})
            return "C20-%s[%s;values=%s]" % (tag, kind, ",".join(vals)[:120])
        names = sorted({a.split("=", 1)[0] for a in case.get("args") or []})
        return "C20-%s[%s;%s]" % (tag, kind, ",".join(names)[:120] if len(names) <= 2 else "%d option names" % len(names))


def run(tier):
    t0 = time.time()
    spec = S()
    try:
        return vlib.standard_run(spec, tier)
    except TranslatorFailed as ex:
        seed = int(os.environ.get("VERIF_SEED", "1") or 1)
        p = vlib.write_replay("C20", ex.obj)
        cov = dict(obligations=1, discharged=0, checker_cmd="(run aborted in the translator step)", trusted_base=vlib.KERNEL_TB + spec.trusted_base,
                   evaluations=1, distinct_nontrivial=0, rule="aborted: " + str(ex.obj.get("kind")), samples=[str(ex.obj.get("log", ""))[-400:]])
        vlib.write_evidence("C20", tier, seed, cov, spec.assumptions, time.time() - t0, 1)
        print("VIOLATION property=C20 replay=%s no-failing-input-found" % p)
        return 1


def replay(path):
    obj = json.load(open(path))
    print(json.dumps(obj, indent=1)[:6000])
    case = obj.get("case") or obj.get("first_case")
    if case and case.get("args") is not None:
        binp = os.path.join(vlib.BIN, "c20")
        if os.path.exists(binp):
            rc, out = vlib.sh([binp, "-one", ",".join(case["args"])])
            print("--- re-run on the current tree (H then T):")
            print(out)
    return 0
