// Command c02: case producer for property C02 (generated Read/Write implement the wire format).
//
// Per run: seeded schema programs x option sets are compiled once (gendrv); for every struct-like
// the driver is asked for its shape (thrift tags, Go kinds), for Write on model values and for Read
// on harness-chosen bytes; inputs and observations are written as Coq cases (Corr/C02.v), one set of
// shards per program (the shard preamble defines the program's env E).
package main

import (
	"crypto/sha256"
	"encoding/hex"
	"encoding/json"
	"flag"
	"fmt"
	"os"
	"path/filepath"
	"sort"
	"strings"

	"verif/harness/casefile"
	"verif/harness/coqfmt"
	"verif/harness/gendrv"
	"verif/harness/rng"
	"verif/harness/schemagen"
	"verif/harness/valgen"
)

type optSet struct {
	Key     string
	Options string
	Enum32  bool
	SIC     bool // value_type_in_container
	Reorder bool
	Reads   int // read vectors per struct are thinned on non-default sets: every Reads-th value
}

func (o optSet) coq() string {
	return fmt.Sprintf("(mkpopts %s %s %s)", coqfmt.Bool(o.Enum32), coqfmt.Bool(o.SIC), coqfmt.Bool(o.Reorder))
}

var quickSets = []optSet{
	{Key: "o0", Options: "", Reads: 1},
	{Key: "o1", Options: "naming_style=apache,json_enum_as_text,gen_setter,nil_safe,use_type_alias=false,enum_as_int_32,frugal_tag,compatible_names,typed_enum_string", Enum32: true, Reads: 4},
	{Key: "o2", Options: "reorder_fields,value_type_in_container,naming_style=golint,gen_json_tag=false,json_stringer", SIC: true, Reorder: true, Reads: 4},
}

var thoroughSets = append(append([]optSet{}, quickSets...), []optSet{
	{Key: "o3", Options: "naming_style=golint", Reads: 6},
	{Key: "o4", Options: "naming_style=apache", Reads: 6},
	{Key: "o5", Options: "json_enum_as_text,enum_marshal,enum_unmarshal,scan_value_for_enum=false", Reads: 6},
	{Key: "o6", Options: "gen_setter,nil_safe", Reads: 6},
	{Key: "o7", Options: "value_type_in_container", SIC: true, Reads: 4},
	{Key: "o8", Options: "use_type_alias=false", Reads: 6},
	{Key: "o9", Options: "enum_as_int_32", Enum32: true, Reads: 6},
	{Key: "o10", Options: "reorder_fields", Reorder: true, Reads: 4},
	{Key: "o11", Options: "gen_db_tag,snake_style_json_tag,omitempty_for_optional=false,reserve_comments,always_gen_json_tag,unescape_double_quote=false", Reads: 6},
	{Key: "o12", Options: "lower_camel_style_json_tag,typed_enum_string,compatible_names,frugal_tag", Reads: 6},
}...)

type stats struct {
	Programs            int               `json:"programs"`
	RejectedByImpl      int               `json:"rejected_by_impl"`
	RejectedSample      []string          `json:"rejected_sample,omitempty"`
	RejectedUnits       int               `json:"units_rejected_under_non_default_options"`
	Units               int               `json:"units"`
	Structs             int               `json:"structs"`
	SynthStructs        int               `json:"synthesized_args_result_structs"`
	Values              int               `json:"values"`
	Schema              map[string]int    `json:"schema"`
	CaseKinds           map[string]int    `json:"case_kinds"`
	ReadKinds           map[string]int    `json:"read_kinds"`
	ObsErr              map[string]int    `json:"observed_error_classes"`
	OptionSets          map[string]string `json:"option_sets"`
	Evaluations         int               `json:"evaluations"`
	Distinct            int               `json:"distinct_nontrivial"`
	Rule                string            `json:"rule"`
	Samples             []interface{}     `json:"samples"`
	NeighbourVectors    int               `json:"neighbouring_elements_vectors"`
	ReadVectorsUnderSIC int               `json:"values_read_back_under_value_type_in_container"`
	SkippedSIC          int               `json:"vectors_skipped_for_value_type_in_container"`
	SkippedEnum32       int               `json:"vectors_skipped_for_enum_as_int_32"`
}

type vector struct {
	S     *schemagen.Struct
	V     *valgen.Value
	Edge  bool
	Probe bool      // neighbouring-elements vector: Read is exercised under every option set
	Light bool      // few perturbations only
	W     *valgen.W // nil when the harness encoder refuses (edge shapes)
}

type pending struct {
	kind  string // shape write read same
	prog  int
	unit  *gendrv.Unit
	os    optSet
	vec   *vector
	rkind string
	input []byte
	zero  bool
	src   *valgen.Value
	cmd   int
}

func obsErr(s string) string {
	switch s {
	case "ok":
		return "OOk"
	case "invalid_data":
		return "OInvalidData"
	case "protocol":
		return "OProtocol"
	case "transport":
		return "OTransport"
	case "error":
		return "OError"
	case "panic":
		return "OPanic"
	}
	return "OPanic"
}

func gkCoq(k string) string {
	switch {
	case k == "bool":
		return "GBool"
	case k == "int8":
		return "GI8"
	case k == "int16":
		return "GI16"
	case k == "int32":
		return "GI32"
	case k == "int64":
		return "GI64"
	case k == "float64":
		return "GF64"
	case k == "string":
		return "GString"
	case k == "bytes":
		return "GBytes"
	case k == "struct":
		return "GStruct"
	case strings.HasPrefix(k, "ptr:"):
		return "(GPtr " + gkCoq(k[4:]) + ")"
	case strings.HasPrefix(k, "slice:"):
		return "(GSlice " + gkCoq(k[6:]) + ")"
	case strings.HasPrefix(k, "map:"):
		// map:<key>:<value>; the key kind never contains a map
		rest := k[4:]
		depth, i := 0, 0
		// key kinds: scalar, string, ptr:struct, struct
		if strings.HasPrefix(rest, "ptr:") {
			i = 4
		}
		for ; i < len(rest); i++ {
			if rest[i] == ':' && depth == 0 {
				break
			}
		}
		return "(GMap " + gkCoq(rest[:i]) + " " + gkCoq(rest[i+1:]) + ")"
	}
	return "GOther"
}

func hasNilStructElem(p *schemagen.Program, t *schemagen.Type, v *valgen.Value, inContainer bool) bool {
	switch t.Kind {
	case "struct":
		if v.K == "nil" {
			return inContainer
		}
		s := findStruct(p, t.Name)
		for i, f := range s.Fields {
			slot := v.F[i].V
			if valgen.BasePtr(f) {
				continue
			}
			if hasNilStructElem(p, f.Type, slot, false) {
				return true
			}
		}
	case "list", "set":
		for _, x := range v.L {
			if hasNilStructElem(p, t.Elem, x, true) {
				return true
			}
		}
	case "map":
		for _, kv := range v.M {
			if hasNilStructElem(p, t.Key, kv[0], false) || hasNilStructElem(p, t.Elem, kv[1], true) {
				return true
			}
		}
	}
	return false
}

// hasWideEnum: some enum-typed value lies outside int32
func hasWideEnum(p *schemagen.Program, t *schemagen.Type, v *valgen.Value) bool {
	switch v.K {
	case "int":
		return t.Kind == "enum" && int64(int32(v.I)) != v.I
	case "some":
		return hasWideEnum(p, t, v.P)
	case "list":
		for _, x := range v.L {
			if hasWideEnum(p, t.Elem, x) {
				return true
			}
		}
	case "map":
		for _, kv := range v.M {
			if hasWideEnum(p, t.Key, kv[0]) || hasWideEnum(p, t.Elem, kv[1]) {
				return true
			}
		}
	case "struct":
		s := findStruct(p, t.Name)
		for i, f := range s.Fields {
			if hasWideEnum(p, f.Type, v.F[i].V) {
				return true
			}
		}
	}
	return false
}

func multiMap(v *valgen.Value) bool {
	switch v.K {
	case "map":
		if len(v.M) > 1 {
			return true
		}
		for _, kv := range v.M {
			if multiMap(kv[0]) || multiMap(kv[1]) {
				return true
			}
		}
	case "list":
		for _, x := range v.L {
			if multiMap(x) {
				return true
			}
		}
	case "struct":
		for _, f := range v.F {
			if multiMap(f.V) {
				return true
			}
		}
	case "some":
		return multiMap(v.P)
	}
	return false
}

// orderFields puts the fields of an observed struct dump into schema order (Go field order is not an observable here).
func orderFields(p *schemagen.Program, t *schemagen.Type, v *valgen.Value) {
	switch v.K {
	case "struct":
		if t.Kind != "struct" {
			return
		}
		s := findStruct(p, t.Name)
		if s == nil {
			return
		}
		pos := map[int]int{}
		for i, f := range s.Fields {
			pos[f.ID] = i
		}
		sort.SliceStable(v.F, func(a, b int) bool {
			pa, oka := pos[v.F[a].ID]
			pb, okb := pos[v.F[b].ID]
			if !oka {
				pa = 1 << 20
			}
			if !okb {
				pb = 1 << 20
			}
			return pa < pb
		})
		for _, fv := range v.F {
			for _, f := range s.Fields {
				if f.ID == fv.ID {
					orderFields(p, f.Type, fv.V)
				}
			}
		}
	case "some":
		orderFields(p, t, v.P)
	case "list":
		if t.Elem != nil {
			for _, x := range v.L {
				orderFields(p, t.Elem, x)
			}
		}
	case "map":
		if t.Key != nil {
			for _, kv := range v.M {
				orderFields(p, t.Key, kv[0])
				orderFields(p, t.Elem, kv[1])
			}
		}
	}
}

func main() {
	seed := flag.Uint64("seed", 1, "")
	tier := flag.String("tier", "quick", "")
	out := flag.String("out", "", "")
	tg := flag.String("thriftgo", "", "thriftgo binary built from VERIF_REPO")
	scratch := flag.String("scratch", "", "scratch directory for the generated module")
	flag.Parse()
	repo := os.Getenv("VERIF_REPO")
	if repo == "" {
		repo = "/repo"
	}
	if *out == "" || *tg == "" || *scratch == "" {
		fmt.Fprintln(os.Stderr, "usage: c02 -seed N -tier quick|thorough -out DIR -thriftgo BIN -scratch DIR")
		os.Exit(2)
	}
	r := rng.New(*seed)
	nProg, nVal, sets, perShard := 3, 3, quickSets, 700
	if *tier == "thorough" {
		nProg, nVal, sets, perShard = 5, 6, thoroughSets, 1500
	}
	st := &stats{Schema: map[string]int{}, CaseKinds: map[string]int{}, ReadKinds: map[string]int{}, ObsErr: map[string]int{},
		OptionSets: map[string]string{},
		Rule:       "a case is non-trivial when its value / input has at least 2 fields or one container; distinct = distinct (struct, option set, value or input bytes)"}
	for _, o := range sets {
		st.OptionSets[o.Key] = o.Options
	}

	// 1. programs and units
	b := gendrv.New(*scratch, *tg, repo)
	var progs []*schemagen.Program
	for i := 0; i < nProg; i++ {
		pp := schemagen.DefaultParams()
		if i%2 == 1 || i == 0 {
			pp.StructKeys = false // value_type_in_container only compiles without struct-typed map keys
		}
		if i%5 == 4 {
			pp.MaxFiles, pp.MaxStructs, pp.MaxFields = 1, 2, 5
		}
		if i%4 == 2 {
			pp.BaseTypedefs = false
		}
		pr := r.Fork()
		if i == 0 {
			pr = rng.New(20260923) // regression corpus: the first program does not depend on VERIF_SEED
		}
		p := schemagen.Generate(pr, pp, fmt.Sprintf("p%d", i))
		// containers of struct-likes whose neighbouring elements set different optional members
		schemagen.AddProbe(p)
		// declared structs named like the synthesized <method>_args / <method>_result / <Svc><Method>Args
		schemagen.AddNameCoincidence(p)
		// struct-likes that refer to each other (forward reference, optional fields, containers, union member)
		schemagen.AddMutualRecursion(p)
		// a small service per file: its synthesized <fn>_args / <fn>_result structs are ordinary schemas
		schemagen.AddServices(r.Fork(), p, schemagen.ServiceParams{MaxServices: 1, MaxFuncs: 2, MaxArgs: 3, MaxThrows: 1, Collide: false, TypeDepth: 2})
		for _, sv := range p.Services() {
			for _, fn := range sv.Functions {
				for k, t := range fn.Throws { // keep exception field names away from "success" (a C01/C08 matter)
					t.Name = fmt.Sprintf("exc%d", k+1)
				}
			}
		}
		progs = append(progs, p)
		for _, o := range sets {
			oo := o
			if o.SIC && p.HasStructKeys() {
				// struct values as map keys do not compile (slices are not comparable): C01's concern
				oo.SIC = false
				oo.Options = strings.ReplaceAll(strings.ReplaceAll(o.Options, "value_type_in_container,", ""), "value_type_in_container", "")
			}
			if p.HasAliasUnsafeTypedefs() {
				// typedef of a plain base type or of a struct-like + use_type_alias=false does not compile (assignments
				// without conversion; the named struct type has no methods): C01 / C20 own that finding
				oo.Options = strings.ReplaceAll(strings.ReplaceAll(oo.Options, "use_type_alias=false,", ""), "use_type_alias=false", "")
			}
			b.Add(&gendrv.Unit{Key: oo.Key + "/" + p.Key, Prog: p, Options: oo.Options})
		}
	}
	st.Programs = len(progs)
	if err := b.Generate(); err != nil {
		fmt.Fprintln(os.Stderr, "generate:", err)
		os.Exit(1)
	}
	// a program counts as rejected by the implementation when thriftgo refuses it under the default
	// options; a rejection under another option set only drops that unit (and is reported)
	rejectedProg := map[string]bool{}
	for _, rj := range b.Rejected {
		if strings.HasPrefix(rj.Unit.Key, "o0/") {
			rejectedProg[rj.Unit.Prog.Key] = true
		} else {
			st.RejectedUnits++
		}
		if len(st.RejectedSample) < 3 {
			st.RejectedSample = append(st.RejectedSample, rj.Unit.Key+": "+lastLine(rj.Output))
		}
	}
	st.RejectedByImpl = len(rejectedProg)
	if err := b.Build(); err != nil {
		fmt.Fprintln(os.Stderr, "build:", err)
		os.Exit(1)
	}
	st.Units = len(b.Units)
	progIndex := map[string]int{}
	for i, p := range progs {
		progIndex[p.Key] = i
	}
	setOf := func(u *gendrv.Unit) optSet {
		k := strings.SplitN(u.Key, "/", 2)[0]
		for _, o := range sets {
			if o.Key == k {
				oo := o
				if o.SIC && !strings.Contains(u.Options, "value_type_in_container") {
					oo.SIC = false
				}
				return oo
			}
		}
		return sets[0]
	}

	// 2. vectors per program (shared by all option sets)
	vectors := map[string][]*vector{}
	for _, p := range progs {
		if rejectedProg[p.Key] {
			continue
		}
		p.Stats(st.Schema)
		gw := &valgen.G{R: r.Fork(), Prog: p, P: valgen.DefaultParams()}
		ge := &valgen.G{R: r.Fork(), Prog: p, P: valgen.DefaultParams()}
		ge.P.Edge = true
		for _, s := range allStructs(p) {
			st.Structs++
			if s.Synth {
				st.SynthStructs++
			}
			nv := nVal
			if isFixture(s) && *tier != "thorough" {
				nv = 1 // the fixed probe / name-coincidence families: one random value each keeps quick near its cost
			}
			for k := 0; k < nv; k++ {
				g, edge := gw, false
				if k == nVal-1 {
					g, edge = ge, true
				}
				v := g.Struct(s, r.Range(0, 3))
				vec := &vector{S: s, V: v, Edge: edge, Light: isFixture(s) && *tier != "thorough"}
				if w, err := valgen.ToWire(p, s, v); err == nil {
					vec.W = w
				}
				vectors[p.Key] = append(vectors[p.Key], vec)
				st.Values++
			}
			if valgen.StructHasStructContainer(s) {
				np := 1
				if s.Name == "PrHolder" || *tier == "thorough" {
					np = 2
				}
				for k := 0; k < np; k++ {
					v := gw.Neighbours(s, 1)
					vec := &vector{S: s, V: v, Probe: true}
					if w, err := valgen.ToWire(p, s, v); err == nil {
						vec.W = w
					}
					vectors[p.Key] = append(vectors[p.Key], vec)
					st.Values++
					st.NeighbourVectors++
				}
			}
		}
	}

	// 3. commands
	var cmds []gendrv.Cmd
	var pend []*pending
	add := func(pd *pending, verb string, args ...string) {
		pd.cmd = len(cmds)
		cmds = append(cmds, gendrv.Cmd{Verb: verb, Args: args})
		pend = append(pend, pd)
	}
	for _, u := range b.Units {
		p := u.Prog
		if rejectedProg[p.Key] {
			continue
		}
		o := setOf(u)
		pi := progIndex[p.Key]
		for _, s := range allStructs(p) {
			add(&pending{kind: "shape", prog: pi, unit: u, os: o, vec: &vector{S: s}}, "shape", u.Key, drvKey(u, s))
		}
		rr := rng.New(*seed ^ uint64(pi)*7919 ^ hashStr(o.Key))
		for vi, vec := range vectors[p.Key] {
			s := vec.S
			if o.SIC && hasNilStructElem(p, &schemagen.Type{Kind: "struct", Name: s.QName()}, vec.V, false) {
				st.SkippedSIC++
				continue
			}
			if o.Enum32 && hasWideEnum(p, &schemagen.Type{Kind: "struct", Name: s.QName()}, vec.V) {
				st.SkippedEnum32++ // the Go type is int32: the value does not exist there
				continue
			}
			add(&pending{kind: "write", prog: pi, unit: u, os: o, vec: vec}, "write", u.Key, drvKey(u, s), vec.V.JSON())
			if vec.W == nil || (vi%o.Reads != 0 && !vec.Probe) {
				continue
			}
			if o.SIC {
				st.ReadVectorsUnderSIC++
			}
			rd := func(kind string, w *valgen.W, bs []byte, zero bool, src *valgen.Value) {
				if w != nil {
					bs = w.Enc()
				}
				init := "new"
				if zero {
					init = "zero"
				}
				add(&pending{kind: "read", prog: pi, unit: u, os: o, vec: vec, rkind: kind, input: bs, zero: zero, src: src},
					"read", u.Key, drvKey(u, s), hex.EncodeToString(bs), init)
			}
			w := vec.W
			rd("valid", w, nil, false, vec.V)
			rd("valid_zero_init", w, nil, true, vec.V)
			if o.Key != "o0" || vec.Probe || vec.Light {
				if ins := valgen.AllInsertions(rr, s, w); len(ins) > 0 {
					rd(valgen.PInsertUnknown, ins[rr.Intn(len(ins))], nil, false, vec.V)
				}
				if x := valgen.NestedUnknown(rr, p, s, w); x != nil && (vec.Probe || vec.Light) {
					rd(valgen.PNestedUnknown, x, nil, false, nil)
				}
				continue
			}
			ins := valgen.AllInsertions(rr, s, w)
			for k, x := range ins {
				if *tier == "thorough" || vi%nVal == 0 || k == 0 || k == len(ins)-1 || k == len(ins)/2 {
					rd(valgen.PInsertUnknown, x, nil, false, vec.V)
				}
			}
			if len(w.Fields) > 0 {
				i := rr.Intn(len(w.Fields))
				for k, x := range valgen.AllRetags(rr, w, i) {
					if *tier == "thorough" || vi%nVal == 0 || k%3 == vi%3 {
						rd(valgen.PRetag, x, nil, false, nil)
					}
				}
				rd(valgen.PDelete, valgen.DeleteAt(w, rr.Intn(len(w.Fields))), nil, false, nil)
				for i, wf := range w.Fields {
					for _, f := range s.Fields {
						if f.ID == int(wf.ID) && f.Req == "required" {
							rd(valgen.PDeleteReq, valgen.DeleteAt(w, i), nil, false, nil)
						}
					}
				}
				// duplicate: the same field again, with the value of another vector's encoding when possible
				j := rr.Intn(len(w.Fields))
				dup := valgen.InsertAt(w, rr.Intn(len(w.Fields)+1), w.Fields[j])
				rd(valgen.PDuplicate, dup, nil, false, nil)
				rd(valgen.PShuffle, valgen.Shuffle(rr, w), nil, false, nil)
			}
			if x := valgen.NestedUnknown(rr, p, s, w); x != nil {
				rd(valgen.PNestedUnknown, x, nil, false, nil)
			}
			enc := w.Enc()
			for k := 0; k < 3 && len(enc) > 1; k++ {
				rd("truncate", nil, enc[:rr.Intn(len(enc))], false, nil)
			}
			// two different values of the same struct read one after the other into one object are
			// covered by zero/new init; an encoding followed by trailing bytes:
			rd("trailing", nil, append(append([]byte{}, enc...), 0x7f, 0x00, 0x01), false, vec.V)
		}
	}

	// 4. run
	results, err := b.Run(cmds)
	if err != nil {
		fmt.Fprintln(os.Stderr, "run:", err)
		os.Exit(1)
	}

	// 5. cases, one writer per program
	writers := make([]*casefile.Writer, len(progs))
	var shards []string
	distinct := map[[32]byte]bool{}
	refBytes := map[string]string{} // prog/struct/value index -> hex bytes under o0
	type wr struct {
		Err   string `json:"err"`
		Bytes string `json:"bytes"`
	}
	getW := func(pi int) *casefile.Writer {
		if writers[pi] == nil {
			p := progs[pi]
			dir := filepath.Join(*out, p.Key)
			os.MkdirAll(dir, 0o755)
			pre := "From Verif Require Import Base.Bytes Base.BE Wire.TType Wire.WVal Wire.Codec Wire.Schema Wire.Value Wire.Std Corr.C02.\n" +
				"From Coq Require Import List NArith ZArith String.\nImport ListNotations.\nOpen Scope string_scope.\n" +
				coqfmt.FastPreamble +
				"Definition E : env := " + p.CoqWith(allStructs(p)[len(p.Structs()):]) + ".\n" +
				"Definition mismatches := mismatches_from E N0.\n"
			writers[pi] = casefile.New(dir, pre, perShard)
		}
		return writers[pi]
	}
	vecID := func(pd *pending) string {
		return fmt.Sprintf("%s/%s/%p", progs[pd.prog].Key, pd.vec.S.QName(), pd.vec)
	}
	// first pass: reference bytes under o0
	for _, pd := range pend {
		if pd.kind == "write" && pd.os.Key == "o0" {
			var o wr
			json.Unmarshal(results[pd.cmd], &o)
			if o.Err == "ok" {
				refBytes[vecID(pd)] = o.Bytes
			}
		}
	}
	for _, pd := range pend {
		p := progs[pd.prog]
		w := getW(pd.prog)
		res := results[pd.cmd]
		s := pd.vec.S
		desc := map[string]interface{}{"kind": pd.kind, "unit": pd.unit.Key, "options": pd.unit.Options, "struct": s.QName(),
			"program": p, "observed": json.RawMessage(res)}
		var generic map[string]interface{}
		json.Unmarshal(res, &generic)
		if generic["panic"] == true && pd.kind != "write" {
			// the driver itself failed (harness bug or unexpected shape): make it visible as a correspondence failure
			desc["driver_panic"] = generic["msg"]
		}
		switch pd.kind {
		case "shape":
			var o struct {
				Fields []struct {
					Name   string `json:"name"`
					ID     int    `json:"id"`
					Req    string `json:"req"`
					Kind   string `json:"kind"`
					Getter bool   `json:"getter"`
					IsSet  bool   `json:"isset"`
				} `json:"fields"`
			}
			json.Unmarshal(res, &o)
			var fs []string
			for _, f := range o.Fields {
				req := map[string]string{"required": "Required", "optional": "Optional", "default": "Default"}[f.Req]
				fs = append(fs, fmt.Sprintf("(mksf %s %s %s %s %s %s)", coqfmt.BytesF(f.Name), coqfmt.ZF(int64(f.ID)), req, gkCoq(f.Kind),
					coqfmt.Bool(f.Getter), coqfmt.Bool(f.IsSet)))
			}
			term := fmt.Sprintf("(CShape %s %s %s)", coqfmt.BytesF(s.QName()), pd.os.coq(), coqfmt.List(fs))
			w.Add(term, desc)
			st.CaseKinds["shape"]++
		case "write":
			var o wr
			json.Unmarshal(res, &o)
			if generic["panic"] == true {
				o.Err = "panic"
			}
			bs, _ := hex.DecodeString(o.Bytes)
			desc["value"] = pd.vec.V
			desc["edge"] = pd.vec.Edge
			term := fmt.Sprintf("(CWrite %s %s %s %s %s)", coqfmt.BytesF(s.QName()), pd.os.coq(), pd.vec.V.Coq(), obsErr(o.Err), coqfmt.BytesF(string(bs)))
			w.Add(term, desc)
			st.CaseKinds["write"]++
			st.ObsErr["write:"+o.Err]++
			distinct[sha256.Sum256([]byte("w"+s.QName()+pd.os.Key+pd.vec.V.JSON()))] = len(pd.vec.V.F) >= 2
			if pd.os.Key != "o0" && !pd.os.Reorder && o.Err == "ok" && !multiMap(pd.vec.V) {
				if ref, ok := refBytes[vecID(pd)]; ok {
					rb, _ := hex.DecodeString(ref)
					w.Add(fmt.Sprintf("(CSame %s %s %s)", coqfmt.BytesF(s.QName()), coqfmt.BytesF(string(rb)), coqfmt.BytesF(string(bs))),
						map[string]interface{}{"kind": "same", "unit": pd.unit.Key, "options": pd.unit.Options, "struct": s.QName(), "program": p,
							"value": pd.vec.V, "ref_bytes": ref, "bytes": o.Bytes})
					st.CaseKinds["same"]++
				}
			}
		case "read":
			var o struct {
				Err     string            `json:"err"`
				Dump    *valgen.Value     `json:"dump"`
				Getters []json.RawMessage `json:"getters"`
				IsSet   []json.RawMessage `json:"isset"`
				Rewrite wr                `json:"rewrite"`
			}
			if err := json.Unmarshal(res, &o); err != nil {
				desc["parse_error"] = err.Error()
			}
			if generic["panic"] == true {
				o.Err = "panic"
			}
			dump := "VNil"
			var getters, issets []string
			if o.Err == "ok" && o.Dump != nil {
				top := &schemagen.Type{Kind: "struct", Name: s.QName()}
				d := valgen.RetypeStruct(p, s, o.Dump)
				orderFields(p, top, d)
				dump = d.Coq()
				type idv struct {
					id int
					v  *valgen.Value
				}
				gs := map[int]*valgen.Value{}
				is := map[int]bool{}
				for _, g := range o.Getters {
					var pair []json.RawMessage
					json.Unmarshal(g, &pair)
					var id int
					json.Unmarshal(pair[0], &id)
					v, err := valgen.ParseJSON(string(pair[1]))
					if err != nil {
						v = valgen.Bad()
					}
					gs[id] = v
				}
				for _, g := range o.IsSet {
					var pair []json.RawMessage
					json.Unmarshal(g, &pair)
					var id int
					var bv bool
					json.Unmarshal(pair[0], &id)
					json.Unmarshal(pair[1], &bv)
					is[id] = bv
				}
				for _, f := range s.Fields { // schema order
					if v, ok := gs[f.ID]; ok {
						v = valgen.Retype(p, f.Type, v)
						orderFields(p, f.Type, v)
						getters = append(getters, "("+coqfmt.ZF(int64(f.ID))+", "+v.Coq()+")")
					}
					if bv, ok := is[f.ID]; ok {
						issets = append(issets, "("+coqfmt.ZF(int64(f.ID))+", "+coqfmt.Bool(bv)+")")
					}
				}
			}
			src := "None"
			if pd.src != nil {
				src = "(Some " + pd.src.Coq() + ")"
				desc["source_value"] = pd.src
			}
			rwb, _ := hex.DecodeString(o.Rewrite.Bytes)
			rwe := o.Rewrite.Err
			if rwe == "" {
				rwe = "ok"
			}
			desc["input"] = hex.EncodeToString(pd.input)
			desc["perturbation"] = pd.rkind
			term := fmt.Sprintf("(CRead %s %s %s %s %s %s %s %s %s %s %s)", coqfmt.BytesF(s.QName()), pd.os.coq(), coqfmt.Bool(pd.zero),
				coqfmt.BytesF(string(pd.input)), src, obsErr(o.Err), dump, coqfmt.List(getters), coqfmt.List(issets),
				obsErr(rwe), coqfmt.BytesF(string(rwb)))
			w.Add(term, desc)
			st.CaseKinds["read"]++
			st.ReadKinds[pd.rkind]++
			st.ObsErr["read:"+o.Err]++
			distinct[sha256.Sum256([]byte("r"+s.QName()+pd.os.Key+string(pd.input)))] = len(pd.input) > 8
		}
	}
	total := 0
	for pi, w := range writers {
		if w == nil {
			continue
		}
		if err := w.Close(); err != nil {
			fmt.Fprintln(os.Stderr, err)
			os.Exit(1)
		}
		for _, sh := range w.Shards {
			shards = append(shards, progs[pi].Key+"/"+sh)
		}
		total += w.Total()
	}
	st.Evaluations = total
	for _, nt := range distinct {
		if nt {
			st.Distinct++
		}
	}
	for i, p := range progs {
		if i < 2 {
			st.Samples = append(st.Samples, map[string]interface{}{"program": p.Key, "idl": p.Render()})
		}
	}
	for _, pd := range pend {
		if pd.kind == "read" && len(st.Samples) < 5 && pd.rkind == valgen.PRetag {
			st.Samples = append(st.Samples, map[string]interface{}{"struct": pd.vec.S.QName(), "perturbation": pd.rkind, "input": hex.EncodeToString(pd.input)})
		}
	}
	if err := casefile.WriteMeta(*out, map[string]interface{}{"stats": st, "shards": shards, "total": total}); err != nil {
		fmt.Fprintln(os.Stderr, err)
		os.Exit(1)
	}
}

func lastLine(s string) string {
	lines := strings.Split(strings.TrimSpace(s), "\n")
	for i := len(lines) - 1; i >= 0; i-- {
		l := strings.TrimSpace(lines[i])
		if l != "" && !strings.HasPrefix(l, "[WARN]") && l != "exit status 2" && l != "exit status 1" {
			if len(l) > 300 {
				l = l[:300]
			}
			return l
		}
	}
	return firstLine(s)
}

// isFixture: a struct of the fixed families added by AddProbe / AddNameCoincidence (or synthesized for their services)
func isFixture(s *schemagen.Struct) bool {
	return strings.HasPrefix(s.Name, "Pr") || strings.HasPrefix(s.Name, "pr_")
}

func findStruct(p *schemagen.Program, qname string) *schemagen.Struct {
	if s := p.Struct(qname); s != nil {
		return s
	}
	for _, s := range p.SynthStructs() {
		if s.QName() == qname {
			return s
		}
	}
	return nil
}

// allStructs: declared struct-likes, then the synthesized ones whose qualified name no declared
// struct has (a declared `<m>_args` shadows the synthesized one in the env; the declared one is what
// field types resolve to)
func allStructs(p *schemagen.Program) []*schemagen.Struct {
	out := p.Structs()
	seen := map[string]bool{}
	for _, s := range out {
		seen[s.QName()] = true
	}
	for _, s := range p.SynthStructs() {
		if !seen[s.QName()] {
			seen[s.QName()] = true
			out = append(out, s)
		}
	}
	return out
}

// drvKey: the driver key of the generated type for struct s in unit u (disambiguated by thrift tags
// when several generated types announce the same IDL name)
func drvKey(u *gendrv.Unit, s *schemagen.Struct) string {
	want := make([]string, len(s.Fields))
	for i, f := range s.Fields {
		want[i] = fmt.Sprintf("%s,%d", f.Name, f.ID)
	}
	return u.Pick(s.QName(), want)
}

func firstLine(s string) string {
	s = strings.TrimSpace(s)
	if i := strings.IndexByte(s, '\n'); i >= 0 {
		s = s[:i]
	}
	if len(s) > 300 {
		s = s[:300]
	}
	return s
}

func hashStr(s string) uint64 {
	h := sha256.Sum256([]byte(s))
	var x uint64
	for i := 0; i < 8; i++ {
		x = x<<8 | uint64(h[i])
	}
	return x
}
