package maskkit

import (
	"fmt"
	"strconv"
	"strings"

	"verif/harness/coqfmt"
)

// PSeg mirrors Mask/Spec.v `pseg`.
type PSeg struct {
	Kind string   `json:"k"` // name id starf idx idxstar keyi keys keystar
	Name string   `json:"n,omitempty"`
	ID   int64    `json:"id,omitempty"`
	Ints []int64  `json:"ints,omitempty"`
	Strs []string `json:"strs,omitempty"`
}

type Path []PSeg

// QuoteKey prints a string key inside the fragment of strconv.Unquote the model covers.
func QuoteKey(s string) string {
	var b strings.Builder
	b.WriteByte('"')
	for i := 0; i < len(s); i++ {
		c := s[i]
		switch {
		case c == '"':
			b.WriteString(`\"`)
		case c == '\\':
			b.WriteString(`\\`)
		case c == '\n':
			b.WriteString(`\n`)
		case c == '\t':
			b.WriteString(`\t`)
		case c == '\r':
			b.WriteString(`\r`)
		case c < 0x20 || c >= 0x7f:
			fmt.Fprintf(&b, `\x%02x`, c)
		default:
			b.WriteByte(c)
		}
	}
	b.WriteByte('"')
	return b.String()
}

func joinInts(xs []int64) string {
	var ss []string
	for _, x := range xs {
		ss = append(ss, strconv.FormatInt(x, 10))
	}
	return strings.Join(ss, ",")
}

func (s PSeg) Render() string {
	switch s.Kind {
	case "name":
		return "." + s.Name
	case "id":
		return "." + strconv.FormatInt(s.ID, 10)
	case "starf":
		return ".*"
	case "idx":
		return "[" + joinInts(s.Ints) + "]"
	case "idxstar":
		return "[*]"
	case "keyi":
		return "{" + joinInts(s.Ints) + "}"
	case "keys":
		var ss []string
		for _, x := range s.Strs {
			ss = append(ss, QuoteKey(x))
		}
		return "{" + strings.Join(ss, ",") + "}"
	case "keystar":
		return "{*}"
	}
	return "?"
}

func (p Path) Render() string {
	var b strings.Builder
	b.WriteByte('$')
	for _, s := range p {
		b.WriteString(s.Render())
	}
	return b.String()
}

func coqInts(xs []int64) string {
	var ss []string
	for _, x := range xs {
		ss = append(ss, coqfmt.Z(x))
	}
	return coqfmt.List(ss)
}

func (s PSeg) Coq() string {
	switch s.Kind {
	case "name":
		return "(PName " + coqfmt.Bytes(s.Name) + ")"
	case "id":
		return "(PId " + coqfmt.Z(s.ID) + ")"
	case "starf":
		return "PStarF"
	case "idx":
		return "(PIdx " + coqInts(s.Ints) + ")"
	case "idxstar":
		return "PIdxStar"
	case "keyi":
		return "(PKeyI " + coqInts(s.Ints) + ")"
	case "keys":
		var ss []string
		for _, x := range s.Strs {
			ss = append(ss, coqfmt.Bytes(x))
		}
		return "(PKeyS " + coqfmt.List(ss) + ")"
	case "keystar":
		return "PKeyStar"
	}
	return "PStarF"
}

func (p Path) Coq() string {
	var ss []string
	for _, s := range p {
		ss = append(ss, s.Coq())
	}
	return coqfmt.List(ss)
}

func CoqPaths(ps []Path) string {
	var ss []string
	for _, p := range ps {
		ss = append(ss, p.Coq())
	}
	return coqfmt.List(ss)
}

// ---- query keys

type QKey struct {
	Kind string `json:"k"` // f i s
	Int  int64  `json:"i,omitempty"`
	Str  string `json:"s,omitempty"`
}

func (q QKey) Coq() string {
	switch q.Kind {
	case "f":
		return "(QF " + coqfmt.Z(q.Int) + ")"
	case "i":
		return "(QI " + coqfmt.Z(q.Int) + ")"
	default:
		return "(QS " + coqfmt.Bytes(q.Str) + ")"
	}
}

func CoqProbe(q []QKey) string {
	var ss []string
	for _, k := range q {
		ss = append(ss, k.Coq())
	}
	return coqfmt.List(ss)
}

// ---- generation of conflict-free path sets from a random selection tree

var IntKeys = []int64{0, 1, 2, 3, 7, 10, 63, 64, 100, 4294967296}

// BigKeys: integer keys and indices that a float64 cannot hold exactly (around 2^53, 2^62, the
// end of int64); each is used together with its successor.
var BigKeys = []int64{9007199254740991, 9007199254740992, 9007199254740993, 4611686018427387904, 4611686018427387905,
	1234567890123456789, 9223372036854775806, 4294967296, 36028797018963969}
var StrKeys = []string{"a", "b", "k1", "", "x y", "a\"b", "back\\slash", "*", "$", "1", "tab\there"}

type Gen struct {
	R    R
	D    *Desc
	Pick func(n int) int
}

func (g *Gen) field(f Field) PSeg {
	if f.ID >= 0 && g.R.Chance(1, 2) {
		return PSeg{Kind: "id", ID: int64(f.ID)}
	}
	return PSeg{Kind: "name", Name: f.Name}
}

func (g *Gen) subsetInts(max int) [][]int64 {
	// 1..max disjoint groups of 1..3 keys
	perm := g.perm(len(IntKeys) - 1) // the huge key only on purpose
	var groups [][]int64
	ng := g.R.Range(1, max)
	i := 0
	for k := 0; k < ng && i < len(perm); k++ {
		n := g.R.Range(1, 3)
		var grp []int64
		for j := 0; j < n && i < len(perm); j++ {
			grp = append(grp, IntKeys[perm[i]])
			i++
		}
		groups = append(groups, grp)
	}
	if g.R.Chance(1, 4) {
		// a big key and (as a group of its own, so with its own sub selection) its successor
		b := BigKeys[g.R.Intn(len(BigKeys))]
		groups = append(groups, []int64{b})
		if g.R.Chance(2, 3) {
			groups = append(groups, []int64{b + 1})
		}
	}
	return groups
}

func (g *Gen) subsetStrs(max int, safe bool) [][]string {
	perm := g.perm(len(StrKeys))
	var groups [][]string
	ng := g.R.Range(1, max)
	i := 0
	for k := 0; k < ng && i < len(perm); k++ {
		n := g.R.Range(1, 3)
		var grp []string
		for j := 0; j < n && i < len(perm); j++ {
			grp = append(grp, StrKeys[perm[i]])
			i++
		}
		groups = append(groups, grp)
	}
	return groups
}

func (g *Gen) perm(n int) []int {
	p := make([]int, n)
	for i := range p {
		p[i] = i
	}
	for i := n - 1; i > 0; i-- {
		j := g.R.Intn(i + 1)
		p[i], p[j] = p[j], p[i]
	}
	return p
}

// Select emits the root-to-end paths of a random selection below type t.
func (g *Gen) Select(t *Ty, depth int, prefix Path, out *[]Path) {
	emit := func() { *out = append(*out, append(Path(nil), prefix...)) }
	if t == nil {
		emit()
		return
	}
	ft := g.D.Ft(t)
	if depth <= 0 || ft == "Invalid" || (ft == "Scalar" && t.Kind != "map") || (len(prefix) > 0 && g.R.Chance(1, 5)) {
		emit()
		return
	}
	switch t.Kind {
	case "struct":
		fs := g.D.Structs[t.Name]
		if len(fs) == 0 {
			emit()
			return
		}
		if g.R.Chance(1, 14) {
			*out = append(*out, append(append(Path(nil), prefix...), PSeg{Kind: "starf"}))
			return
		}
		perm := g.perm(len(fs))
		n := g.R.Range(1, 3)
		seen := map[int32]bool{}
		seenN := map[string]bool{}
		for i := 0; i < n && i < len(perm); i++ {
			f := fs[perm[i]]
			if seen[f.ID] || seenN[f.Name] {
				continue // duplicate ids / names in the IDL: keep the selection unambiguous
			}
			seen[f.ID], seenN[f.Name] = true, true
			g.Select(f.Ty, depth-1, append(prefix, g.field(f)), out)
		}
	case "list", "set":
		if g.R.Chance(1, 3) {
			g.Select(t.Elem, depth-1, append(prefix, PSeg{Kind: "idxstar"}), out)
			return
		}
		for _, grp := range g.subsetInts(2) {
			g.Select(t.Elem, depth-1, append(prefix, PSeg{Kind: "idx", Ints: grp}), out)
		}
	case "map":
		if ft == "Scalar" || g.R.Chance(1, 3) {
			g.Select(t.Val, depth-1, append(prefix, PSeg{Kind: "keystar"}), out)
			return
		}
		if ft == "IntMap" {
			for _, grp := range g.subsetInts(2) {
				g.Select(t.Val, depth-1, append(prefix, PSeg{Kind: "keyi", Ints: grp}), out)
			}
		} else {
			for _, grp := range g.subsetStrs(2, true) {
				g.Select(t.Val, depth-1, append(prefix, PSeg{Kind: "keys", Strs: grp}), out)
			}
		}
	default:
		emit()
	}
}

// TypeAt walks a path from the root type; nil when it does not type.
func (g *Gen) TypeAt(p Path) *Ty {
	t := g.D.Root
	for _, s := range p {
		if t == nil {
			return nil
		}
		switch s.Kind {
		case "name", "id":
			if t.Kind != "struct" {
				return nil
			}
			var nt *Ty
			for _, f := range g.D.Structs[t.Name] {
				if (s.Kind == "name" && f.Name == s.Name) || (s.Kind == "id" && int64(f.ID) == s.ID) {
					nt = f.Ty
					break
				}
			}
			t = nt
		case "starf":
			return nil
		case "idx", "idxstar":
			if t.Kind != "list" && t.Kind != "set" {
				return nil
			}
			t = t.Elem
		default:
			if t.Kind != "map" {
				return nil
			}
			t = t.Val
		}
	}
	return t
}

// Split expands every key group into singletons (the same path set, regrouped).
func Split(ps []Path) []Path {
	var out []Path
	var rec func(p Path, i int, acc Path)
	rec = func(p Path, i int, acc Path) {
		if i == len(p) {
			out = append(out, append(Path(nil), acc...))
			return
		}
		s := p[i]
		switch s.Kind {
		case "idx", "keyi":
			for _, x := range s.Ints {
				rec(p, i+1, append(acc, PSeg{Kind: s.Kind, Ints: []int64{x}}))
			}
		case "keys":
			for _, x := range s.Strs {
				rec(p, i+1, append(acc, PSeg{Kind: s.Kind, Strs: []string{x}}))
			}
		default:
			rec(p, i+1, append(acc, s))
		}
	}
	for _, p := range ps {
		rec(p, 0, nil)
	}
	return out
}

// Expansions gives the simple key sequences of a path; a star becomes the given sample keys.
func (g *Gen) Expansions(p Path, limit int) [][]QKey {
	out := [][]QKey{{}}
	t := g.D.Root
	for _, s := range p {
		var keys []QKey
		switch s.Kind {
		case "name", "id":
			var nt *Ty
			if t != nil && t.Kind == "struct" {
				for _, f := range g.D.Structs[t.Name] {
					if (s.Kind == "name" && f.Name == s.Name) || (s.Kind == "id" && int64(f.ID) == s.ID) {
						keys = []QKey{{Kind: "f", Int: int64(f.ID)}}
						nt = f.Ty
						break
					}
				}
			}
			t = nt
		case "starf":
			if t != nil && t.Kind == "struct" {
				for i, f := range g.D.Structs[t.Name] {
					if i < 2 {
						keys = append(keys, QKey{Kind: "f", Int: int64(f.ID)})
					}
				}
			}
			t = nil
		case "idx", "keyi":
			for _, x := range s.Ints {
				keys = append(keys, QKey{Kind: "i", Int: x})
			}
			t = next(t)
		case "idxstar":
			keys = []QKey{{Kind: "i", Int: 0}, {Kind: "i", Int: 5}}
			t = next(t)
		case "keys":
			for _, x := range s.Strs {
				keys = append(keys, QKey{Kind: "s", Str: x})
			}
			t = next(t)
		case "keystar":
			if t != nil && t.Kind == "map" && g.D.Ft(t) == "StrMap" {
				keys = []QKey{{Kind: "s", Str: "a"}, {Kind: "s", Str: "zz"}}
			} else {
				keys = []QKey{{Kind: "i", Int: 1}, {Kind: "i", Int: 9}}
			}
			t = next(t)
		}
		if len(keys) == 0 {
			break
		}
		var nout [][]QKey
		for _, o := range out {
			for _, k := range keys {
				if len(nout) < limit {
					nout = append(nout, append(append([]QKey(nil), o...), k))
				}
			}
		}
		out = nout
	}
	return out
}

func next(t *Ty) *Ty {
	if t == nil {
		return nil
	}
	switch t.Kind {
	case "list", "set":
		return t.Elem
	case "map":
		return t.Val
	}
	return nil
}

// ChildKeys lists query keys worth asking below a position of type t.
func (g *Gen) ChildKeys(t *Ty) []QKey {
	if t == nil {
		return []QKey{{Kind: "f", Int: 1}, {Kind: "i", Int: 0}, {Kind: "s", Str: "a"}}
	}
	var ks []QKey
	switch t.Kind {
	case "struct":
		for _, f := range g.D.Structs[t.Name] {
			ks = append(ks, QKey{Kind: "f", Int: int64(f.ID)})
		}
		ks = append(ks, QKey{Kind: "f", Int: 4}, QKey{Kind: "f", Int: -2}, QKey{Kind: "f", Int: 66})
	case "list", "set":
		ks = []QKey{{Kind: "i", Int: 0}, {Kind: "i", Int: 1}, {Kind: "i", Int: 2}, {Kind: "i", Int: 7}, {Kind: "i", Int: -1}}
	case "map":
		if g.D.Ft(t) == "StrMap" {
			ks = []QKey{{Kind: "s", Str: "a"}, {Kind: "s", Str: "b"}, {Kind: "s", Str: ""}, {Kind: "s", Str: "zz"}}
		} else {
			ks = []QKey{{Kind: "i", Int: 0}, {Kind: "i", Int: 1}, {Kind: "i", Int: 3}, {Kind: "i", Int: 64}}
		}
	default:
		ks = []QKey{{Kind: "f", Int: 1}, {Kind: "i", Int: 0}, {Kind: "s", Str: "a"}}
	}
	return ks
}

// TypeOfKeys follows a key sequence through the descriptor.
func (g *Gen) TypeOfKeys(q []QKey) *Ty {
	t := g.D.Root
	for _, k := range q {
		if t == nil {
			return nil
		}
		switch t.Kind {
		case "struct":
			var nt *Ty
			if k.Kind == "f" {
				for _, f := range g.D.Structs[t.Name] {
					if int64(f.ID) == k.Int {
						nt = f.Ty
						break
					}
				}
			}
			t = nt
		case "list", "set", "map":
			t = next(t)
		default:
			t = nil
		}
	}
	return t
}

// RenderKeys prints a simple key sequence as a path string (for GetPath probes).
func (g *Gen) RenderKeys(q []QKey) string {
	var b strings.Builder
	b.WriteByte('$')
	t := g.D.Root
	for _, k := range q {
		switch k.Kind {
		case "f":
			name := ""
			var nt *Ty
			if t != nil && t.Kind == "struct" {
				for _, f := range g.D.Structs[t.Name] {
					if int64(f.ID) == k.Int {
						name, nt = f.Name, f.Ty
						break
					}
				}
			}
			if name != "" && (k.Int < 0 || g.R.Chance(1, 2)) {
				b.WriteString("." + name)
			} else {
				b.WriteString("." + strconv.FormatInt(k.Int, 10))
			}
			t = nt
		case "i":
			if t != nil && t.Kind == "map" {
				b.WriteString("{" + strconv.FormatInt(k.Int, 10) + "}")
			} else {
				b.WriteString("[" + strconv.FormatInt(k.Int, 10) + "]")
			}
			t = next(t)
		default:
			b.WriteString("{" + QuoteKey(k.Str) + "}")
			t = next(t)
		}
	}
	return b.String()
}
