package main

import (
	"sort"
	"strings"

	"verif/harness/coqfmt"
	"verif/harness/maskkit"
	"verif/harness/rng"
	"verif/harness/schemagen"
	"verif/harness/valgen"
)

// Thrift-path lists for one (struct, value): value-directed, so that indices and keys hit and miss
// what the value holds. "domain" lists are conflict-free selection trees (C14's domain); "wild"
// lists add what lies outside it: stars next to explicit keys, a path and its prefix, '$' alone,
// paths the library refuses (unknown field, wrong container kind, key kind mismatch), paths
// through union / exception typed fields.

type pgen struct {
	r     *rng.R
	prog  *schemagen.Program
	black bool
}

func ftOf(p *schemagen.Program, t *schemagen.Type) string {
	switch t.Kind {
	case "list", "set":
		return "List"
	case "map":
		switch t.Key.Kind {
		case "byte", "i16", "i32", "i64", "enum":
			return "IntMap"
		case "string", "binary":
			return "StrMap"
		}
		return "Scalar"
	case "struct":
		if s := p.Struct(t.Name); s != nil && s.Kind == "struct" {
			return "Struct"
		}
		return "Invalid"
	}
	return "Scalar"
}

func (g *pgen) fieldSeg(f *schemagen.Field) maskkit.PSeg {
	if f.ID >= 0 && g.r.Bool() {
		return maskkit.PSeg{Kind: "id", ID: int64(f.ID)}
	}
	return maskkit.PSeg{Kind: "name", Name: f.Name}
}

func deref(v *valgen.Value) *valgen.Value {
	if v != nil && v.K == "some" {
		return v.P
	}
	return v
}

// groups splits a candidate key list into 1..2 disjoint groups of 1..3 keys.
func groupsInt(r *rng.R, cand []int64) [][]int64 {
	seen := map[int64]bool{}
	var u []int64
	for _, c := range cand {
		if c >= 0 && !seen[c] {
			seen[c] = true
			u = append(u, c)
		}
	}
	for i := len(u) - 1; i > 0; i-- {
		j := r.Intn(i + 1)
		u[i], u[j] = u[j], u[i]
	}
	var out [][]int64
	ng := r.Range(1, 2)
	i := 0
	for k := 0; k < ng && i < len(u); k++ {
		n := r.Range(1, 3)
		var grp []int64
		for j := 0; j < n && i < len(u); j++ {
			grp = append(grp, u[i])
			i++
		}
		out = append(out, grp)
	}
	return out
}

func groupsStr(r *rng.R, cand []string) [][]string {
	seen := map[string]bool{}
	var u []string
	for _, c := range cand {
		if !seen[c] {
			seen[c] = true
			u = append(u, c)
		}
	}
	for i := len(u) - 1; i > 0; i-- {
		j := r.Intn(i + 1)
		u[i], u[j] = u[j], u[i]
	}
	var out [][]string
	ng := r.Range(1, 2)
	i := 0
	for k := 0; k < ng && i < len(u); k++ {
		n := r.Range(1, 3)
		var grp []string
		for j := 0; j < n && i < len(u); j++ {
			grp = append(grp, u[i])
			i++
		}
		out = append(out, grp)
	}
	return out
}

func elemAt(v *valgen.Value, i int64) *valgen.Value {
	if v != nil && v.K == "list" && i >= 0 && int(i) < len(v.L) {
		return v.L[i]
	}
	return nil
}

func firstElem(v *valgen.Value) *valgen.Value {
	if v != nil && v.K == "list" && len(v.L) > 0 {
		return v.L[0]
	}
	if v != nil && v.K == "map" && len(v.M) > 0 {
		return v.M[0][1]
	}
	return nil
}

// sel emits the root-to-end paths of a random conflict-free selection below (t, v).
func (g *pgen) sel(t *schemagen.Type, v *valgen.Value, depth int, prefix maskkit.Path, out *[]maskkit.Path) {
	emit := func() { *out = append(*out, append(maskkit.Path(nil), prefix...)) }
	r := g.r
	v = deref(v)
	ft := ftOf(g.prog, t)
	if depth <= 0 || ft == "Invalid" || (ft == "Scalar" && t.Kind != "map") || (len(prefix) > 0 && r.Chance(1, 4)) {
		emit()
		return
	}
	switch t.Kind {
	case "struct":
		s := g.prog.Struct(t.Name)
		var cand []*schemagen.Field
		for _, f := range s.Fields {
			if ftOf(g.prog, f.Type) != "Invalid" {
				cand = append(cand, f)
			}
		}
		if len(cand) == 0 {
			emit()
			return
		}
		if !g.black && r.Chance(1, 14) {
			*out = append(*out, append(append(maskkit.Path(nil), prefix...), maskkit.PSeg{Kind: "starf"}))
			return
		}
		for i := len(cand) - 1; i > 0; i-- {
			j := r.Intn(i + 1)
			cand[i], cand[j] = cand[j], cand[i]
		}
		n := r.Range(1, 3)
		for i := 0; i < n && i < len(cand); i++ {
			f := cand[i]
			var fv *valgen.Value
			if v != nil && v.K == "struct" {
				fv = v.Field(f.ID)
			}
			g.sel(f.Type, fv, depth-1, append(prefix, g.fieldSeg(f)), out)
		}
	case "list", "set":
		starOK := !g.black || ftOf(g.prog, t.Elem) != "Scalar"
		if starOK && r.Chance(1, 4) {
			g.sel(t.Elem, firstElem(v), depth-1, append(prefix, maskkit.PSeg{Kind: "idxstar"}), out)
			return
		}
		n := int64(0)
		if v != nil && v.K == "list" {
			n = int64(len(v.L))
		}
		cand := []int64{0, 1, n - 1, n, n + 3, 2}
		for _, grp := range groupsInt(r, cand) {
			g.sel(t.Elem, elemAt(v, grp[0]), depth-1, append(prefix, maskkit.PSeg{Kind: "idx", Ints: grp}), out)
		}
	case "map":
		starOK := !g.black || ftOf(g.prog, t.Elem) != "Scalar"
		if ft == "Scalar" || (starOK && r.Chance(1, 4)) {
			g.sel(t.Elem, firstElem(v), depth-1, append(prefix, maskkit.PSeg{Kind: "keystar"}), out)
			return
		}
		valOf := map[string]*valgen.Value{}
		if ft == "IntMap" {
			cand := []int64{0, 1, 7}
			if v != nil && v.K == "map" {
				for _, kv := range v.M {
					if kv[0].K == "int" && kv[0].I >= 0 {
						cand = append(cand, kv[0].I)
						valOf[string(rune(0))+intKey(kv[0].I)] = kv[1]
					}
				}
			}
			for _, grp := range groupsInt(r, cand) {
				g.sel(t.Elem, valOf[string(rune(0))+intKey(grp[0])], depth-1, append(prefix, maskkit.PSeg{Kind: "keyi", Ints: grp}), out)
			}
		} else {
			cand := []string{"zz", "", "a"}
			if v != nil && v.K == "map" {
				for _, kv := range v.M {
					if kv[0].K == "str" || kv[0].K == "bin" {
						cand = append(cand, string(kv[0].S))
						valOf[string(kv[0].S)] = kv[1]
					}
				}
			}
			for _, grp := range groupsStr(r, cand) {
				g.sel(t.Elem, valOf[grp[0]], depth-1, append(prefix, maskkit.PSeg{Kind: "keys", Strs: grp}), out)
			}
		}
	default:
		emit()
	}
}

func intKey(i int64) string { return coqfmt.ZF(i) }

// domain returns a conflict-free path list for the value of struct s.
func (g *pgen) domain(s *schemagen.Struct, v *valgen.Value) []maskkit.Path {
	var out []maskkit.Path
	g.sel(&schemagen.Type{Kind: "struct", Name: s.QName()}, v, g.r.Range(1, 4), nil, &out)
	return out
}

// wild perturbs a domain list into (mostly) something outside C14's domain; the second result
// names the perturbation.
func (g *pgen) wild(s *schemagen.Struct, v *valgen.Value) ([]maskkit.Path, string) {
	base := g.domain(s, v)
	r := g.r
	if len(base) == 0 {
		return base, "none"
	}
	p := base[r.Intn(len(base))]
	switch r.Intn(8) {
	case 0: // '$' alone: everything (white) / nothing (black)
		return []maskkit.Path{{}}, "root"
	case 1: // a path and a proper prefix of it, prefix last (prefix first is an error)
		if len(p) >= 2 {
			return append(append([]maskkit.Path(nil), base...), append(maskkit.Path(nil), p[:len(p)-1]...)), "prefix-last"
		}
		return append([]maskkit.Path{append(maskkit.Path(nil), p[:0]...)}, base...), "prefix-first"
	case 2: // prefix first: the library reports a conflict
		if len(p) >= 2 {
			return append([]maskkit.Path{append(maskkit.Path(nil), p[:len(p)-1]...)}, base...), "prefix-first"
		}
		return base, "none"
	case 3: // a star next to explicit keys at the same position, star last (resets the explicit ones)
		for i, sg := range p {
			st := ""
			switch sg.Kind {
			case "idx":
				st = "idxstar"
			case "keyi", "keys":
				st = "keystar"
			case "name", "id":
				st = "starf"
			}
			if st != "" && r.Chance(1, 2) {
				q := append(append(maskkit.Path(nil), p[:i]...), maskkit.PSeg{Kind: st})
				if st != "starf" {
					q = append(q, p[i+1:]...)
				}
				return append(append([]maskkit.Path(nil), base...), q), "star-after-keys"
			}
		}
		return base, "none"
	case 4: // unknown field: an error
		return append(append([]maskkit.Path(nil), base...), maskkit.Path{{Kind: "name", Name: "no_such_field_"}}), "unknown-field"
	case 5: // index into something that is not a list / key set on a struct: an error
		return append(append([]maskkit.Path(nil), base...), maskkit.Path{{Kind: "idx", Ints: []int64{0}}}), "wrong-kind"
	case 6: // a path through / ending at a union or exception typed field
		for _, f := range s.Fields {
			if ftOf(g.prog, f.Type) == "Invalid" {
				return append(append([]maskkit.Path(nil), base...), maskkit.Path{{Kind: "name", Name: f.Name}}), "union-field"
			}
		}
		return base, "none"
	default: // the same list reversed (order must not matter on the domain)
		rev := make([]maskkit.Path, len(base))
		for i := range base {
			rev[len(base)-1-i] = base[i]
		}
		return rev, "reversed"
	}
}

// ---- Coq terms with cheap literals

func psegCoq(s maskkit.PSeg) string {
	ints := func(xs []int64) string {
		var ss []string
		for _, x := range xs {
			ss = append(ss, coqfmt.ZF(x))
		}
		return coqfmt.List(ss)
	}
	switch s.Kind {
	case "name":
		return "(Mask.Spec.PName " + coqfmt.BytesF(s.Name) + ")"
	case "id":
		return "(Mask.Spec.PId " + coqfmt.ZF(s.ID) + ")"
	case "starf":
		return "Mask.Spec.PStarF"
	case "idx":
		return "(Mask.Spec.PIdx " + ints(s.Ints) + ")"
	case "idxstar":
		return "Mask.Spec.PIdxStar"
	case "keyi":
		return "(Mask.Spec.PKeyI " + ints(s.Ints) + ")"
	case "keys":
		var ss []string
		for _, x := range s.Strs {
			ss = append(ss, coqfmt.BytesF(x))
		}
		return "(Mask.Spec.PKeyS " + coqfmt.List(ss) + ")"
	case "keystar":
		return "Mask.Spec.PKeyStar"
	}
	return "Mask.Spec.PStarF"
}

func pathsCoq(ps []maskkit.Path) string {
	var out []string
	for _, p := range ps {
		var ss []string
		for _, s := range p {
			ss = append(ss, psegCoq(s))
		}
		out = append(out, coqfmt.List(ss))
	}
	return coqfmt.List(out)
}

func renderAll(ps []maskkit.Path) []string {
	out := make([]string, len(ps))
	for i, p := range ps {
		out[i] = p.Render()
	}
	return out
}

func stringsCoq(ss []string) string {
	var out []string
	for _, s := range ss {
		out = append(out, coqfmt.BytesF(s))
	}
	return coqfmt.List(out)
}

func sortedKeys(m map[string]int) []string {
	var ks []string
	for k := range m {
		ks = append(ks, k)
	}
	sort.Strings(ks)
	return ks
}

func hasStar(ps []maskkit.Path) bool {
	for _, p := range ps {
		if strings.Contains(p.Render(), "*") {
			return true
		}
	}
	return false
}

// groupExt: an index / key SET followed by a sub path, then a refinement of a strict subset of
// its members with another field (`$.li[0,1].x`, `$.li[1].y`): inside C14's domain. The members
// are taken from what the value holds, so that the refined and the unrefined members are both
// written and read. Sites: list / set / int-map / string-map of structs, directly in s or one
// struct level down.
type geSite struct {
	prefix maskkit.Path
	kind   string // idx keyi keys
	ints   []int64
	strs   []string
	elem   *schemagen.Struct
}

func (g *pgen) selectable(s *schemagen.Struct) []*schemagen.Field {
	var out []*schemagen.Field
	seenID, seenN := map[int]bool{}, map[string]bool{}
	for _, f := range s.Fields {
		if !seenID[f.ID] && !seenN[f.Name] && ftOf(g.prog, f.Type) != "Invalid" {
			out = append(out, f)
		}
		seenID[f.ID], seenN[f.Name] = true, true
	}
	return out
}

func (g *pgen) geSites(s *schemagen.Struct, v *valgen.Value, prefix maskkit.Path, depth int, out *[]geSite) {
	if v == nil || v.K != "struct" {
		return
	}
	for _, f := range g.selectable(s) {
		fv := deref(v.Field(f.ID))
		if fv == nil {
			continue
		}
		pre := append(append(maskkit.Path(nil), prefix...), g.fieldSeg(f))
		t := f.Type
		var el *schemagen.Type
		switch t.Kind {
		case "list", "set", "map":
			el = t.Elem
		case "struct":
			if depth > 0 {
				if ns := g.prog.Struct(t.Name); ns != nil && ns.Kind == "struct" {
					g.geSites(ns, fv, pre, depth-1, out)
				}
			}
			continue
		default:
			continue
		}
		if el == nil || el.Kind != "struct" {
			continue
		}
		es := g.prog.Struct(el.Name)
		if es == nil || es.Kind != "struct" || len(g.selectable(es)) < 2 {
			continue
		}
		site := geSite{prefix: pre, elem: es}
		switch ftOf(g.prog, t) {
		case "List":
			if fv.K != "list" || len(fv.L) < 2 {
				continue
			}
			site.kind = "idx"
			for i := range fv.L {
				site.ints = append(site.ints, int64(i))
			}
		case "IntMap":
			if fv.K != "map" {
				continue
			}
			site.kind = "keyi"
			for _, kv := range fv.M {
				if kv[0].K == "int" && kv[0].I >= 0 {
					site.ints = append(site.ints, kv[0].I)
				}
			}
			if len(site.ints) < 2 {
				continue
			}
		case "StrMap":
			if fv.K != "map" || len(fv.M) < 2 {
				continue
			}
			site.kind = "keys"
			for _, kv := range fv.M {
				site.strs = append(site.strs, string(kv[0].S))
			}
		default:
			continue
		}
		*out = append(*out, site)
	}
}

func (g *pgen) groupExt(s *schemagen.Struct, v *valgen.Value) ([]maskkit.Path, bool) {
	var sites []geSite
	g.geSites(s, v, nil, 1, &sites)
	if len(sites) == 0 {
		return nil, false
	}
	r := g.r
	site := sites[r.Intn(len(sites))]
	fields := g.selectable(site.elem)
	fp := r.Intn(len(fields))
	fa, fb := fields[fp], fields[(fp+1+r.Intn(len(fields)-1))%len(fields)]
	n := len(site.ints) + len(site.strs)
	perm := make([]int, n)
	for i := range perm {
		perm[i] = i
	}
	for i := n - 1; i > 0; i-- {
		j := r.Intn(i + 1)
		perm[i], perm[j] = perm[j], perm[i]
	}
	m := 2
	if n >= 3 && r.Bool() {
		m = 3
	}
	k := r.Range(1, m-1)
	seg := func(from, to int) maskkit.PSeg {
		sg := maskkit.PSeg{Kind: site.kind}
		for j := from; j < to; j++ {
			if site.kind == "keys" {
				sg.Strs = append(sg.Strs, site.strs[perm[j]])
			} else {
				sg.Ints = append(sg.Ints, site.ints[perm[j]])
			}
		}
		return sg
	}
	mk := func(keys maskkit.PSeg, f *schemagen.Field) maskkit.Path {
		return append(append(append(maskkit.Path(nil), site.prefix...), keys), g.fieldSeg(f))
	}
	// the set with a continuation first, then the refinement of a strict subset of its members
	return []maskkit.Path{mk(seg(0, m), fa), mk(seg(0, k), fb)}, true
}
