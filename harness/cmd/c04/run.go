package main

import (
	"bytes"
	"context"
	"os"
	"os/exec"
	"path/filepath"
	"sort"
	"strings"
	"sync"
	"sync/atomic"
	"syscall"
	"time"
)

// RunRes is what one run of the binary showed (only the five booleans reach Coq).
type RunRes struct {
	Lang       string   `json:"lang"`
	Recursive  bool     `json:"recursive"`
	Exit0      bool     `json:"exit0"`
	Files      bool     `json:"files"`
	Diag       bool     `json:"diag"`
	Trace      bool     `json:"trace"`
	Timeout    bool     `json:"timeout"`
	ExitCode   int      `json:"exit_code"`
	OutputHead string   `json:"output_head"`
	Written    []string `json:"written"`
	argv       []string
}

// capped keeps the first max bytes written to it and counts the rest.
type capped struct {
	mu  sync.Mutex
	buf bytes.Buffer
	max int
	n   int
}

func (c *capped) Write(p []byte) (int, error) {
	c.mu.Lock()
	defer c.mu.Unlock()
	c.n += len(p)
	if room := c.max - c.buf.Len(); room > 0 {
		if len(p) > room {
			c.buf.Write(p[:room])
		} else {
			c.buf.Write(p)
		}
	}
	return len(p), nil
}

var timeLimit = 30 * time.Second

// regularFiles lists the regular files under dir (relative names, sorted).
func regularFiles(dir string) []string {
	var out []string
	filepath.Walk(dir, func(p string, info os.FileInfo, err error) error {
		if err != nil || info == nil {
			return nil
		}
		if info.Mode().IsRegular() {
			if rel, rerr := filepath.Rel(dir, p); rerr == nil {
				out = append(out, filepath.ToSlash(rel))
			}
		}
		return nil
	})
	sort.Strings(out)
	return out
}

// execute runs `thriftgo args...` with cwd root under the memory and time limits and
// projects the observables.  outDir is the -o directory of the run; files that appear
// under root and are not part of the tree count as written files too (a command line
// without a usable -o writes to ./gen-go).
var (
	procNanos int64 // time spent waiting for the binary, summed over all runs
	walkNanos int64 // time spent looking for written files
)

func execute(bin, root, outDir string, tree map[string]string, args []string) *RunRes {
	res := &RunRes{argv: append([]string{"thriftgo"}, args...)}
	tStart := time.Now()
	ctx, cancel := context.WithTimeout(context.Background(), timeLimit)
	defer cancel()
	full := append([]string{"-c", `ulimit -v 4000000; exec "$0" "$@"`, bin}, args...)
	cmd := exec.Command("bash", full...)
	cmd.Dir = root
	out := &capped{max: 1 << 20}
	cmd.Stdout, cmd.Stderr = out, out
	cmd.Stdin = nil
	cmd.SysProcAttr = &syscall.SysProcAttr{Setpgid: true}
	cmd.WaitDelay = 3 * time.Second
	if err := cmd.Start(); err != nil {
		// the producer's own environment is broken, not the binary
		res.ExitCode = -2
		res.Diag = true
		res.OutputHead = "c04: cannot start: " + err.Error()
		return res
	}
	done := make(chan error, 1)
	go func() { done <- cmd.Wait() }()
	var err error
	select {
	case err = <-done:
	case <-ctx.Done():
		res.Timeout = true
		syscall.Kill(-cmd.Process.Pid, syscall.SIGKILL)
		err = <-done
	}
	atomic.AddInt64(&procNanos, int64(time.Since(tStart)))
	tWalk := time.Now()
	defer func() { atomic.AddInt64(&walkNanos, int64(time.Since(tWalk))) }()
	res.ExitCode = 0
	if err != nil {
		res.ExitCode = -1
		if ee, ok := err.(*exec.ExitError); ok {
			res.ExitCode = ee.ExitCode()
		}
	}
	// a group member may outlive the leader
	syscall.Kill(-cmd.Process.Pid, syscall.SIGKILL)
	res.Exit0 = err == nil && !res.Timeout
	out.mu.Lock()
	text := out.buf.String()
	out.mu.Unlock()
	res.Diag = len(text) > 0
	res.Trace = strings.Contains(text, "panic") || strings.Contains(text, "fatal error") || strings.Contains(text, "goroutine ")
	if len(text) > 400 {
		res.OutputHead = text[:400]
	} else {
		res.OutputHead = text
	}
	res.OutputHead = strings.ToValidUTF8(res.OutputHead, "?")
	written := regularFiles(outDir)
	for _, f := range regularFiles(root) {
		if _, ok := tree[f]; !ok {
			written = append(written, "cwd:"+f)
		}
	}
	res.Files = len(written) > 0
	if len(written) > 10 {
		written = written[:10]
	}
	if written == nil {
		written = []string{}
	}
	res.Written = written
	return res
}

// pool runs jobs J at a time.
type pool struct {
	jobs chan func()
	wg   sync.WaitGroup
}

func newPool(j int) *pool {
	p := &pool{jobs: make(chan func(), 4*j)}
	for i := 0; i < j; i++ {
		p.wg.Add(1)
		go func() {
			defer p.wg.Done()
			for f := range p.jobs {
				f()
			}
		}()
	}
	return p
}

func (p *pool) submit(f func()) { p.jobs <- f }
func (p *pool) close()          { close(p.jobs); p.wg.Wait() }
