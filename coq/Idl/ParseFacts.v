(* Idl/ParseFacts.v — facts about the tree layer Idl/Parse.v (property C03):
   numbering of fields and enum values, accumulation of annotations. *)
From Coq Require Import List Bool NArith ZArith Lia Arith.
From Coq.Strings Require Import Byte.
From Verif Require Import Base.Bytes Idl.Ast Idl.AstFacts Idl.Lex Idl.Parse.
Import ListNotations.

(* ---------------------------------------------------------------- field ids *)

(* what a field looks like apart from its id *)
Definition field_sans_id (f : field) : field := set_id f 0%Z.

(* the id the i-th field receives, given the ids handed out before it *)
Definition expected_id (written : Z) (prev : option Z) : Z :=
  if Z.eqb written NOTSET
  then match prev with Some p => wrap32 (p + 1) | None => 1%Z end
  else written.

Lemma assign_ids_length prev l : List.length (assign_ids prev l) = List.length l.
Proof. revert prev. induction l as [|f r IH]; intro prev; cbn; [reflexivity | rewrite IH; reflexivity]. Qed.

(* previous id seen from position i of the output (None before the first field) *)
Definition prev_id (prev0 : option Z) (out : list field) (i : nat) : option Z :=
  match i with
  | O => prev0
  | S j => option_map fd_id (nth_error out j)
  end.

Lemma assign_ids_nth prev l : forall i f,
  nth_error l i = Some f ->
  exists g, nth_error (assign_ids prev l) i = Some g /\
            field_sans_id g = field_sans_id f /\
            fd_id g = expected_id (fd_id f) (prev_id prev (assign_ids prev l) i).
Proof.
  revert prev. induction l as [|x r IH]; intros prev i f Hn.
  - destruct i; discriminate.
  - destruct i as [|i].
    + cbn in Hn. injection Hn as ->. cbn [assign_ids nth_error].
      eexists. split; [reflexivity|]. split; reflexivity.
    + cbn in Hn. cbn [assign_ids].
      set (id := if Z.eqb (fd_id x) NOTSET then match prev with Some p => wrap32 (p + 1) | None => 1%Z end else fd_id x).
      destruct (IH (Some id) i f Hn) as (g & Hg & Hs & Hid).
      exists g. cbn [nth_error]. split; [exact Hg|]. split; [exact Hs|].
      rewrite Hid. f_equal.
      destruct i as [|i]; cbn [prev_id nth_error option_map]; reflexivity.
Qed.

(* ---------------------------------------------------------------- enum values *)

Definition expected_enum_value (written : option Z) (prev : option Z) : Z :=
  match written with
  | Some x => x
  | None => match prev with Some p => wrap64 (p + 1) | None => 0%Z end
  end.

Lemma assign_enum_values_length prev l : List.length (assign_enum_values prev l) = List.length l.
Proof.
  revert prev. induction l as [|[v ov] r IH]; intro prev; cbn; [reflexivity | rewrite IH; reflexivity].
Qed.

Definition prev_value (prev0 : option Z) (out : list enum_value) (i : nat) : option Z :=
  match i with
  | O => prev0
  | S j => option_map ev_value (nth_error out j)
  end.

Lemma assign_enum_values_nth prev l : forall i v ov,
  nth_error l i = Some (v, ov) ->
  exists w, nth_error (assign_enum_values prev l) i = Some w /\
            ev_name w = ev_name v /\ ev_annos w = ev_annos v /\ ev_comments w = ev_comments v /\
            ev_value w = expected_enum_value ov (prev_value prev (assign_enum_values prev l) i).
Proof.
  revert prev. induction l as [|[x ox] r IH]; intros prev i v ov Hn.
  - destruct i; discriminate.
  - destruct i as [|i].
    + cbn in Hn. injection Hn as -> ->. cbn [assign_enum_values nth_error].
      eexists. split; [reflexivity|]. repeat split; reflexivity.
    + cbn in Hn. cbn [assign_enum_values].
      set (y := match ox with Some y => y | None => match prev with Some p => wrap64 (p + 1) | None => 0%Z end end).
      destruct (IH (Some y) i v ov Hn) as (w & Hw & H1 & H2 & H3 & Hval).
      exists w. cbn [nth_error]. split; [exact Hw|]. repeat split; try assumption.
      rewrite Hval. f_equal.
      destruct i as [|i]; cbn [prev_value nth_error option_map]; reflexivity.
Qed.

(* ---------------------------------------------------------------- annotations *)

(* keys in order of first occurrence *)
Fixpoint first_keys (seen : list bytes) (l : list bytes) : list bytes :=
  match l with
  | [] => []
  | k :: r => if existsb (beqb k) seen then first_keys seen r else k :: first_keys (k :: seen) r
  end.

(* the values written for key k, in source order *)
Definition values_of (k : bytes) (l : list (bytes * bytes)) : list bytes :=
  map snd (filter (fun kv => beqb (fst kv) k) l).

(* the grouped form of a sequence of (key, value) pairs *)
Definition grouped (l : list (bytes * bytes)) : annotations :=
  map (fun k => Anno k (values_of k l)) (first_keys [] (map fst l)).

Lemma existsb_beqb_In k l : existsb (beqb k) l = true <-> In k l.
Proof.
  rewrite existsb_exists. split.
  - intros (x & Hx & E). apply beqb_true in E. subst. exact Hx.
  - intro H. exists k. split; [exact H | apply beqb_refl].
Qed.

(* anno_append on a list that has the key: the values of that entry grow *)
Lemma anno_append_in (a : annotations) k v :
  In k (map an_key a) ->
  anno_append a k v =
  (fix upd (a : annotations) :=
     match a with
     | [] => []
     | x :: r => if beqb (an_key x) k then Anno (an_key x) (an_values x ++ [v]) :: r else x :: upd r
     end) a.
Proof.
  induction a as [|x r IH]; intro Hin; [contradiction|].
  cbn [anno_append]. destruct (beqb (an_key x) k) eqn:E; [reflexivity|].
  f_equal. apply IH. destruct Hin as [Hx|Hr]; [|exact Hr].
  cbn in Hx. subst k. rewrite beqb_refl in E. discriminate.
Qed.

Lemma anno_append_notin (a : annotations) k v :
  ~ In k (map an_key a) -> anno_append a k v = a ++ [Anno k [v]].
Proof.
  induction a as [|x r IH]; intro Hn; [reflexivity|].
  cbn [anno_append]. destruct (beqb (an_key x) k) eqn:E.
  - apply beqb_true in E. exfalso. apply Hn. left. exact E.
  - cbn [app]. f_equal. apply IH. intro H. apply Hn. right. exact H.
Qed.

(* general form, for an arbitrary starting accumulator given as the grouped form of a
   prefix: folding Append over l2 starting from (grouped l1) gives grouped (l1 ++ l2) *)
Lemma first_keys_app seen l1 l2 :
  first_keys seen (l1 ++ l2) = first_keys seen l1 ++ first_keys (rev l1 ++ seen) l2.
Proof.
  revert seen. induction l1 as [|k r IH]; intro seen; [reflexivity|].
  cbn [app first_keys rev]. destruct (existsb (beqb k) seen) eqn:E.
  - rewrite IH. f_equal.
    (* seen-sets agree as sets: k is already in seen *)
    clear IH. revert E. generalize (rev r). intros rr E.
    assert (Hset : forall x, existsb (beqb x) ((rr ++ [k]) ++ seen) = existsb (beqb x) (rr ++ seen)).
    { intro x. rewrite <- app_assoc. rewrite !existsb_app. cbn [existsb app].
      destruct (beqb x k) eqn:Ex; [|reflexivity].
      apply beqb_true in Ex. subst x. rewrite E. rewrite !orb_true_r. reflexivity. }
    revert Hset. generalize ((rr ++ [k]) ++ seen) (rr ++ seen). intros s1 s2 Hset.
    revert s1 s2 Hset. induction l2 as [|x l2 IH2]; intros s1 s2 Hset; [reflexivity|].
    cbn [first_keys]. rewrite Hset. destruct (existsb (beqb x) s2); [apply IH2; exact Hset|].
    f_equal. apply IH2. intro y. cbn [existsb]. rewrite Hset. reflexivity.
  - cbn [app]. f_equal. rewrite IH. f_equal. rewrite <- app_assoc. reflexivity.
Qed.

Lemma first_keys_seen_spec seen l k : In k (first_keys seen l) -> ~ In k seen /\ In k l.
Proof.
  revert seen. induction l as [|x r IH]; intros seen H; [contradiction|].
  cbn [first_keys] in H. destruct (existsb (beqb x) seen) eqn:E.
  - destruct (IH _ H) as [H1 H2]. split; [exact H1 | right; exact H2].
  - destruct H as [->|H].
    + split; [|left; reflexivity]. intro Hin. apply existsb_beqb_In in Hin. congruence.
    + destruct (IH _ H) as [H1 H2]. split; [|right; exact H2]. intro Hin. apply H1. right. exact Hin.
Qed.

Lemma first_keys_complete seen l k : In k l -> ~ In k seen -> In k (first_keys seen l).
Proof.
  revert seen. induction l as [|x r IH]; intros seen Hin Hns; [contradiction|].
  cbn [first_keys]. destruct (existsb (beqb x) seen) eqn:E.
  - destruct Hin as [->|Hin]; [apply existsb_beqb_In in E; contradiction | apply IH; assumption].
  - destruct (list_eq_dec Byte.byte_eq_dec x k) as [->|Hne]; [left; reflexivity|].
    right. destruct Hin as [->|Hin]; [contradiction|]. apply IH; [exact Hin|].
    intros [H|H]; [congruence | contradiction].
Qed.

Lemma first_keys_nodup seen l : NoDup (first_keys seen l).
Proof.
  revert seen. induction l as [|x r IH]; intro seen; [constructor|].
  cbn [first_keys]. destruct (existsb (beqb x) seen); [apply IH|].
  constructor; [|apply IH]. intro H. apply first_keys_seen_spec in H. destruct H as [H _]. apply H. left. reflexivity.
Qed.

Lemma values_of_app k l1 l2 : values_of k (l1 ++ l2) = values_of k l1 ++ values_of k l2.
Proof. unfold values_of. rewrite filter_app, map_app. reflexivity. Qed.

Lemma grouped_snoc l k v : grouped (l ++ [(k, v)]) = anno_append (grouped l) k v.
Proof.
  unfold grouped. rewrite map_app. cbn [map fst].
  rewrite first_keys_app. rewrite app_nil_r.
  assert (Hkeys : map an_key (map (fun k0 => Anno k0 (values_of k0 l)) (first_keys [] (map fst l))) = first_keys [] (map fst l)).
  { rewrite map_map. cbn. apply map_id. }
  destruct (in_dec (list_eq_dec Byte.byte_eq_dec) k (map fst l)) as [Hin|Hnin].
  - (* the key occurred before: no new key, its entry gets one more value *)
    assert (E : first_keys (rev (map fst l)) [k] = []).
    { cbn [first_keys]. replace (existsb (beqb k) (rev (map fst l))) with true; [reflexivity|].
      symmetry. apply existsb_beqb_In. apply in_rev. rewrite rev_involutive. exact Hin. }
    rewrite E, app_nil_r.
    rewrite anno_append_in by (rewrite Hkeys; apply first_keys_complete; [exact Hin | intros []]).
    assert (Hnd := first_keys_nodup [] (map fst l)).
    clear Hkeys E Hin.
    induction (first_keys [] (map fst l)) as [|k0 ks IHks]; [reflexivity|].
    cbn [map an_key]. inversion Hnd as [|? ? Hk0 Hnd']; subst.
    destruct (beqb k0 k) eqn:Ek.
    + apply beqb_true in Ek. subst k0. f_equal.
      * cbn [an_key an_values]. rewrite values_of_app. unfold values_of at 2. cbn. rewrite beqb_refl. reflexivity.
      * apply map_ext_in. intros k1 Hk1. f_equal. rewrite values_of_app. unfold values_of at 2. cbn.
        replace (beqb k k1) with false; [cbn; rewrite app_nil_r; reflexivity|].
        symmetry. apply beqb_false. intros ->. contradiction.
    + f_equal.
      * f_equal. rewrite values_of_app. unfold values_of at 2. cbn.
        rewrite beqb_sym, Ek. cbn. rewrite app_nil_r. reflexivity.
      * apply IHks. exact Hnd'.
  - (* a new key: appended at the end with this one value *)
    assert (E : first_keys (rev (map fst l)) [k] = [k]).
    { cbn [first_keys]. replace (existsb (beqb k) (rev (map fst l))) with false; [reflexivity|].
      symmetry. apply not_true_is_false. intro H. apply existsb_beqb_In in H. apply in_rev in H. contradiction. }
    rewrite E. rewrite anno_append_notin.
    2:{ rewrite Hkeys. intro H. apply first_keys_seen_spec in H. tauto. }
    rewrite map_app. cbn [map]. f_equal.
    + apply map_ext_in. intros k1 Hk1. f_equal. rewrite values_of_app. unfold values_of at 2. cbn.
      replace (beqb k k1) with false; [cbn; rewrite app_nil_r; reflexivity|].
      symmetry. apply beqb_false. intros ->. apply first_keys_seen_spec in Hk1. tauto.
    + f_equal. f_equal. rewrite values_of_app. unfold values_of. cbn. rewrite beqb_refl.
      replace (filter (fun kv => beqb (fst kv) k) l) with (@nil (bytes * bytes)); [reflexivity|].
      symmetry. clear E Hkeys. induction l as [|[k1 v1] l IHl]; [reflexivity|].
      cbn. destruct (beqb k1 k) eqn:Ek.
      * apply beqb_true in Ek. subst. exfalso. apply Hnin. left. reflexivity.
      * apply IHl. intro H. apply Hnin. right. exact H.
Qed.

(* annotations_accumulate: folding Annotations.Append over the pairs in source order
   yields the keys in order of first occurrence, each with its values in source order *)
Theorem annos_of_pairs_grouped l : annos_of_pairs l = grouped l.
Proof.
  unfold annos_of_pairs.
  induction l as [|[k v] l IH] using rev_ind; [reflexivity|].
  rewrite fold_left_app. cbn [fold_left fst snd]. rewrite IH. symmetry. apply grouped_snoc.
Qed.
