(* Wire/UnknownDomain.v — when code generated with keep_unknown_fields can WRITE the object it holds
   (property C09).  X.Write refuses an object in exactly two ways that depend on the data: a union
   that does not have exactly one DECLARED member set (members kept in the unknown buffer are not
   counted: generated CountSetFields), and a set with two elements that reflect.DeepEqual makes equal
   (validate_set).  [writable e t x] says that neither occurs anywhere inside x
   (slots that Write does not emit are not looked at).  No proofs in this file.

     writable e t x          x (an object of keep-aware code, of type t) passes the two checks everywhere
     keep_accepts o n so sn v   the decidable hypothesis of the total keep theorems: the object the
                             old code holds after reading what the new code wrote for v is writable *)
From Coq Require Import List ZArith Bool.
From Verif Require Import Base.Bytes Wire.TType Wire.WVal Wire.Schema Wire.Value Wire.Std Wire.Unknown.
Import ListNotations.
Open Scope Z_scope.

Fixpoint writable (e : env) (t : ty) (x : value) {struct x} : bool :=
  match x with
  | VList l =>
      match t with
      | TList a => forallb (writable e a) l
      | TSet a => negb (set_has_dup l) && forallb (writable e a) l
      | _ => true end
  | VMap kvs =>
      match t with
      | TMap a b => forallb (fun kv => writable e a (fst kv) && writable e b (snd kv)) kvs
      | _ => true end
  | VStruct fs =>
      match t with
      | TRef n =>
        match find_struct e n with
        | Some s =>
            (if is_union s then (count_set (s_fields s) (tl fs) =? 1)%nat else true) &&
            forallb (fun p => match find_field (fst p) (s_fields s) with
                              | Some f => negb (present f (snd p)) || writable e (f_ty f) (snd p)
                              | None => true end) fs
        | None => true end
      | _ => true end
  | VSome y => writable e t y
  | _ => true
  end.

Definition keep_accepts (o n : env) (so sn : sschema) (v : value) : bool :=
  match to_wire n sn v with
  | Ok w => match read_new_keep o so w with
            | KOk x => writable o (TRef (s_name so)) x
            | KErr _ => false end
  | Err _ => false
  end.
