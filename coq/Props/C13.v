(* Props/C13.v — property C13: field-mask filtered serialization emits exactly the selected data.
   Statements only; models in Wire/Masked.v (on Wire/Std.v and the field-mask library model
   Mask/Trie.v of property C14), proofs in Wire/MaskedFacts.v.

   cfg : mcfg             generator options field_mask_halfway / field_mask_zero_required (and
                          [pinned]: the list/set pre-count loop of the pinned source, kept only for
                          the witness list_hdr_count_refuted)
   m : option mask        p._fieldmask; None is the nil mask
   to_wire_masked         X.Write under the mask: a raw wire tree whose container headers carry the
                          count computed by the generated pre-count loop
   restrict_mask rq       the value a peer ends up with, defined from the answers of
                          Field / Int / Str alone; restrict_ps black rq the same from a path SET
   The theorems hold for EVERY mask (any tree of the library's FieldMask type, whether or not
   NewFieldMask can build it), every schema, every well-typed value. *)
From Coq Require Import List ZArith Bool Lia.
From Verif Require Import Base.Bytes Base.BE Wire.TType Wire.WVal Wire.Codec Wire.CodecFacts
  Wire.Schema Wire.Value Wire.Std Wire.StdFacts Wire.Masked Wire.MaskedFacts
  Wire.MaskedPathSet Wire.MaskedRead Wire.MaskedReadFacts Wire.MaskedHalfway Wire.MaskedHalfwayFacts
  Wire.MaskedOwn Wire.MaskedOwnFacts Wire.MaskedReadInit.
From Verif Require Mask.Path Mask.Desc Mask.Trie Mask.Spec.
Import ListNotations.
Open Scope Z_scope.

(* ---- well-formed encoding ---- *)

(* the generated pre-count loop gives the number of elements the filtering loop writes: every
   mask, every key function (list index, int key, string key), every list *)
Theorem C13_hdr_count_eq_written : forall A (key : nat -> A -> qkey) (m : option mask) (l : list A),
  hdr_count (option mask) mquery mlive key m l = count_sel (option mask) mquery key m 0 l.
Proof. exact @hdr_count_eq_written_mask. Qed.
Print Assumptions C13_hdr_count_eq_written.

(* every list / set / map header count of what Write emits under a mask equals the number of
   elements that follow, so the bytes are the standard encoding of a generic wire value *)
Theorem C13_masked_well_formed : forall cfg m e s v r,
  pinned cfg = false -> to_wire_masked cfg m e s v = Ok r ->
  counts_ok r = true /\ enc_r r = enc (cook r).
Proof. exact masked_counts. Qed.
Print Assumptions C13_masked_well_formed.

(* ... and it decodes: at byte level, for a well-typed value *)
Theorem C13_masked_bytes_decode : forall cfg m e s v,
  pinned cfg = false -> wf_env e = true -> find_struct e (s_name s) = Some s -> wt e s v = true ->
  (zero_required cfg = true -> zero_okb e = true) ->
  exists bs, write_bytes_masked cfg m e s v = Ok bs /\
    forall rest, read_bytes e s (new_struct e s) (bs ++ rest)
                 = Ok (restrict_mask (wmode cfg) e m (TRef (s_name s)) v).
Proof. exact masked_write_bytes. Qed.
Print Assumptions C13_masked_bytes_decode.

(* historical witness: the pre-count loop of the pinned source (bound = the counter it decrements)
   writes header 2 followed by one element for $.l[3] over four elements; the bytes do not decode *)
From Coq Require Import String.
Local Open Scope string_scope.
Definition w_S : sschema := mkstruct (B "a.S") KStruct [mkfield 1 (B "l") Default (TList TI32) None false].
Definition w_E : env := mkenv [w_S] [].
Definition w_v : value := VStruct [(1, VList [VInt 40; VInt 41; VInt 42; VInt 43])].
Definition w_pinned : mcfg := mkcfg false false true.

Theorem C13_list_hdr_count_refuted :
  exists m r, mask_for w_E w_S false [B "$.l[3]"] = Mask.Trie.Ok m /\
    to_wire_masked w_pinned (Some m) w_E w_S w_v = Ok r /\
    r = RStruct [(T_LIST, 1, RList T_I32 2 [RV (WI32 43)])] /\
    counts_ok r = false /\ dec_struct (enc_r r) = None.
Proof.
  eexists. eexists. split; [vm_compute; reflexivity|]. split; [vm_compute; reflexivity|].
  split; [reflexivity|]. split; vm_compute; reflexivity.
Qed.
Print Assumptions C13_list_hdr_count_refuted.

(* the same input with the loop as generated now: count 1, one element, decodes *)
Example C13_list_hdr_count_now :
  exists m r, mask_for w_E w_S false [B "$.l[3]"] = Mask.Trie.Ok m /\
    to_wire_masked (mkcfg false false false) (Some m) w_E w_S w_v = Ok r /\
    counts_ok r = true /\ dec_struct (enc_r r) = Some (WStruct [(T_LIST, 1, WList T_I32 [WI32 43])], []).
Proof.
  eexists. eexists. split; [vm_compute; reflexivity|]. split; [vm_compute; reflexivity|]. split; vm_compute; reflexivity.
Qed.

(* ---- exactly the selected data ---- *)

(* Write under a mask, decoded by a plain peer into a fresh object, is the restriction of the value *)
Theorem C13_masked_write_spec : forall cfg m e s v,
  wf_env e = true -> find_struct e (s_name s) = Some s -> wt e s v = true ->
  (zero_required cfg = true -> zero_okb e = true) ->
  exists r, to_wire_masked cfg m e s v = Ok r /\
            read_new e s (cook r) = Ok (restrict_mask (wmode cfg) e m (TRef (s_name s)) v).
Proof. exact masked_write_value. Qed.
Print Assumptions C13_masked_write_spec.

(* plain Write, Read under a mask into a fresh object: exactly the selected part is stored, the
   rest is skipped without error (filtered required fields do not count as missing) *)
Theorem C13_masked_read_spec : forall cfg m e s v,
  wf_env e = true -> find_struct e (s_name s) = Some s -> wt e s v = true ->
  exists wfs, to_wire e s v = Ok (WStruct wfs) /\
              read_new_masked cfg m e s (WStruct wfs) = Ok (restrict_mask RqDrop e m (TRef (s_name s)) v).
Proof. exact masked_read_value. Qed.
Print Assumptions C13_masked_read_spec.

(* the restriction in terms of a path SET: whenever the mask answers along every position as the
   path-set semantics of C14 does (C14's build_sound: every mask NewFieldMask builds from a
   conflict-free, well-typed path list; black lists without a trailing star), restrict_mask is
   restrict_ps: white list - present iff a path covers the position or runs through it; black
   list - iff no path ends at it or above it; required fields kept / zeroed / dropped *)
Theorem C13_restrict_mask_pathset : forall black ps m rq e t v,
  (forall q, Mask.Trie.walk m q = Mask.Spec.spec_pass black ps q) ->
  restrict_mask rq e m t v = restrict_ps black rq e ps t v.
Proof. exact restrict_mask_pathset. Qed.
Print Assumptions C13_restrict_mask_pathset.

Theorem C13_masked_write_pathset : forall cfg black ps m e s v,
  wf_env e = true -> find_struct e (s_name s) = Some s -> wt e s v = true ->
  (zero_required cfg = true -> zero_okb e = true) ->
  (forall q, Mask.Trie.walk m q = Mask.Spec.spec_pass black ps q) ->
  exists r, to_wire_masked cfg m e s v = Ok r /\
            read_new e s (cook r) = Ok (restrict_ps black (wmode cfg) e ps (TRef (s_name s)) v).
Proof. exact masked_write_pathset. Qed.
Print Assumptions C13_masked_write_pathset.

Theorem C13_masked_read_pathset : forall cfg black ps m e s v,
  wf_env e = true -> find_struct e (s_name s) = Some s -> wt e s v = true ->
  (forall q, Mask.Trie.walk m q = Mask.Spec.spec_pass black ps q) ->
  exists wfs, to_wire e s v = Ok (WStruct wfs) /\
              read_new_masked cfg m e s (WStruct wfs) = Ok (restrict_ps black RqDrop e ps (TRef (s_name s)) v).
Proof. exact masked_read_pathset. Qed.
Print Assumptions C13_masked_read_pathset.

(* the residual path sets of the specification answer, along every position, as Mask.Spec.spec_pass *)
Theorem C13_ps_walk_spec : forall black ps q, ps_walk black ps q = Mask.Spec.spec_pass black ps q.
Proof. exact ps_walk_spec. Qed.
Print Assumptions C13_ps_walk_spec.

(* ---- the nil mask ---- *)

(* a nil mask behaves exactly like code generated without the option: same wire value or same
   error, same bytes; same result of Read for every start object and every input *)
Theorem C13_nil_mask_identity_write : forall cfg e s v,
  map_res cook (to_wire_masked cfg None e s v) = to_wire e s v.
Proof. exact nil_mask_write. Qed.
Print Assumptions C13_nil_mask_identity_write.

Theorem C13_nil_mask_identity_bytes : forall cfg e s v, pinned cfg = false ->
  write_bytes_masked cfg None e s v = write_bytes e s v.
Proof. exact nil_mask_write_bytes. Qed.
Print Assumptions C13_nil_mask_identity_bytes.

Theorem C13_nil_mask_identity_read : forall cfg e s init w,
  from_wire_masked cfg None e s init w = from_wire e s init w.
Proof. exact nil_mask_read. Qed.
Print Assumptions C13_nil_mask_identity_read.

Theorem C13_nil_mask_identity_read_bytes : forall cfg e s init bs,
  read_bytes_masked cfg None e s init bs = read_bytes e s init bs.
Proof. exact nil_mask_read_bytes. Qed.
Print Assumptions C13_nil_mask_identity_read_bytes.

(* '*'-like selection: the nil mask restricts to the plain round trip of property C02 *)
Theorem C13_restrict_nil_mask : forall rq e t v, restrict_mask rq e None t v = norm e t v.
Proof. exact restrict_nil_mask. Qed.
Print Assumptions C13_restrict_nil_mask.

(* ---- sub masks apply recursively ---- *)

Theorem C13_submask_recursive : forall rq e m n s fs,
  find_struct e n = Some s ->
  restrict_mask rq e m (TRef n) (VStruct fs) =
  VStruct (map (fun p =>
     match find_field (fst p) (s_fields s) with
     | Some f =>
         if present f (snd p) && snd (mquery m (QF (f_id f))) then
           (fst p, if base_ptr f
                   then match snd p with VSome x => VSome (restrict_mask rq e (fst (mquery m (QF (f_id f)))) (f_ty f) x) | o => o end
                   else restrict_mask rq e (fst (mquery m (QF (f_id f)))) (f_ty f) (snd p))
         else restrict_fn (option mask) mquery None e rq m s p
     | None => p end) fs).
Proof. exact submask_recursive. Qed.
Print Assumptions C13_submask_recursive.

(* the code: the payload of a selected field is written under the sub mask Field(id) returned
   (Set_FieldMask / Pass_FieldMask), list elements under the sub mask Int(i) returned *)
Theorem C13_submask_field : forall cfg e m s f x,
  find_field (f_id f) (s_fields s) = Some f -> present f x = true -> base_ptr f = false ->
  snd (mquery m (QF (f_id f))) = true ->
  wfield_m (option mask) mquery mlive None mall cfg e m s (f_id f, x) =
  bind (to_wm_mask cfg e (fst (mquery m (QF (f_id f)))) (f_ty f) x)
       (fun r => Ok (Some (ttype_of e (f_ty f), f_id f, r))).
Proof. exact submask_field. Qed.
Print Assumptions C13_submask_field.

(* ---- end to end: masks built by NewFieldMask from a path list of C14's domain ----

   in_mask_domain e s black strs ps gs: the path strings strs are the renderings of the syntax
   trees ps, which are grammatical and typed against the descriptor of struct s (elaboration gs)
   and conflict free; black lists have no path ending with a star.  C14's build_sound
   (Mask/C14Facts.v) supplies "the mask answers as the path set does"; no premise about the mask
   is left. *)

(* for every schema, well-typed value and in-domain path list: NewFieldMask succeeds, Write under
   the mask succeeds, and the bytes (followed by anything) decode, for a plain peer reading into a
   fresh object, to the value restricted to the path SET *)
Theorem C13_masked_write_end_to_end : forall cfg e s black strs ps gs v,
  pinned cfg = false -> wf_env e = true -> find_struct e (s_name s) = Some s -> wt e s v = true ->
  (zero_required cfg = true -> zero_okb e = true) ->
  in_mask_domain e s black strs ps gs ->
  exists m bs, mask_for e s black strs = Mask.Trie.Ok m /\
    write_bytes_masked cfg (Some m) e s v = Ok bs /\
    forall rest, read_bytes e s (new_struct e s) (bs ++ rest)%list
                 = Ok (restrict_ps black (wmode cfg) e (Mask.Spec.path_set gs) (TRef (s_name s)) v).
Proof. exact masked_write_end_to_end. Qed.
Print Assumptions C13_masked_write_end_to_end.

Theorem C13_masked_read_end_to_end : forall cfg e s black strs ps gs v,
  wf_env e = true -> find_struct e (s_name s) = Some s -> wt e s v = true ->
  in_mask_domain e s black strs ps gs ->
  exists m bs, mask_for e s black strs = Mask.Trie.Ok m /\
    write_bytes e s v = Ok bs /\
    forall rest, read_bytes_masked cfg (Some m) e s (new_struct e s) (bs ++ rest)%list
                 = Ok (restrict_ps black RqDrop e (Mask.Spec.path_set gs) (TRef (s_name s)) v).
Proof. exact masked_read_end_to_end. Qed.
Print Assumptions C13_masked_read_end_to_end.

Theorem C13_restrict_built_pathset : forall e s black strs ps gs rq t v,
  in_mask_domain e s black strs ps gs ->
  exists m, mask_for e s black strs = Mask.Trie.Ok m /\
            restrict_mask rq e (Some m) t v = restrict_ps black rq e (Mask.Spec.path_set gs) t v.
Proof. exact restrict_built_pathset. Qed.
Print Assumptions C13_restrict_built_pathset.

(* ---- Read under a mask on ARBITRARY wire input ----

   For any bytes that the plain code reads into a fresh object (unknown fields, duplicates, any
   field order, trailing bytes), Read under ANY mask succeeds as well - the rest is skipped without
   error, filtered required fields are not reported missing - and stores exactly what a plain
   reader with no field required reads from the message restricted to the mask (filter_w). *)
Theorem C13_masked_read_any_bytes : forall cfg m e s bs v0,
  find_struct e (s_name s) = Some s ->
  read_bytes e s (new_struct e s) bs = Ok v0 ->
  exists v w rest, dec_struct bs = Some (w, rest) /\
    read_bytes_masked cfg m e s (new_struct e s) bs = Ok v /\
    read_new (relax e) (relax_s s) (filter_w_mask e m (TRef (s_name s)) w) = Ok v.
Proof. exact masked_read_any_bytes. Qed.
Print Assumptions C13_masked_read_any_bytes.

(* the same for EVERY start object (Read into an object that already holds values), wire level *)
Theorem C13_masked_read_any_init : forall cfg m e s fs0 wfs v0,
  find_struct e (s_name s) = Some s ->
  from_wire e s (VStruct fs0) (WStruct wfs) = Ok v0 ->
  exists v, from_wire_masked cfg m e s (VStruct fs0) (WStruct wfs) = Ok v /\
            from_wire (relax e) (relax_s s) (VStruct fs0)
                      (filter_w_mask e m (TRef (s_name s)) (WStruct wfs)) = Ok v.
Proof. exact masked_read_any_init. Qed.
Print Assumptions C13_masked_read_any_init.

(* the two halves for every wire value, every type and every selector *)
Theorem C13_masked_read_total : forall e w t v, from_w e t w = Ok v ->
  forall m, exists v', from_wm_mask e m t w = Ok v'.
Proof. intros e w t v H m. exact (from_wm_total (option mask) mquery e w t v H m). Qed.
Print Assumptions C13_masked_read_total.

Theorem C13_masked_read_filter : forall e w t m v, from_wm_mask e m t w = Ok v ->
  from_w (relax e) t (filter_w_mask e m t w) = Ok v.
Proof. intros e w t m v H. exact (from_wm_filter (option mask) mquery None mquery_nil e w t m v H). Qed.
Print Assumptions C13_masked_read_filter.

(* why the specification is the restricted MESSAGE and not the restriction of the value a plain Read
   yields: a field that is absent from the message keeps its start value whole *)
Definition w_D : sschema :=
  mkstruct (B "a.D") KStruct [mkfield 1 (B "l") Default (TList TI32) (Some (LList [LInt 1; LInt 2; LInt 3])) false].
Definition w_ED : env := mkenv [w_D] [].

Theorem C13_restrict_of_plain_read_refuted :
  exists m v v', mask_for w_ED w_D false [B "$.l[0]"] = Mask.Trie.Ok m /\
    read_new w_ED w_D (WStruct []) = Ok v /\
    read_new_masked (mkcfg false false false) (Some m) w_ED w_D (WStruct []) = Ok v' /\
    v' = VStruct [(1, VList [VInt 1; VInt 2; VInt 3])] /\
    restrict_mask RqDrop w_ED (Some m) (TRef (s_name w_D)) v = VStruct [(1, VList [VInt 1])].
Proof.
  eexists. eexists. eexists. split; [vm_compute; reflexivity|]. split; [vm_compute; reflexivity|].
  split; [vm_compute; reflexivity|]. split; vm_compute; reflexivity.
Qed.
Print Assumptions C13_restrict_of_plain_read_refuted.

(* ---- field_mask_halfway on objects that carry sub masks ----

   second_write cfg m1 m2: x.Set_FieldMask(m1); x.Write; x.Set_FieldMask(m2); x.Write on a fresh x -
   the second Write (Wire/MaskedHalfway.v; compared with the real code on every run). *)

(* default code: the second Write is a Write under m2, whatever came before *)
Theorem C13_second_write_default : forall cfg m1 m2 e s v, halfway cfg = false ->
  second_write cfg m1 m2 e s v = to_wire_masked cfg m2 e s v.
Proof. exact second_write_default. Qed.
Print Assumptions C13_second_write_default.

(* halfway, fresh sub objects (first Write under the nil mask, or none): as the default code *)
Theorem C13_second_write_after_nil : forall cfg m2 e s fs, find_struct e (s_name s) = Some s ->
  second_write cfg None m2 e s (VStruct fs) = to_wire_masked cfg m2 e s (VStruct fs).
Proof. exact second_write_after_nil. Qed.
Print Assumptions C13_second_write_after_nil.

Theorem C13_to_wm_again_fresh : forall cfg e s2 t v, to_wm_again cfg e None s2 t v = to_wm_mask cfg e s2 t v.
Proof. exact to_wm_again_fresh. Qed.
Print Assumptions C13_to_wm_again_fresh.

(* halfway, known finding C13-halfway-stale-submask: after a Write under $.li[0].x the nil mask does
   NOT behave like code generated without the option: li[0] is still written with x only *)
Definition w_In : sschema :=
  mkstruct (B "a.In") KStruct [mkfield 1 (B "x") Default TI32 None false; mkfield 2 (B "y") Default TI32 None false].
Definition w_H : sschema := mkstruct (B "a.H") KStruct [mkfield 1 (B "li") Default (TList (TRef (B "a.In"))) None false].
Definition w_EH : env := mkenv [w_In; w_H] [].
Definition w_vH : value :=
  VStruct [(1, VList [VStruct [(1, VInt 7); (2, VInt 8)]; VStruct [(1, VInt 9); (2, VInt 10)]])].
Definition w_halfway : mcfg := mkcfg true false false.

Theorem C13_halfway_nil_mask_refuted :
  exists m1 r w, mask_for w_EH w_H false [B "$.li[0].x"] = Mask.Trie.Ok m1 /\
    second_write w_halfway (Some m1) None w_EH w_H w_vH = Ok r /\
    to_wire w_EH w_H w_vH = Ok w /\
    cook r = WStruct [(T_LIST, 1, WList T_STRUCT
                         [WStruct [(T_I32, 1, WI32 7)];
                          WStruct [(T_I32, 1, WI32 9); (T_I32, 2, WI32 10)]])] /\
    cook r <> w.
Proof.
  eexists. eexists. eexists. split; [vm_compute; reflexivity|]. split; [vm_compute; reflexivity|].
  split; [vm_compute; reflexivity|]. split; [vm_compute; reflexivity|]. vm_compute. discriminate.
Qed.
Print Assumptions C13_halfway_nil_mask_refuted.

(* ---- field_mask_halfway: a mask the user set on a non-root struct value ----

   to_wm_own cfg e path m_own st n v (Wire/MaskedOwn.v; compared with the real code on every run,
   driver verb mwrite_own): Write of the struct value v under st, when the sub object reached through
   the struct-typed fields [path] had Set_FieldMask(m_own) called on it. *)

(* with the option, the sub object is written exactly as a root object carrying m_own, whatever its
   parent passes: every theorem above about Write under a mask applies to it *)
Theorem C13_own_mask_halfway_at : forall cfg e m st n fs, halfway cfg = true ->
  to_wm_own cfg e [] (Some m) st n (VStruct fs) = to_wm_mask cfg e (Some m) (TRef n) (VStruct fs).
Proof. exact own_mask_halfway_at. Qed.
Print Assumptions C13_own_mask_halfway_at.

Theorem C13_own_mask_wins : forall cfg e m st n fs,
  to_wm_again cfg e (Some m) st (TRef n) (VStruct fs) = to_wm_mask cfg e (Some m) (TRef n) (VStruct fs).
Proof. exact own_mask_wins. Qed.
Print Assumptions C13_own_mask_wins.

Theorem C13_to_wm_again_same : forall cfg e m t v, to_wm_again cfg e m m t v = to_wm_mask cfg e m t v.
Proof. exact to_wm_again_same. Qed.
Print Assumptions C13_to_wm_again_same.

(* without the option the mask set on the sub object has no effect at all, for every path *)
Theorem C13_own_mask_default_ignored : forall cfg e m_own, halfway cfg = false ->
  forall path st n v, to_wm_own cfg e path m_own st n v = to_wm_mask cfg e st (TRef n) v.
Proof. exact own_mask_default_ignored. Qed.
Print Assumptions C13_own_mask_default_ignored.

(* a nil mask on the sub object: as if nothing had been set, with or without the option *)
Theorem C13_own_mask_nil : forall cfg e path st n v,
  to_wm_own cfg e path None st n v = to_wm_mask cfg e st (TRef n) v.
Proof. exact own_mask_nil. Qed.
Print Assumptions C13_own_mask_nil.

(* both at once on a concrete object: H2{1: In i}, i.Set_FieldMask($.x), root mask nil *)
Definition w_H2 : sschema := mkstruct (B "a.H2") KStruct [mkfield 1 (B "i") Default (TRef (B "a.In")) None false].
Definition w_EH2 : env := mkenv [w_In; w_H2] [].
Definition w_vH2 : value := VStruct [(1, VStruct [(1, VInt 7); (2, VInt 8)])].

Example C13_own_mask_example :
  exists m r1 r2, mask_for w_EH2 w_In false [B "$.x"] = Mask.Trie.Ok m /\
    write_with_own w_halfway None [1] (Some m) w_EH2 w_H2 w_vH2 = Ok r1 /\
    cook r1 = WStruct [(T_STRUCT, 1, WStruct [(T_I32, 1, WI32 7)])] /\
    write_with_own (mkcfg false false false) None [1] (Some m) w_EH2 w_H2 w_vH2 = Ok r2 /\
    cook r2 = WStruct [(T_STRUCT, 1, WStruct [(T_I32, 1, WI32 7); (T_I32, 2, WI32 8)])].
Proof.
  eexists. eexists. eexists. split; [vm_compute; reflexivity|]. split; [vm_compute; reflexivity|].
  split; [vm_compute; reflexivity|]. split; vm_compute; reflexivity.
Qed.

(* ---- the hypotheses are satisfiable ---- *)

Example C13_mask_domain_inhabited :
  exists gs, in_mask_domain w_E w_S false [B "$.l[3]"] [[Mask.Spec.PName (B "l"); Mask.Spec.PIdx [3]]] gs.
Proof. eexists. unfold in_mask_domain. repeat split; vm_compute; reflexivity. Qed.


Example C13_domain_inhabited :
  wf_env w_E = true /\ find_struct w_E (s_name w_S) = Some w_S /\ wt w_E w_S w_v = true /\ zero_okb w_E = true.
Proof. vm_compute. repeat split; reflexivity. Qed.
