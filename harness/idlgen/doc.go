// Package idlgen is the seeded random generator of multi-file Thrift IDL
// programs shared by the IDL-side property checks.
//
// # Model
//
// A generated program IS its intended AST, an idlast.Program (the Go mirror of
// /verif/coq/Idl/Ast.v): exactly what parser.ParseFile(main, nil, true) of /repo
// must return — through astdump.Program, with Comments blanked — for every
// rendering of the program, provided the process working directory is the program
// root. All resolution info is at its zero value (Category = CatConstant,
// Reference / IsTypedef / Extra / Used = nil, HasName2Cat = false).
//
//	r := rng.New(seed)
//	p := idlgen.Generate(r, idlgen.Options{Envelope: idlgen.Valid})
//	p.AST()                  // idlast.Program, main file first, then parser DFS order
//	p.Coq()                  // Coq term of type Idl.Ast.program
//	p.Stats()                // counts of generated shapes, for evidence histograms
//	l := idlgen.RandomLayout(r.Fork())
//	texts := p.Render(l)     // Filename -> .thrift text
//	main, _ := p.WriteTree(dir, l); os.Chdir(dir); parser.ParseFile(p.Main(), nil, true)
//
// Every random choice derives from the *rng.R handed in (splitmix64): the same
// seed and options give a byte-identical program; a (program, Layout) pair gives
// byte-identical text. Nothing depends on map iteration order, time or math/rand.
// Generating and rendering one program takes about a millisecond.
//
// # Envelopes
//
// Valid: the whole pinned pipeline accepts the program — parser, CircleDetect,
// the semantic checker, semantic.ResolveSymbols and the Go backend (thriftgo -g go
// exits 0). Syntactic: only grammatical — the parser accepts and the intended AST
// is exact, but type names may be undefined or have too many dots, ids / field
// names / enum value names / function names may repeat, values need not fit their
// types, enum values and field ids leave their ranges (but stay inside int64 /
// int32, so that the intended AST is well defined), oneway functions may return or
// throw, throws lists may hold non-exceptions, unions may have several defaults,
// a file may lack a Go namespace, and includes may form cycles (the parser
// tolerates them; CircleDetect runs later in the driver).
//
// # What both envelopes cover
//
// Include DAGs over 1..MaxFiles files with diamonds, equal base names in
// different directories (also two includes of one base name in a single file),
// the main file in a subdirectory, include paths spelled root-relative,
// "./"-prefixed, with an inner "dir/../", and relative to the including file's
// directory (only where nothing exists at that path under the root, because the
// parser tries the working directory first); cpp_include; namespaces of many
// languages including "*" (the effective Go namespace — first "go", else last
// "*" — is distinct per file, all lower case, and never ends in "main"; shared
// last segments exercise import aliases); every definition kind; typedef chains,
// also across files; containers nested up to 4 with cpp_type and annotations on
// inner types; struct-typed map keys; recursive types (directly through optional
// fields, and through containers); sequential, gapped, negative and zero field
// ids; all requiredness x default combinations; enums with gaps, negatives,
// int32 extremes, and no values; constants of every shape written every way
// (literal, identifier of another constant, inc.CONST, Enum.VALUE, inc.Enum.VALUE,
// enum by number, int for double, bool as true / false / 0 / 1 / other ints,
// true / false for ints, nested list / map literals, struct literals, set / list /
// map of structs, maps keyed by structs and enums, -0.0, denormals, 1e308);
// annotations with repeated keys on every node that takes them; services with
// extends within and across files, oneway / void / typed functions, argument
// defaults, throws; empty structs, unions, enums, services, argument lists and
// (almost) empty files.
//
// # What the Valid envelope excludes, and why (each confirmed against the binary)
//
// Shapes that are legal IDL but that the pinned pipeline mishandles are never
// produced unless their switch in Options is set; the switch marks the property
// that owns the shape:
//
//   - TypedefContainerConsts: a constant / default / mentioned struct-literal field
//     whose written type is a typedef of a container: nil dereference of ValueType in
//     the Go backend's onSetOrList / onMap (DESIGN.md section 5).
//   - EnumViaTypedef: TD.VALUE where TD is a typedef of an enum: resolved by the
//     semantic pass, rejected by the backend ("expect const value … is a int or enum").
//     Enum values are otherwise written with the real enum name, which must be
//     nameable from the file (local, or in a directly included file), else by number.
//   - IdentInForeignStructLiteral: an identifier (constant, enum value) inside a
//     struct literal whose struct is defined in another file: the backend resolves
//     nested values in the scope of the struct's file while Extra.Index counts the
//     includes of the file the literal is written in: "index out of range" or
//     "undefined value" (not listed in DESIGN.md section 5; found while building this).
//   - IdentInArgDefault: an identifier other than true / false in the default of a
//     function argument: semantic.ResolveFunction of the pinned tree resolves only
//     the argument types, Extra stays nil and the backend dereferences it (likewise
//     an undefined identifier there is not diagnosed). Repaired in the working tree
//     by C05; the switch stays so that streams can target either tree.
//   - NewPrefixPairs (with NamingStress): definitions X and NewX in one file: the
//     backend reserves "New"+X with MustReserve and fails when NewX was installed
//     first, which depends on kind and order (struct NewUser before struct User
//     fails, after it succeeds).
//   - RawLiterals: raw newlines / tabs / backquotes / escapes unknown to Go inside
//     literals (copied into Go string literals; thriftgo only warns, DESIGN.md #13).
//     Literals otherwise use printable ASCII, a little UTF-8, both quote characters,
//     and the escapes \\ \n \t (as two characters each).
//   - CompileHostile: two exceptions of one type in a throws list (accepted, but the
//     generated type switch has a duplicate case), field ids outside i16.
//   - ReqPrefixedTypeNames (C03): type identifiers starting with "required" /
//     "optional" on fields without a requiredness keyword; still mis-parsed.
//   - NamingStress (C01): New*, *Args, *Result, Go keywords, leading underscores,
//     initialisms, names that collide after Go conversion; without it names are kept
//     distinct up to case and underscores within their scope. thriftgo accepts these
//     (exit 0); whether the generated code compiles is C01's question.
//
// Always kept in the Valid envelope: unique names / ids / enum values per scope;
// enum values inside int32 (checker); field ids inside i16; integer constants
// inside the range of their type; distinct map keys and set elements in constant
// literals (Go rejects duplicate constant keys); map key types that are not
// containers; union with at most one default; oneway functions void and without
// throws; throws fields of distinct exception types, argument and throws names
// distinct within a function; function names distinct along an extends chain;
// constants only reference constants of a structurally equal type and of lower
// "rank" (no cycles), typedefs only reference typedefs of lower rank; with two
// includes of one base name in a file, only names defined by exactly one of them
// are referenced through the prefix (types would bind to the first include,
// constants would be "ambiguous"); no definition is named like an include prefix
// of the program (x.K must not be explainable both as enum.value and as
// include.constant); include base names and definition names are never grammar
// keywords; annotation keys avoid the ones the Go backend interprets (go.tag,
// thrift.*, streaming.*).
//
// # Layout
//
// Layout says how an AST is spelled. The zero value is the canonical plain
// layout. Each knob is a fixed value or "random per occurrence": blanks and
// comments at every token boundary, list separators, quote characters, integer
// spellings (separately for field ids), double spellings, implicit vs explicit
// field ids and enum values, the requiredness keyword written in throws lists,
// "()" empty annotation lists, "throws ()", interleaving of repeated annotation
// keys, and the interleaving of header lines and of definitions of different
// kinds (the AST keeps one list per kind, so the relative order of different
// kinds is layout). Whether a namespace scope is "*" is content, not layout: the
// AST records Language = "*".
//
// Hex / octal field ids and exponent doubles are only read correctly by a tree
// that carries the C03 repairs (parseFieldID, pegText); (*Layout).Unrepaired()
// restricts a layout to what the original parser reads.
//
// RenderFile works on any idlast.File that respects the grammar's lexical
// limits (for example one obtained from astdump): identifiers are identifiers,
// no literal has a backslash directly before a quote character or at its end,
// doubles are finite. Comments in the AST are not written back.
package idlgen
