package valgen

import (
	"encoding/binary"
	"fmt"

	"verif/harness/rng"
	"verif/harness/schemagen"
)

// Thrift wire type codes.
const (
	TBool   = 2
	TByte   = 3
	TDouble = 4
	TI16    = 6
	TI32    = 8
	TI64    = 10
	TString = 11
	TStruct = 12
	TMap    = 13
	TSet    = 14
	TList   = 15
)

var AllTTypes = []byte{TBool, TByte, TDouble, TI16, TI32, TI64, TString, TStruct, TMap, TSet, TList}

// W is a generic wire value (Wire/WVal.v).
type W struct {
	T      byte
	B      bool
	I      int64
	D      uint64
	S      []byte
	Fields []WField
	KT, ET byte // map key type; element / map value type
	L      []*W
	M      [][2]*W
}

type WField struct {
	T  byte
	ID int16
	V  *W
}

func (w *W) Enc() []byte { return w.enc(nil) }

func (w *W) enc(b []byte) []byte {
	switch w.T {
	case TBool:
		if w.B {
			return append(b, 1)
		}
		return append(b, 0)
	case TByte:
		return append(b, byte(w.I))
	case TI16:
		return binary.BigEndian.AppendUint16(b, uint16(w.I))
	case TI32:
		return binary.BigEndian.AppendUint32(b, uint32(w.I))
	case TI64:
		return binary.BigEndian.AppendUint64(b, uint64(w.I))
	case TDouble:
		return binary.BigEndian.AppendUint64(b, w.D)
	case TString:
		b = binary.BigEndian.AppendUint32(b, uint32(len(w.S)))
		return append(b, w.S...)
	case TStruct:
		for _, f := range w.Fields {
			b = append(b, f.T)
			b = binary.BigEndian.AppendUint16(b, uint16(f.ID))
			b = f.V.enc(b)
		}
		return append(b, 0)
	case TMap:
		b = append(b, w.KT, w.ET)
		b = binary.BigEndian.AppendUint32(b, uint32(len(w.M)))
		for _, kv := range w.M {
			b = kv[0].enc(b)
			b = kv[1].enc(b)
		}
		return b
	case TSet, TList:
		b = append(b, w.ET)
		b = binary.BigEndian.AppendUint32(b, uint32(len(w.L)))
		for _, x := range w.L {
			b = x.enc(b)
		}
		return b
	}
	return b
}

func TTypeOf(t *schemagen.Type) byte {
	switch t.Kind {
	case "bool":
		return TBool
	case "byte":
		return TByte
	case "i16":
		return TI16
	case "i32", "enum":
		return TI32
	case "i64":
		return TI64
	case "double":
		return TDouble
	case "string", "binary":
		return TString
	case "struct":
		return TStruct
	case "list":
		return TList
	case "set":
		return TSet
	case "map":
		return TMap
	}
	return TBool
}

// ToWire: harness-side encoder for values inside wt (it refuses the edge shapes).
func ToWire(p *schemagen.Program, s *schemagen.Struct, v *Value) (*W, error) {
	if v.K != "struct" {
		return nil, fmt.Errorf("not a struct value")
	}
	out := &W{T: TStruct}
	if s.Kind == "union" {
		c := 0
		for i, f := range s.Fields {
			if IsSet(f, v.F[i].V) {
				c++
			}
		}
		if c != 1 {
			return nil, fmt.Errorf("union count %d", c)
		}
	}
	for i, f := range s.Fields {
		slot := v.F[i].V
		if f.Req == "optional" && !IsSet(f, slot) {
			continue
		}
		if BasePtr(f) {
			slot = slot.P
		}
		x, err := toW(p, f.Type, slot)
		if err != nil {
			return nil, err
		}
		out.Fields = append(out.Fields, WField{T: TTypeOf(f.Type), ID: int16(f.ID), V: x})
	}
	return out, nil
}

func toW(p *schemagen.Program, t *schemagen.Type, v *Value) (*W, error) {
	switch t.Kind {
	case "bool":
		return &W{T: TBool, B: v.B}, nil
	case "byte", "i16", "i32", "i64":
		return &W{T: TTypeOf(t), I: v.I}, nil
	case "enum":
		return &W{T: TI32, I: int64(int32(v.I))}, nil
	case "double":
		return &W{T: TDouble, D: v.D}, nil
	case "string", "binary":
		return &W{T: TString, S: v.S}, nil
	case "struct":
		s := p.Struct(t.Name)
		if v.K == "nil" {
			if s.Kind == "union" {
				return nil, fmt.Errorf("nil union")
			}
			return &W{T: TStruct}, nil
		}
		return ToWire(p, s, v)
	case "list", "set":
		out := &W{T: TTypeOf(t), ET: TTypeOf(t.Elem)}
		if t.Kind == "set" {
			for i := range v.L {
				for j := i + 1; j < len(v.L); j++ {
					if DeepEq(v.L[i], v.L[j]) {
						return nil, fmt.Errorf("set dup")
					}
				}
			}
		}
		for _, x := range v.L {
			y, err := toW(p, t.Elem, x)
			if err != nil {
				return nil, err
			}
			out.L = append(out.L, y)
		}
		return out, nil
	case "map":
		out := &W{T: TMap, KT: TTypeOf(t.Key), ET: TTypeOf(t.Elem)}
		for _, kv := range v.M {
			k, err := toW(p, t.Key, kv[0])
			if err != nil {
				return nil, err
			}
			x, err := toW(p, t.Elem, kv[1])
			if err != nil {
				return nil, err
			}
			out.M = append(out.M, [2]*W{k, x})
		}
		return out, nil
	}
	return nil, fmt.Errorf("bad type")
}

// RandW: a random well-formed wire value of wire type t.
func RandW(r *rng.R, t byte, depth int) *W {
	switch t {
	case TBool:
		return &W{T: t, B: r.Bool()}
	case TByte:
		return &W{T: t, I: int64(int8(r.U64()))}
	case TI16:
		return &W{T: t, I: int64(int16(r.U64()))}
	case TI32:
		return &W{T: t, I: int64(int32(r.U64()))}
	case TI64:
		return &W{T: t, I: int64(r.U64())}
	case TDouble:
		return &W{T: t, D: r.U64()}
	case TString:
		b := make([]byte, r.Range(0, 9))
		for i := range b {
			b[i] = byte(r.Intn(256))
		}
		return &W{T: t, S: b}
	case TStruct:
		w := &W{T: t}
		n := r.Range(0, 3)
		if depth <= 0 {
			n = 0
		}
		for i := 0; i < n; i++ {
			ft := rng.Pick(r, AllTTypes)
			w.Fields = append(w.Fields, WField{T: ft, ID: int16(r.Range(-5, 40)), V: RandW(r, ft, depth-1)})
		}
		return w
	case TMap:
		w := &W{T: t, KT: rng.Pick(r, AllTTypes), ET: rng.Pick(r, AllTTypes)}
		n := r.Range(0, 2)
		if depth <= 0 {
			n = 0
		}
		for i := 0; i < n; i++ {
			w.M = append(w.M, [2]*W{RandW(r, w.KT, depth-1), RandW(r, w.ET, depth-1)})
		}
		return w
	default:
		w := &W{T: t, ET: rng.Pick(r, AllTTypes)}
		n := r.Range(0, 3)
		if depth <= 0 {
			n = 0
		}
		for i := 0; i < n; i++ {
			w.L = append(w.L, RandW(r, w.ET, depth-1))
		}
		return w
	}
}

func (w *W) Clone() *W {
	c := *w
	c.S = append([]byte(nil), w.S...)
	c.Fields = make([]WField, len(w.Fields))
	for i, f := range w.Fields {
		c.Fields[i] = WField{T: f.T, ID: f.ID, V: f.V.Clone()}
	}
	c.L = make([]*W, len(w.L))
	for i, x := range w.L {
		c.L[i] = x.Clone()
	}
	c.M = make([][2]*W, len(w.M))
	for i, kv := range w.M {
		c.M[i] = [2]*W{kv[0].Clone(), kv[1].Clone()}
	}
	return &c
}

// structNodes lists every struct node of w paired with its schema (nil for unknown structs).
type node struct {
	W *W
	S *schemagen.Struct
}

func structNodes(p *schemagen.Program, s *schemagen.Struct, w *W, out *[]node) {
	*out = append(*out, node{w, s})
	for _, f := range w.Fields {
		var fld *schemagen.Field
		if s != nil {
			for _, x := range s.Fields {
				if x.ID == int(f.ID) && TTypeOf(x.Type) == f.T {
					fld = x
				}
			}
		}
		if fld != nil {
			walkType(p, fld.Type, f.V, out)
		}
	}
}

func walkType(p *schemagen.Program, t *schemagen.Type, w *W, out *[]node) {
	switch t.Kind {
	case "struct":
		structNodes(p, p.Struct(t.Name), w, out)
	case "list", "set":
		for _, x := range w.L {
			walkType(p, t.Elem, x, out)
		}
	case "map":
		for _, kv := range w.M {
			walkType(p, t.Key, kv[0], out)
			walkType(p, t.Elem, kv[1], out)
		}
	}
}

func unknownID(r *rng.R, s *schemagen.Struct) int16 {
	for {
		id := int16(r.Range(-3200, 32000))
		if r.Bool() {
			id = int16(r.Range(-3, 40))
		}
		ok := true
		for _, f := range s.Fields {
			if f.ID == int(id) {
				ok = false
			}
		}
		if ok {
			return id
		}
	}
}

// Perturbation kinds.
const (
	PInsertUnknown = "insert_unknown" // a field with an id the schema does not have
	PInsertRetag   = "insert_retag"   // an extra field with a known id but another wire type
	PRetag         = "retag"          // replace a field by one of another wire type (value regenerated)
	PDelete        = "delete"         // delete a field
	PDeleteReq     = "delete_required"
	PDuplicate     = "duplicate"      // the same id twice (last one wins)
	PShuffle       = "shuffle"        // fields in another order
	PNestedUnknown = "nested_unknown" // unknown field inside a nested struct
)

// InsertAt returns a copy of w (a struct) with field f inserted at position pos.
func InsertAt(w *W, pos int, f WField) *W {
	c := w.Clone()
	fs := append([]WField{}, c.Fields[:pos]...)
	fs = append(fs, f)
	fs = append(fs, c.Fields[pos:]...)
	c.Fields = fs
	return c
}

// UnknownField: a random field the reader of s must skip: unknown id, or known id with wrong type.
func UnknownField(r *rng.R, s *schemagen.Struct, retag bool) WField {
	if retag && len(s.Fields) > 0 {
		f := rng.Pick(r, s.Fields)
		for {
			t := rng.Pick(r, AllTTypes)
			if t != TTypeOf(f.Type) {
				return WField{T: t, ID: int16(f.ID), V: RandW(r, t, 2)}
			}
		}
	}
	t := rng.Pick(r, AllTTypes)
	return WField{T: t, ID: unknownID(r, s), V: RandW(r, t, 2)}
}

// AllInsertions: for every position of the top-level struct, w with one skippable field inserted.
func AllInsertions(r *rng.R, s *schemagen.Struct, w *W) []*W {
	var out []*W
	for pos := 0; pos <= len(w.Fields); pos++ {
		out = append(out, InsertAt(w, pos, UnknownField(r, s, r.Chance(1, 3))))
	}
	return out
}

// AllRetags: field i replaced by a field of each other wire type.
func AllRetags(r *rng.R, w *W, i int) []*W {
	var out []*W
	for _, t := range AllTTypes {
		if t == w.Fields[i].T {
			continue
		}
		c := w.Clone()
		c.Fields[i] = WField{T: t, ID: w.Fields[i].ID, V: RandW(r, t, 2)}
		out = append(out, c)
	}
	return out
}

func DeleteAt(w *W, i int) *W {
	c := w.Clone()
	c.Fields = append(c.Fields[:i:i], c.Fields[i+1:]...)
	return c
}

// NestedUnknown inserts a skippable field into a randomly chosen nested struct node (not the root);
// returns nil when there is none.
func NestedUnknown(r *rng.R, p *schemagen.Program, s *schemagen.Struct, w *W) *W {
	c := w.Clone()
	var nodes []node
	structNodes(p, s, c, &nodes)
	var cand []node
	for _, n := range nodes[1:] {
		if n.S != nil {
			cand = append(cand, n)
		}
	}
	if len(cand) == 0 {
		return nil
	}
	n := rng.Pick(r, cand)
	pos := r.Intn(len(n.W.Fields) + 1)
	f := UnknownField(r, n.S, r.Chance(1, 3))
	fs := append([]WField{}, n.W.Fields[:pos]...)
	fs = append(fs, f)
	fs = append(fs, n.W.Fields[pos:]...)
	n.W.Fields = fs
	return c
}

func Shuffle(r *rng.R, w *W) *W {
	c := w.Clone()
	for i := len(c.Fields) - 1; i > 0; i-- {
		j := r.Intn(i + 1)
		c.Fields[i], c.Fields[j] = c.Fields[j], c.Fields[i]
	}
	return c
}
