(* Mask/Desc.v — type descriptors as the field-mask library sees them
   (thrift_reflection.TypeDescriptor after unwrapDesc: typedefs are looked through), and
   switchFt of fieldmask/utils.go.  No proofs in this file. *)
From Coq Require Import List Bool ZArith.
From Coq.Strings Require Import Byte String.
From Verif Require Import Base.Bytes.
Import ListNotations.

(* A type: base type with its thrift name, enum, list, set, map, struct-like (struct, union,
   exception) referred to by name, or something no descriptor resolves (TyOther). *)
Inductive ty :=
| TyBase (name : bytes)
| TyEnum
| TyList (e : ty)
| TySet (e : ty)
| TyMap (k v : ty)
| TyStruct (name : bytes)
| TyOther.

Record field := mkfield { f_id : Z; f_name : bytes; f_ty : ty }.

(* struct name -> fields in declaration order (StructDescriptor.Fields) *)
Definition senv := list (bytes * list field).

(* FieldMaskType *)
Inductive ft := FtInvalid | FtScalar | FtList | FtStruct | FtStrMap | FtIntMap.

Definition ft_eqb (a b : ft) : bool :=
  match a, b with
  | FtInvalid, FtInvalid | FtScalar, FtScalar | FtList, FtList
  | FtStruct, FtStruct | FtStrMap, FtStrMap | FtIntMap, FtIntMap => true
  | _, _ => false
  end.

Definition int_key_names : list bytes := [B "i8"; B "i16"; B "i32"; B "i64"; B "byte"].
Definition str_key_names : list bytes := [B "string"; B "binary"].

Definition key_ft (k : ty) : ft :=
  match k with
  | TyEnum => FtIntMap
  | TyBase n =>
      if existsb (beqb n) int_key_names then FtIntMap
      else if existsb (beqb n) str_key_names then FtStrMap
      else FtScalar
  | _ => FtScalar
  end.

(* TypeDescriptor.GetStructDescriptor *)
Definition struct_fields (env : senv) (d : ty) : option (list field) :=
  match d with
  | TyStruct n => lookup n env
  | _ => None
  end.

Definition switch_ft (env : senv) (d : ty) : ft :=
  match d with
  | TyBase _ => FtScalar
  | TyList _ | TySet _ => FtList
  | TyMap k _ => key_ft k
  | TyStruct n => match lookup n env with Some _ => FtStruct | None => FtInvalid end
  | TyEnum => FtScalar
  | TyOther => FtInvalid
  end.

(* StructDescriptor.GetFieldById / GetFieldByName: the first match in declaration order *)
Fixpoint field_by_id (fs : list field) (id : Z) : option field :=
  match fs with
  | [] => None
  | f :: r => if (f_id f =? id)%Z then Some f else field_by_id r id
  end.

Fixpoint field_by_name (fs : list field) (n : bytes) : option field :=
  match fs with
  | [] => None
  | f :: r => if beqb (f_name f) n then Some f else field_by_name r n
  end.

(* IsList (list or set): the element type *)
Definition list_elem (d : ty) : option ty :=
  match d with TyList e | TySet e => Some e | _ => None end.

Definition map_kv (d : ty) : option (ty * ty) :=
  match d with TyMap k v => Some (k, v) | _ => None end.
