// Command c18: case producer for property C18 (generated DeepEqual is structural equality).
//
// Per run: a fixed corpus program plus seeded schema programs are compiled once per option set with
// gen_deep_equal (gendrv); for every struct-like, pairs of values (valgen PG: deep copies, aliases,
// shared sub-objects, nil receivers / arguments, one edit at some depth, independent values) are
// sent to the driver verb "deepeq" (x.DeepEqual(y), y.DeepEqual(x), x.DeepEqual(x), y.DeepEqual(y),
// panics recovered) and values with an edited set to "writeset" (error class of Write). Inputs and
// observations are written as Coq cases (Corr/C18.v), one set of shards per program.
package main

import (
	"crypto/sha256"
	"encoding/json"
	"flag"
	"fmt"
	"os"
	"path/filepath"
	"strings"
	"time"

	"verif/harness/casefile"
	"verif/harness/coqfmt"
	"verif/harness/gendrv"
	"verif/harness/rng"
	"verif/harness/schemagen"
	"verif/harness/valgen"
)

type optSet struct {
	Key     string
	Options string
	Enum32  bool
	Every   int // pairs are thinned on non-default sets: every Every-th
}

var quickSets = []optSet{
	{Key: "o0", Options: "gen_deep_equal", Every: 1},
	{Key: "o1", Options: "gen_deep_equal,naming_style=apache,gen_setter,nil_safe,use_type_alias=false,enum_as_int_32,frugal_tag,compatible_names", Enum32: true, Every: 3},
	{Key: "o2", Options: "gen_deep_equal,reorder_fields,naming_style=golint,json_stringer,keep_unknown_fields", Every: 3},
}

var thoroughSets = append(append([]optSet{}, quickSets...), []optSet{
	{Key: "o3", Options: "gen_deep_equal,nil_safe", Every: 4},
	{Key: "o4", Options: "gen_deep_equal,enum_as_int_32", Enum32: true, Every: 4},
	{Key: "o5", Options: "gen_deep_equal,reorder_fields", Every: 4},
	{Key: "o6", Options: "gen_deep_equal,use_type_alias=false,gen_setter", Every: 4},
	{Key: "o7", Options: "gen_deep_equal,json_enum_as_text,enum_marshal,enum_unmarshal,typed_enum_string", Every: 4},
}...)

type stats struct {
	Programs       int                `json:"programs"`
	RejectedByImpl int                `json:"rejected_by_impl"`
	RejectedSample []string           `json:"rejected_sample,omitempty"`
	Units          int                `json:"units"`
	Structs        int                `json:"structs"`
	Schema         map[string]int     `json:"schema"`
	CaseKinds      map[string]int     `json:"case_kinds"`
	PairKinds      map[string]int     `json:"pair_kinds"`
	Edits          map[string]int     `json:"edits"`
	EditDepth      map[string]int     `json:"edit_depth"`
	SetKinds       map[string]int     `json:"set_case_kinds"`
	Observed       map[string]int     `json:"observed"`
	Traits         map[string]int     `json:"pair_traits"`
	OptionSets     map[string]string  `json:"option_sets"`
	Evaluations    int                `json:"evaluations"`
	Distinct       int                `json:"distinct_nontrivial"`
	Rule           string             `json:"rule"`
	Samples        []interface{}      `json:"samples"`
	SkippedEnum32  int                `json:"pairs_skipped_for_enum_as_int_32"`
	Phases         map[string]float64 `json:"phase_seconds"`
}

type pending struct {
	kind string // deepeq writeset
	prog int
	unit *gendrv.Unit
	os   optSet
	s    *schemagen.Struct
	pair *valgen.Pair
	set  *valgen.SetCase
	cmd  int
}

func obsCoq(s string) string {
	switch s {
	case "true":
		return "OTrue"
	case "false":
		return "OFalse"
	case "panic":
		return "OPanicked"
	}
	return "OMissing"
}

func wobsCoq(s string) string {
	switch s {
	case "ok":
		return "WOk"
	case "panic":
		return "WPanic"
	}
	return "WErr"
}

// hasWideEnum: some enum-typed value lies outside int32 (does not exist under enum_as_int_32)
func hasWideEnum(p *schemagen.Program, t *schemagen.Type, v *valgen.HVal) bool {
	switch v.K {
	case "int":
		return t.Kind == "enum" && int64(int32(v.I)) != v.I
	case "some":
		return hasWideEnum(p, t, v.P)
	case "list":
		for _, x := range v.L {
			if hasWideEnum(p, t.Elem, x) {
				return true
			}
		}
	case "map":
		for _, kv := range v.M {
			if hasWideEnum(p, t.Key, kv[0]) || hasWideEnum(p, t.Elem, kv[1]) {
				return true
			}
		}
	case "struct":
		s := p.Struct(t.Name)
		for i, f := range s.Fields {
			if hasWideEnum(p, f.Type, v.F[i].V) {
				return true
			}
		}
	}
	return false
}

func nontrivial(v *valgen.HVal) bool {
	if v.K != "struct" {
		return false
	}
	if len(v.F) >= 2 {
		return true
	}
	for _, f := range v.F {
		if f.V.K == "list" || f.V.K == "map" || f.V.K == "struct" {
			return true
		}
	}
	return false
}

func main() {
	seed := flag.Uint64("seed", 1, "")
	tier := flag.String("tier", "quick", "")
	out := flag.String("out", "", "")
	tg := flag.String("thriftgo", "", "thriftgo binary built from VERIF_REPO")
	scratch := flag.String("scratch", "", "scratch directory for the generated module")
	flag.Parse()
	repo := os.Getenv("VERIF_REPO")
	if repo == "" {
		repo = "/repo"
	}
	if *out == "" || *tg == "" || *scratch == "" {
		fmt.Fprintln(os.Stderr, "usage: c18 -seed N -tier quick|thorough -out DIR -thriftgo BIN -scratch DIR")
		os.Exit(2)
	}
	t0 := time.Now()
	phases := map[string]float64{}
	mark := func(name string) {
		phases[name] = time.Since(t0).Seconds()
		t0 = time.Now()
	}
	r := rng.New(*seed)
	nProg, nPairs, nSets, sets := 3, 16, 4, quickSets
	if *tier == "thorough" {
		nProg, nPairs, nSets, sets = 14, 36, 8, thoroughSets
	}
	st := &stats{Schema: map[string]int{}, CaseKinds: map[string]int{}, PairKinds: map[string]int{}, Edits: map[string]int{},
		EditDepth: map[string]int{}, SetKinds: map[string]int{}, Observed: map[string]int{}, Traits: map[string]int{},
		OptionSets: map[string]string{},
		Rule:       "a case is non-trivial when a value of it has at least 2 fields or one nested container / struct; distinct = distinct (struct, option set, x, y)"}
	for _, o := range sets {
		st.OptionSets[o.Key] = o.Options
	}

	// 1. programs and units
	b := gendrv.New(*scratch, *tg, repo)
	progs := []*schemagen.Program{corpusProgram()}
	for i := 0; i < nProg; i++ {
		pp := schemagen.DefaultParams()
		if i%3 == 1 {
			pp.StructKeys = false
		}
		if i%5 == 4 {
			pp.MaxFiles, pp.MaxStructs, pp.MaxFields = 1, 2, 6
		}
		if i%4 == 2 {
			pp.BaseTypedefs = false
		}
		progs = append(progs, schemagen.Generate(r.Fork(), pp, fmt.Sprintf("p%d", i)))
	}
	for pi, p := range progs {
		for si, o := range sets {
			if si > 0 && pi != 0 && (pi-1)%(len(sets)-1) != si-1 {
				// the non-default option sets compile the corpus and every (number of sets - 1)-th seeded program
				continue
			}
			oo := o
			if p.HasBaseTypedefs() || hasStructTypedefs(p) {
				// typedef of a plain base type or of a struct-like + use_type_alias=false does not compile
				// (the named type has no methods / needs conversions): C01 / C20 own that finding
				oo.Options = strings.ReplaceAll(strings.ReplaceAll(oo.Options, "use_type_alias=false,", ""), ",use_type_alias=false", "")
			}
			b.Add(&gendrv.Unit{Key: oo.Key + "/" + p.Key, Prog: p, Options: oo.Options})
		}
	}
	st.Programs = len(progs)
	if err := b.Generate(); err != nil {
		fmt.Fprintln(os.Stderr, "generate:", err)
		os.Exit(1)
	}
	mark("thriftgo")
	rejectedProg := map[string]bool{}
	for _, rj := range b.Rejected {
		rejectedProg[rj.Unit.Prog.Key] = true
		if len(st.RejectedSample) < 3 {
			st.RejectedSample = append(st.RejectedSample, rj.Unit.Key+": "+firstLine(rj.Output))
		}
	}
	st.RejectedByImpl = len(rejectedProg)
	if err := b.Build(); err != nil {
		fmt.Fprintln(os.Stderr, "build:", err)
		os.Exit(1)
	}
	mark("go_build")
	st.Units = len(b.Units)
	progIndex := map[string]int{}
	for i, p := range progs {
		progIndex[p.Key] = i
	}
	setOf := func(u *gendrv.Unit) optSet {
		k := strings.SplitN(u.Key, "/", 2)[0]
		for _, o := range sets {
			if o.Key == k {
				return o
			}
		}
		return sets[0]
	}

	// 2. pairs and set cases per program (shared by all option sets)
	type vecs struct {
		s     *schemagen.Struct
		pairs []*valgen.Pair
		sets  []*valgen.SetCase
	}
	vectors := map[string][]*vecs{}
	for _, p := range progs {
		if rejectedProg[p.Key] {
			continue
		}
		p.Stats(st.Schema)
		if p.Key == corpusKey {
			var vs []*vecs
			for _, cv := range corpusCases(p) {
				vs = append(vs, &vecs{s: cv.s, pairs: cv.pairs, sets: cv.sets})
			}
			vectors[p.Key] = vs
			st.Structs += len(vs)
			continue
		}
		for _, s := range p.Structs() {
			st.Structs++
			pg := &valgen.PG{R: r.Fork(), Prog: p, H: &valgen.Heap{}}
			pg.G = &valgen.G{R: pg.R, Prog: p, P: valgen.DefaultParams()}
			v := &vecs{s: s, pairs: pg.Pairs(s, nPairs), sets: pg.SetCases(s, nSets)}
			vectors[p.Key] = append(vectors[p.Key], v)
		}
	}

	// 3. commands
	var cmds []gendrv.Cmd
	var pend []*pending
	add := func(pd *pending, verb string, args ...string) {
		pd.cmd = len(cmds)
		cmds = append(cmds, gendrv.Cmd{Verb: verb, Args: args})
		pend = append(pend, pd)
	}
	for _, u := range b.Units {
		p := u.Prog
		o := setOf(u)
		pi := progIndex[p.Key]
		n := 0
		for _, v := range vectors[p.Key] {
			top := &schemagen.Type{Kind: "struct", Name: v.s.QName()}
			for _, pr := range v.pairs {
				n++
				if p.Key != corpusKey && n%o.Every != 0 {
					continue
				}
				if o.Enum32 && (hasWideEnum(p, top, pr.X) || hasWideEnum(p, top, pr.Y)) {
					st.SkippedEnum32++
					continue
				}
				add(&pending{kind: "deepeq", prog: pi, unit: u, os: o, s: v.s, pair: pr}, "deepeq", u.Key, v.s.QName(), pr.X.JSON(), pr.Y.JSON())
			}
			for _, sc := range v.sets {
				n++
				if p.Key != corpusKey && n%o.Every != 0 {
					continue
				}
				if o.Enum32 && hasWideEnum(p, top, sc.X) {
					st.SkippedEnum32++
					continue
				}
				add(&pending{kind: "writeset", prog: pi, unit: u, os: o, s: v.s, set: sc}, "writeset", u.Key, v.s.QName(), sc.X.JSON())
			}
		}
	}

	// 4. run
	results, err := b.Run(cmds)
	if err != nil {
		fmt.Fprintln(os.Stderr, "run:", err)
		os.Exit(1)
	}

	mark("driver_run")
	// 5. cases, one writer per program
	writers := make([]*casefile.Writer, len(progs))
	var shards []string
	distinct := map[[32]byte]bool{}
	getW := func(pi int) *casefile.Writer {
		if writers[pi] == nil {
			p := progs[pi]
			dir := filepath.Join(*out, p.Key)
			os.MkdirAll(dir, 0o755)
			pre := "From Verif Require Import Base.Bytes Wire.TType Wire.Schema Wire.Value Wire.DeepEq Corr.C18.\n" +
				"From Coq Require Import List NArith ZArith String.\nImport ListNotations.\nOpen Scope string_scope.\n" +
				coqfmt.FastPreamble +
				"Definition E : env := " + p.Coq() + ".\n" +
				"Definition mismatches := mismatches_from E N0.\n"
			writers[pi] = casefile.New(dir, pre, 200)
		}
		return writers[pi]
	}
	for _, pd := range pend {
		p := progs[pd.prog]
		w := getW(pd.prog)
		res := results[pd.cmd]
		desc := map[string]interface{}{"kind": pd.kind, "unit": pd.unit.Key, "options": pd.unit.Options, "struct": pd.s.QName(),
			"program": p, "observed": json.RawMessage(res)}
		var generic map[string]interface{}
		json.Unmarshal(res, &generic)
		if generic["panic"] == true {
			desc["driver_panic"] = generic["msg"]
		}
		switch pd.kind {
		case "deepeq":
			var o struct{ XY, YX, XX, YY string }
			json.Unmarshal(res, &o)
			pr := pd.pair
			desc["pair_kind"], desc["edit"], desc["edit_depth"], desc["shared_siblings"] = pr.Kind, pr.Edit, pr.Depth, pr.Share
			desc["x"], desc["y"] = pr.X, pr.Y
			sk := pr.X.HasStructKey() || pr.Y.HasStructKey()
			desc["struct_keys"] = sk
			term := fmt.Sprintf("(CEq %s %s %s %s %s %s %s)", coqfmt.BytesF(pd.s.QName()), pr.X.Coq(), pr.Y.Coq(),
				obsCoq(o.XY), obsCoq(o.YX), obsCoq(o.XX), obsCoq(o.YY))
			w.Add(term, desc)
			st.CaseKinds["deepeq"]++
			st.Observed["xy:"+o.XY]++
			st.Observed["xx:"+o.XX]++
			if pd.os.Key == "o0" {
				st.PairKinds[pr.Kind]++
				if pr.Kind == "mutate" {
					st.Edits[pr.Edit]++
					st.EditDepth[fmt.Sprintf("%d", pr.Depth)]++
					if pr.Share {
						st.Traits["mutate_with_shared_siblings"]++
					}
				}
				if sk {
					st.Traits["struct_keys"]++
				}
				if pr.X.HasNaN() || pr.Y.HasNaN() {
					st.Traits["nan"]++
				}
			}
			distinct[sha256.Sum256([]byte("e"+pd.s.QName()+pd.os.Key+pr.X.JSON()+"|"+pr.Y.JSON()))] = nontrivial(pr.X) || nontrivial(pr.Y)
		case "writeset":
			var o struct{ Err string }
			json.Unmarshal(res, &o)
			if generic["panic"] == true {
				o.Err = "panic"
			}
			sc := pd.set
			desc["set_case_kind"] = sc.Kind
			desc["x"] = sc.X
			desc["struct_keys"] = sc.X.HasStructKey()
			term := fmt.Sprintf("(CWriteSet %s %s %s)", coqfmt.BytesF(pd.s.QName()), sc.X.Coq(), wobsCoq(o.Err))
			w.Add(term, desc)
			st.CaseKinds["writeset"]++
			st.Observed["write:"+o.Err]++
			if pd.os.Key == "o0" {
				st.SetKinds[sc.Kind]++
			}
			distinct[sha256.Sum256([]byte("w"+pd.s.QName()+pd.os.Key+sc.X.JSON()))] = nontrivial(sc.X)
		}
	}
	total := 0
	for pi, w := range writers {
		if w == nil {
			continue
		}
		if err := w.Close(); err != nil {
			fmt.Fprintln(os.Stderr, err)
			os.Exit(1)
		}
		for _, sh := range w.Shards {
			shards = append(shards, progs[pi].Key+"/"+sh)
		}
		total += w.Total()
	}
	st.Evaluations = total
	mark("write_cases")
	st.Phases = phases
	for _, nt := range distinct {
		if nt {
			st.Distinct++
		}
	}
	for i, p := range progs {
		if i < 2 {
			st.Samples = append(st.Samples, map[string]interface{}{"program": p.Key, "idl": p.Render()})
		}
	}
	for _, pd := range pend {
		if pd.kind == "deepeq" && pd.pair.Kind == "mutate" && len(st.Samples) < 5 && pd.prog > 0 {
			st.Samples = append(st.Samples, map[string]interface{}{"struct": pd.s.QName(), "edit": pd.pair.Edit, "depth": pd.pair.Depth,
				"x": pd.pair.X, "y": pd.pair.Y, "observed": json.RawMessage(results[pd.cmd])})
		}
	}
	if err := casefile.WriteMeta(*out, map[string]interface{}{"stats": st, "shards": shards, "total": total}); err != nil {
		fmt.Fprintln(os.Stderr, err)
		os.Exit(1)
	}
}

// hasStructTypedefs: some typedef of the program names a struct-like
func hasStructTypedefs(p *schemagen.Program) bool {
	for _, f := range p.Files {
		for _, d := range f.Defs {
			if d.Typedef != nil && d.Typedef.Type.Kind == "struct" {
				return true
			}
		}
	}
	return false
}

func firstLine(s string) string {
	s = strings.TrimSpace(s)
	if i := strings.IndexByte(s, '\n'); i >= 0 {
		s = s[:i]
	}
	if len(s) > 300 {
		s = s[:300]
	}
	return s
}
