// c01 produces cases for property C01.
// Part A: random operation sequences on the real pkg/namespace (the collision-renaming table
// behind every generated identifier), compared with the Coq model.
// Part B: IDL programs x option sets through the real thriftgo binary; every written .go file
// is parsed with go/parser and the whole output is compiled with `go build`.
// Part C (scope.go): for a sample of the accepted runs of part B, what every written Go package
// declares (identifiers, struct members, method parameters) next to the resolved IDL files, for
// the model of the generator's name tables (coq/Gen/Scope.v).
package main

import (
	"encoding/json"
	"flag"
	"fmt"
	"os"
	"path/filepath"
	"sort"
	"strings"
	"time"

	"github.com/cloudwego/thriftgo/pkg/namespace"

	"verif/harness/casefile"
	"verif/harness/coqfmt"
	"verif/harness/gobuild"
	"verif/harness/rng"
)

type NsOp struct {
	Op   string `json:"op"`
	Name string `json:"name,omitempty"`
	ID   string `json:"id,omitempty"`
	Out  string `json:"out"`
}

type NsCase struct {
	Kind   string            `json:"kind"`
	Rename string            `json:"rename"`
	Ops    []NsOp            `json:"ops"`
	Finals map[string]string `json:"final_names"`
	Panic  string            `json:"panic,omitempty"`
}

func renameFn(kind string) func(string, int) string {
	switch kind {
	case "RUnderscore":
		return namespace.UnderscoreSuffix
	case "RNumber":
		return namespace.NumberSuffix
	default: // RImport: the closure of importManager.init
		return func(name string, cnt int) string { return fmt.Sprintf("%s%d", name, cnt-1) }
	}
}

func nsCase(r *rng.R, kind string, nops int) (c NsCase, coq string) {
	c.Kind, c.Rename = "namespace", kind
	ns := namespace.NewNamespace(renameFn(kind))
	names := []string{"New", "New_", "New__", "Get", "a", "a0", "a1", "a2", "fmt", "fmt0", "x", ""}
	ids := []string{"i1", "i2", "i3", "i4", "i5", "New", "a", ""}
	names = names[:r.Range(3, len(names))]
	ids = ids[:r.Range(2, len(ids))]
	var ops []string
	var outs []string
	used := map[string]bool{}
	defer func() {
		if e := recover(); e != nil {
			c.Panic = fmt.Sprint(e)
		}
	}()
	for k := 0; k < nops; k++ {
		switch r.Intn(10) {
		case 0, 1, 2, 3, 4:
			n, i := rng.Pick(r, names), rng.Pick(r, ids)
			res := ns.Add(n, i)
			used[i] = true
			c.Ops = append(c.Ops, NsOp{"add", n, i, res})
			ops = append(ops, fmt.Sprintf("OAdd %s %s", coqfmt.Bytes(n), coqfmt.Bytes(i)))
			outs = append(outs, "OName "+coqfmt.Bytes(res))
		case 5, 6:
			n, i := rng.Pick(r, names), rng.Pick(r, ids)
			ok := ns.Reserve(n, i)
			used[i] = true
			c.Ops = append(c.Ops, NsOp{"reserve", n, i, fmt.Sprint(ok)})
			ops = append(ops, fmt.Sprintf("OReserve %s %s", coqfmt.Bytes(n), coqfmt.Bytes(i)))
			outs = append(outs, "OBool "+coqfmt.Bool(ok))
		case 7, 8:
			i := rng.Pick(r, ids)
			res := ns.Get(i)
			c.Ops = append(c.Ops, NsOp{"get", "", i, res})
			ops = append(ops, "OGet "+coqfmt.Bytes(i))
			outs = append(outs, "OName "+coqfmt.Bytes(res))
		default:
			n := rng.Pick(r, names)
			res := ns.ID(n)
			c.Ops = append(c.Ops, NsOp{"id", n, "", res})
			ops = append(ops, "OID "+coqfmt.Bytes(n))
			outs = append(outs, "OName "+coqfmt.Bytes(res))
		}
	}
	c.Finals = map[string]string{}
	var finals []string
	var idl []string
	for i := range used {
		idl = append(idl, i)
	}
	sort.Strings(idl)
	for _, i := range idl {
		c.Finals[i] = ns.Get(i)
		finals = append(finals, fmt.Sprintf("(%s, %s)", coqfmt.Bytes(i), coqfmt.Bytes(ns.Get(i))))
	}
	coq = fmt.Sprintf("NsCase %s %s %s %s", kind, coqfmt.List(ops), coqfmt.List(outs), coqfmt.List(finals))
	return
}

// ---- part B ----

type Prog struct {
	Name  string            `json:"name"`
	Files map[string]string `json:"files"`
	Main  string            `json:"main"`
}

type BuildCase struct {
	Kind      string   `json:"kind"`
	Prog      Prog     `json:"program"`
	Backend   string   `json:"backend"`
	Exit      int      `json:"exit"`
	Output    string   `json:"thriftgo_output,omitempty"`
	ParseBad  []string `json:"unparsable_files,omitempty"`
	BuildErrs []string `json:"build_errors,omitempty"`
	NFiles    int      `json:"go_files"`
}

func main() {
	seed := flag.Uint64("seed", 1, "seed")
	tier := flag.String("tier", "quick", "quick|thorough")
	out := flag.String("out", ".", "output directory")
	thriftgo := flag.String("thriftgo", "", "thriftgo binary")
	scopeAll := flag.Bool("scope-all", false, "development: a scope case for every accepted run")
	skipNs := flag.Bool("skip-ns", false, "development: no namespace cases, no go build")
	corpusOnly := flag.Bool("corpus-only", false, "development: corpus programs only")
	allOptsets := flag.Bool("all-optsets", false, "development: the thorough option sets in the quick tier")
	flag.Parse()
	if abs, err := filepath.Abs(*out); err == nil {
		*out = abs
	}
	r := rng.New(*seed)
	w := casefile.New(*out, "From Verif Require Import Base.Bytes Gen.Namespace Corr.C01.", 300)

	// Part A
	nns := 1500
	if *tier == "thorough" {
		nns = 20000
	}
	if *skipNs {
		nns = 0
	}
	nsEval, nsNontrivial := 0, 0
	var samples []interface{}
	kinds := []string{"RUnderscore", "RImport", "RNumber"}
	renamed := 0
	for i := 0; i < nns; i++ {
		c, coq := nsCase(r, kinds[i%3], r.Range(2, 14))
		nsEval++
		coll := false
		for _, o := range c.Ops {
			if o.Op == "add" && o.Out != o.Name {
				coll = true
			}
		}
		if coll {
			nsNontrivial++
			renamed++
			if len(samples) < 3 {
				samples = append(samples, c)
			}
		}
		w.Add(coq, c)
	}

	// Part B
	progs := corpusPrograms()
	if !*corpusOnly {
		progs = append(progs, generatedPrograms(r, *tier)...)
	}
	optsets := []string{"go:", "go:naming_style=golint,gen_setter,gen_deep_equal", "go:template=slim", "fastgo:", "go:with_reflection,with_field_mask,keep_unknown_fields", "go:naming_style=apache,json_enum_as_text,frugal_tag", "go:use_type_alias=false"}
	if *tier == "thorough" || *allOptsets {
		optsets = append(optsets, "go:compatible_names,reorder_fields,nil_safe", "go:value_type_in_container,enum_as_int_32", "go:thrift_streaming,streamx", "go:no_default_serdes,gen_type_meta", "go:snake_style_json_tag,lower_camel_style_json_tag,always_gen_json_tag", "go:enable_nested_struct", "go:validate_set=false,unescape_double_quote,json_stringer", "go:no_processor,skip_empty,code_ref")
	}
	work, err := os.MkdirTemp(filepath.Dir(*out), "c01-work-")
	if err != nil {
		fmt.Fprintln(os.Stderr, err)
		os.Exit(2)
	}
	defer os.RemoveAll(work)
	gen := filepath.Join(work, "gen")
	os.MkdirAll(gen, 0o755)
	if err := gobuild.InitModule(gen); err != nil {
		fmt.Fprintln(os.Stderr, err)
		os.Exit(2)
	}
	var cases []*BuildCase
	keys := []string{}
	sw := newScopeWriter(*out, 240<<10)
	scopeRuns, rejectCases := 0, 0
	for pi, p := range progs {
		src := filepath.Join(work, fmt.Sprintf("src%d", pi))
		for n, t := range p.Files {
			os.MkdirAll(filepath.Dir(filepath.Join(src, n)), 0o755)
			os.WriteFile(filepath.Join(src, n), []byte(t), 0o644)
		}
		for oi, be := range optsets {
			key := fmt.Sprintf("c%03d_%02d", pi, oi)
			outdir := filepath.Join(gen, key)
			lang, opts := be[:strings.IndexByte(be, ':')], be[strings.IndexByte(be, ':')+1:]
			g := lang + ":package_prefix=" + gobuild.Module + "/" + key
			if opts != "" {
				g += "," + opts
			}
			// cwd = program root (it holds only the .thrift files): includes are looked up relative to the cwd first
			exit, output := gobuild.RunThriftgo(*thriftgo, src, []string{"-r", "-g", g, "-o", outdir, p.Main}, 60*time.Second)
			bc := &BuildCase{Kind: "build", Prog: p, Backend: be, Exit: exit}
			if exit != 0 {
				bc.Output = output
				if len(bc.Output) > 1500 {
					bc.Output = bc.Output[:1500]
				}
				os.RemoveAll(outdir)
				if strings.Contains(output, "failed to reserve") {
					rc, term, rerr := rejectCaseFor(p, src, be, output)
					if rerr != nil {
						fmt.Fprintln(os.Stderr, "reject case:", p.Name, be, rerr)
						os.Exit(2)
					}
					if rc != nil {
						sw.Add(term, rc, 0)
						rejectCases++
					}
				}
			} else {
				bc.ParseBad, bc.NFiles = gobuild.ParseAll(outdir)
				if len(bc.ParseBad) == 0 && (*scopeAll || scopeSelected(*tier, p, pi, oi)) {
					sc, terms, serr := scopeCasesFor(p, src, be, outdir)
					if serr != nil {
						fmt.Fprintln(os.Stderr, "scope case:", p.Name, be, serr)
						os.Exit(2)
					}
					for k := range sc {
						sw.Add(terms[k], sc[k], 1+len(sc[k].Declared.Types))
					}
					if len(sc) > 0 {
						scopeRuns++
					}
				}
				if len(bc.ParseBad) > 0 {
					// keep unparsable code out of the joint build
					os.RemoveAll(outdir)
				}
			}
			cases = append(cases, bc)
			keys = append(keys, key)
		}
	}
	ok, per, raw := true, map[string][]string{}, ""
	if !*skipNs {
		ok, per, raw = gobuild.Build(gen, false, 20*time.Minute)
	}
	if !ok && len(per) == 0 {
		fmt.Fprintln(os.Stderr, "go build failed without attributable errors:\n"+raw)
		os.Exit(2)
	}
	bEval, bNontrivial, rejected := 0, 0, 0
	optHist := map[string]int{}
	for i, bc := range cases {
		bc.BuildErrs = per[keys[i]]
		if len(bc.BuildErrs) > 12 {
			bc.BuildErrs = bc.BuildErrs[:12]
		}
		bEval++
		optHist[bc.Backend]++
		if bc.Exit != 0 {
			rejected++
		} else if bc.NFiles >= 1 {
			bNontrivial++
		}
		nf := bc.NFiles
		if nf == 0 && strings.Contains(bc.Backend, "skip_empty") {
			nf = 1 // skip_empty legitimately writes nothing for files without content: not judged by oracle 5
		}
		coq := fmt.Sprintf("BuildCase %s %s %s %d%%N", coqfmt.Bool(bc.Exit == 0), coqfmt.Bool(len(bc.ParseBad) == 0), coqfmt.Bool(len(bc.BuildErrs) == 0), nf)
		w.Add(coq, bc)
	}
	if len(cases) > 0 {
		b, _ := json.Marshal(map[string]interface{}{"program": cases[0].Prog.Name, "backend": cases[0].Backend, "exit": cases[0].Exit, "go_files": cases[0].NFiles})
		var v interface{}
		json.Unmarshal(b, &v)
		samples = append(samples, v)
	}
	w.Close()
	sw.Close()
	casefile.WriteMeta(*out, map[string]interface{}{
		"shards": append(w.Shards, sw.Shards...), "total": w.Total() + sw.Total,
		"stats": map[string]interface{}{
			"evaluations": nsEval + bEval + sw.Total, "distinct_nontrivial": nsNontrivial + bNontrivial + sw.Total,
			"scope_cases": sw.Total - rejectCases, "reserve_failure_cases": rejectCases, "scope_runs": scopeRuns, "scope_tables_compared": sw.Tables,
			"rule":    "namespace case: random Add/Reserve/Get/ID sequence on the real pkg/namespace, non-trivial when some Add had to rename; build case: (program, option set) through thriftgo + go/parser + go build, non-trivial when thriftgo accepted it and wrote Go files; scope case: one Go package directory of an accepted run, its declared identifiers / members / parameter names (go/parser) against the name tables the model computes from the resolved IDL files, always non-trivial",
			"samples": samples, "namespace_cases": nsEval, "namespace_cases_with_rename": renamed,
			"build_cases": bEval, "build_cases_accepted": bNontrivial, "rejected_by_impl": rejected, "option_sets": optHist, "programs": len(progs),
		},
	})
}
