"""Shared runner machinery for the /verif checks.

A check module (checks/cNN.py) describes one property:
    PROP, COQ_TARGETS, PROPS_FILE, HARNESS_CMD, CODES, classify(), ...
and calls vlib.standard_run(spec) from its run() function.  See CONVENTIONS.md.
"""
import concurrent.futures
import fcntl
import hashlib
import json
import os
import re
import shutil
import subprocess
import sys
import tempfile
import time

VERIF = os.path.dirname(os.path.dirname(os.path.abspath(__file__)))
REPO = os.environ.get("VERIF_REPO", "/repo")
COQ = os.path.join(VERIF, "coq")
HARNESS = os.path.join(VERIF, "harness")
BUILD = os.path.join(VERIF, "build")
# a non-default VERIF_REPO (scratch copy used for mutant runs) gets its own binaries
BIN = os.path.join(BUILD, "bin" if REPO == "/repo" else "bin-" + hashlib.sha256(REPO.encode()).hexdigest()[:8])
EVIDENCE = os.path.join(VERIF, "evidence")
REPLAYS = os.path.join(VERIF, "replays")
NPROC = os.cpu_count() or 4

GOENV = dict(GOFLAGS="-mod=mod", GOPROXY="off", GOSUMDB="off", GOTOOLCHAIN="local")

KERNEL_TB = [
    "Coq 8.16.1 kernel (coqc), including its VM: vm_compute is used inside proofs of finite facts and to evaluate the model on correspondence cases; native_compute is not used",
    "no Axiom/Parameter/Admitted in /verif/coq (grep in setup.sh and in every run); axioms per theorem as printed by Print Assumptions (recorded in coverage.assumptions)",
]


def env():
    e = dict(os.environ)
    e.update(GOENV)
    e["VERIF_REPO"] = REPO
    return e


def sh(cmd, cwd=None, timeout=1200, check=False, capture=True, extra_env=None):
    e = env()
    if extra_env:
        e.update(extra_env)
    try:
        p = subprocess.run(cmd, cwd=cwd, env=e, shell=isinstance(cmd, str), timeout=timeout,
                           stdout=subprocess.PIPE if capture else None,
                           stderr=subprocess.STDOUT if capture else None, text=True, errors="replace")
        out = p.stdout or ""
        rc = p.returncode
    except subprocess.TimeoutExpired as ex:
        out = (ex.stdout or "") if isinstance(ex.stdout, str) else ""
        out += "\n[timeout after %ss]" % timeout
        rc = 124
    if check and rc != 0:
        raise RuntimeError("command failed (%s): %s\n%s" % (rc, cmd, out[-4000:]))
    return rc, out


class Lock:
    def __init__(self, name):
        os.makedirs(BUILD, exist_ok=True)
        self.path = os.path.join(BUILD, "." + name + ".lock")

    def __enter__(self):
        self.f = open(self.path, "w")
        fcntl.flock(self.f, fcntl.LOCK_EX)
        return self

    def __exit__(self, *a):
        fcntl.flock(self.f, fcntl.LOCK_UN)
        self.f.close()


def write_if_changed(path, text):
    try:
        if open(path).read() == text:
            return False
    except OSError:
        pass
    os.makedirs(os.path.dirname(path), exist_ok=True)
    with open(path, "w") as f:
        f.write(text)
    return True


# ----------------------------------------------------------------------------- Coq

def coq_project():
    """_CoqProject is generated from the fragments coq/proj/*.list (one .v path per line)."""
    d = os.path.join(COQ, "proj")
    files = []
    for fn in sorted(os.listdir(d)):
        if fn.endswith(".list"):
            for line in open(os.path.join(d, fn)):
                line = line.strip()
                if line and not line.startswith("#") and line not in files and os.path.exists(os.path.join(COQ, line)):
                    files.append(line)
    return write_if_changed(os.path.join(COQ, "_CoqProject"), "-Q . Verif\n" + "\n".join(files) + "\n")


def coq_makefile():
    changed = coq_project()
    mk = os.path.join(COQ, "Makefile")
    if changed or not os.path.exists(mk):
        sh("coq_makefile -f _CoqProject -o Makefile", cwd=COQ, check=True)


def coq_build(targets, timeout=1500):
    """Build the given .vo targets (and their dependency cone). Returns (ok, log)."""
    with Lock("coq"):
        coq_makefile()
        rc, out = sh(["make", "-j%d" % NPROC] + list(targets), cwd=COQ, timeout=timeout)
    return rc == 0, out


def coq_props_report(props_file, timeout=600):
    """Re-compile the property file and read what Print Assumptions said.
    Returns dict(theorems=[names], closed=[names], axioms={name: [lines]}, ok, log)."""
    src = open(os.path.join(COQ, props_file)).read()
    theorems = re.findall(r"^\s*(?:Theorem|Corollary)\s+([A-Za-z0-9_']+)", src, re.M)
    with Lock("coq"):
        rc, out = sh(["coqc", "-Q", ".", "Verif", props_file], cwd=COQ, timeout=timeout)
    closed, axioms = [], {}
    # Print Assumptions output comes in source order, one block per theorem
    blocks = re.split(r"(?=Closed under the global context|Axioms:)", out)
    printed = [b for b in blocks if b.startswith("Closed under") or b.startswith("Axioms:")]
    asked = re.findall(r"Print Assumptions\s+([A-Za-z0-9_']+)", src)
    for name, blk in zip(asked, printed):
        if blk.startswith("Closed under"):
            closed.append(name)
        else:
            axioms[name] = [l.strip() for l in blk.splitlines()[1:] if l.strip()]
    return dict(theorems=theorems, closed=closed, axioms=axioms, ok=(rc == 0), log=out,
                asked=asked)


def coqchk(props_file, timeout=2400):
    """Independent re-check of the compiled property file and everything it depends on."""
    mod = "Verif." + props_file[:-2].replace("/", ".")
    with Lock("coq"):
        rc, out = sh(["coqchk", "-silent", "-o", "-Q", ".", "Verif", mod], cwd=COQ, timeout=timeout)
    summary = out[out.find("CONTEXT SUMMARY"):] if "CONTEXT SUMMARY" in out else out[-1500:]
    axioms = re.search(r"\* Axioms:(.*?)\n\s*\n", summary + "\n\n", re.S)
    return dict(ok=(rc == 0), axioms=(axioms.group(1).strip() if axioms else "?"), summary=" ".join(summary.split())[:1200])


PAIR_RE = re.compile(r"\((\d+)%N,\s*(\d+)%N\)")


def coq_eval_shard(path, timeout=900):
    d, f = os.path.split(path)
    rc, out = sh(["coqc", "-Q", COQ, "Verif", f], cwd=d, timeout=timeout)
    flat = " ".join(out.split())
    if rc != 0 or "R =" not in flat:
        return None, out
    pairs = [(int(a), int(b)) for a, b in PAIR_RE.findall(flat)]
    if not pairs and not re.search(r"R = \[\]", flat):
        return None, out
    return pairs, out


def coq_eval_cases(outdir, shards, jobs=None):
    """Evaluate every shard; returns (results, errors): results = list of (shard, idx, code)."""
    results, errors = [], []
    with concurrent.futures.ThreadPoolExecutor(max_workers=jobs or NPROC) as ex:
        futs = {ex.submit(coq_eval_shard, os.path.join(outdir, s + ".v")): s for s in shards}
        for fut in concurrent.futures.as_completed(futs):
            s = futs[fut]
            pairs, out = fut.result()
            if pairs is None:
                errors.append((s, out[-3000:]))
            else:
                results.extend((s, i, c) for i, c in pairs)
    results.sort()
    return results, errors


# ----------------------------------------------------------------------------- Go

def harness_prepare():
    """go.sum of the harness module = /repo/go.sum + the extra sums we need.
    Default repository: harness/go.mod itself (replace => /repo).  A scratch repository
    (VERIF_REPO, used for mutant runs) gets its own module file under build/, passed with
    -modfile, so that concurrent runs against different trees do not disturb one another.
    Returns the extra `go build` arguments."""
    base = open(os.path.join(REPO, "go.sum")).read()
    extra_p = os.path.join(HARNESS, "go.sum.extra")
    extra = open(extra_p).read() if os.path.exists(extra_p) else ""
    old_sum_p = os.path.join(HARNESS, "go.sum")
    old_sum = open(old_sum_p).read() if os.path.exists(old_sum_p) else ""
    lines = sorted(set((base + "\n" + extra + "\n" + old_sum).splitlines()) - {""})
    gomod = os.path.join(HARNESS, "go.mod")
    txt = open(gomod).read()
    if REPO == "/repo":
        write_if_changed(old_sum_p, "\n".join(lines) + "\n")
        new = re.sub(r"replace github.com/cloudwego/thriftgo => .*", "replace github.com/cloudwego/thriftgo => /repo", txt)
        write_if_changed(gomod, new)
        return []
    d = os.path.join(BUILD, "gomod-" + hashlib.sha256(REPO.encode()).hexdigest()[:8])
    os.makedirs(d, exist_ok=True)
    new = re.sub(r"replace github.com/cloudwego/thriftgo => .*", "replace github.com/cloudwego/thriftgo => " + REPO, txt)
    write_if_changed(os.path.join(d, "go.mod"), new)
    write_if_changed(os.path.join(d, "go.sum"), "\n".join(lines) + "\n")
    return ["-modfile=" + os.path.join(d, "go.mod")]


def go_build(pkg, name, tags="verif", timeout=900):
    """Build a harness command against the repository under test. Returns (ok, log, binpath)."""
    os.makedirs(BIN, exist_ok=True)
    out_bin = os.path.join(BIN, name)
    with Lock("go"):
        extra = harness_prepare()
        rc, out = sh(["go", "build"] + extra + ["-tags", tags, "-o", out_bin, pkg], cwd=HARNESS, timeout=timeout)
    return rc == 0, out, out_bin


def build_thriftgo(timeout=900):
    """Build the thriftgo binary from /repo's current tree (hooks on)."""
    os.makedirs(BIN, exist_ok=True)
    out_bin = os.path.join(BIN, "thriftgo")
    with Lock("go"):
        rc, out = sh(["go", "build", "-tags", "verif", "-o", out_bin, "."], cwd=REPO, timeout=timeout)
    return rc == 0, out, out_bin


# ----------------------------------------------------------------------------- findings / evidence

def load_known():
    """known_findings.json plus known_findings.d/*.json (each a JSON list of entries)."""
    out = []
    p = os.path.join(VERIF, "known_findings.json")
    if os.path.exists(p):
        out += json.load(open(p))
    d = os.path.join(VERIF, "known_findings.d")
    if os.path.isdir(d):
        for fn in sorted(os.listdir(d)):
            if fn.endswith(".json"):
                out += json.load(open(os.path.join(d, fn)))
    return out


def scratch(prop):
    return tempfile.mkdtemp(prefix="verif-%s-" % prop.lower(), dir=os.environ.get("VERIF_TMP", "/tmp"))


def write_replay(prop, obj):
    d = os.path.join(REPLAYS, prop)
    os.makedirs(d, exist_ok=True)
    blob = json.dumps(obj, indent=1, sort_keys=True, default=str)
    h = hashlib.sha256(blob.encode()).hexdigest()[:16]
    p = os.path.join(d, h + ".json")
    with open(p, "w") as f:
        f.write(blob)
    return p


def write_evidence(prop, tier, seed, coverage, assumptions, wall, violations, level="proof"):
    os.makedirs(EVIDENCE, exist_ok=True)
    ev = dict(property_id=prop, tier=tier, seed=seed, level=level, coverage=coverage,
              assumptions=assumptions, wall_s=round(wall, 2), violations=violations)
    tmp = os.path.join(EVIDENCE, prop + ".json.tmp")
    with open(tmp, "w") as f:
        json.dump(ev, f, indent=1, default=str)
    os.replace(tmp, os.path.join(EVIDENCE, prop + ".json"))


def strip_coq_comments(text):
    """Remove (nested) Coq comments and string literals, keeping line structure."""
    out = []
    depth = 0
    i, n = 0, len(text)
    in_str = False
    while i < n:
        c = text[i]
        if in_str:
            if c == '"':
                in_str = False
            out.append("\n" if c == "\n" else " ")
            i += 1
        elif text.startswith("(*", i):
            depth += 1
            i += 2
        elif depth > 0 and text.startswith("*)", i):
            depth -= 1
            i += 2
        elif depth > 0:
            out.append("\n" if c == "\n" else " ")
            i += 1
        elif c == '"':
            in_str = True
            out.append(" ")
            i += 1
        else:
            out.append(c)
            i += 1
    return "".join(out)


FORBIDDEN_RE = re.compile(r"\b(Admitted|admit|Axiom|Axioms|Parameter|Parameters|Conjecture|Conjectures)\b|Unset\s+Guard|bypass_check|Admit\s+Obligations|type-in-type|impredicative-set|Unset\s+Universe\s+Checking|Unset\s+Positivity")
SECTION_VAR_RE = re.compile(r"^\s*(Variable|Variables|Hypothesis|Hypotheses|Context)\b")


def cone_files(prop):
    """The .v files of a property's project fragment plus the shared 00-* fragments."""
    d = os.path.join(COQ, "proj")
    out = []
    for fn in sorted(os.listdir(d)):
        if fn.endswith(".list") and (fn.startswith("00-") or fn[:-5].upper() == prop.upper()):
            for line in open(os.path.join(d, fn)):
                line = line.strip()
                if line and not line.startswith("#"):
                    out.append(os.path.join(COQ, line))
    return out


def forbidden_words(prop=None):
    """The development must not contain admitted proofs, declared axioms or switched-off checks.
    Comments and string literals are ignored; Variable/Hypothesis/Context only inside a Section.
    With prop: only that property's files and the shared cores (a check is not failed by another
    property's unfinished file); without: every .v file under coq/ (setup.sh)."""
    bad = []
    if prop:
        todo = [(os.path.dirname(p), [os.path.basename(p)]) for p in cone_files(prop) if os.path.exists(p)]
    else:
        todo = [(root, files) for root, _, files in os.walk(COQ)]
    for root, files in todo:
        for fn in sorted(files):
            if not fn.endswith(".v"):
                continue
            p = os.path.join(root, fn)
            try:
                code = strip_coq_comments(open(p, errors="replace").read())
            except OSError:
                continue
            depth = 0
            for n, line in enumerate(code.splitlines(), 1):
                if FORBIDDEN_RE.search(line):
                    bad.append("%s:%d: %s" % (os.path.relpath(p, COQ), n, line.strip()[:160]))
                if re.match(r"\s*Section\s+\w+", line):
                    depth += 1
                elif re.match(r"\s*End\s+\w+\s*\.", line) and depth > 0:
                    depth -= 1
                elif SECTION_VAR_RE.match(line) and depth == 0:
                    bad.append("%s:%d: %s (outside a Section)" % (os.path.relpath(p, COQ), n, line.strip()[:160]))
    return bad


# ----------------------------------------------------------------------------- the standard flow

class Spec:
    """Description of one property check (filled in by checks/cNN.py)."""
    prop = None                 # "C12"
    design_ref = ""
    coq_targets = []            # [".vo", ...] relative to coq/
    props_file = None           # "Props/C12.v"
    harness_pkg = None          # "./cmd/c12"
    harness_name = None         # "c12"
    corr_codes = {1, 9}         # codes that mean "model and implementation disagree"
    code_names = {}             # code -> short text
    trusted_base = []
    assumptions = []
    modelled = ""               # which Go functions the model mirrors
    needs_thriftgo = False

    def translators(self, ctx):
        """Regenerate translator-produced .v files from /repo (write_if_changed)."""
        return []

    def producer_args(self, ctx):
        return ["-seed", str(ctx.seed), "-tier", ctx.tier, "-out", ctx.out]

    def classify(self, code, case):
        """Return a stable class string for a property-oracle failure (known-finding key)."""
        return "%s-code-%d" % (self.prop, code)

    def extra_checks(self, ctx):
        """Optional additional python-side checks; returns list of (class, what, replay_obj)."""
        return []

    def search(self, ctx):
        """Called when only correspondence failed: look harder for a failing input.
        Default: one thorough-sized producer run with another seed."""
        return None


class Ctx:
    pass


def load_case(outdir, shard, idx):
    with open(os.path.join(outdir, shard + ".jsonl")) as f:
        for n, line in enumerate(f):
            if n == idx:
                return json.loads(line)
    return None


def standard_run(spec, tier, replay=None):
    t0 = time.time()
    prop = spec.prop
    seed = int(os.environ.get("VERIF_SEED", "1") or 1)
    ctx = Ctx()
    ctx.tier, ctx.seed, ctx.prop = tier, seed, prop
    ctx.scratch = scratch(prop)
    ctx.out = os.path.join(ctx.scratch, "cases")
    os.makedirs(ctx.out)
    violations = []      # (replay_path, suffix)
    known_lines = []
    notes = []
    coverage = {}
    try:
        # 0. hygiene
        bad = forbidden_words(prop)
        if bad:
            p = write_replay(prop, dict(kind="forbidden-construct", lines=bad))
            violations.append((p, "no-failing-input-found"))
        # 1. translators, then Coq cone of this property
        gen = spec.translators(ctx)
        ok, log = coq_build(spec.coq_targets)
        proof_broken = None
        if not ok:
            failing = re.findall(r"File \"\./([^\"]+)\", line (\d+)", log)
            proof_broken = dict(kind="coq-build-failed", targets=spec.coq_targets, failing=failing, log=log[-6000:])
            # try to keep going with the correspondence part only
            corr_targets = [t for t in spec.coq_targets if t.startswith("Corr/")]
            ok2, _ = coq_build(corr_targets) if corr_targets else (False, "")
            if not ok2:
                p = write_replay(prop, proof_broken)
                violations.append((p, "no-failing-input-found"))
                raise StopIteration
        rep = coq_props_report(spec.props_file) if (spec.props_file and not proof_broken) else dict(theorems=[], closed=[], axioms={}, ok=False, log="", asked=[])
        obligations = len(rep["theorems"]) if rep["theorems"] else 0
        discharged = obligations if rep["ok"] else 0
        if spec.props_file and not proof_broken and not rep["ok"]:
            proof_broken = dict(kind="props-file-failed", file=spec.props_file, log=rep["log"][-6000:])
        # 2. harness
        if spec.needs_thriftgo:
            okb, logb, ctx.thriftgo = build_thriftgo()
            if not okb:
                p = write_replay(prop, dict(kind="thriftgo-build-failed", log=logb[-6000:]))
                violations.append((p, "no-failing-input-found"))
                raise StopIteration
        okh, logh, binp = go_build(spec.harness_pkg, spec.harness_name)
        if not okh:
            p = write_replay(prop, dict(kind="harness-build-failed", note="the harness no longer compiles against /repo: an API it drives changed", log=logh[-6000:]))
            violations.append((p, "no-failing-input-found"))
            raise StopIteration
        ctx.bin = binp
        # 3. produce cases on the implementation
        rc, outp = sh([binp] + spec.producer_args(ctx), cwd=ctx.scratch, timeout=spec_timeout(tier))
        if rc != 0:
            p = write_replay(prop, dict(kind="producer-failed", rc=rc, log=outp[-6000:]))
            violations.append((p, "no-failing-input-found"))
            raise StopIteration
        meta = json.load(open(os.path.join(ctx.out, "meta.json")))
        ctx.meta = meta
        # 4. evaluate model + oracles inside Coq
        results, errors = coq_eval_cases(ctx.out, meta["shards"])
        if errors:
            p = write_replay(prop, dict(kind="cases-did-not-evaluate", shards=[e[0] for e in errors], log=errors[0][1]))
            violations.append((p, "no-failing-input-found"))
        corr_fail = [(s, i, c) for (s, i, c) in results if c in spec.corr_codes]
        spec_fail = [(s, i, c) for (s, i, c) in results if c not in spec.corr_codes]
        known = [k for k in load_known() if k.get("property") == prop and k.get("status") == "finding"]
        seen_classes = {}
        for (s, i, c) in spec_fail:
            case = load_case(ctx.out, s, i)
            cls = spec.classify(c, case)
            if cls in seen_classes:
                seen_classes[cls]["count"] += 1
                continue
            seen_classes[cls] = dict(count=1, code=c, case=case)
        for cls, info in seen_classes.items():
            k = next((k for k in known if k.get("class") == cls), None)
            if k:
                known_lines.append("KNOWN-FINDING: property=%s %s [%s; %d case(s) this run]" % (prop, k["what"], cls, info["count"]))
            else:
                p = write_replay(prop, dict(kind="property-violated-on-implementation", cls=cls, code=info["code"],
                                            meaning=spec.code_names.get(info["code"], ""), count=info["count"],
                                            case=info["case"], seed=seed, tier=tier,
                                            rerun="cd /verif && VERIF_SEED=%d ./check %s %s" % (seed, prop, tier)))
                violations.append((p, ""))
        for cls, what, obj in spec.extra_checks(ctx):
            k = next((k for k in known if k.get("class") == cls), None)
            if k:
                known_lines.append("KNOWN-FINDING: property=%s %s [%s]" % (prop, k["what"], cls))
            else:
                violations.append((write_replay(prop, dict(kind="property-violated-on-implementation", cls=cls, what=what, detail=obj, seed=seed, tier=tier)), ""))
        if corr_fail and not any(v[1] == "" for v in violations):
            # model and implementation disagree but no oracle failed: search harder
            found = spec.search(ctx)
            s, i, c = corr_fail[0]
            obj = dict(kind="correspondence-broken", note="the model in /verif/coq no longer predicts the implementation; the theorems therefore no longer speak about this code",
                       theorems=rep["theorems"], first_case=load_case(ctx.out, s, i), disagreeing_cases=len(corr_fail), code=c, seed=seed, tier=tier)
            if found:
                obj["found"] = found
                violations.append((write_replay(prop, obj), ""))
            else:
                violations.append((write_replay(prop, obj), "no-failing-input-found"))
        elif corr_fail:
            notes.append("%d correspondence disagreements accompany the reported violation" % len(corr_fail))
        if proof_broken:
            # a proof obligation no longer checks
            if not any(v[1] == "" for v in violations):
                violations.append((write_replay(prop, proof_broken), "no-failing-input-found"))
        chk = None
        if tier == "thorough" and spec.props_file and not proof_broken:
            chk = coqchk(spec.props_file)
            if not chk["ok"]:
                violations.append((write_replay(prop, dict(kind="coqchk-failed", detail=chk)), "no-failing-input-found"))
        st = meta.get("stats", {})
        coverage = dict(
            coqchk=chk,
            obligations=max(obligations, 1), discharged=discharged,
            checker_cmd="make -C /verif/coq %s && coqc -Q . Verif %s   (Print Assumptions under every theorem)" % (" ".join(spec.coq_targets), spec.props_file),
            trusted_base=KERNEL_TB + spec.trusted_base,
            theorems=rep["theorems"], closed_under_global_context=rep["closed"], assumptions_printed=rep["axioms"],
            evaluations=st.get("evaluations", meta.get("total", 0)),
            distinct_nontrivial=st.get("distinct_nontrivial", 0),
            rule=st.get("rule", ""),
            samples=st.get("samples", [])[:6],
            traces_validated_against_impl=meta.get("total", 0),
            correspondence_disagreements=len(corr_fail),
            oracle_failures=len(spec_fail),
            known_finding_classes=sorted(seen_classes.keys()),
            input_distribution={k: v for k, v in st.items() if k not in ("samples", "rule", "evaluations", "distinct_nontrivial")},
            modelled=spec.modelled, translators=gen, notes=notes,
        )
    except StopIteration:
        pass
    finally:
        shutil.rmtree(ctx.scratch, ignore_errors=True)
    if not coverage:
        coverage = dict(obligations=1, discharged=0, checker_cmd="(run aborted before evaluation)", trusted_base=KERNEL_TB + spec.trusted_base,
                        evaluations=1, distinct_nontrivial=0, rule="aborted", samples=["aborted"])
    for line in known_lines:
        print(line)
    write_evidence(prop, tier, seed, coverage, spec.assumptions, time.time() - t0, len(violations))
    if violations:
        for p, suffix in violations:
            print(("VIOLATION property=%s replay=%s %s" % (prop, p, suffix)).rstrip())
        return 1
    print("OK property=%s tier=%s cases=%s theorems=%d wall=%.1fs" % (prop, tier, coverage.get("evaluations"), coverage.get("discharged", 0), time.time() - t0))
    return 0


def spec_timeout(tier):
    return 900 if tier == "quick" else 3600
