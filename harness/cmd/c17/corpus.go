package main

// corpus: minimised inputs that once failed on the unrepaired dumper, or that pin a known
// finding, or that hold a shape the property text lists.  Run before the generated programs.
type corpusEntry struct {
	name  string
	main  string
	files map[string]string
}

var corpus = []corpusEntry{
	// fixed (parser, 6a3edb3): nothing to print -> empty text, which the parser used to reject ("not document")
	{"empty-file", "main.thrift", map[string]string{"main.thrift": "// only a comment\n"}},

	// fixed (C17-1): defaults and annotations of arguments and throws; throws separator
	{"argument-defaults-annotations", "main.thrift", map[string]string{"main.thrift": `
exception E { 1: string m }
exception F { 1: string m }
service S {
  i32 f(1: i32 a = 5 (k = "v"), 2: string b = "x" (k = "v", k = "w"), 3: list<i32> c = [1, 2]) throws (1: E e (k = "v"), 2: F f)
  void one(1: i32 a) throws (1: E e, 2: F f)
  void two(1: i32 a, 2: i32 b) throws (1: E e)
  oneway void three()
  E four(1: required i32 a, 2: optional i32 b = -1) (fn = "anno")
}
`}},

	// fixed (C17-2): exact quoting
	{"literal-quoting", "main.thrift", map[string]string{"main.thrift": `
const string a = 'a\"b'
const string b = "a\\\\\"b"
const string c = 'a\\\\\"b\''
const string d = "x\'y"
const string e = ""
const string f = "it's"
const string g = 'say "hi"'
const string h = "both ' and \" here"
const list<string> l = ["#OUTQUOTES", "##34;", "&amp;", "&", "&lt;<", "#", "a\\b", "tab	inside", "é世"]
struct S {
  1: string (k = "&<#") a = "&" (x = 'a\"b', x = "#OUTQUOTES", y = "##34;")
  2: map<string (a = "&"), list<string (b = "&amp;")> (c = "d")> m
}
`}},
	// an ampersand in front of a legacy entity name without semicolon must stay as it is (no HTML
	// pass is left in DumpIDL; html.UnescapeString would give (R)ion, (C)=, section sign, <=)
	{"ampersand-legacy-entities", "main.thrift", map[string]string{"main.thrift": `
const string q = "?a=1&region=eu"
const list<string> l = ["&copy=1", "&section=3", "size&lt=100", "&amp", "&amp;", "&quot", "&gt5", "&notify", "&#38", "&#x26;", "&deg;"]
struct S {
  1: string (url = "?a=1&region=eu&copy=1") a = "x&lt=1" (k = "&section=3", k = "size&lt=100")
}
`}},
	{"include-path-with-quote", "main.thrift", map[string]string{
		"main.thrift": "include \"a\\\"b.thrift\"\ninclude 'sub/c.thrift'\ncpp_include \"<x&y>\"\ncpp_include 'q\"q'\nstruct S { 1: c.T t }\n",
		"a\"b.thrift":  "struct A {}\n",
		"sub/c.thrift": "namespace go sub.c\nstruct T { 1: i32 x }\n",
	}},

	// fixed (C17-3): doubles beyond the int64 range
	{"large-doubles", "main.thrift", map[string]string{"main.thrift": `
const double a = 1e19
const double b = 1e300
const double c = 5.0
const double d = -0.0
const double e = 1e-7
const double f = 123456789.0
const double g = 0.1
const double h = -2.5e-300
const double i = 9223372036854775807.0
const double j = 9007199254740993.0
const list<double> k = [1.5, 2, 3.0e10]
struct S { 1: double x = 1e21, 2: double y = 7 }
`}},

	// doubles that need 17 significant digits, at small and huge magnitudes
	{"doubles-17-digits", "main.thrift", map[string]string{"main.thrift": `
const double a = 1.1920928955078125e-07
const double b = 1.1754943508222875e-38
const double c = 1.1102230246251565e-16
const double d = 2.2250738585072014e-308
const double e = 1.7976931348623157e308
const double f = 5e-324
const double g = 0.30000000000000004
const double h = -8.98846567431158e307
const list<double> l = [1.0000000000000002, 1.4012984643248171e-45, 3.4028234663852886e38, 6.103515625e-05]
struct S { 1: double x = 2.2204460492503131e-16, 2: double y = -1.1754943508222875e-38 }
`}},

	// not constrained by the property: cpp_type is not printed
	{"cpp-type", "main.thrift", map[string]string{"main.thrift": `
typedef map cpp_type "x" <i32, i32> M
typedef list<i32> cpp_type "y" L
typedef set cpp_type "z" <string> Z
`}},

	{"ids-and-enum-values", "main.thrift", map[string]string{"main.thrift": `
enum Color { RED, GREEN = 5, BLUE, NEG = -3, AFTER, HEX = 0x10, BIG = 9223372036854775807 }
enum Empty {}
struct Ids {
  -1: i32 a
  -5: optional i32 b
  i32 c
  0x10: i32 d
  i32 e
  32767: required string f
  -2147483648: i32 g
}
union U { 1: i32 a, 2: string b }
`}},

	{"nested-constants", "main.thrift", map[string]string{"main.thrift": `
struct P { 1: i32 x, 2: list<string> names, 3: map<string, list<i32>> m }
const map<string, list<map<i32, string>>> deep = { "a": [ { 1: "one", 2: "two" }, {} ], "b": [] }
const P p = { "x": 1, "names": ["a", "b"], "m": { "k": [1, 2, 3] } }
const list<list<list<i32>>> lll = [[[1], []], []]
const map<i32, i32> em = {}
const list<i32> el = []
const bool yes = true
const Color2 col = Color2.A
enum Color2 { A, B }
struct WithDefaults {
  1: list<P> ps = [ { "x": 1 }, { "x": 2, "names": [] } ]
  2: map<string, string> kv = { "a": "b", 'c': 'd' }
  3: Color2 c = Color2.B
  4: i64 n = -9223372036854775808
}
`}},

	{"empty-and-extends", "main.thrift", map[string]string{"main.thrift": `
struct ES {}
union EU {}
exception EE {}
service Base {}
service Derived extends Base {
  void ping()
}
service Annotated { } (a = "b")
`}},

	{"annotations-everywhere", "main.thrift", map[string]string{"main.thrift": `
namespace go a.b (ns.anno = "x")
namespace * star.ns
namespace java c.d (a = "1", b = "2", a = "3")
typedef string (t1 = "type") Name (t2 = "typedef")
typedef map<string (k = "key"), list<i32 (e = "elem")> (l = "list")> (m = "map") Table (td = "x")
const i32 (c = "ctype") answer = 42 (c2 = "const")
enum En { A = 1 (va = "x"), B (vb = "y") } (en = "z")
struct St { 1: i32 (ft = "x") f (fa = "y", fa = "y2") } (st = "z")
union Un { 1: i32 a (u = "v") } (un = "w")
exception Ex { 1: string m (x = "y") } (ex = "z")
service Sv {
  string (rt = "ret") f(1: i32 (at = "x") a (aa = "y")) throws (1: Ex e (th = "z")) (fn = "w")
} (sv = "v")
`}},

	{"comments", "main.thrift", map[string]string{"main.thrift": `
// leading comment of the typedef
typedef i32 T
/* block
   comment */
struct S {
  // leading comment of a
  1: i32 a
  2: i32 b // end of line comment of b
  # unix comment of c
  3: i32 c
}
enum E {
  A, // after A
  /* before B */ B
}
service Sv {
  // doc of f
  void f()
}
// trailing comment
`}},
}
