(* Corr/C10.v — correspondence record and oracles for property C10 (fastgo codec).

   A shard file defines  E : env  (the schema program) and a list of cases; every case carries the
   input chosen by the harness and what the generated Go code (thriftgo -g fastgo, compiled) was
   observed to do.

   [mismatches] returns (case index, code):
     1  model (Wire/Fast.v, Wire/Std.v) and implementation disagree                 (correspondence)
     8  input outside what the models follow; the harness must not produce it        (correspondence)
     9  model out of fuel (never expected: FastFacts.fast_read_total)                (correspondence)
     2  BLength() differs from the number of bytes FastAppend / FastWrite wrote            (oracle)
     3  the FastAppend bytes do not decode, under the schema, to the value                 (oracle)
     4  the standard generated Read does not decode the FastAppend bytes to the value      (oracle)
     5  FastRead and the standard Read differ on the same encoding (object or error class) (oracle)
     6  FastRead panicked on a truncated encoding; by the model: Skip reported a length beyond its buffer
     7  the same on an encoding with one corrupted type byte                                (oracle)
    13  FastRead panicked on a truncated encoding; by the model: Skip indexed with a negative type
    14  the same on an encoding with one corrupted type byte                                (oracle)
    15  FastRead panicked on a truncated encoding and the model does not say why            (oracle)
    16  the same on an encoding with one corrupted type byte / an encoding with extra fields (oracle)
    18  the statements bitset.go emits for n required fields (observed text, parsed) do not report exactly the
        first field that was not read, on some set of fields read                             (oracle)
    17  the driver process died (Go runtime: out of memory) in FastRead where the model answers with an
        error: the generated code allocates make(T, size) with a size taken from the input before it looks
        at the bytes that follow                                                              (oracle)
    10  FastRead accepted a proper prefix of an encoding of the struct's own value         (oracle)
    11  FastWrite wrote something else than FastAppend                                     (oracle)
    12  FastAppend / BLength / FastWrite panicked                                          (oracle)   *)
From Coq Require Import List ZArith Bool NArith Lia.
From Verif Require Import Base.Bytes Base.BE Wire.TType Wire.WVal Wire.Codec Wire.Schema Wire.Value Wire.Std
                          Wire.Fast Wire.FastBitset Corr.C02.
Import ListNotations.
Open Scope Z_scope.

(* error classes of FastRead as the driver reports them (never message texts):
   gopkg ProtocolException with TypeId INVALID_DATA / any other TypeId / another error / recovered
   panic / the driver process died *)
Inductive fobs := FOOk | FOInvalid | FOProtocol | FOError | FOPanic | FOCrash.

Definition fobs_eqb (a b : fobs) : bool :=
  match a, b with
  | FOOk, FOOk | FOInvalid, FOInvalid | FOProtocol, FOProtocol | FOError, FOError
  | FOPanic, FOPanic | FOCrash, FOCrash => true
  | _, _ => false end.

Definition fobs_bad (o : fobs) : bool := match o with FOPanic | FOCrash => true | _ => false end.

Inductive case :=
| CWrite (sname : bytes) (v : value)
         (oblen : Z) (oapp : bytes) (app_panic : bool)
         (fw_n : Z) (fw_bytes : option bytes) (fw_panic : bool)      (* None: the same bytes as FastAppend *)
         (rs_err : obs_err) (rs_dump : value)                        (* standard Read of the FastAppend bytes *)
         (rf_err : fobs) (rf_off : Z) (rf_dump : value)              (* FastRead of the FastAppend bytes *)
| CRead (sname : bytes) (valid : bool) (zero_init : bool) (input : bytes)
        (f_err : fobs) (f_off : Z) (f_dump : value)
        (s_err : obs_err) (s_dump : value)
| CTrunc (sname : bytes) (own : bool) (input : bytes) (obs : list fobs)   (* obs[i]: FastRead of the first i bytes *)
| CCorrupt (sname : bytes) (input : bytes) (b_err : fobs) (b_off : Z) (b_dump : value)
           (l : list (Z * Z * fobs * Z * option value))             (* position, new byte, class, off, dump (None = as base) *)
| CBitset (n : Z) (nwords : Z) (setbits : list (Z * Z)) (prog : list block).  (* what bitsetCodeGen emitted for n values *)

(* constructors with Z arguments for the machine-written case files *)
Definition btest (w mask v : Z) : test := Test (Z.to_nat w) mask (Z.to_nat v).
Definition bguard (w full : Z) (ts : list test) : block := Guarded (Z.to_nat w) full ts.
Definition bplain (ts : list test) : block := Plain ts.

Definition test_eqb (a b : test) : bool :=
  match a, b with Test w m v, Test w' m' v' => (w =? w')%nat && (m =? m') && (v =? v')%nat end.
Definition block_eqb (a b : block) : bool :=
  match a, b with
  | Guarded w c ts, Guarded w' c' ts' => (w =? w')%nat && (c =? c') && list_eqb test_eqb ts ts'
  | Plain ts, Plain ts' => list_eqb test_eqb ts ts'
  | _, _ => false end.

(* the words after the OBSERVED set-bit statements of the fields in [seen] ran *)
Definition obs_state (setbits : list (Z * Z)) (seen : list nat) : words :=
  fold_left (fun st i => match nth_error setbits i with
                         | Some (w, m) => set_word st (Z.to_nat w) m
                         | None => st end) seen (fun _ => 0).

(* sets of fields read: none, all, all but one (for every field), the even ones, the odd ones in reverse *)
Definition seen_family (n : nat) : list (list nat) :=
  [] :: seq 0 n :: filter Nat.even (seq 0 n) :: rev (filter Nat.odd (seq 0 n)) ::
  map (fun k => filter (fun i => negb (i =? k)%nat) (seq 0 n)) (seq 0 n).

Definition tests_of (b : block) : list test := match b with Guarded _ _ ts | Plain ts => ts end.

Definition onat_eqb (a b : option nat) : bool :=
  match a, b with Some x, Some y => (x =? y)%nat | None, None => true | _, _ => false end.

(* what the model says, as an observable *)
Inductive mobs := MOk (v : value) (n : Z) | MErr (c : fobs) | MPanic (index : bool) | MFuel | MDomain.

Definition model_read (e : env) (s : sschema) (init : value) (bs : bytes) : mobs :=
  match fast_read e s init bs with
  | FOk (v, n) => MOk v n
  | FErr FShort | FErr FNegLen | FErr FBadType | FErr (FRequired _) => MErr FOInvalid
  | FErr FDepth => MErr FOProtocol
  | FErr FOverrun => MPanic false
  | FErr FIndex => MPanic true
  | FErr FFuel => MFuel
  | FErr FBadInit | FErr FNoStruct => MDomain
  end.

(* compare a model outcome with an observed (class, off, dump) *)
Definition cmp_read (m : mobs) (c : fobs) (off : Z) (dump : value) : list N :=
  match m with
  | MOk v n => match c with
               | FOOk => if veq_mod v dump && (n =? off) then [] else [1%N]
               | _ => [1%N] end
  | MErr x => match c with FOCrash => [] | _ => if fobs_eqb x c then [] else [1%N] end
  | MPanic _ => match c with FOPanic | FOCrash => [] | _ => [1%N] end
  | MFuel => [9%N]
  | MDomain => [8%N]
  end.

(* the oracle "no panic": code by situation (truncated / other) and by the cause the model gives *)
Definition panic_codes (truncated : bool) (m : mobs) (c : fobs) : list N :=
  if fobs_bad c then
    match m, c with
    | MErr _, FOCrash | MPanic _, FOCrash => [17%N]   (* make(T, size) comes before the elements are looked at *)
    | MPanic false, FOPanic => [if truncated then 6%N else 7%N]
    | MPanic true, FOPanic => [if truncated then 13%N else 14%N]
    | _, _ => [if truncated then 15%N else 16%N]
    end
  else [].

Definition set_byte (bs : bytes) (pos : Z) (b : Z) : bytes :=
  firstn (Z.to_nat pos) bs ++ byte_of_Z b :: skipn (S (Z.to_nat pos)) bs.

Definition init_of (e : env) (s : sschema) (zero_init : bool) : value :=
  if zero_init then zero_struct e s else new_struct e s.

(* std error classes seen through the two exception libraries *)
Definition same_class (f : fobs) (s : obs_err) : bool :=
  match f, s with
  | FOOk, OOk => true
  | FOInvalid, OInvalidData => true
  | FOInvalid, OProtocol | FOInvalid, OTransport | FOInvalid, OError => true   (* truncated / malformed: both refuse *)
  | FOProtocol, OProtocol | FOProtocol, OError => true
  | _, _ => false
  end.

Fixpoint trunc_checks (e : env) (s : sschema) (own : bool) (input : bytes) (i : nat) (obs : list fobs) : list N :=
  match obs with
  | [] => []
  | o :: r =>
      (let m := model_read e s (new_struct e s) (firstn i input) in
       (match m with
        | MOk _ _ => match o with FOOk => [] | _ => [1%N] end
        | MErr x => match o with FOCrash => [] | _ => if fobs_eqb x o then [] else [1%N] end
        | MPanic _ => match o with FOPanic | FOCrash => [] | _ => [1%N] end
        | MFuel => [9%N]
        | MDomain => [8%N]
        end) ++ panic_codes true m o) ++
      (if own then match o with FOOk => [10%N] | _ => [] end else []) ++
      trunc_checks e s own input (S i) r
  end.

(* no two keys of a map become equal by what Write does to them (enum keys are truncated to 32 bits): only then
   does the value after a round trip not depend on Go's map iteration order, and only then do the oracles
   "the bytes decode to the value" compare with norm (which follows the order of the model value) *)
Fixpoint nocoll (e : env) (t : ty) (v : value) {struct v} : bool :=
  match v with
  | VList l => match t with TList et | TSet et => forallb (nocoll e et) l | _ => true end
  | VMap kvs =>
      match t with
      | TMap kt vt =>
          negb (has_dup go_key_eq (map (fun kv => norm e kt (fst kv)) kvs)) &&
          forallb (fun kv => nocoll e kt (fst kv) && nocoll e vt (snd kv)) kvs
      | _ => true end
  | VStruct fs =>
      match t with
      | TRef n =>
          match find_struct e n with
          | Some s => forallb (fun p => match find_field (fst p) (s_fields s) with
                                        | Some f => nocoll e (f_ty f) (snd p)
                                        | None => true end) fs
          | None => true end
      | _ => true end
  | VSome x => nocoll e t x
  | _ => true
  end.

Definition check (e : env) (c : case) : list N :=
  match c with
  | CWrite sname v oblen oapp app_panic fw_n fw_bytes fw_panic rs_err rs_dump rf_err rf_off rf_dump =>
      match find_struct e sname with
      | None => [8%N]
      | Some s =>
          if app_panic then [12%N] else
          (* correspondence: BLength and the bytes (decoded; map entries and fields in any order) *)
          (if blength e s v =? oblen then [] else [1%N]) ++
          (match dec_struct (fast_append e s v), dec_struct oapp with
           | Some (wm, []), Some (wo, []) => if weq_mod true wm wo then [] else [1%N]
           | _, _ => [1%N] end) ++
          (* oracles on the observed outputs *)
          (if oblen =? lenZ oapp then [] else [2%N]) ++
          (if fw_panic then [12%N] else
             (if fw_n =? oblen then [] else [2%N]) ++
             (match fw_bytes with
              | None => []
              | Some fb => match dec_struct fb, dec_struct oapp with
                           | Some (a, []), Some (b, []) => if weq_mod true a b then [] else [11%N]
                           | _, _ => [11%N] end
              end)) ++
          (if wt e s v && nocoll e (TRef (s_name s)) v then
             (match dec_struct oapp with
              | Some (WStruct wfs, []) =>
                  match read_new e s (WStruct wfs) with
                  | Ok v' => if veq_mod v' (norm_struct e s v) then [] else [3%N]
                  | Err _ => [3%N] end
              | _ => [3%N] end) ++
             (match rs_err with
              | OOk => if veq_mod rs_dump (norm_struct e s v) then [] else [4%N]
              | _ => [4%N] end) ++
             (match rf_err with
              | FOOk => if veq_mod rf_dump rs_dump && (rf_off =? lenZ oapp) then [] else [5%N]
              | _ => [5%N] end)
           else
             (* outside the domain of the theorems the two readers must still agree with each other *)
             (if same_class rf_err rs_err then
                match rf_err with FOOk => if veq_mod rf_dump rs_dump then [] else [5%N] | _ => [] end
              else [5%N])) ++
          (* the model of FastRead on the observed bytes *)
          cmp_read (model_read e s (new_struct e s) oapp) rf_err rf_off rf_dump
      end
  | CRead sname valid zero_init input f_err f_off f_dump s_err s_dump =>
      match find_struct e sname with
      | None => [8%N]
      | Some s =>
          let init := init_of e s zero_init in
          let m := model_read e s init input in
          cmp_read m f_err f_off f_dump ++
          (if valid then
             (* the standard reader's model on the same bytes: both models must agree too *)
             (match read_bytes e s init input, m with
              | Ok v, MOk v' _ => if veq_mod v v' then [] else [1%N]
              | Err (ERequiredMissing _), MErr FOInvalid => []
              | Err EDecode, MErr _ => []
              | Err EHeader, _ | Err EBadValue, _ | Err EUnknownStruct, _ => [8%N]
              | _, MFuel => [] | _, MDomain => [] | _, MPanic _ => []
              | _, _ => [1%N] end) ++
             (* oracle: the two generated readers agree *)
             (if same_class f_err s_err then
                match f_err with FOOk => if veq_mod f_dump s_dump then [] else [5%N] | _ => [] end
              else [5%N])
           else []) ++
          panic_codes false m f_err
      end
  | CTrunc sname own input obs =>
      match find_struct e sname with
      | None => [8%N]
      | Some s => trunc_checks e s own input O obs
      end
  | CCorrupt sname input b_err b_off b_dump l =>
      match find_struct e sname with
      | None => [8%N]
      | Some s =>
          cmp_read (model_read e s (new_struct e s) input) b_err b_off b_dump ++
          flat_map (fun x =>
                      match x with
                      | (pos, nb, c, off, od) =>
                          let m := model_read e s (new_struct e s) (set_byte input pos nb) in
                          cmp_read m c off (match od with Some d => d | None => b_dump end) ++
                          panic_codes false m c
                      end) l
      end
  | CBitset nz nwords setbits prog =>
      let n := Z.to_nat nz in
      (if (gen_var n =? Z.to_nat nwords)%nat &&
          list_eqb (fun a b : nat * Z => (fst a =? fst b)%nat && (snd a =? snd b)) (map (gen_setbit n) (seq 0 n))
                   (map (fun p : Z * Z => (Z.to_nat (fst p), snd p)) setbits) &&
          (* the tests, in order; guards are compared by what they mean (below), not by their text, so that
             adding or dropping a sound `if isset[w] != full` shortcut is not a disagreement *)
          list_eqb test_eqb (flat_map tests_of (gen_if_not_set n)) (flat_map tests_of prog)
       then [] else [1%N]) ++
      (if (length setbits =? n)%nat &&
          forallb (fun seen => onat_eqb (run (obs_state setbits seen) prog) (first_unset n seen)) (seen_family n) &&
          forallb (fun b => match b with
                            | Plain _ => true
                            | Guarded w full ts =>
                                forallb (fun t => match t with Test w' mask _ => (w' =? w)%nat && (Z.land full mask =? mask) end) ts
                            end) prog
       then [] else [18%N])
  end.

Fixpoint mismatches_from (e : env) (i : N) (cs : list case) : list (N * N) :=
  match cs with
  | [] => []
  | c :: r => map (fun code => (i, code)) (check e c) ++ mismatches_from e (i + 1)%N r
  end.
