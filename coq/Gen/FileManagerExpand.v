(* Gen/FileManagerExpand.v — text level specification of BuildResponse WITH patches: every output
   text is the submitted text in which each insertion-point marker is replaced by the contents of
   the patches submitted for that point to that file, in submission order (nothing when there is
   none), and every other byte is kept; inserted text is not scanned again.  `expand` is the
   declarative scanner (it does not mention the regexp result list, the replacer's key table or
   the generic replacer).  Domain: insertion point names over the marker alphabet [$.0-9a-zA-Z_]
   (what plugin.InsertionPoint is meant for; outside it two keys can match at one position and Go
   lists them in map order). *)
From Coq Require Import List Arith Bool Lia NArith.
From Coq.Strings Require Import Byte.
From Verif Require Import Base.Bytes Gen.FileManager Gen.FileManagerFacts Gen.Determinism Corr.C12
                          Gen.FileManagerText Gen.FileManagerOrder.
Import ListNotations.

Fixpoint expand (ps : list gen) (skip : nat) (s : bytes) : bytes :=
  match s with
  | [] => []
  | c :: r =>
    match skip with
    | S k => expand ps k r
    | O => match marker_at s with
           | Some mk => patch_text mk ps ++ expand ps (List.length mk - 1) r
           | None => c :: expand ps 0 r
           end
    end
  end.

Definition ip_wf (g : gen) : bool := forallb ip_char (g_ip g).
Definition ips_wf (ps : list gen) : bool := forallb ip_wf ps.

(* with no patches, expanding is stripping *)
Lemma expand_nil : forall s skip, expand [] skip s = strip_markers skip s.
Proof.
  induction s as [|c s IH]; intros skip; cbn [expand strip_markers]; [reflexivity|].
  destruct skip; [|apply IH]. destruct (marker_at (c :: s)); [|f_equal; apply IH].
  unfold patch_text. cbn [filter map List.concat app]. apply IH.
Qed.

Definition key_markers (P : list (bytes * bytes)) : Prop :=
  forall k v, In (k, v) P -> exists nm, k = marker nm /\ forallb ip_char nm = true.

Lemma marker_pairs_key_markers P : marker_pairs P -> key_markers P.
Proof. intros H k v Hin. destruct (H k v Hin) as [_ He]. exact He. Qed.

Lemma key_markers_add_pair P nm v :
  key_markers P -> forallb ip_char nm = true -> key_markers (add_pair P (marker nm) v).
Proof.
  intros HP Hn k w Hin. unfold add_pair in Hin.
  destruct (lookup (marker nm) P); apply In_update in Hin;
    (destruct Hin as [[-> _]|Hin]; [exists nm; split; [reflexivity | exact Hn] | eapply HP; exact Hin]).
Qed.

Lemma key_markers_fold ps : forall P, ips_wf ps = true -> key_markers P ->
  key_markers (fold_left (fun acc p => add_pair acc (marker (g_ip p)) (g_content p)) ps P).
Proof.
  induction ps as [|p ps IH]; intros P Hw HP; cbn [fold_left]; [exact HP|].
  cbn [ips_wf forallb] in Hw. apply andb_true_iff in Hw. destruct Hw as [Hp Hps].
  apply IH; [exact Hps|]. apply key_markers_add_pair; assumption.
Qed.

(* the pair the replacer picks at a position is the table entry of its key *)
Lemma first_match_is_lookup P : forall s k v, first_match P s = Some (k, v) -> lookup k P = Some v.
Proof.
  induction P as [|[k0 v0] P IH]; intros s k v; cbn [first_match lookup]; [discriminate|].
  destruct (is_prefix k0 s) eqn:E.
  - intros [= -> ->]. rewrite beqb_refl. reflexivity.
  - intro H. pose proof (first_match_In _ _ _ _ H) as [_ Hp].
    destruct (beqb k k0) eqn:Ek.
    + apply beqb_true in Ek. subst k0. congruence.
    + eapply IH; exact H.
Qed.

Lemma first_match_key_marker P s k v : key_markers P ->
  first_match P s = Some (k, v) -> marker_at s = Some k.
Proof.
  intros HP Hm. apply first_match_In in Hm. destruct Hm as [Hin Hp].
  destruct (HP _ _ Hin) as [nm [-> Hn]]. apply marker_at_of_prefix; assumption.
Qed.

Lemma replace_is_expand P ps : key_markers P -> forall s skip,
  (forall mk, In mk (find_markers_go skip s) -> lookup mk P = Some (patch_text mk ps)) ->
  replace_go P skip s = expand ps skip s.
Proof.
  intros HP. induction s as [|c s IH]; intros skip Hall; cbn [replace_go expand]; [reflexivity|].
  destruct skip as [|k]; [|apply IH; exact Hall].
  cbn [find_markers_go] in Hall.
  destruct (marker_at (c :: s)) as [mk|] eqn:Em.
  - assert (Hk : lookup mk P = Some (patch_text mk ps)) by (apply Hall; left; reflexivity).
    pose proof (lookup_In _ _ _ Hk) as Hin.
    destruct (marker_at_some _ _ Em) as [nm [rest [Hmk [Hn Hs]]]].
    assert (Hpre : is_prefix mk (c :: s) = true) by (apply is_prefix_spec; exists rest; exact Hs).
    destruct (first_match_some_of_In P (c :: s) mk _ Hin Hpre) as [k' [v' Hfm]].
    pose proof (first_match_key_marker _ _ _ _ HP Hfm) as Hk'.
    rewrite Em in Hk'. injection Hk' as <-.
    pose proof (first_match_is_lookup _ _ _ _ Hfm) as Hl. rewrite Hk in Hl. injection Hl as <-.
    rewrite Hfm. f_equal. apply IH. intros mk' Hin'. apply Hall. right. exact Hin'.
  - destruct (first_match P (c :: s)) as [[k' v']|] eqn:Hfm.
    + pose proof (first_match_key_marker _ _ _ _ HP Hfm). congruence.
    + f_equal. apply IH. exact Hall.
Qed.

(* one file: each marker replaced by its patches in order, the rest kept *)
Theorem build_one_patched m name content :
  ips_wf (patches_of m name) = true ->
  build_one m (name, content) = (name, expand (patches_of m name) 0 content).
Proof.
  intro Hw. unfold build_one. f_equal. unfold replace.
  apply replace_is_expand.
  - intros k v Hin. apply In_listed in Hin. revert k v Hin.
    apply key_markers_fold; [exact Hw|]. apply marker_pairs_key_markers, init_pairs_marker_pairs.
  - intros mk Hin. rewrite lookup_listed, patch_fold_lookup.
    pose proof (found_marker_is_key content mk Hin) as Hk.
    destruct (lookup mk (init_pairs content)) as [v|] eqn:El; [|congruence].
    apply lookup_In in El. destruct (init_pairs_marker_pairs content _ _ El) as [-> _]. reflexivity.
Qed.

(* ---- histories: every recorded patch comes from a submitted item ---- *)
Definition patches_wf (m : fm) : Prop := forall t l, lookup t (patch m) = Some l -> ips_wf l = true.

Lemma ips_wf_app a b : ips_wf (a ++ b) = ips_wf a && ips_wf b.
Proof. unfold ips_wf. apply forallb_app. Qed.

Lemma patches_wf_add_patch m t g : patches_wf m -> ip_wf g = true -> patches_wf (add_patch m t g).
Proof.
  intros Hm Hg t' l. unfold add_patch. cbn [patch].
  destruct (list_eq_dec Byte.byte_eq_dec t t') as [<-|Hne].
  - rewrite lookup_update_same. intros [= <-]. rewrite ips_wf_app. cbn [ips_wf forallb]. rewrite Hg, andb_true_r.
    destruct (lookup t (patch m)) as [old|] eqn:E; [eapply Hm; exact E | reflexivity].
  - rewrite lookup_update_other by assumption. apply Hm.
Qed.

Lemma drop_unnamed_wf items : ips_wf items = true -> ips_wf (drop_unnamed items) = true.
Proof.
  induction items as [|g r IH]; [reflexivity|]. cbn [drop_unnamed]. destruct (g_name g); [intro H; exact H|].
  cbn [ips_wf forallb]. intro H. apply andb_true_iff in H. apply IH, H.
Qed.

Lemma feed_items_patches_wf fuel : forall m last items m',
  patches_wf m -> ips_wf items = true -> feed_items fuel m last items = Ok m' -> patches_wf m'.
Proof.
  induction fuel as [|f IH]; intros m last items m' Hm Hw; cbn [feed_items]; [discriminate|].
  destruct items as [|g rest]; [intros [= <-]; exact Hm|].
  cbn [ips_wf forallb] in Hw. apply andb_true_iff in Hw. destruct Hw as [Hg Hrest].
  destruct (g_name g) as [n|].
  - destruct (lookup n (index m)) as [idx|].
    + destruct (negb (beqb (g_ip g) [])).
      * apply IH; [apply patches_wf_add_patch; assumption | exact Hrest].
      * destruct (probe _ m n (g_content g) idx 1 (get_count m n)) as [|rn k'|]; [| |discriminate].
        -- apply IH; [exact Hm | apply drop_unnamed_wf; exact Hrest].
        -- apply IH; [exact Hm | exact Hrest].
    + destruct (negb (beqb (g_ip g) [])); [discriminate|]. apply IH; [exact Hm | exact Hrest].
  - destruct (beqb last []); [discriminate|].
    apply IH; [apply patches_wf_add_patch; assumption | exact Hrest].
Qed.

Lemma feeds_patches_wf h : forall m m',
  patches_wf m -> forallb ips_wf h = true -> feeds m h = Ok m' -> patches_wf m'.
Proof.
  induction h as [|x h IH]; intros m m' Hm Hw; cbn [feeds]; [intros [= <-]; exact Hm|].
  cbn [forallb] in Hw. apply andb_true_iff in Hw. destruct Hw as [Hx Hh].
  destruct (feed m x) as [m1| |] eqn:E; [|discriminate|discriminate].
  unfold feed in E. apply feed_items_patches_wf in E; [|exact Hm|exact Hx]. apply IH; assumption.
Qed.

(* For EVERY history whose insertion point names are over the marker alphabet: the response is the
   list of kept files, each with its submitted text expanded by the patches recorded for it. *)
Theorem history_texts h m :
  forallb ips_wf h = true -> feeds fm0 h = Ok m ->
  build m = map (fun f => (fst f, expand (patches_of m (fst f)) 0 (snd f))) (files m).
Proof.
  intros Hw Hf. assert (Hp : patches_wf m).
  { eapply feeds_patches_wf; [|exact Hw|exact Hf]. intros t l. cbn. discriminate. }
  unfold build. apply map_ext. intros [n c]. cbn [fst snd]. apply build_one_patched.
  unfold patches_of. destruct (lookup n (patch m)) as [l|] eqn:E; [eapply Hp; exact E | reflexivity].
Qed.

(* the clauses of the property read off `expand` *)
Lemma expand_at_marker ps nm rest : forallb ip_char nm = true ->
  expand ps 0 (marker nm ++ rest) = patch_text (marker nm) ps ++ expand ps 0 rest.
Proof.
  intro Hn. assert (Hp : is_prefix (marker nm) (marker nm ++ rest) = true) by (apply is_prefix_spec; eauto).
  pose proof (marker_at_of_prefix nm _ Hn Hp) as Hm.
  assert (Hne : exists c t, marker nm = c :: t) by (unfold marker, ip_prefix; cbn; eauto).
  destruct Hne as [c [t Hct]]. rewrite Hct in *. cbn [app expand]. cbn [app] in Hm. rewrite Hm.
  f_equal. cbn [List.length]. rewrite Nat.sub_succ, Nat.sub_0_r.
  clear. induction t as [|x t IH]; cbn [List.length app expand]; [reflexivity | exact IH].
Qed.

Lemma expand_other ps c rest : marker_at (c :: rest) = None ->
  expand ps 0 (c :: rest) = c :: expand ps 0 rest.
Proof. intro H. cbn [expand]. rewrite H. reflexivity. Qed.
