package main

import (
	"encoding/hex"
	"encoding/json"
	"fmt"
	"math"
	"reflect"
	"sort"
	"strconv"
	"strings"

	"github.com/apache/thrift/lib/go/thrift"
)

// New constructs a registered object with its NewX().
func New(unit, qname string) interface{} {
	c, ok := registry[unit+"|"+qname]
	if !ok {
		panic("driver: not registered: " + unit + "|" + qname)
	}
	return c()
}

// NewZero constructs the zero object of a registered type (no defaults).
func NewZero(unit, qname string) interface{} {
	x := New(unit, qname)
	return reflect.New(reflect.TypeOf(x).Elem()).Interface()
}

// TField: one struct field as described by its `thrift:"name,id[,req[,type]]"` tag.
type TField struct {
	Name  string
	ID    int
	Req   string // required optional default
	Index int    // Go struct field index
	Go    string // Go field name
}

var tfCache = map[reflect.Type][]TField{}

// ThriftFields lists the tagged fields of a struct type in Go declaration order.
func ThriftFields(t reflect.Type) []TField {
	if fs, ok := tfCache[t]; ok {
		return fs
	}
	var out []TField
	for i := 0; i < t.NumField(); i++ {
		sf := t.Field(i)
		tag, ok := sf.Tag.Lookup("thrift")
		if !ok {
			continue
		}
		parts := strings.Split(tag, ",")
		if len(parts) < 2 {
			continue
		}
		id, err := strconv.Atoi(parts[1])
		if err != nil {
			continue
		}
		req := "default"
		if len(parts) >= 3 && (parts[2] == "required" || parts[2] == "optional" || parts[2] == "default") {
			req = parts[2]
		}
		out = append(out, TField{Name: parts[0], ID: id, Req: req, Index: i, Go: sf.Name})
	}
	tfCache[t] = out
	return out
}

// Kind describes the Go representation of a type: bool int8 int16 int32 int64 float64 string bytes
// ptr:<k> slice:<k> map:<k>:<v> struct
func Kind(t reflect.Type) string {
	switch t.Kind() {
	case reflect.Bool:
		return "bool"
	case reflect.Int8:
		return "int8"
	case reflect.Int16:
		return "int16"
	case reflect.Int32:
		return "int32"
	case reflect.Int64:
		return "int64"
	case reflect.Float64:
		return "float64"
	case reflect.String:
		return "string"
	case reflect.Ptr:
		return "ptr:" + Kind(t.Elem())
	case reflect.Slice:
		if t.Elem().Kind() == reflect.Uint8 {
			return "bytes"
		}
		return "slice:" + Kind(t.Elem())
	case reflect.Map:
		return "map:" + Kind(t.Key()) + ":" + Kind(t.Elem())
	case reflect.Struct:
		return "struct"
	}
	return "other:" + t.Kind().String()
}

// Fill sets rv (settable) from the JSON value form (see harness/valgen/value.go).
func Fill(rv reflect.Value, raw interface{}) {
	switch rv.Kind() {
	case reflect.Ptr:
		if raw == nil {
			return
		}
		nv := reflect.New(rv.Type().Elem())
		if rv.Type().Elem().Kind() == reflect.Struct {
			Fill(nv.Elem(), raw)
		} else {
			m, ok := raw.(map[string]interface{})
			if !ok {
				panic("driver: pointer to base needs {\"p\":...}")
			}
			Fill(nv.Elem(), m["p"])
		}
		rv.Set(nv)
	case reflect.Struct:
		if raw == nil {
			return
		}
		m, ok := raw.(map[string]interface{})
		if !ok {
			panic("driver: struct needs {\"s\":...}")
		}
		fs := ThriftFields(rv.Type())
		for _, e := range m["s"].([]interface{}) {
			kv := e.([]interface{})
			id64, _ := kv[0].(json.Number).Int64()
			found := false
			for _, f := range fs {
				if f.ID == int(id64) {
					Fill(rv.Field(f.Index), kv[1])
					found = true
					break
				}
			}
			if !found {
				panic(fmt.Sprintf("driver: no field with thrift id %d in %s", id64, rv.Type()))
			}
		}
	case reflect.Slice:
		if raw == nil {
			return
		}
		if rv.Type().Elem().Kind() == reflect.Uint8 {
			rv.SetBytes(hexOf(raw))
			return
		}
		arr := raw.([]interface{})
		s := reflect.MakeSlice(rv.Type(), len(arr), len(arr))
		for i, e := range arr {
			Fill(s.Index(i), e)
		}
		rv.Set(s)
	case reflect.Map:
		if raw == nil {
			return
		}
		arr := raw.(map[string]interface{})["m"].([]interface{})
		m := reflect.MakeMapWithSize(rv.Type(), len(arr))
		for _, e := range arr {
			kv := e.([]interface{})
			k := reflect.New(rv.Type().Key()).Elem()
			v := reflect.New(rv.Type().Elem()).Elem()
			Fill(k, kv[0])
			Fill(v, kv[1])
			m.SetMapIndex(k, v)
		}
		rv.Set(m)
	case reflect.String:
		rv.SetString(string(hexOf(raw)))
	case reflect.Bool:
		rv.SetBool(raw.(bool))
	case reflect.Int8, reflect.Int16, reflect.Int32, reflect.Int64:
		i, err := raw.(json.Number).Int64()
		if err != nil {
			panic(err)
		}
		rv.SetInt(i)
	case reflect.Float64:
		u, err := strconv.ParseUint(raw.(map[string]interface{})["d"].(string), 16, 64)
		if err != nil {
			panic(err)
		}
		rv.SetFloat(math.Float64frombits(u))
	default:
		panic("driver: cannot fill " + rv.Type().String())
	}
}

func hexOf(raw interface{}) []byte {
	m, ok := raw.(map[string]interface{})
	if !ok {
		panic("driver: string/binary needs {\"x\":hex} or {\"b\":hex}")
	}
	s, ok := m["x"].(string)
	if !ok {
		s, ok = m["b"].(string)
	}
	if !ok {
		panic("driver: string/binary needs {\"x\":hex} or {\"b\":hex}")
	}
	b, err := hex.DecodeString(s)
	if err != nil {
		panic(err)
	}
	if b == nil {
		b = []byte{}
	}
	return b
}

// ParseValue parses the JSON value form keeping integers exact.
func ParseValue(s string) interface{} {
	dec := json.NewDecoder(strings.NewReader(s))
	dec.UseNumber()
	var raw interface{}
	if err := dec.Decode(&raw); err != nil {
		panic(err)
	}
	return raw
}

// Dump prints a Go value in the JSON value form. Map entries are sorted by their rendered text.
func Dump(rv reflect.Value) string {
	var b strings.Builder
	dump(&b, rv)
	return b.String()
}

func dump(b *strings.Builder, rv reflect.Value) {
	switch rv.Kind() {
	case reflect.Ptr:
		if rv.IsNil() {
			b.WriteString("null")
			return
		}
		if rv.Elem().Kind() == reflect.Struct {
			dump(b, rv.Elem())
			return
		}
		b.WriteString(`{"p":`)
		dump(b, rv.Elem())
		b.WriteString("}")
	case reflect.Struct:
		b.WriteString(`{"s":[`)
		for i, f := range ThriftFields(rv.Type()) {
			if i > 0 {
				b.WriteString(",")
			}
			fmt.Fprintf(b, "[%d,", f.ID)
			dump(b, rv.Field(f.Index))
			b.WriteString("]")
		}
		b.WriteString("]}")
	case reflect.Slice:
		if rv.IsNil() {
			b.WriteString("null")
			return
		}
		if rv.Type().Elem().Kind() == reflect.Uint8 {
			fmt.Fprintf(b, `{"b":"%s"}`, hex.EncodeToString(rv.Bytes()))
			return
		}
		b.WriteString("[")
		for i := 0; i < rv.Len(); i++ {
			if i > 0 {
				b.WriteString(",")
			}
			dump(b, rv.Index(i))
		}
		b.WriteString("]")
	case reflect.Map:
		if rv.IsNil() {
			b.WriteString("null")
			return
		}
		var ents []string
		it := rv.MapRange()
		for it.Next() {
			var e strings.Builder
			e.WriteString("[")
			dump(&e, it.Key())
			e.WriteString(",")
			dump(&e, it.Value())
			e.WriteString("]")
			ents = append(ents, e.String())
		}
		sort.Strings(ents)
		b.WriteString(`{"m":[` + strings.Join(ents, ",") + `]}`)
	case reflect.String:
		fmt.Fprintf(b, `{"x":"%s"}`, hex.EncodeToString([]byte(rv.String())))
	case reflect.Bool:
		if rv.Bool() {
			b.WriteString("true")
		} else {
			b.WriteString("false")
		}
	case reflect.Int8, reflect.Int16, reflect.Int32, reflect.Int64:
		fmt.Fprintf(b, "%d", rv.Int())
	case reflect.Float64:
		fmt.Fprintf(b, `{"d":"%016x"}`, math.Float64bits(rv.Float()))
	default:
		fmt.Fprintf(b, `{"unsupported":"%s"}`, rv.Type())
	}
}

// Classify maps an error to a small enum that does not depend on message texts:
// ok | invalid_data (TProtocolException INVALID_DATA) | protocol (other TProtocolException) |
// transport | error (anything else)
func Classify(err error) string {
	if err == nil {
		return "ok"
	}
	if pe, ok := err.(thrift.TProtocolException); ok {
		if pe.TypeId() == thrift.INVALID_DATA {
			return "invalid_data"
		}
		return "protocol"
	}
	if _, ok := err.(thrift.TTransportException); ok {
		return "transport"
	}
	return "error"
}
