(* Gen/SiteClasses.v — hand-maintained classification of the order-sensitive constructs that
   the translator /verif/sitescan finds in the packages reachable from thriftgo's main package
   (regenerated on every run into Gen/MapSites.v).  Each class is justified by a theorem of
   Gen/Determinism.v (or of C19 for the concurrent writer); the assignment site -> class is a
   reviewed abstraction and is part of the trusted base of C07.  A site that is new, renamed or
   whose operand changed is NOT classified and breaks C07_all_sites_classified. *)
From Coq Require Import List String Bool.
From Verif Require Import Gen.MapSites.
Import ListNotations.
Open Scope string_scope.

Inductive site_class :=
| Sorted            (* collected, then sorted before use: sort_then_emit_perm_invariant *)
| Commutative       (* fold with a commuting step (set/map insertion of distinct keys, sums): commutative_fold_perm_invariant *)
| PrefixFree        (* strings.Replacer over prefix-free markers: replacer_perm_invariant + markers_prefix_free; no site
                       uses it any more: insertionPointReplacer.Replace was classified so until C12's text-level proof
                       showed that patch keys need not be prefix free (repaired in /repo: the keys are sorted now) *)
| TemplateSorted    (* result is a map consumed by text/template `range`, which visits keys in sorted order *)
| SequentialPipe    (* one producer goroutine, one consumer, unbuffered channel: FIFO, no choice *)
| ScheduleFree      (* the concurrent writer: content and file set proved schedule independent (C19) *)
| Existential       (* only decides whether SOME entry is bad; order can change the diagnostic text, not the outcome *)
| NotOnOutputPath   (* runtime library used by generated code or debug printing, not executed while generating *)
| KnownOrderSensitive. (* recorded finding *)

Definition site := (string * string * string * string)%type.

Definition classes : list (site * site_class) := [
  (("config", "loadConfig", "range-map", "rawConfig.Ref"), Commutative);
  (("extension/thrift_option", "CheckOptionGrammar", "range-map", "en.Annotations"), Existential);
  (("extension/thrift_option", "CheckOptionGrammar", "range-map", "f.Annotations"), Existential);
  (("extension/thrift_option", "CheckOptionGrammar", "range-map", "s.Annotations"), Existential);
  (("extension/thrift_option", "creatStruct", "range-map", "kv"), Existential);
  (("extension/thrift_option", "createMap", "range-map", "kvMap"), Existential);
  (("extension/thrift_option", "createMap", "range-map", "resultInstances"), Existential);
  (("extension/thrift_option", "formatTree", "range-map", "tree"), NotOnOutputPath);
  (("extension/thrift_option", "getOptionContent", "range-map", "annotation.annotations"), Existential);
  (("generator", "*asyncPostProcess.OnFinished", "go", "literal func(path string, content []byte)"), ScheduleFree);
  (("generator", "*asyncPostProcess.OnFinished", "select", "2-arms"), ScheduleFree);
  (("generator", "*insertionPointReplacer.Replace", "range-map", "p.m"), Sorted);
  (("generator/fastgo", "*bitsetCodeGen.GenIfNotSet", "range-map", "g.m"), Commutative);
  (("generator/fastgo", "*codewriter.Imports", "range-map", "w.pkgs"), Sorted);
  (("generator/golang", "*CodeUtils.BuildFuncMap", "range-map", "fm"), Sorted);
  (("generator/golang", "*Scope.resolveTypesAndValues", "go", "literal func()"), SequentialPipe);
  (("generator/golang", "*importManager.init", "range-map", "std"), Commutative);
  (("generator/golang/extension/meta", "*instance.Read", "range-map", "absent"), NotOnOutputPath);
  (("generator/golang/extension/meta", "sortedMapKeys", "reflect-MapKeys", "gv"), Sorted);
  (("parser", "*Thrift.BLength", "range-map", "p.Name2Category"), Commutative);
  (("parser", "*Thrift.DepthFirstSearch", "go", "dfs"), SequentialPipe);
  (("parser", "*Thrift.FastAppend", "range-map", "p.Name2Category"), KnownOrderSensitive);
  (("pkg/namespace", "*namespace.Iterate", "range-map", "ns.name2id"), TemplateSorted);
  (("thrift_reflection", "*ConstValueDescriptor.GetValueAsString", "range-map", "s.GetValueMap()"), NotOnOutputPath);
  (("thrift_reflection", "*GlobalDescriptor.LookupConst", "range-map", "gd.globalFD"), NotOnOutputPath);
  (("thrift_reflection", "*GlobalDescriptor.LookupEnum", "range-map", "gd.globalFD"), NotOnOutputPath);
  (("thrift_reflection", "*GlobalDescriptor.LookupException", "range-map", "gd.globalFD"), NotOnOutputPath);
  (("thrift_reflection", "*GlobalDescriptor.LookupIncludedStructsFromMethod", "range-map", "structMap"), NotOnOutputPath);
  (("thrift_reflection", "*GlobalDescriptor.LookupIncludedStructsFromStruct", "range-map", "structMap"), NotOnOutputPath);
  (("thrift_reflection", "*GlobalDescriptor.LookupIncludedStructsFromType", "range-map", "structMap"), NotOnOutputPath);
  (("thrift_reflection", "*GlobalDescriptor.LookupMethod", "range-map", "gd.globalFD"), NotOnOutputPath);
  (("thrift_reflection", "*GlobalDescriptor.LookupService", "range-map", "gd.globalFD"), NotOnOutputPath);
  (("thrift_reflection", "*GlobalDescriptor.LookupStruct", "range-map", "gd.globalFD"), NotOnOutputPath);
  (("thrift_reflection", "*GlobalDescriptor.LookupTypedef", "range-map", "gd.globalFD"), NotOnOutputPath);
  (("thrift_reflection", "*GlobalDescriptor.LookupUnion", "range-map", "gd.globalFD"), NotOnOutputPath);
  (("thrift_reflection", "*GlobalDescriptor.ShowRegisterInfo", "range-map", "gd.globalFD"), NotOnOutputPath);
  (("thrift_reflection", "*GlobalDescriptor.matchRemoteFileDescriptor", "range-map", "g.globalFD"), NotOnOutputPath)
].

Definition site_eqb (a b : site) : bool :=
  let '(a1, a2, a3, a4) := a in let '(b1, b2, b3, b4) := b in
  String.eqb a1 b1 && String.eqb a2 b2 && String.eqb a3 b3 && String.eqb a4 b4.

Fixpoint class_of_in (l : list (site * site_class)) (s : site) : option site_class :=
  match l with
  | [] => None
  | (k, c) :: r => if site_eqb k s then Some c else class_of_in r s
  end.
Definition class_of := class_of_in classes.

Definition is_known_sensitive (c : option site_class) : bool :=
  match c with Some KnownOrderSensitive => true | _ => false end.

(* the sites recorded as findings (known_findings: C07-plugin-stdin-map-order) *)
Definition known_sensitive_sites : list site :=
  [("parser", "*Thrift.FastAppend", "range-map", "p.Name2Category")].

Definition all_classified : bool := forallb (fun s => match class_of s with Some _ => true | None => false end) map_sites.
Definition unclassified : list site := filter (fun s => match class_of s with Some _ => false | None => true end) map_sites.
Definition sensitive_only_known : bool :=
  forallb (fun s => negb (is_known_sensitive (class_of s)) || existsb (site_eqb s) known_sensitive_sites) map_sites.

(* every site of class Sorted is, in the regenerated scan, followed inside the same function by a
   call into package sort (sorted_after_sites is produced by the translator from the Go source) *)
Definition is_sorted_class (c : option site_class) : bool :=
  match c with Some Sorted => true | _ => false end.
Definition sorted_backed : bool :=
  forallb (fun s => negb (is_sorted_class (class_of s)) || existsb (site_eqb s) sorted_after_sites) map_sites.
