(* Gen/PluginFacts.v — proofs about the model Gen/Plugin.v (property C11). *)
From Coq Require Import List Arith Bool Lia NArith ZArith Permutation.
From Coq.Strings Require Import Byte String.
From Verif Require Import Base.Bytes Base.BE Wire.TType Wire.WVal Wire.Codec Wire.CodecFacts Wire.Schema
  Wire.SchemaPlugin Idl.Ast Idl.AstFacts Gen.FileManager Gen.Plugin.
Import ListNotations.
Local Open Scope Z_scope.
Local Open Scope list_scope.

(* ================================================================ 1. option strings *)

Lemma no_byte_app c a b : no_byte c (a ++ b) = no_byte c a && no_byte c b.
Proof. unfold no_byte. apply forallb_app. Qed.

Lemma split_first_none sep s : no_byte sep s = true -> split_first sep s = (s, None).
Proof.
  induction s as [|c r IH]; cbn; [reflexivity|].
  intro H. apply andb_true_iff in H as [Hc Hr].
  destruct (Byte.eqb c sep); [discriminate|]. rewrite IH by assumption. reflexivity.
Qed.

Lemma split_first_some sep a b : no_byte sep a = true -> split_first sep (a ++ sep :: b) = (a, Some b).
Proof.
  induction a as [|c r IH]; cbn.
  - intros _. assert (E : Byte.eqb sep sep = true) by (apply byte_eqb_eq; reflexivity). rewrite E. reflexivity.
  - intro H. apply andb_true_iff in H as [Hc Hr].
    destruct (Byte.eqb c sep); [discriminate|]. rewrite IH by assumption. reflexivity.
Qed.

Lemma split_all_single sep s : no_byte sep s = true -> split_all sep s = [s].
Proof.
  induction s as [|c r IH]; cbn; [reflexivity|].
  intro H. apply andb_true_iff in H as [Hc Hr].
  destruct (Byte.eqb c sep); [discriminate|]. rewrite IH by assumption. reflexivity.
Qed.

Lemma split_all_cons sep a b : no_byte sep a = true -> split_all sep (a ++ sep :: b) = a :: split_all sep b.
Proof.
  induction a as [|c r IH]; cbn.
  - intros _. assert (E : Byte.eqb sep sep = true) by (apply byte_eqb_eq; reflexivity). rewrite E. reflexivity.
  - intro H. apply andb_true_iff in H as [Hc Hr].
    destruct (Byte.eqb c sep); [discriminate|]. rewrite IH by assumption. reflexivity.
Qed.

Lemma split_all_join sep l :
  l <> [] -> forallb (no_byte sep) l = true -> split_all sep (join sep l) = l.
Proof.
  induction l as [|x r IH]; [congruence|].
  intros _ H. cbn [forallb] in H. apply andb_true_iff in H as [Hx Hr].
  destruct r as [|y r'].
  - cbn [join]. apply split_all_single. assumption.
  - change (join sep (x :: y :: r')) with (x ++ [sep] ++ join sep (y :: r')).
    cbn [app]. rewrite split_all_cons by assumption. rewrite IH; [reflexivity|congruence|assumption].
Qed.

Lemma parse_render_opt o : opt_ok o = true -> parse_opt (render_opt o) = o.
Proof.
  destruct o as [n d]. unfold opt_ok, parse_opt, render_opt. cbn [o_name o_desc].
  intro H. apply andb_true_iff in H as [H Hd]. apply andb_true_iff in H as [Hc He].
  destruct d as [|c d].
  - rewrite split_first_none by assumption. reflexivity.
  - cbn [app]. rewrite split_first_some by assumption. reflexivity.
Qed.

Lemma render_opt_no_comma o : opt_ok o = true -> no_byte x2c (render_opt o) = true.
Proof.
  destruct o as [n d]. unfold opt_ok, render_opt. cbn [o_name o_desc].
  intro H. apply andb_true_iff in H as [H Hd]. apply andb_true_iff in H as [Hc He].
  destruct d as [|c d]; [assumption|].
  rewrite !no_byte_app, Hc, Hd. reflexivity.
Qed.

Theorem compact_roundtrip d : desc_ok d = true -> parse_compact (render d) = Some d.
Proof.
  destruct d as [n os]. unfold desc_ok, render. cbn [d_name d_opts].
  intro H. apply andb_true_iff in H as [H Hos]. apply andb_true_iff in H as [Hne Hn].
  destruct os as [|o os].
  - unfold parse_compact. destruct n as [|c n]; [discriminate|].
    rewrite split_first_none by assumption. reflexivity.
  - unfold parse_compact.
    assert (Hr : n ++ [x3a] ++ join x2c (map render_opt (o :: os)) <> []) by (destruct n; discriminate).
    destruct (n ++ [x3a] ++ join x2c (map render_opt (o :: os))) eqn:E; [congruence|]. rewrite <- E. clear E Hr.
    cbn [app]. rewrite split_first_some by assumption.
    rewrite split_all_join.
    + f_equal. f_equal. rewrite map_map. rewrite <- (map_id (o :: os)) at 2.
      apply map_ext_in. intros a Ha. apply parse_render_opt.
      rewrite forallb_forall in Hos. apply Hos. assumption.
    + discriminate.
    + rewrite forallb_forall. intros x Hx. apply in_map_iff in Hx as [a [<- Ha]].
      apply render_opt_no_comma. rewrite forallb_forall in Hos. apply Hos. assumption.
Qed.

(* the parameters a plugin (or the generator) receives are name=value of every option, in the
   order they were written *)
Theorem pack_order d : desc_ok d = true ->
  params_of (render d) = Some (map (fun o => o_name o ++ [x3d] ++ o_desc o) (d_opts d)) /\
  language_of (render d) = Some (d_name d).
Proof.
  intro H. unfold params_of, language_of. rewrite compact_roundtrip by assumption. split; reflexivity.
Qed.

Lemma pack_length opts : List.length (pack opts) = List.length opts.
Proof. apply map_length. Qed.

Lemma pack_nth opts i o : nth_error opts i = Some o -> nth_error (pack opts) i = Some (o_name o ++ [x3d] ++ o_desc o).
Proof. intro H. unfold pack. rewrite nth_error_map, H. reflexivity. Qed.

(* ================================================================ 2. trailer *)

Lemma is_prefix_app p r : is_prefix p (p ++ r) = true.
Proof. apply is_prefix_spec. exists r. reflexivity. Qed.

Lemma has_suffix_app d m : has_suffix (d ++ m) m = true.
Proof. unfold has_suffix. rewrite rev_app_distr. apply is_prefix_app. Qed.

Theorem trailer_roundtrip d f f' : 0 <= f < 256 ->
  has_feature (append_trailer d f) f' = (Z.land f f' =? f').
Proof.
  intro Hf. unfold has_feature, append_trailer.
  rewrite app_assoc, has_suffix_app. cbn [negb].
  rewrite !app_length. cbn [List.length].
  destruct (Nat.ltb_spec (List.length d + 1 + List.length trailer_magic) (List.length trailer_magic + 1)) as [H|_]; [lia|].
  replace (List.length d + 1 + List.length trailer_magic - 1 - List.length trailer_magic)%nat with (List.length d + 0)%nat by lia.
  rewrite <- app_assoc. rewrite nth_error_app2 by lia.
  replace (List.length d + 0 - List.length d)%nat with 0%nat by lia. cbn [app nth_error].
  rewrite Z_of_byte_of_Z. rewrite Z.mod_small by lia. reflexivity.
Qed.

Lemma enc_struct_ends_with_stop fs : exists p, enc (WStruct fs) = p ++ [x00].
Proof.
  rewrite enc_struct_unfold. induction fs as [|[[t id] x] r [p Hp]].
  - exists []. reflexivity.
  - rewrite enc_fields_go_cons, Hp. exists (put_be 1 (code t) ++ put_be 2 id ++ enc x ++ p).
    rewrite <- !app_assoc. reflexivity.
Qed.

(* a marshalled struct never looks as if it carried a trailer: it ends with the stop byte 0,
   the trailer with 0xff *)
Theorem trailer_absent_on_plain fs f : has_feature (enc (WStruct fs)) f = false.
Proof.
  destruct (enc_struct_ends_with_stop fs) as [p Hp]. unfold has_feature. rewrite Hp.
  destruct (_ <? _)%nat; [reflexivity|].
  unfold has_suffix. rewrite rev_app_distr. cbn [rev app].
  change (rev trailer_magic) with (xff :: rev (removelast trailer_magic)).
  cbn [is_prefix]. reflexivity.
Qed.

(* ================================================================ 5. outcome *)

Definition no_error (r : response) : Prop := rs_error r = None \/ rs_error r = Some [].

Theorem outcome_fail name pr :
  match pr with
  | Exited code out _ =>
      code <> 0 \/ unmarshal_response out = None \/
      (exists r c e, unmarshal_response out = Some r /\ rs_error r = Some (c :: e))
  | TimedOut _ _ | NotStarted => True
  end ->
  exists shown, outcome name pr = Fail shown.
Proof.
  destruct pr as [code out err|out err|]; intro H; unfold outcome, execute.
  - destruct (Z.eqb_spec code 0) as [E|E]; cbn [negb].
    + destruct H as [H|[H|[r [c [e [Hr He]]]]]]; [congruence| |].
      * rewrite H. eexists. reflexivity.
      * rewrite Hr. destruct err; cbn [rs_error]; rewrite He; eexists; reflexivity.
    + eexists. reflexivity.
  - eexists. reflexivity.
  - eexists. reflexivity.
Qed.

Definition shown_of (name err : bytes) (r : response) : list bytes :=
  get_list (rs_warnings r) ++ match err with [] => [] | _ => [warn_plugin_stderr name err] end.

Lemma outcome_ok name out err r :
  unmarshal_response out = Some r -> no_error r ->
  outcome name (Exited 0 out err) = Proceed (shown_of name err r) (get_list (rs_contents r)).
Proof.
  intros Hr He. unfold outcome, execute, shown_of. cbn [Z.eqb negb]. rewrite Hr.
  destruct err as [|c err].
  - rewrite app_nil_r. destruct He as [-> | ->]; reflexivity.
  - cbn [rs_error rs_warnings rs_contents get_list].
    destruct He as [-> | ->]; reflexivity.
Qed.

(* an answer without error: every content item is handed to FileManager.Feed, in order, and
   every warning (and the plugin's stderr) is shown *)
Theorem outcome_ok_contents_reach_fm m shown name out err r rest :
  unmarshal_response out = Some r -> no_error r ->
  run_plugins m shown ((name, Exited 0 out err) :: rest) =
  match feed m (map to_gen (get_list (rs_contents r))) with
  | FileManager.Ok m' => run_plugins m' (shown ++ shown_of name err r) rest
  | _ => RFail (shown ++ shown_of name err r)
  end.
Proof.
  intros Hr He. cbn [run_plugins]. rewrite (outcome_ok name out err r Hr He). reflexivity.
Qed.

(* a failing plugin stops everything: later plugins are not run, nothing is handed on *)
Theorem run_plugins_fail m shown name pr rest ws :
  outcome name pr = Fail ws -> run_plugins m shown ((name, pr) :: rest) = RFail (shown ++ ws).
Proof. intro H. cbn [run_plugins]. rewrite H. reflexivity. Qed.

(* ================================================================ 3. include compression *)

Lemma ast_ind' (P : ast -> Prop) :
  (forall f kids, Forall (fun k => match k with Some a => P a | None => True end) kids -> P (Ast f kids)) ->
  forall a, P a.
Proof.
  intro H. fix IH 1. intros [f kids]. apply H.
  induction kids as [|[k|] r IHr]; constructor; auto.
Qed.

(* ---- stand-alone versions of the local loops, with their unfolding equations ---- *)

Fixpoint nodes_kids (l : list (option ast)) : list ast :=
  match l with [] => [] | Some k :: r => nodes k ++ nodes_kids r | None :: r => nodes_kids r end.
Lemma nodes_eq f kids : nodes (Ast f kids) = Ast f kids :: nodes_kids kids.
Proof. reflexivity. Qed.
Lemma below_eq f kids : below (Ast f kids) = nodes_kids kids.
Proof. reflexivity. Qed.

Fixpoint height_kids (l : list (option ast)) : nat :=
  match l with [] => O | Some k :: r => Nat.max (height k) (height_kids r) | None :: r => height_kids r end.
Lemma height_eq f kids : height (Ast f kids) = S (height_kids kids).
Proof. reflexivity. Qed.

Section CK.
  Variable mk : bytes -> ast.
  Fixpoint compress_kids (seen : list bytes) (ks : list (option ast)) : list (option ast) * list bytes :=
    match ks with
    | [] => ([], seen)
    | None :: r => let '(r', s') := compress_kids seen r in (None :: r', s')
    | Some k :: r =>
        if mem (ast_name k) seen then
          let '(r', s') := compress_kids seen r in (Some (mk (ast_name k)) :: r', s')
        else
          let '(k', s1) := compress_gen mk (ast_name k :: seen) k in
          let '(r', s2) := compress_kids s1 r in (Some k' :: r', s2)
    end.
End CK.
Lemma compress_eq mk seen f kids :
  compress_gen mk seen (Ast f kids) = let '(k', s') := compress_kids mk seen kids in (Ast f k', s').
Proof. reflexivity. Qed.

Fixpoint collect_kids (m : list (bytes * ast)) (ks : list (option ast)) : list (bytes * ast) :=
  match ks with
  | [] => m
  | None :: r => collect_kids m r
  | Some k :: r => if is_stub k then collect_kids m r else collect_kids (collect (update (ast_name k) k m) k) r
  end.
Lemma collect_eq m f kids : collect m (Ast f kids) = collect_kids m kids.
Proof. reflexivity. Qed.

Definition resolve (m : list (bytes * ast)) (k : ast) : ast + bytes :=
  match stub_target k with
  | Some fn => match lookup fn m with Some t => inl t | None => inr fn end
  | None => inl k end.

Section DK.
  Variables (n : nat) (m : list (bytes * ast)).
  Fixpoint decompress_kids (ks : list (option ast)) : list (option ast) * option dres :=
    match ks with
    | [] => ([], None)
    | None :: _ => ([], Some DNilRef)
    | Some k :: r =>
        match resolve m k with
        | inr fn => ([], Some (DNotFound fn))
        | inl t =>
            match decompress n m t with
            | DOk t' => let '(r', e) := decompress_kids r in (Some t' :: r', e)
            | e => ([], Some e)
            end
        end
    end.
End DK.
Lemma decompress_eq n m f kids :
  decompress (S n) m (Ast f kids) =
  match decompress_kids n m kids with (kids', None) => DOk (Ast f kids') | (_, Some e) => e end.
Proof. reflexivity. Qed.

Fixpoint all_refs_kids (l : list (option ast)) : bool :=
  match l with [] => true | Some k :: r => all_refs_set k && all_refs_kids r | None :: _ => false end.
Lemma all_refs_eq f kids : all_refs_set (Ast f kids) = all_refs_kids kids.
Proof. reflexivity. Qed.

(* the nodes collect sees: reached without passing through a stub, stubs themselves excluded *)
Fixpoint live (a : ast) : list ast :=
  match a with
  | Ast _ kids => (fix go (l : list (option ast)) : list ast :=
                     match l with
                     | [] => []
                     | Some k :: r => (if is_stub k then [] else k :: live k) ++ go r
                     | None :: r => go r
                     end) kids
  end.
Fixpoint live_kids (l : list (option ast)) : list ast :=
  match l with
  | [] => []
  | Some k :: r => (if is_stub k then [] else k :: live k) ++ live_kids r
  | None :: r => live_kids r
  end.
Lemma live_eq f kids : live (Ast f kids) = live_kids kids.
Proof. reflexivity. Qed.

(* ---- basic facts about nodes ---- *)

Fixpoint size (a : ast) : nat :=
  match a with
  | Ast _ kids => S ((fix go (l : list (option ast)) : nat :=
                        match l with [] => O | Some k :: r => (size k + go r)%nat | None :: r => go r end) kids)
  end.
Fixpoint size_kids (l : list (option ast)) : nat :=
  match l with [] => O | Some k :: r => (size k + size_kids r)%nat | None :: r => size_kids r end.
Lemma size_eq f kids : size (Ast f kids) = S (size_kids kids).
Proof. reflexivity. Qed.

Lemma in_nodes_kids x ks : In x (nodes_kids ks) <-> exists k, In (Some k) ks /\ In x (nodes k).
Proof.
  induction ks as [|[k|] r IH]; cbn [nodes_kids].
  - split; [intros []|intros [k [[] _]]].
  - rewrite in_app_iff, IH. split.
    + intros [H|[k' [H1 H2]]]; [exists k; split; [left; reflexivity|assumption] | exists k'; split; [right; assumption|assumption]].
    + intros [k' [[E|H1] H2]]; [injection E as ->; left; assumption | right; exists k'; auto].
  - rewrite IH. split; intros [k' [H1 H2]]; exists k'; split; auto.
    + right; assumption.
    + destruct H1 as [E|H1]; [discriminate|assumption].
Qed.

Lemma nodes_self a : In a (nodes a).
Proof. destruct a. rewrite nodes_eq. left. reflexivity. Qed.

Lemma below_nodes a x : In x (below a) -> In x (nodes a).
Proof. destruct a. rewrite nodes_eq, below_eq. intro. right. assumption. Qed.

Lemma nodes_below a x : In x (nodes a) -> x = a \/ In x (below a).
Proof. destruct a. rewrite nodes_eq, below_eq. intros [H|H]; auto. Qed.

Lemma below_size : forall a x, In x (below a) -> (size x < size a)%nat.
Proof.
  induction a as [f kids IH] using ast_ind'. intros x. rewrite below_eq, size_eq, in_nodes_kids.
  intros [k [Hk Hx]].
  assert (Hks : (size k <= size_kids kids)%nat).
  { clear -Hk. induction kids as [|[c|] r IHr]; cbn [size_kids]; [destruct Hk| |].
    - destruct Hk as [E|Hk]; [injection E as ->; lia|specialize (IHr Hk); lia].
    - destruct Hk as [E|Hk]; [discriminate|auto]. }
  rewrite Forall_forall in IH. specialize (IH (Some k) Hk). cbn in IH.
  apply nodes_below in Hx as [->|Hx]; [lia|]. specialize (IH x Hx). lia.
Qed.

Lemma nodes_trans : forall a y z, In y (nodes a) -> In z (nodes y) -> In z (nodes a).
Proof.
  induction a as [f kids IH] using ast_ind'. intros y z Hy Hz.
  rewrite nodes_eq in Hy. destruct Hy as [<-|Hy]; [assumption|].
  rewrite nodes_eq. right. rewrite in_nodes_kids in *. destruct Hy as [k [Hk Hy]].
  exists k. split; [assumption|]. rewrite Forall_forall in IH. exact (IH (Some k) Hk y z Hy Hz).
Qed.

Lemma below_trans a y z : In y (below a) -> In z (nodes y) -> In z (below a).
Proof.
  destruct a as [f kids]. rewrite below_eq, !in_nodes_kids. intros [k [Hk Hy]] Hz.
  exists k. split; [assumption|]. eapply nodes_trans; eassumption.
Qed.

Lemma kid_below f kids k : In (Some k) kids -> In k (below (Ast f kids)).
Proof. intro H. rewrite below_eq, in_nodes_kids. exists k. split; [assumption|apply nodes_self]. Qed.

(* ---- well-formed graphs ---- *)

(* equal Filenames denote the same node; every reference is set; no Filename looks like a stub *)
Definition wf_graph (g : ast) : Prop :=
  all_refs_set g = true /\
  (forall x y, In x (nodes g) -> In y (nodes g) -> ast_name x = ast_name y -> x = y) /\
  (forall x, In x (nodes g) -> name_clean (ast_name x) = true).

Lemma all_refs_nodes : forall a x, all_refs_set a = true -> In x (nodes a) -> all_refs_set x = true.
Proof.
  induction a as [f kids IH] using ast_ind'. intros x Ha Hx.
  rewrite nodes_eq in Hx. destruct Hx as [<-|Hx]; [assumption|].
  rewrite all_refs_eq in Ha. rewrite in_nodes_kids in Hx. destruct Hx as [k [Hk Hx]].
  rewrite Forall_forall in IH. apply (IH (Some k) Hk x); [|assumption].
  clear -Ha Hk. induction kids as [|[c|] r IHr]; cbn [all_refs_kids] in Ha; [destruct Hk| |discriminate].
  apply andb_true_iff in Ha as [H1 H2]. destruct Hk as [E|Hk]; [injection E as ->; assumption|auto].
Qed.

Lemma all_refs_kids_some ks : all_refs_kids ks = true -> forall o, In o ks -> exists k, o = Some k /\ all_refs_set k = true.
Proof.
  induction ks as [|[c|] r IH]; cbn [all_refs_kids]; intros H o Ho; [destruct Ho| |discriminate].
  apply andb_true_iff in H as [H1 H2]. destruct Ho as [<-|Ho]; [exists c; auto|auto].
Qed.

(* ---- stubs ---- *)

Lemma strip_prefix_app p s : strip_prefix p (p ++ s) = Some s.
Proof.
  induction p as [|c p IH]; [reflexivity|]. cbn.
  assert (E : Byte.eqb c c = true) by (apply byte_eqb_eq; reflexivity). rewrite E. exact IH.
Qed.

Lemma strip_prefix_is_prefix p s : strip_prefix p s = None <-> is_prefix p s = false.
Proof.
  revert s. induction p as [|c p IH]; intros [|b s]; cbn; try (split; congruence).
  destruct (Byte.eqb c b); cbn; [apply IH|split; reflexivity].
Qed.

Lemma stub_target_stub n : stub_target (stub n) = Some n.
Proof. unfold stub_target, stub, ast_name. cbn [ast_file empty_file f_filename]. apply strip_prefix_app. Qed.

Lemma is_stub_stub n : is_stub (stub n) = true.
Proof. unfold is_stub. rewrite stub_target_stub. reflexivity. Qed.

Lemma clean_not_stub a : name_clean (ast_name a) = true -> stub_target a = None.
Proof.
  unfold name_clean, stub_target. intro H. apply strip_prefix_is_prefix.
  destruct (is_prefix ref_prefix (ast_name a)); [discriminate|reflexivity].
Qed.

Lemma clean_is_stub a : name_clean (ast_name a) = true -> is_stub a = false.
Proof. intro H. unfold is_stub. rewrite clean_not_stub by assumption. reflexivity. Qed.

(* ---- a combined induction principle: trees and kid lists ---- *)

Lemma ast_kids_ind (P : ast -> Prop) (Q : list (option ast) -> Prop) :
  (forall f kids, Q kids -> P (Ast f kids)) ->
  Q [] -> (forall k r, P k -> Q r -> Q (Some k :: r)) -> (forall r, Q r -> Q (None :: r)) ->
  (forall a, P a) /\ (forall ks, Q ks).
Proof.
  intros HP Hnil Hsome Hnone.
  assert (H : forall a, P a).
  { fix IH 1. intros [f kids]. apply HP.
    induction kids as [|[k|] r IHr]; [exact Hnil|apply Hsome; [apply IH|exact IHr]|apply Hnone; exact IHr]. }
  split; [exact H|]. induction ks as [|[k|] r IHr]; auto.
Qed.

(* ---- compress: what it keeps ---- *)

Section Mk.
  Variable mk : bytes -> ast.
  Hypothesis Hmk : forall n, stub_target (mk n) = Some n.
  Definition ctop (g : ast) : ast := fst (compress_gen mk [] g).
  Lemma is_stub_mk n : is_stub (mk n) = true.
  Proof. unfold is_stub. rewrite Hmk. reflexivity. Qed.

Lemma compress_name : forall a seen, ast_file (fst (compress_gen mk seen a)) = ast_file a.
Proof.
  intros [f kids] seen. rewrite compress_eq. destruct (compress_kids mk seen kids). reflexivity.
Qed.
Lemma compress_ast_name a seen : ast_name (fst (compress_gen mk seen a)) = ast_name a.
Proof. unfold ast_name. rewrite compress_name. reflexivity. Qed.

Lemma mem_In n l : mem n l = true <-> In n l.
Proof.
  unfold mem. rewrite existsb_exists. split.
  - intros [x [Hx E]]. apply beqb_true in E. subst. assumption.
  - intro H. exists n. split; [assumption|apply beqb_refl].
Qed.

Lemma NoDup_app_intro {A} (a b : list A) :
  NoDup a -> NoDup b -> (forall x, In x a -> In x b -> False) -> NoDup (a ++ b).
Proof.
  induction a as [|x a IH]; intros Ha Hb Hd; [exact Hb|].
  inversion Ha as [|? ? Hx Ha']; subst. cbn. constructor.
  - rewrite in_app_iff. intros [H|H]; [contradiction|]. apply (Hd x); [left; reflexivity|assumption].
  - apply IH; [assumption|assumption|]. intros y H1 H2. apply (Hd y); [right; assumption|assumption].
Qed.

Definition img (a' a : ast) : Prop := exists s, a' = fst (compress_gen mk s a).

Definition clean_tree (a : ast) : Prop := forall x, In x (nodes a) -> name_clean (ast_name x) = true.
Definition clean_kids (ks : list (option ast)) : Prop := forall x, In x (nodes_kids ks) -> name_clean (ast_name x) = true.

(* the local facts about one call (no sharing hypothesis needed): seen grows exactly by the
   names of the live nodes of the result; those names are pairwise distinct and were not seen
   before; every live node of the result is the image of a proper descendant *)
Definition CL (L D : list ast) (seen seen' : list bytes) : Prop :=
  (forall n, In n seen' <-> In n seen \/ In n (map ast_name L)) /\
  NoDup (map ast_name L) /\
  (forall n, In n (map ast_name L) -> ~ In n seen) /\
  (forall x, In x L -> exists y, In y D /\ img x y).

Lemma compress_local_both :
  (forall a, forall seen, clean_tree a ->
     CL (live (fst (compress_gen mk seen a))) (below a) seen (snd (compress_gen mk seen a))) /\
  (forall ks, forall seen, clean_kids ks ->
     CL (live_kids (fst (compress_kids mk seen ks))) (nodes_kids ks) seen (snd (compress_kids mk seen ks))).
Proof.
  apply ast_kids_ind.
  - intros f kids IH seen Hc. unfold CL in *. rewrite compress_eq, below_eq.
    assert (Hk : clean_kids kids) by (intros x Hx; apply Hc; rewrite nodes_eq; right; assumption).
    specialize (IH seen Hk). destruct (compress_kids mk seen kids) as [k' s']. cbn [fst snd] in *.
    rewrite live_eq. exact IH.
  - intros seen _. unfold CL. cbn [compress_kids fst snd live_kids map In nodes_kids]. split; [intro n; tauto|]. split; [constructor|]. split; [intros n []|intros x []].
  - intros k r IHk IHr seen Hc. unfold CL in *. cbn [compress_kids].
    assert (Hck : clean_tree k) by (intros x Hx; apply Hc; cbn [nodes_kids]; apply in_or_app; left; assumption).
    assert (Hcr : clean_kids r) by (intros x Hx; apply Hc; cbn [nodes_kids]; apply in_or_app; right; assumption).
    destruct (mem (ast_name k) seen) eqn:Em.
    + specialize (IHr seen Hcr). destruct (compress_kids mk seen r) as [r' s']. cbn [fst snd] in *.
      cbn [live_kids]. rewrite (is_stub_mk _). cbn [app].
      destruct IHr as [I1 [I2 [I3 I4]]]. repeat split; auto; try apply I1.
      intros x Hx. destruct (I4 x Hx) as [y [Hy Hi]]. exists y. split; [|assumption].
      cbn [nodes_kids]. apply in_or_app. right. assumption.
    + specialize (IHk (ast_name k :: seen) Hck).
      pose proof (compress_ast_name k (ast_name k :: seen)) as Hn.
      destruct (compress_gen mk (ast_name k :: seen) k) as [k' s1] eqn:Ek. cbn [fst snd] in IHk, Hn.
      specialize (IHr s1 Hcr). destruct (compress_kids mk s1 r) as [r' s2]. cbn [fst snd] in *.
      destruct IHk as [A1 [A2 [A3 A4]]]. destruct IHr as [B1 [B2 [B3 B4]]].
      assert (Hns : is_stub k' = false).
      { apply clean_is_stub. rewrite Hn. apply Hck. apply nodes_self. }
      cbn [live_kids]. rewrite Hns. cbn [app map]. rewrite map_app. rewrite Hn.
      assert (Em' : ~ In (ast_name k) seen) by (rewrite <- mem_In, Em; discriminate).
      repeat split.
      * intro H. apply B1 in H as [H|H]; [|right; right; apply in_or_app; right; assumption].
        apply A1 in H as [[H|H]|H]; [right; left; assumption|left; assumption|right; right; apply in_or_app; left; assumption].
      * intros [H|[H|H]]; apply B1.
        -- left. apply A1. left. right. assumption.
        -- left. apply A1. left. left. assumption.
        -- apply in_app_or in H as [H|H]; [left; apply A1; right; assumption|right; assumption].
      * constructor.
        -- rewrite in_app_iff. intros [H|H].
           ++ apply (A3 _ H). left. reflexivity.
           ++ apply (B3 _ H). apply A1. left. left. reflexivity.
        -- apply NoDup_app_intro; [assumption|assumption|].
           intros n H1 H2. apply (B3 _ H2). apply A1. right. assumption.
      * intros n [<-|H]; [assumption|]. apply in_app_or in H as [H|H].
        -- intro Hs. apply (A3 _ H). right. assumption.
        -- intro Hs. apply (B3 _ H). apply A1. left. right. assumption.
      * intros x [<-|Hx].
        -- exists k. split; [cbn [nodes_kids]; apply in_or_app; left; apply nodes_self|].
           exists (ast_name k :: seen). rewrite Ek. reflexivity.
        -- apply in_app_or in Hx as [Hx|Hx].
           ++ destruct (A4 x Hx) as [y [Hy Hi]]. exists y. split; [|assumption].
              cbn [nodes_kids]. apply in_or_app. left. apply below_nodes. assumption.
           ++ destruct (B4 x Hx) as [y [Hy Hi]]. exists y. split; [|assumption].
              cbn [nodes_kids]. apply in_or_app. right. assumption.
  - intros r IHr seen Hc. unfold CL in *. cbn [compress_kids].
    assert (Hcr : clean_kids r) by (intros x Hx; apply Hc; cbn [nodes_kids]; assumption).
    specialize (IHr seen Hcr). destruct (compress_kids mk seen r) as [r' s']. cbn [fst snd live_kids nodes_kids] in *.
    exact IHr.
Qed.

Definition compress_local := proj1 compress_local_both.

(* ---- closure: with sharing, every descendant's name ends up seen ---- *)

Section Closure.
  Variable g : ast.
  Hypothesis Hsame : forall x y, In x (nodes g) -> In y (nodes g) -> ast_name x = ast_name y -> x = y.
  Hypothesis Hclean : clean_tree g.

  Definition Closed (seen : list bytes) (k : bytes) : Prop :=
    forall p z, In p (nodes g) -> ast_name p = k -> In z (below p) -> In (ast_name z) seen.
  Definition InvS (seen : list bytes) (a : ast) : Prop :=
    forall k, In k seen -> Closed seen k \/ (exists p, In p (nodes g) /\ ast_name p = k /\ In a (nodes p)).

  Lemma Closed_mono s s' k : (forall n, In n s -> In n s') -> Closed s k -> Closed s' k.
  Proof. intros Hs H p z Hp Hn Hz. apply Hs. eapply H; eassumption. Qed.

  Lemma clean_sub a : In a (nodes g) -> clean_tree a.
  Proof. intros Ha x Hx. apply Hclean. eapply nodes_trans; eassumption. Qed.

  Lemma closure_both :
    (forall a, In a (nodes g) -> forall seen, InvS seen a ->
       forall z, In z (below a) -> In (ast_name z) (snd (compress_gen mk seen a))) /\
    (forall ks, forall par, In par (nodes g) -> (forall k, In (Some k) ks -> In k (below par)) ->
       forall seen, InvS seen par ->
       (forall z, In z (nodes_kids ks) -> In (ast_name z) (snd (compress_kids mk seen ks))) /\
       InvS (snd (compress_kids mk seen ks)) par /\
       (forall n, In n seen -> In n (snd (compress_kids mk seen ks)))).
  Proof.
    apply ast_kids_ind.
    - intros f kids IH Ha seen Hinv z Hz. rewrite compress_eq.
      destruct (IH (Ast f kids) Ha (fun k Hk => kid_below f kids k Hk) seen Hinv) as [H1 _].
      destruct (compress_kids mk seen kids) as [k' s']. cbn [fst snd] in *. apply H1. rewrite below_eq in Hz. exact Hz.
    - intros par Hpar _ seen Hinv. cbn. repeat split; auto. intros z [].
    - intros y r IHy IHr par Hpar Hsub seen Hinv. cbn [compress_kids].
      assert (Hyb : In y (below par)) by (apply Hsub; left; reflexivity).
      assert (Hyg : In y (nodes g)) by (eapply nodes_trans; [exact Hpar|apply below_nodes; exact Hyb]).
      assert (Hsub' : forall k, In (Some k) r -> In k (below par)) by (intros; apply Hsub; right; assumption).
      destruct (mem (ast_name y) seen) eqn:Em.
      + (* already seen: it is closed, because it cannot be an ancestor of its own parent *)
        apply mem_In in Em.
        assert (Hcl : Closed seen (ast_name y)).
        { destruct (Hinv _ Em) as [H|[p [Hp [Hn Hin]]]]; [exact H|exfalso].
          assert (p = y) by (apply Hsame; assumption). subst p.
          assert (In par (below par)).
          { eapply below_trans; [exact Hyb|exact Hin]. }
          apply below_size in H. lia. }
        destruct (IHr par Hpar Hsub' seen Hinv) as [R1 [R2 R3]].
        destruct (compress_kids mk seen r) as [r' s']. cbn [fst snd] in *.
        repeat split; [|exact R2|exact R3].
        intros z Hz. cbn [nodes_kids] in Hz. apply in_app_or in Hz as [Hz|Hz]; [|apply R1; exact Hz].
        apply R3. apply nodes_below in Hz as [->|Hz]; [exact Em|]. eapply Hcl; [exact Hyg|reflexivity|exact Hz].
      + assert (Em' : ~ In (ast_name y) seen) by (rewrite <- mem_In, Em; discriminate).
        (* the recursive call: y is in progress, everything else as before *)
        assert (Hinv1 : InvS (ast_name y :: seen) y).
        { intros k [<-|Hk].
          - right. exists y. repeat split; [exact Hyg|apply nodes_self].
          - destruct (Hinv _ Hk) as [H|[p [Hp [Hn Hin]]]].
            + left. eapply Closed_mono; [|exact H]. intros; right; assumption.
            + right. exists p. repeat split; try assumption.
              eapply nodes_trans; [exact Hin|apply below_nodes; exact Hyb]. }
        pose proof (IHy Hyg _ Hinv1) as Y1.
        pose proof (compress_local y (ast_name y :: seen) (clean_sub y Hyg)) as [L1 [L2 [L3 L4]]].
        destruct (compress_gen mk (ast_name y :: seen) y) as [y' s1]. cbn [fst snd] in *.
        assert (Hinv2 : InvS s1 par).
        { intros k Hk. apply L1 in Hk as [[<-|Hk]|Hk].
          - left. intros p z Hp Hn Hz. assert (p = y) by (apply Hsame; assumption). subst p. apply Y1. exact Hz.
          - destruct (Hinv _ Hk) as [H|H]; [left|right; exact H].
            eapply Closed_mono; [|exact H]. intros n Hn. apply L1. left. right. exact Hn.
          - apply in_map_iff in Hk as [x [<- Hx]]. destruct (L4 x Hx) as [z [Hz [s ->]]].
            rewrite compress_ast_name. left. intros p w Hp Hn Hw.
            assert (Hzg : In z (nodes g)) by (eapply nodes_trans; [exact Hyg|apply below_nodes; exact Hz]).
            assert (p = z) by (apply Hsame; assumption). subst p.
            apply Y1. eapply below_trans; [exact Hz|apply below_nodes; exact Hw]. }
        destruct (IHr par Hpar Hsub' s1 Hinv2) as [R1 [R2 R3]].
        destruct (compress_kids mk s1 r) as [r' s2]. cbn [fst snd] in *.
        repeat split; [|exact R2|].
        * intros z Hz. cbn [nodes_kids] in Hz. apply in_app_or in Hz as [Hz|Hz]; [|apply R1; exact Hz].
          apply R3. apply nodes_below in Hz as [->|Hz]; [apply L1; left; left; reflexivity|apply Y1; exact Hz].
        * intros n Hn. apply R3. apply L1. left. right. exact Hn.
    - intros r IHr par Hpar Hsub seen Hinv. cbn [compress_kids].
      assert (Hsub' : forall k, In (Some k) r -> In k (below par)) by (intros; apply Hsub; right; assumption).
      destruct (IHr par Hpar Hsub' seen Hinv) as [R1 [R2 R3]].
      destruct (compress_kids mk seen r) as [r' s']. cbn [fst snd nodes_kids] in *. auto.
  Qed.

  (* every proper descendant's Filename occurs un-stubbed in the result *)
  Lemma compress_covers z : In z (below g) -> In (ast_name z) (map ast_name (live (ctop g))).
  Proof.
    intro Hz. unfold ctop.
    pose proof (proj1 closure_both g (nodes_self g) [] (fun k (H : In k []) => match H with end) z Hz) as H.
    destruct (compress_local g [] Hclean) as [L1 _]. apply L1 in H as [[]|H]. exact H.
  Qed.
End Closure.

(* ---- collect ---- *)

Lemma collect_both :
  (forall a, forall m,
     (forall n x, lookup n (collect m a) = Some x -> (In x (live a) /\ ast_name x = n) \/ lookup n m = Some x) /\
     (forall n, (lookup n m <> None \/ In n (map ast_name (live a))) -> lookup n (collect m a) <> None)) /\
  (forall ks, forall m,
     (forall n x, lookup n (collect_kids m ks) = Some x -> (In x (live_kids ks) /\ ast_name x = n) \/ lookup n m = Some x) /\
     (forall n, (lookup n m <> None \/ In n (map ast_name (live_kids ks))) -> lookup n (collect_kids m ks) <> None)).
Proof.
  apply ast_kids_ind.
  - intros f kids IH m. rewrite collect_eq, live_eq. apply IH.
  - intros m. cbn [collect_kids live_kids map In]. split; [intros; right; assumption|intros n [H|[]]; exact H].
  - intros k r IHk IHr m. cbn [collect_kids live_kids].
    destruct (is_stub k) eqn:Es; cbn [app].
    + apply IHr.
    + destruct (IHr (collect (update (ast_name k) k m) k)) as [R1 R2].
      destruct (IHk (update (ast_name k) k m)) as [K1 K2]. split.
      * intros n x H. apply R1 in H as [[H E]|H]; [left; split; [right; apply in_or_app; right; exact H|exact E]|].
        apply K1 in H as [[H E]|H]; [left; split; [right; apply in_or_app; left; exact H|exact E]|].
        destruct (list_eq_dec Byte.byte_eq_dec (ast_name k) n) as [E|E].
        -- subst n. rewrite lookup_update_same in H. injection H as <-. left. split; [left; reflexivity|reflexivity].
        -- rewrite lookup_update_other in H by exact E. right. exact H.
      * intros n H. apply R2. cbn [map] in H. rewrite map_app in H.
        destruct H as [H|[H|H]].
        -- left. apply K2. left.
           destruct (list_eq_dec Byte.byte_eq_dec (ast_name k) n) as [E|E].
           ++ subst n. rewrite lookup_update_same. discriminate.
           ++ rewrite lookup_update_other by exact E. exact H.
        -- left. apply K2. left. subst n. rewrite lookup_update_same. discriminate.
        -- apply in_app_or in H as [H|H]; [left; apply K2; right; exact H|right; exact H].
  - intros r IHr m. cbn [collect_kids live_kids]. apply IHr.
Qed.

(* collectThriftInclude finds every un-stubbed node, under its Filename *)
Lemma collect_finds_all a n : In n (map ast_name (live a)) ->
  exists x, lookup n (collect [] a) = Some x /\ In x (live a) /\ ast_name x = n.
Proof.
  intro H. destruct (proj1 collect_both a []) as [C1 C2].
  destruct (lookup n (collect [] a)) as [x|] eqn:E.
  - exists x. split; [reflexivity|]. apply C1 in E as [[H1 H2]|E]; [auto|discriminate].
  - exfalso. apply (C2 n); [right; exact H|exact E].
Qed.

(* ---- decompress after compress ---- *)

Section Decompress.
  Variable g : ast.
  Hypothesis Hwf : wf_graph g.
  Variable m : list (bytes * ast).
  (* every proper descendant's Filename is a key of m, bound to the image of that node *)
  Hypothesis Hm : forall y, In y (below g) -> exists c s, lookup (ast_name y) m = Some c /\ c = fst (compress_gen mk s y).

  Let Hsame := proj1 (proj2 Hwf).
  Let Hclean : clean_tree g := proj2 (proj2 Hwf).

  Lemma kid_in_below a k : In a (nodes g) -> In k (below a) -> In k (below g).
  Proof.
    intros Ha Hk. apply nodes_below in Ha as [->|Ha]; [exact Hk|].
    eapply below_trans; [exact Ha|apply below_nodes; exact Hk].
  Qed.

  Lemma decompress_compress_at : forall n a, In a (nodes g) -> (height a <= n)%nat ->
    forall s, decompress n m (fst (compress_gen mk s a)) = DOk a.
  Proof.
    induction n as [|n IH]; intros [f kids] Ha Hh s; [rewrite height_eq in Hh; lia|].
    rewrite compress_eq. rewrite height_eq in Hh.
    assert (Hrefs : all_refs_kids kids = true).
    { pose proof (all_refs_nodes g _ (proj1 Hwf) Ha) as H. rewrite all_refs_eq in H. exact H. }
    assert (K : forall ks seen, (forall k, In (Some k) ks -> In k (below (Ast f kids))) ->
              all_refs_kids ks = true -> (height_kids ks <= n)%nat ->
              decompress_kids n m (fst (compress_kids mk seen ks)) = (ks, None)).
    { induction ks as [|[y|] r IHr]; intros seen Hsub Hr Hk; cbn [compress_kids]; [reflexivity| |discriminate].
      cbn [all_refs_kids] in Hr. apply andb_true_iff in Hr as [_ Hr]. cbn [height_kids] in Hk.
      assert (Hyb : In y (below g)) by (eapply kid_in_below; [exact Ha|apply Hsub; left; reflexivity]).
      assert (Hyg : In y (nodes g)) by (apply below_nodes; exact Hyb).
      assert (Hsub' : forall k, In (Some k) r -> In k (below (Ast f kids))) by (intros; apply Hsub; right; assumption).
      destruct (mem (ast_name y) seen).
      - specialize (IHr seen Hsub' Hr ltac:(lia)). destruct (compress_kids mk seen r) as [r' s']. cbn [fst] in *.
        cbn [decompress_kids]. unfold resolve. rewrite Hmk.
        destruct (Hm y Hyb) as [c [s0 [Hl ->]]]. rewrite Hl.
        rewrite (IH y Hyg ltac:(lia) s0). rewrite IHr. reflexivity.
      - pose proof (compress_ast_name y (ast_name y :: seen)) as Hn.
        pose proof (IH y Hyg ltac:(lia) (ast_name y :: seen)) as Hy.
        destruct (compress_gen mk (ast_name y :: seen) y) as [y' s1]. cbn [fst] in *.
        specialize (IHr s1 Hsub' Hr ltac:(lia)). destruct (compress_kids mk s1 r) as [r' s2]. cbn [fst] in *.
        cbn [decompress_kids]. unfold resolve. rewrite clean_not_stub by (rewrite Hn; apply Hclean; exact Hyg).
        rewrite Hy, IHr. reflexivity. }
    specialize (K kids s (fun k Hk => kid_below f kids k Hk) Hrefs ltac:(lia)).
    destruct (compress_kids mk s kids) as [k' s']. cbn [fst] in *.
    rewrite decompress_eq, K. reflexivity.
  Qed.
End Decompress.

(* decompress (compress_gen mk g) = g for every well-formed graph (diamonds included), with the
   table UnmarshalRequest collects from the compressed tree itself *)
Theorem decompress_compress_gen g fuel : wf_graph g -> (height g <= fuel)%nat ->
  decompress_top fuel (ctop g) = DOk g.
Proof.
  intros Hwf Hf. unfold decompress_top, ctop.
  destruct Hwf as [Hrefs [Hsame Hclean]].
  apply (decompress_compress_at g (conj Hrefs (conj Hsame Hclean))); [|apply nodes_self|exact Hf].
  intros y Hy.
  pose proof (compress_covers g Hsame Hclean y Hy) as Hin. unfold ctop in Hin.
  destruct (collect_finds_all _ _ Hin) as [c [Hl [Hc Hn]]].
  destruct (compress_local g [] Hclean) as [_ [_ [_ L4]]].
  destruct (L4 c Hc) as [y' [Hy' [s Hs]]].
  exists c, s. split; [exact Hl|].
  assert (y' = y).
  { apply Hsame; [apply below_nodes; exact Hy'|apply below_nodes; exact Hy|].
    rewrite <- Hn, Hs. symmetry. apply compress_ast_name. }
  subst y'. exact Hs.
Qed.

(* every Filename below the root occurs un-stubbed exactly once in the compressed tree, and
   nothing else occurs un-stubbed *)
Theorem compress_no_dup_gen g : wf_graph g ->
  NoDup (map ast_name (live (ctop g))) /\
  (forall n, In n (map ast_name (below g)) <-> In n (map ast_name (live (ctop g)))) /\
  (forall n, In n (map ast_name (below g)) ->
     count_occ (list_eq_dec Byte.byte_eq_dec) (map ast_name (live (ctop g))) n = 1%nat).
Proof.
  intros [Hrefs [Hsame Hclean]].
  destruct (compress_local g [] Hclean) as [_ [L2 [_ L4]]]. fold (ctop g) in L2, L4.
  assert (Hiff : forall n, In n (map ast_name (below g)) <-> In n (map ast_name (live (ctop g)))).
  { intro n. split.
    - intro H. apply in_map_iff in H as [z [<- Hz]]. apply compress_covers; assumption.
    - intro H. apply in_map_iff in H as [x [<- Hx]]. destruct (L4 x Hx) as [y [Hy [s ->]]].
      rewrite compress_ast_name. apply in_map. exact Hy. }
  split; [exact L2|]. split; [exact Hiff|].
  intros n Hn. apply NoDup_count_occ'; [exact L2|apply Hiff; exact Hn].
Qed.
End Mk.

(* ================================================================ 4. codec *)

(* ---- the generic layer ---- *)

Lemma wfind_emit_notin {A} (d : wval -> option A) key lay : forall sl,
  ~ In (snd key) (map snd lay) -> wfind d key (emit lay sl) = None.
Proof.
  induction lay as [|[t id] lay IH]; intros sl Hn; [destruct sl; reflexivity|].
  cbn [map snd In] in Hn. destruct sl as [|[w|] sl]; cbn [emit]; [reflexivity| |].
  - cbn [wfind]. rewrite IH by tauto.
    destruct (Z.eqb_spec (snd key) id) as [E|E]; [exfalso; apply Hn; left; congruence|reflexivity].
  - apply IH. tauto.
Qed.

Lemma wfind_emit {A} (d : wval -> option A) : forall lay sl i key,
  NoDup (map snd lay) -> List.length sl = List.length lay -> nth_error lay i = Some key ->
  wfind d key (emit lay sl) = match nth_error sl i with Some (Some w) => Some (d w) | _ => None end.
Proof.
  induction lay as [|[t id] lay IH]; intros sl i key Hnd Hlen Hk; [destruct i; discriminate|].
  destruct sl as [|o sl]; [discriminate|]. cbn [List.length] in Hlen. injection Hlen as Hlen.
  cbn [map snd] in Hnd. inversion Hnd as [|? ? Hnotin Hnd']; subst.
  destruct i as [|i]; cbn [nth_error] in *.
  - injection Hk as <-. destruct o as [w|]; cbn [emit].
    + cbn [wfind]. rewrite wfind_emit_notin by exact Hnotin. cbn [fst snd].
      rewrite Z.eqb_refl, ttype_eqb_refl. reflexivity.
    + apply wfind_emit_notin. exact Hnotin.
  - assert (Hne : snd key <> id).
    { intro E. apply Hnotin. rewrite <- E. apply in_map. eapply nth_error_In. exact Hk. }
    destruct o as [w|]; cbn [emit]; [|apply IH; assumption].
    cbn [wfind]. rewrite (IH sl i key Hnd' Hlen Hk).
    destruct (nth_error sl i) as [[w'|]|]; try reflexivity;
      (destruct (Z.eqb_spec (snd key) id); [contradiction|reflexivity]).
Qed.

Lemma nodupZ_NoDup l : nodupZ l = true -> NoDup l.
Proof.
  induction l as [|x l IH]; cbn [nodupZ]; intro H; constructor.
  - apply andb_true_iff in H as [H _]. intro Hin. apply negb_true_iff in H.
    assert (existsb (Z.eqb x) l = true) by (apply existsb_exists; exists x; split; [assumption|apply Z.eqb_refl]).
    congruence.
  - apply andb_true_iff in H as [_ H]. auto.
Qed.

Lemma get_emit {A} (d : wval -> option A) lay sl i :
  nodupZ (map snd lay) = true -> List.length sl = List.length lay -> (i <? List.length lay)%nat = true ->
  get d lay i (emit lay sl) = match nth i sl None with Some w => Some (d w) | None => None end.
Proof.
  intros Hnd Hlen Hi. apply Nat.ltb_lt in Hi. unfold get.
  destruct (nth_error lay i) as [key|] eqn:Ek; [|apply nth_error_None in Ek; lia].
  rewrite (nth_error_nth _ _ nokey Ek).
  rewrite (wfind_emit d lay sl i key (nodupZ_NoDup _ Hnd) Hlen Ek).
  destruct (nth_error sl i) as [o|] eqn:Es.
  - rewrite (nth_error_nth _ _ None Es). destruct o; reflexivity.
  - apply nth_error_None in Es. lia.
Qed.

Lemma mapo_map {A} (d : wval -> option A) (e : A -> wval) l :
  Forall (fun x => d (e x) = Some x) l -> mapo d (map e l) = Some l.
Proof.
  induction 1 as [|x l Hx _ IH]; [reflexivity|]. cbn [map mapo]. rewrite Hx, IH. reflexivity.
Qed.

Lemma mapo_map_all {A} (d : wval -> option A) (e : A -> wval) l :
  (forall x, d (e x) = Some x) -> mapo d (map e l) = Some l.
Proof. intro H. apply mapo_map. apply Forall_forall. intros; apply H. Qed.

Lemma d_list_structs {A} (d : wval -> option A) (e : A -> wval) l :
  (forall x, d (e x) = Some x) -> d_list d (w_structs e l) = Some l.
Proof. intro H. unfold d_list, w_structs. apply mapo_map_all. exact H. Qed.

Lemma d_list_strs l : d_list d_str (w_strs l) = Some l.
Proof. unfold d_list, w_strs. apply mapo_map_all. reflexivity. Qed.

Ltac gets1 := match goal with |- context[@get ?A ?d ?l ?i (emit ?l ?sl)] => rewrite (get_emit d l sl i) by reflexivity end.
Ltac gets := repeat (first [gets1 | progress (cbn [nth])]).

(* ---- enumerations ---- *)

Lemma cat_roundtrip c : cat_of_z (cat_z c) = Some c.
Proof. destruct c; reflexivity. Qed.
Lemma req_roundtrip r : req_of_z (req_z r) = Some r.
Proof. destruct r; reflexivity. Qed.
Lemma kind_roundtrip k : kind_of_name (sl_kind_name k) = Some k.
Proof. destruct k; reflexivity. Qed.

(* ---- nodes ---- *)

Lemma reference_rt r : dec_reference (enc_reference r) = Some r.
Proof. destruct r as [n i]. unfold dec_reference, enc_reference, wstruct. gets. reflexivity. Qed.

Lemma annotation_rt a : dec_annotation (enc_annotation a) = Some a.
Proof.
  destruct a as [k v]. unfold dec_annotation, enc_annotation, wstruct. gets.
  cbn [dflt d_str an_key an_values]. rewrite d_list_strs. reflexivity.
Qed.

Lemma annos_rt l : dec_annos (enc_annos l) = Some l.
Proof. apply d_list_structs. apply annotation_rt. Qed.

Lemma ty_rt : forall t, dec_ty (enc_ty t) = Some t.
Proof.
  induction t as [n k v c an cat r td IHk IHv] using ty_ind'.
  cbn [enc_ty]. unfold wstruct. cbn [dec_ty]. gets.
  cbn [dflt d_str d_cat]. rewrite annos_rt, cat_roundtrip.
  destruct k as [k|]; [rewrite (IHk k eq_refl)|]; (destruct v as [v|]; [rewrite (IHv v eq_refl)|]);
    (destruct r as [r|]; cbn [omap]; [rewrite reference_rt|]); (destruct td; cbn [omap opt d_bool]; reflexivity).
Qed.

Lemma extra_rt e : dec_extra (enc_extra e) = Some e.
Proof. destruct e as [b i n s]. unfold dec_extra, enc_extra, wstruct. gets. reflexivity. Qed.

Lemma cv_rt : forall c, dec_cv (enc_cv c) = Some c.
Proof.
  induction c as [b|z|s|s e|l IH|l IH] using const_value_ind'; cbn [enc_cv]; unfold cv, tv, wstruct; cbn [map seq Nat.eqb dec_cv].
  all: gets; cbn [dflt d_i32 omap opt need]; try (destruct e as [e|]; cbn [omap]; [rewrite extra_rt|]); cbn [opt need]; gets;
    cbn [count_some filter List.length Nat.eqb negb Z.eqb Pos.eqb need d_dbl d_i64 d_str].
  - rewrite N2Z.id. reflexivity.
  - reflexivity.
  - reflexivity.
  - reflexivity.
  - reflexivity.
  - unfold d_list. rewrite mapo_map by exact IH. reflexivity.
  - unfold d_list.
    rewrite mapo_map with (e := fun kv => WStruct (emit lay_mapconst [Some (enc_cv (fst kv)); Some (enc_cv (snd kv))])).
    + reflexivity.
    + eapply Forall_impl; [|exact IH]. intros [k v] [Hk Hv]. cbn [fst snd] in *. gets. rewrite Hk, Hv. reflexivity.
Qed.

Lemma namespace_rt n : dec_namespace (enc_namespace n) = Some n.
Proof.
  destruct n as [l n a]. unfold dec_namespace, enc_namespace, wstruct. gets.
  cbn [dflt d_str ns_language ns_name ns_annos]. rewrite annos_rt. reflexivity.
Qed.

Lemma typedef_rt t : dec_typedef (enc_typedef t) = Some t.
Proof.
  destruct t as [t a an c]. unfold dec_typedef, enc_typedef, wstruct. gets.
  cbn [dflt need d_str td_type td_alias td_annos td_comments]. rewrite ty_rt, annos_rt. reflexivity.
Qed.

Lemma enum_value_rt v : dec_enum_value (enc_enum_value v) = Some v.
Proof.
  destruct v as [n v an c]. unfold dec_enum_value, enc_enum_value, wstruct. gets.
  cbn [dflt d_str d_i64 ev_name ev_value ev_annos ev_comments]. rewrite annos_rt. reflexivity.
Qed.

Lemma enum_rt e : dec_enum (enc_enum e) = Some e.
Proof.
  destruct e as [n v an c]. unfold dec_enum, enc_enum, wstruct. gets.
  cbn [dflt d_str en_name en_values en_annos en_comments].
  rewrite annos_rt, (d_list_structs _ _ _ enum_value_rt). reflexivity.
Qed.

Lemma constant_rt c : dec_constant (enc_constant c) = Some c.
Proof.
  destruct c as [n t v an c]. unfold dec_constant, enc_constant, wstruct. gets.
  cbn [dflt need d_str co_name co_type co_value co_annos co_comments]. rewrite ty_rt, cv_rt, annos_rt. reflexivity.
Qed.

Lemma field_rt f : dec_field (enc_field f) = Some f.
Proof.
  destruct f as [i n r t d an c]. unfold dec_field, enc_field, wstruct. gets.
  cbn [dflt need d_str d_i32 d_req fd_id fd_name fd_req fd_type fd_default fd_annos fd_comments].
  rewrite ty_rt, annos_rt, req_roundtrip.
  destruct d as [d|]; cbn [omap opt]; [rewrite cv_rt|]; reflexivity.
Qed.

Lemma fields_rt l : dec_fields (enc_fields l) = Some l.
Proof. apply d_list_structs. apply field_rt. Qed.

Lemma struct_like_rt s : dec_struct_like (enc_struct_like s) = Some s.
Proof.
  destruct s as [k n f an c]. unfold dec_struct_like, enc_struct_like, wstruct. gets.
  cbn [dflt need d_str d_kind sl_category sl_name sl_fields sl_annos sl_comments].
  rewrite kind_roundtrip, fields_rt, annos_rt. reflexivity.
Qed.

Lemma function_rt f : dec_function (enc_function f) = Some f.
Proof.
  destruct f as [n o v t a th an c]. unfold dec_function, enc_function, wstruct. gets.
  cbn [dflt need d_str d_bool fn_name fn_oneway fn_void fn_type fn_args fn_throws fn_annos fn_comments].
  rewrite ty_rt, !fields_rt, annos_rt. reflexivity.
Qed.

Lemma service_rt s : dec_service (enc_service s) = Some s.
Proof.
  destruct s as [n e f an r c]. unfold dec_service, enc_service, wstruct. gets.
  cbn [dflt need d_str sv_name sv_extends sv_functions sv_annos sv_ref sv_comments].
  rewrite (d_list_structs _ _ _ function_rt), annos_rt.
  destruct r as [r|]; cbn [omap opt]; [rewrite reference_rt|]; reflexivity.
Qed.

Lemma pairs_rt l : dec_pairs (map (fun kv : bytes * category => (WStr (fst kv), WI32 (cat_z (snd kv)))) l) = Some l.
Proof.
  induction l as [|[k c] l IH]; [reflexivity|]. cbn [map dec_pairs fst snd d_str d_cat].
  rewrite cat_roundtrip, IH. reflexivity.
Qed.

Lemma name2cat_rt m : dec_name2cat (enc_name2cat m) = Some (match m with Some l => l | None => [] end).
Proof. unfold dec_name2cat, enc_name2cat. apply pairs_rt. Qed.

(* kids of a tree run parallel to its includes *)
Fixpoint wt_kids (l : list (option ast)) : bool :=
  match l with [] => true | Some k :: r => wt_ast k && wt_kids r | None :: r => wt_kids r end.
Lemma wt_ast_eq f kids :
  wt_ast (Ast f kids) =
  (List.length kids =? List.length (f_includes f))%nat &&
  forallb (fun i => match in_ref i with None => true | Some _ => false end) (f_includes f) && wt_kids kids.
Proof. reflexivity. Qed.

Fixpoint enc_incs' (is : list include) (ks : list (option ast)) : list wval :=
  match is, ks with
  | i :: is', k :: ks' =>
      wstruct lay_include [Some (WStr (in_path i)); match k with Some x => Some (enc_ast x) | None => None end;
                           omap WBool (in_used i)] :: enc_incs' is' ks'
  | _, _ => []
  end.
Lemma enc_ast_eq f kids :
  enc_ast (Ast f kids) =
  wstruct lay_thrift
    [Some (WStr (f_filename f)); Some (WList T_STRUCT (enc_incs' (f_includes f) kids));
     Some (w_strs (f_cpp_includes f)); Some (w_structs enc_namespace (f_namespaces f));
     Some (w_structs enc_typedef (f_typedefs f)); Some (w_structs enc_constant (f_constants f));
     Some (w_structs enc_enum (f_enums f)); Some (w_structs enc_struct_like (f_structs f));
     Some (w_structs enc_struct_like (f_unions f)); Some (w_structs enc_struct_like (f_exceptions f));
     Some (w_structs enc_service (f_services f)); Some (enc_name2cat (f_name2cat f))].
Proof.
  cbn [enc_ast].
  match goal with |- context[WList T_STRUCT (?g (f_includes f) kids)] =>
    assert (E : forall ks is, g is ks = enc_incs' is ks) end.
  { induction ks as [|k r IH]; intros [|i is]; cbn [enc_incs']; try reflexivity. f_equal. apply IH. }
  rewrite E. reflexivity.
Qed.

Lemma norm_ast_eq f kids :
  norm_ast (Ast f kids) = Ast (norm_file f) (map (fun k => match k with Some x => Some (norm_ast x) | None => None end) kids).
Proof. reflexivity. Qed.

Lemma ast_rt : forall a, wt_ast a = true -> dec_ast (enc_ast a) = Some (norm_ast a).
Proof.
  induction a as [f kids IH] using ast_ind'. intro Hwt.
  rewrite wt_ast_eq in Hwt. apply andb_true_iff in Hwt as [Hwt Hk]. apply andb_true_iff in Hwt as [Hlen Hrefs].
  apply Nat.eqb_eq in Hlen.
  rewrite enc_ast_eq, norm_ast_eq. unfold wstruct. cbn [dec_ast]. gets. cbn [dflt opt d_str].
  rewrite d_list_strs, (d_list_structs _ _ _ namespace_rt), (d_list_structs _ _ _ typedef_rt),
    (d_list_structs _ _ _ constant_rt), (d_list_structs _ _ _ enum_rt), !(d_list_structs _ _ _ struct_like_rt),
    (d_list_structs _ _ _ service_rt), name2cat_rt.
  assert (Hincs : d_list (dec_include dec_ast) (WList T_STRUCT (enc_incs' (f_includes f) kids)) =
                  Some (combine (f_includes f) (map (fun k => match k with Some x => Some (norm_ast x) | None => None end) kids))).
  { unfold d_list. revert Hlen Hrefs Hk IH. generalize (f_includes f) as is.
    induction kids as [|k r IHr]; intros [|i is] Hlen Hrefs Hk IH; try discriminate; [reflexivity|].
    cbn [List.length] in Hlen. injection Hlen as Hlen.
    cbn [forallb] in Hrefs. apply andb_true_iff in Hrefs as [Hi Hrefs].
    inversion IH as [|? ? IHk IHr']; subst.
    cbn [enc_incs' mapo map combine]. unfold wstruct at 1. unfold dec_include at 1. gets. cbn [dflt d_str].
    assert (Hkk : wt_kids r = true /\ match k with Some x => wt_ast x = true | None => True end).
    { destruct k; cbn [wt_kids] in Hk; [apply andb_true_iff in Hk as [? ?]; auto|auto]. }
    destruct Hkk as [Hkr Hkx].
    rewrite (IHr is Hlen Hrefs Hkr IHr').
    destruct i as [p rf u]. cbn [in_ref] in Hi. destruct rf; [discriminate|]. cbn [in_path in_used].
    destruct k as [x|]; [rewrite (IHk Hkx)|]; cbn [opt]; (destruct u; cbn [omap opt d_bool]; reflexivity). }
  rewrite Hincs. cbn [dflt]. unfold norm_file. f_equal. f_equal.
  - f_equal. revert Hlen. generalize (f_includes f). clear. induction kids as [|k r IH]; intros [|i is] H; try discriminate; [reflexivity|].
    cbn [map combine fst]. f_equal. apply IH. cbn in H. lia.
  - revert Hlen. generalize (f_includes f). clear. induction kids as [|k r IH]; intros [|i is] H; try discriminate; [reflexivity|].
    cbn [map combine snd]. f_equal. apply IH. cbn in H. lia.
Qed.

Lemma request_rt r : wt_ast (rq_ast r) = true -> dec_request (enc_request r) = Some (norm_request r).
Proof.
  destruct r as [v g p l o rc a]. cbn [rq_ast]. intro H. unfold dec_request, enc_request, wstruct. gets.
  cbn [need d_str d_bool rq_version rq_gen_params rq_plugin_params rq_language rq_output_path rq_recursive rq_ast].
  rewrite !d_list_strs, (ast_rt a H). reflexivity.
Qed.

(* ---- the theorems for the stub the code really writes ---- *)

Theorem decompress_compress g fuel : wf_graph g -> (height g <= fuel)%nat ->
  decompress_top fuel (compress_top g) = DOk g.
Proof. apply (decompress_compress_gen stub stub_target_stub). Qed.

Theorem compress_no_dup g : wf_graph g ->
  NoDup (map ast_name (live (compress_top g))) /\
  (forall n, In n (map ast_name (below g)) <-> In n (map ast_name (live (compress_top g)))) /\
  (forall n, In n (map ast_name (below g)) ->
     count_occ (list_eq_dec Byte.byte_eq_dec) (map ast_name (live (compress_top g))) n = 1%nat).
Proof. apply (compress_no_dup_gen stub stub_target_stub). Qed.

(* ---- wfb is wf ---- *)

Lemma wfb_wf : forall v, wfb v = true -> wf v.
Proof.
  fix IH 1. intros [b|z|z|z|z|z|s|fs|kt vt kvs|et l|et l]; cbn [wfb wf]; intro H.
  - exact I.
  - apply in_srangeb_spec. exact H.
  - apply andb_true_iff in H as [H1 H2]. unfold in_range. change (256 ^ Z.of_nat 8) with 18446744073709551616. lia.
  - apply in_srangeb_spec. exact H.
  - apply in_srangeb_spec. exact H.
  - apply in_srangeb_spec. exact H.
  - apply in_srangeb_spec. exact H.
  - induction fs as [|[[t id] x] r IHr]; [exact I|].
    apply andb_true_iff in H as [H Hr]. apply andb_true_iff in H as [H Hx]. apply andb_true_iff in H as [Ht Hid].
    split; [|exact (IHr Hr)]. split; [apply ttype_eqb_eq; exact Ht|]. split; [apply in_srangeb_spec; exact Hid|apply IH; exact Hx].
  - apply andb_true_iff in H as [Hn H]. split; [apply in_srangeb_spec; exact Hn|]. clear Hn.
    induction kvs as [|[k x] r IHr]; [exact I|].
    apply andb_true_iff in H as [H Hr]. apply andb_true_iff in H as [H Hx]. apply andb_true_iff in H as [H Hk].
    apply andb_true_iff in H as [Hkt Hvt].
    split; [|exact (IHr Hr)]. repeat split; [apply ttype_eqb_eq; exact Hkt|apply ttype_eqb_eq; exact Hvt|apply IH; exact Hk|apply IH; exact Hx].
  - apply andb_true_iff in H as [Hn H]. split; [apply in_srangeb_spec; exact Hn|]. clear Hn.
    induction l as [|x r IHr]; [exact I|].
    apply andb_true_iff in H as [H Hr]. apply andb_true_iff in H as [Ht Hx].
    split; [|exact (IHr Hr)]. split; [apply ttype_eqb_eq; exact Ht|apply IH; exact Hx].
  - apply andb_true_iff in H as [Hn H]. split; [apply in_srangeb_spec; exact Hn|]. clear Hn.
    induction l as [|x r IHr]; [exact I|].
    apply andb_true_iff in H as [H Hr]. apply andb_true_iff in H as [Ht Hx].
    split; [|exact (IHr Hr)]. split; [apply ttype_eqb_eq; exact Ht|apply IH; exact Hx].
Qed.

(* ---- normalisation commutes with compression ---- *)

Lemma norm_name a : ast_name (norm_ast a) = ast_name a.
Proof. destruct a as [f kids]. reflexivity. Qed.

Definition norm_kids (ks : list (option ast)) : list (option ast) :=
  map (fun k => match k with Some x => Some (norm_ast x) | None => None end) ks.

Lemma norm_kids_some k r : norm_kids (Some k :: r) = Some (norm_ast k) :: norm_kids r.
Proof. reflexivity. Qed.
Lemma norm_kids_none r : norm_kids (None :: r) = None :: norm_kids r.
Proof. reflexivity. Qed.

Lemma compress_norm_both mk :
  (forall a, forall s, norm_ast (fst (compress_gen mk s a)) = fst (compress_gen (fun n => norm_ast (mk n)) s (norm_ast a)) /\
                       snd (compress_gen mk s a) = snd (compress_gen (fun n => norm_ast (mk n)) s (norm_ast a))) /\
  (forall ks, forall s, norm_kids (fst (compress_kids mk s ks)) = fst (compress_kids (fun n => norm_ast (mk n)) s (norm_kids ks)) /\
                        snd (compress_kids mk s ks) = snd (compress_kids (fun n => norm_ast (mk n)) s (norm_kids ks))).
Proof.
  apply ast_kids_ind.
  - intros f kids IH s. rewrite norm_ast_eq, !compress_eq. fold (norm_kids kids).
    destruct (IH s) as [H1 H2].
    destruct (compress_kids mk s kids) as [k1 s1]. destruct (compress_kids _ s (norm_kids kids)) as [k2 s2].
    cbn [fst snd] in *. rewrite norm_ast_eq. fold (norm_kids k1). rewrite H1, H2. split; reflexivity.
  - intros s. split; reflexivity.
  - intros k r IHk IHr s. rewrite norm_kids_some. cbn [compress_kids]. rewrite norm_name.
    destruct (mem (ast_name k) s).
    + destruct (IHr s) as [H1 H2].
      destruct (compress_kids mk s r) as [r1 s1]. destruct (compress_kids _ s (norm_kids r)) as [r2 s2].
      cbn [fst snd] in *. rewrite norm_kids_some, H1, H2. split; reflexivity.
    + destruct (IHk (ast_name k :: s)) as [K1 K2].
      destruct (compress_gen mk (ast_name k :: s) k) as [k1 s1].
      destruct (compress_gen _ (ast_name k :: s) (norm_ast k)) as [k2 s2]. cbn [fst snd] in K1, K2. subst s2 k2.
      destruct (IHr s1) as [H1 H2].
      destruct (compress_kids mk s1 r) as [r1 s3]. destruct (compress_kids _ s1 (norm_kids r)) as [r2 s4].
      cbn [fst snd] in *. rewrite norm_kids_some, H1, H2. split; reflexivity.
  - intros r IHr s. rewrite norm_kids_none. cbn [compress_kids].
    destruct (IHr s) as [H1 H2].
    destruct (compress_kids mk s r) as [r1 s1]. destruct (compress_kids _ s (norm_kids r)) as [r2 s2].
    cbn [fst snd] in *. rewrite norm_kids_none, H1, H2. split; reflexivity.
Qed.

Lemma nodes_norm_both :
  (forall a, nodes (norm_ast a) = map norm_ast (nodes a)) /\
  (forall ks, nodes_kids (norm_kids ks) = map norm_ast (nodes_kids ks)).
Proof.
  apply ast_kids_ind.
  - intros f kids IH. rewrite norm_ast_eq, !nodes_eq. fold (norm_kids kids). rewrite IH. cbn [map]. rewrite norm_ast_eq. reflexivity.
  - reflexivity.
  - intros k r IHk IHr. rewrite norm_kids_some. cbn [nodes_kids]. rewrite IHk, IHr, map_app. reflexivity.
  - intros r IHr. rewrite norm_kids_none. cbn [nodes_kids]. exact IHr.
Qed.

Lemma height_norm_both :
  (forall a, height (norm_ast a) = height a) /\ (forall ks, height_kids (norm_kids ks) = height_kids ks).
Proof.
  apply ast_kids_ind.
  - intros f kids IH. rewrite norm_ast_eq, !height_eq. fold (norm_kids kids). rewrite IH. reflexivity.
  - reflexivity.
  - intros k r IHk IHr. rewrite norm_kids_some. cbn [height_kids]. rewrite IHk, IHr. reflexivity.
  - intros r IHr. rewrite norm_kids_none. cbn [height_kids]. exact IHr.
Qed.

Lemma refs_norm_both :
  (forall a, all_refs_set (norm_ast a) = all_refs_set a) /\ (forall ks, all_refs_kids (norm_kids ks) = all_refs_kids ks).
Proof.
  apply ast_kids_ind.
  - intros f kids IH. rewrite norm_ast_eq, !all_refs_eq. fold (norm_kids kids). exact IH.
  - reflexivity.
  - intros k r IHk IHr. rewrite norm_kids_some. cbn [all_refs_kids]. rewrite IHk, IHr. reflexivity.
  - intros r IHr. reflexivity.
Qed.

Lemma wf_graph_norm g : wf_graph g -> wf_graph (norm_ast g).
Proof.
  intros [Hr [Hs Hc]]. split; [rewrite (proj1 refs_norm_both); exact Hr|]. split.
  - intros x y Hx Hy Hn. rewrite (proj1 nodes_norm_both) in Hx, Hy.
    apply in_map_iff in Hx as [x0 [<- Hx]]. apply in_map_iff in Hy as [y0 [<- Hy]].
    rewrite !norm_name in Hn. rewrite (Hs x0 y0 Hx Hy Hn). reflexivity.
  - intros x Hx. rewrite (proj1 nodes_norm_both) in Hx. apply in_map_iff in Hx as [x0 [<- Hx]].
    rewrite norm_name. apply Hc. exact Hx.
Qed.

(* ---- compression keeps trees well-shaped ---- *)

Lemma wt_compress_both :
  (forall a, forall s, wt_ast a = true -> wt_ast (fst (compress s a)) = true) /\
  (forall ks, forall s, wt_kids ks = true ->
     wt_kids (fst (compress_kids stub s ks)) = true /\ List.length (fst (compress_kids stub s ks)) = List.length ks).
Proof.
  apply ast_kids_ind.
  - intros f kids IH s H. unfold compress. rewrite compress_eq. rewrite wt_ast_eq in H.
    apply andb_true_iff in H as [H Hk]. destruct (IH s Hk) as [I1 I2].
    destruct (compress_kids stub s kids) as [k' s']. cbn [fst] in *. rewrite wt_ast_eq, I1, I2, H. reflexivity.
  - intros s _. split; reflexivity.
  - intros k r IHk IHr s H. cbn [wt_kids] in H. apply andb_true_iff in H as [Hk Hr]. cbn [compress_kids].
    destruct (mem (ast_name k) s).
    + destruct (IHr s Hr) as [I1 I2]. destruct (compress_kids stub s r) as [r' s']. cbn [fst] in *.
      cbn [wt_kids List.length]. rewrite I1, I2. split; reflexivity.
    + specialize (IHk (ast_name k :: s) Hk). unfold compress in IHk.
      destruct (compress_gen stub (ast_name k :: s) k) as [k' s1]. cbn [fst] in *.
      destruct (IHr s1 Hr) as [I1 I2]. destruct (compress_kids stub s1 r) as [r' s2]. cbn [fst] in *.
      cbn [wt_kids List.length]. rewrite IHk, I1, I2. split; reflexivity.
  - intros r IHr s H. cbn [wt_kids] in H. cbn [compress_kids].
    destruct (IHr s H) as [I1 I2]. destruct (compress_kids stub s r) as [r' s']. cbn [fst] in *.
    cbn [wt_kids List.length]. rewrite I1, I2. split; reflexivity.
Qed.

(* ---- the request through bytes ---- *)

Lemma enc_request_struct r : exists fs, enc_request r = WStruct fs.
Proof. unfold enc_request, wstruct. eexists. reflexivity. Qed.

(* what a plugin decodes is the request that was marshalled (the nil Name2Category map of a file
   comes back as an empty map: norm_request), for every request whose strings, lists and
   integers fit their wire widths *)
Theorem request_roundtrip r fuel :
  wt_ast (rq_ast r) = true -> wfb (enc_request r) = true ->
  unmarshal_request fuel (marshal_request r) = UOk (norm_request r).
Proof.
  intros Hwt Hwf. unfold unmarshal_request, marshal_request.
  destruct (enc_request_struct r) as [fs Hfs].
  assert (Hd : dec_struct (enc (enc_request r)) = Some (enc_request r, [])).
  { rewrite Hfs. rewrite <- (app_nil_r (enc (WStruct fs))). apply dec_struct_enc. rewrite <- Hfs. apply wfb_wf. exact Hwf. }
  rewrite Hd, (request_rt r Hwt). rewrite Hfs, trailer_absent_on_plain. reflexivity.
Qed.

Lemma with_ast_enc r a : rq_ast (with_ast r a) = a.
Proof. reflexivity. Qed.

Theorem request_roundtrip_compressed r fuel :
  wf_graph (rq_ast r) -> wt_ast (rq_ast r) = true ->
  wfb (enc_request (with_ast r (compress_top (rq_ast r)))) = true ->
  (height (rq_ast r) <= fuel)%nat ->
  unmarshal_request fuel (marshal_request_compressed r) = UOk (norm_request r).
Proof.
  intros Hg Hwt Hwf Hh. unfold unmarshal_request, marshal_request_compressed, marshal_request.
  set (rc := with_ast r (compress_top (rq_ast r))) in *.
  destruct (enc_request_struct rc) as [fs Hfs].
  assert (Hd : forall rest, dec_struct (enc (enc_request rc) ++ rest) = Some (enc_request rc, rest)).
  { intro rest. rewrite Hfs. apply dec_struct_enc. rewrite <- Hfs. apply wfb_wf. exact Hwf. }
  unfold append_trailer. rewrite Hd.
  assert (Hwtc : wt_ast (rq_ast rc) = true).
  { unfold rc. rewrite with_ast_enc. unfold compress_top. apply (proj1 wt_compress_both). exact Hwt. }
  rewrite (request_rt rc Hwtc).
  pose proof (trailer_roundtrip (enc (enc_request rc)) feature_compress_include feature_compress_include ltac:(unfold feature_compress_include; lia)) as Ht.
  unfold append_trailer in Ht. rewrite Ht. change (Z.land feature_compress_include feature_compress_include =? feature_compress_include) with true.
  cbn [norm_request rq_ast]. unfold rc at 1. rewrite with_ast_enc.
  unfold compress_top, compress. rewrite (proj1 (proj1 (compress_norm_both stub) (rq_ast r) [])).
  pose proof (decompress_compress_gen (fun n => norm_ast (stub n))
                (fun n => eq_trans (f_equal (strip_prefix ref_prefix) (norm_name (stub n))) (stub_target_stub n))
                (norm_ast (rq_ast r)) fuel (wf_graph_norm _ Hg)) as Hdc.
  rewrite (proj1 height_norm_both) in Hdc. unfold ctop in Hdc. rewrite (Hdc Hh).
  destruct r; reflexivity.
Qed.
