(* Idl/Check.v — executable model of the semantic checker (semantic/checker.go;
   property C04).  Definitions only; proofs are in Idl/CheckFacts.v.

   What is mirrored (statement by statement):

     CheckAll              [check_program]: the files parser.Thrift.DepthFirstSearch
                           delivers (includes before the including file, every
                           Filename once, unparsed references skipped) [dfs], and for
                           each file the five checks in their order [check_file]
     CheckGlobals          [check_globals]: typedef aliases, constant names, struct /
                           union / exception names, service names — NOT enum names
                           (those are caught later by RegisterNames, Idl/Resolve.v)
     CheckEnums            [check_enums]: per enum a set of names and a map value ->
                           last name; a repeated name, a repeated value under another
                           name (the later assignment wins when both fire), then the
                           int32 range
     checkFieldList        [check_field_list]: duplicated id, then duplicated name.
                           After the repairs proposed_fixes/C04-2 and C04-3 it runs on
                           struct-likes (CheckStructLikes) and on the arguments and the
                           throws of every function (CheckFunctions), and a throws
                           field with id 0 of a non-void function is an error.
     CheckUnions           [check_unions]: a second default value (after the repair
                           proposed_fixes/C04-1 the flag is really set)
     CheckFunctions        [check_functions]: duplicated function name, oneway
                           function that returns or throws, then the field lists

   Not mirrored: the warnings, and the rewriting of requiredness under FixWarnings
   (union fields and throws become optional, optional arguments become default).
   Nothing after the checker — symbol resolution, the constant checks of the Go
   backend — looks at requiredness when it decides between accept and reject. *)
From Coq Require Import List Bool Arith NArith ZArith.
From Coq.Strings Require Import Byte.
From Verif Require Import Base.Bytes Idl.Ast Idl.AstUtil.
Import ListNotations.

Inductive check_error :=
| EDupGlobal            (* "duplicated names in global scope" *)
| EDupEnumName          (* "enum ... has duplicated value" *)
| EDupEnumNumber        (* "duplicate value %d between ..." *)
| EEnumRange            (* "enum overflow" *)
| EDupFieldId           (* "duplicated field ID" *)
| EDupFieldName         (* "duplicated field name" *)
| ESecondUnionDefault   (* "provides another default value for union" *)
| EDupFunction          (* "duplicated function name" *)
| EOnewayReturns        (* "oneway function must be void type" *)
| EOnewayThrows         (* "oneway methods can't throw exceptions" *)
| EThrowsIdZero         (* "field ID 0 ... is reserved for the return value" *)
| ECheckFuel.           (* model fuel exhausted (never on a finite include graph) *)

(* result unit *)
Inductive cres := COk | CErr (e : check_error).

Definition cseq (a b : cres) : cres := match a with COk => b | CErr e => CErr e end.
Declare Scope check_scope.
Delimit Scope check_scope with check.
Notation "a ;;; b" := (cseq a b) (at level 61, right associativity) : check_scope.
Local Open Scope check_scope.

(* the first error of a loop over [l] *)
Fixpoint call_all {A} (chk : A -> cres) (l : list A) : cres :=
  match l with
  | [] => COk
  | x :: r => chk x ;;; call_all chk r
  end.

Definition memb (x : bytes) (l : list bytes) : bool := existsb (beqb x) l.
Definition zmem (x : Z) (l : list Z) : bool := existsb (Z.eqb x) l.

(* ---------------------------------------------------------------- CheckGlobals *)

Definition global_names (f : file) : list bytes :=
  map td_alias (f_typedefs f) ++ map co_name (f_constants f) ++
  map sl_name (struct_likes f) ++ map sv_name (f_services f).

(* check(s): panic(s) when globals[s] *)
Fixpoint first_dup (seen : list bytes) (l : list bytes) : bool :=
  match l with
  | [] => false
  | x :: r => if memb x seen then true else first_dup (x :: seen) r
  end.

Definition check_globals (f : file) : cres :=
  if first_dup [] (global_names f) then CErr EDupGlobal else COk.

(* ---------------------------------------------------------------- CheckEnums *)

Fixpoint zlookup {A} (k : Z) (m : list (Z * A)) : option A :=
  match m with [] => None | (k', v) :: r => if Z.eqb k k' then Some v else zlookup k r end.

Definition int32_min : Z := (-2147483648)%Z.
Definition int32_max : Z := 2147483647%Z.
Definition in_int32 (z : Z) : bool := (int32_min <=? z)%Z && (z <=? int32_max)%Z.

(* [exist]: the names seen so far; [v2n]: value -> name, most recent assignment first *)
Fixpoint check_enum_values (exist : list bytes) (v2n : list (Z * bytes)) (vs : list enum_value) : cres :=
  match vs with
  | [] => COk
  | v :: r =>
    let e1 := if memb (ev_name v) exist then Some EDupEnumName else None in
    let e2 := match zlookup (ev_value v) v2n with
              | Some n => if beqb n (ev_name v) then e1 else Some EDupEnumNumber
              | None => e1
              end in
    match e2 with
    | Some e => CErr e
    | None =>
      if in_int32 (ev_value v)
      then check_enum_values (ev_name v :: exist) ((ev_value v, ev_name v) :: v2n) r
      else CErr EEnumRange
    end
  end.

Definition check_enums (f : file) : cres :=
  call_all (fun e => check_enum_values [] [] (en_values e)) (f_enums f).

(* ---------------------------------------------------------------- checkFieldList *)

Fixpoint check_field_list (ids : list Z) (names : list bytes) (fs : list field) : cres :=
  match fs with
  | [] => COk
  | f :: r =>
    if zmem (fd_id f) ids then CErr EDupFieldId
    else if memb (fd_name f) names then CErr EDupFieldName
    else check_field_list (fd_id f :: ids) (fd_name f :: names) r
  end.

Definition check_struct_likes (f : file) : cres :=
  call_all (fun s => check_field_list [] [] (sl_fields s)) (struct_likes f).

(* ---------------------------------------------------------------- CheckUnions *)

Fixpoint check_union_fields (has_default : bool) (fs : list field) : cres :=
  match fs with
  | [] => COk
  | f :: r =>
    match fd_default f with
    | Some _ => if has_default then CErr ESecondUnionDefault else check_union_fields true r
    | None => check_union_fields has_default r
    end
  end.

Definition check_unions (f : file) : cres :=
  call_all (fun u => check_union_fields false (sl_fields u)) (f_unions f).

(* ---------------------------------------------------------------- CheckFunctions *)

Definition is_nil {A} (l : list A) : bool := match l with [] => true | _ => false end.

Definition check_function (fn : function) : cres :=
  if fn_oneway fn && negb (fn_void fn) then CErr EOnewayReturns
  else if fn_oneway fn && negb (is_nil (fn_throws fn)) then CErr EOnewayThrows
  else
    check_field_list [] [] (fn_args fn) ;;;
    check_field_list [] [] (fn_throws fn) ;;;
    (if negb (fn_void fn) && existsb (fun a => Z.eqb (fd_id a) 0) (fn_throws fn)
     then CErr EThrowsIdZero else COk).

Fixpoint check_functions_of (defined : list bytes) (fns : list function) : cres :=
  match fns with
  | [] => COk
  | fn :: r =>
    if memb (fn_name fn) defined then CErr EDupFunction
    else check_function fn ;;; check_functions_of (fn_name fn :: defined) r
  end.

Definition check_functions (f : file) : cres :=
  call_all (fun sv => check_functions_of [] (sv_functions sv)) (f_services f).

(* ---------------------------------------------------------------- one file *)

Definition check_file (f : file) : cres :=
  check_globals f ;;; check_enums f ;;; check_struct_likes f ;;; check_unions f ;;; check_functions f.

(* ---------------------------------------------------------------- DepthFirstSearch *)

(* the Filenames the include statements of a file refer to (Include.Reference) *)
Definition inc_refs (f : file) : list bytes :=
  flat_map (fun i => match in_ref i with Some h => [h] | None => [] end) (f_includes f).

(* parser.dfs: state = (set, files sent so far, most recent first) *)
Fixpoint dfs (fuel : nat) (p : program) (st : list bytes * list bytes) (fn : bytes)
  : option (list bytes * list bytes) :=
  match fuel with
  | O => None
  | S k =>
    match prog_file p fn with
    | None => Some st                                   (* t == nil *)
    | Some f =>
      if memb fn (fst st) then Some st                  (* set[t.Filename] *)
      else
        match (fix go (refs : list bytes) (st : list bytes * list bytes) :=
                 match refs with
                 | [] => Some st
                 | h :: r => match dfs k p st h with Some st' => go r st' | None => None end
                 end) (inc_refs f) (fn :: fst st, snd st) with
        | Some st' => Some (fst st', fn :: snd st')      (* out <- t *)
        | None => None
        end
    end
  end.

(* the files CheckAll visits, in its order *)
Definition dfs_order (p : program) : option (list bytes) :=
  match p with
  | [] => Some []
  | (m, _) :: _ =>
    match dfs (S (List.length p)) p ([], []) m with
    | Some st => Some (rev (snd st))
    | None => None
    end
  end.

Definition check_named (p : program) (fn : bytes) : cres :=
  match prog_file p fn with Some f => check_file f | None => COk end.

(* CheckAll on the main (first) file of the program *)
Definition check_program (p : program) : cres :=
  match dfs_order p with
  | Some order => call_all (check_named p) order
  | None => CErr ECheckFuel
  end.
