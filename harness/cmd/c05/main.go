// c05 produces correspondence cases for property C05 (symbol resolution).
//
// Every case is a multi-file IDL program written to a scratch tree and pushed through
// the real front end exactly as sdk/invoke.go does it: parser.ParseFile (recursive),
// parser.CircleDetect, semantic.NewChecker(...).CheckAll, semantic.ResolveSymbols.
// The AST is dumped (astdump) just before ResolveSymbols (the model's input) and just
// after it (the observation), or the class of the returned error is recorded.
//
// Streams:
//
//	corpus      hand-written programs (minimised shapes, former failures), run first
//	resgen      generated programs with the resolution the generator intends
//	idlgen      programs of the shared generator (breadth; no intent)
//	broken      resgen programs with one mutation that must make resolution fail
//
// Each program is also re-rendered 2-3 times with the definitions of every file in a
// random order; all renderings use random layouts of idlgen.RenderFile.
package main

import (
	"crypto/sha256"
	"flag"
	"fmt"
	"os"
	"path/filepath"
	"sort"
	"strings"
	"time"

	"github.com/cloudwego/thriftgo/parser"
	"github.com/cloudwego/thriftgo/semantic"

	"verif/harness/astdump"
	"verif/harness/casefile"
	"verif/harness/coqfmt"
	"verif/harness/idlast"
	"verif/harness/idlgen"
	"verif/harness/resgen"
	"verif/harness/rng"
)

// Obs is what the implementation did with one rendering.
type Obs struct {
	Stage string `json:"stage"` // "ok" | "resolve-error" | "rejected" | "parse-error"
	Class int    `json:"class,omitempty"`
	Msg   string `json:"msg,omitempty"`
	Panic bool   `json:"panic,omitempty"`
	input idlast.Program
	out   idlast.Program
	deref [][]string // Coq terms of type deref_obs, per file, per type occurrence
}

type Run struct {
	Main  string            `json:"main"`
	Files map[string]string `json:"files"`
	Obs   Obs               `json:"obs"`
}

type Case struct {
	Kind        string `json:"kind"`
	What        string `json:"what,omitempty"`
	Expect      int    `json:"expect"`
	FixWarnings bool   `json:"fix_warnings"`
	Run         Run    `json:"run"`
	Perms       []Run  `json:"perms,omitempty"`
	HasIntent   bool   `json:"has_intent"`
}

func classOf(msg string) int {
	table := []struct {
		s string
		c int
	}{
		{"multiple definition of", resgen.ClassDupName},
		{"is not parsed", resgen.ClassNotParsed},
		{"undefined type", resgen.ClassUndefinedType},
		{"unexpected type category", resgen.ClassNotAType},
		{"invalid type name", resgen.ClassInvalidTypeName},
		{"typedefs can not be resolved", resgen.ClassTypedefCycle},
		{"undefined value", resgen.ClassUndefinedValue},
		{"ambiguous const value", resgen.ClassAmbiguousValue},
		{"base service", resgen.ClassBaseService},
	}
	for _, e := range table {
		if strings.Contains(msg, e.s) {
			return e.c
		}
	}
	return resgen.ClassOther
}

var scratch string
var startDir string

// runImpl writes the tree, changes into it and drives the real front end.
func runImpl(files map[string]string, main string, fixWarnings bool) (o Obs) {
	root, err := os.MkdirTemp(scratch, "p")
	if err != nil {
		fatal(err)
	}
	defer os.RemoveAll(root)
	for name, text := range files {
		full := filepath.Join(root, filepath.FromSlash(name))
		if err := os.MkdirAll(filepath.Dir(full), 0o755); err != nil {
			fatal(err)
		}
		if err := os.WriteFile(full, []byte(text), 0o644); err != nil {
			fatal(err)
		}
	}
	if err := os.Chdir(root); err != nil {
		fatal(err)
	}
	defer os.Chdir(startDir)
	defer func() {
		if r := recover(); r != nil {
			o = Obs{Stage: "resolve-error", Class: resgen.ClassOther, Msg: fmt.Sprint(r), Panic: true, input: o.input}
		}
	}()
	ast, err := parser.ParseFile(main, nil, true)
	if err != nil {
		return Obs{Stage: "parse-error", Msg: err.Error()}
	}
	if path := parser.CircleDetect(ast); path != "" {
		return Obs{Stage: "rejected", Msg: "include circle " + path}
	}
	if _, err := semantic.NewChecker(semantic.Options{FixWarnings: fixWarnings}).CheckAll(ast); err != nil {
		return Obs{Stage: "rejected", Msg: err.Error()}
	}
	o.input = astdump.Program(ast)
	if err := semantic.ResolveSymbols(ast); err != nil {
		o.Stage, o.Class, o.Msg = "resolve-error", classOf(err.Error()), err.Error()
		return o
	}
	o.Stage = "ok"
	o.out = astdump.Program(ast)
	// semantic.Deref recurses without a visited set: on an AST in which a typedef kept
	// the category Typedef (only a broken resolver leaves one behind) it would overflow
	// the stack, which cannot be recovered.  Such an observation already differs from
	// the model in the resolved AST itself; its Deref rows are left empty.
	unresolved := false
	for _, e := range o.out {
		resgen.ForEach(e.File, func(t *idlast.Type) {
			if t.Category == idlast.CatTypedef {
				unresolved = true
			}
		}, func(*idlast.ConstValue) {})
	}
	if !unresolved {
		o.deref = derefDump(ast)
	}
	return o
}

// derefDump calls semantic.Deref on every type occurrence of every file, files in
// astdump.Program order, occurrences in the order of Idl.AstUtil.file_types.
func derefDump(main *parser.Thrift) [][]string {
	var out [][]string
	seen := map[string]bool{}
	var walk func(t *parser.Thrift)
	walk = func(t *parser.Thrift) {
		if t == nil || seen[t.Filename] {
			return
		}
		seen[t.Filename] = true
		row := []string{}
		var ty func(x *parser.Type)
		ty = func(x *parser.Type) {
			if x == nil {
				return
			}
			a, r, err := semantic.Deref(t, x)
			if err != nil || a == nil || r == nil {
				row = append(row, "None")
			} else {
				row = append(row, fmt.Sprintf("(Some (%s, %s, %s))", coqfmt.Bytes(a.Filename), coqfmt.Bytes(r.Name), idlast.Category(r.Category).Coq()))
			}
			ty(x.KeyType)
			ty(x.ValueType)
		}
		fields := func(fs []*parser.Field) {
			for _, f := range fs {
				ty(f.Type)
			}
		}
		for _, d := range t.Typedefs {
			ty(d.Type)
		}
		for _, c := range t.Constants {
			ty(c.Type)
		}
		for _, s := range t.GetStructLikes() {
			fields(s.Fields)
		}
		for _, s := range t.Services {
			for _, fn := range s.Functions {
				ty(fn.FunctionType)
				fields(fn.Arguments)
				fields(fn.Throws)
			}
		}
		out = append(out, row)
		for _, inc := range t.Includes {
			if inc != nil {
				walk(inc.Reference)
			}
		}
	}
	walk(main)
	return out
}

func fatal(err error) {
	fmt.Fprintln(os.Stderr, "c05:", err)
	os.Exit(2)
}

func coqObs(o Obs) string {
	switch o.Stage {
	case "ok":
		return "(ObsOk " + o.out.Coq() + ")"
	case "resolve-error":
		return "(ObsErr " + coqfmt.N(uint64(o.Class)) + ")"
	}
	return "ObsRejected"
}

func coqInput(o Obs) string {
	if o.input == nil {
		return "[]"
	}
	return o.input.Coq()
}

func render(p idlast.Program, l *idlgen.Layout) map[string]string {
	out := map[string]string{}
	for _, e := range p {
		out[string(e.Filename)] = idlgen.RenderFile(e.File, l)
	}
	return out
}

type stats struct {
	Evaluations        int            `json:"evaluations"`
	DistinctNontrivial int            `json:"distinct_nontrivial"`
	Rule               string         `json:"rule"`
	Samples            []string       `json:"samples"`
	Streams            map[string]int `json:"streams"`
	Outcomes           map[string]int `json:"outcomes"`
	ErrorClasses       map[string]int `json:"error_classes_observed"`
	Expected           map[string]int `json:"error_classes_intended"`
	RejectedByImpl     int            `json:"rejected_by_impl"`
	Renderings         int            `json:"renderings_run_on_the_implementation"`
	Shapes             map[string]int `json:"shapes"`
	FilesPerProgram    map[string]int `json:"files_per_program"`
	MaxTypedefChain    int            `json:"max_typedef_chain"`
	Occurrences        map[string]int `json:"resolved_occurrences"`
}

func main() {
	seed := flag.Uint64("seed", 1, "random seed")
	tier := flag.String("tier", "quick", "quick | thorough")
	out := flag.String("out", "", "output directory")
	flag.Parse()
	if *out == "" {
		fatal(fmt.Errorf("-out is required"))
	}
	var err error
	if startDir, err = os.Getwd(); err != nil {
		fatal(err)
	}
	if *out, err = filepath.Abs(*out); err != nil {
		fatal(err)
	}
	if scratch, err = os.MkdirTemp(filepath.Dir(*out), "c05-trees-"); err != nil {
		fatal(err)
	}
	defer os.RemoveAll(scratch)

	perShard := 14
	w := casefile.New(*out, "From Verif Require Import Base.Bytes Idl.Ast Idl.Resolve Corr.C05.", perShard)
	st := &stats{Streams: map[string]int{}, Outcomes: map[string]int{}, ErrorClasses: map[string]int{}, Expected: map[string]int{},
		Shapes: map[string]int{}, FilesPerProgram: map[string]int{}, Occurrences: map[string]int{}}
	distinct := map[[32]byte]bool{}
	r := rng.New(*seed)

	observe := func(o Obs) {
		st.Renderings++
		switch o.Stage {
		case "ok":
			st.Outcomes["resolved"]++
			for _, e := range o.out {
				resgen.ForEach(e.File, func(t *idlast.Type) {
					if t.Category >= idlast.CatEnum {
						st.Occurrences["named_type"]++
					}
					if t.Reference != nil {
						st.Occurrences["qualified_type"]++
					}
					if t.IsTypedef != nil && *t.IsTypedef {
						st.Occurrences["typedef_reference"]++
					}
				}, func(c *idlast.ConstValue) {
					if c.Extra != nil {
						st.Occurrences["bound_identifier"]++
						if c.Extra.IsEnum {
							st.Occurrences["bound_enum_value"]++
						}
						if c.Extra.Index >= 0 {
							st.Occurrences["identifier_through_include"]++
						}
					}
				})
				for _, i := range e.File.Includes {
					if i.Used != nil && *i.Used {
						st.Occurrences["include_used"]++
					} else {
						st.Occurrences["include_unused"]++
					}
				}
			}
		case "resolve-error":
			st.Outcomes["resolution_error"]++
			st.ErrorClasses[fmt.Sprint(o.Class)]++
		case "rejected":
			st.Outcomes["rejected_before_resolution"]++
			st.RejectedByImpl++
		}
	}

	// add runs one program (main rendering + permuted renderings) and writes the case
	add := func(kind, what string, input idlast.Program, intent idlast.Program, expect int, nperm int, layouts bool) {
		fix := r.Bool()
		lay := func() *idlgen.Layout {
			if !layouts {
				return &idlgen.Layout{}
			}
			return idlgen.RandomLayout(r)
		}
		mainName := string(input[0].Filename)
		c := Case{Kind: kind, What: what, Expect: expect, FixWarnings: fix, HasIntent: intent != nil}
		c.Run = Run{Main: mainName, Files: render(input, lay())}
		c.Run.Obs = runImpl(c.Run.Files, mainName, fix)
		if c.Run.Obs.Stage == "parse-error" {
			fatal(fmt.Errorf("generated program does not parse (%s %s): %s\n%v", kind, what, c.Run.Obs.Msg, c.Run.Files))
		}
		observe(c.Run.Obs)
		for k := 0; k < nperm; k++ {
			pin := resgen.Permute(r, input)
			run := Run{Main: mainName, Files: render(pin, lay())}
			run.Obs = runImpl(run.Files, mainName, fix)
			if run.Obs.Stage == "parse-error" {
				fatal(fmt.Errorf("permuted program does not parse (%s %s): %s\n%v", kind, what, run.Obs.Msg, run.Files))
			}
			observe(run.Obs)
			c.Perms = append(c.Perms, run)
		}
		if intent != nil && c.Run.Obs.Stage != "rejected" {
			// the text must mean what the generator built (else the generator is wrong, not the code)
			got := resgen.Clone(c.Run.Obs.input)
			resgen.Strip(got)
			blankComments(got)
			want := resgen.Clone(intent)
			resgen.Strip(want)
			if !fix { // without FixWarnings the parser's requiredness reaches the pass
				copyUnionReq(want, input)
			}
			if string(got.JSON()) != string(want.JSON()) {
				fatal(fmt.Errorf("parsed program differs from the generated one (%s %s)\n got: %s\nwant: %s", kind, what, got.JSON(), want.JSON()))
			}
		}
		var perms []string
		for _, p := range c.Perms {
			perms = append(perms, coqObs(p.Obs))
		}
		it := "None"
		if intent != nil {
			it = "(Some " + intent.Coq() + ")"
		}
		var rows []string
		for _, row := range c.Run.Obs.deref {
			rows = append(rows, coqfmt.List(row))
		}
		term := fmt.Sprintf("(mkcase %s\n %s\n %s\n %s %s %s)", coqInput(c.Run.Obs), coqObs(c.Run.Obs), coqfmt.List(rows), it, coqfmt.N(uint64(expect)), coqfmt.List(perms))
		if err := w.Add(term, c); err != nil {
			fatal(err)
		}
		st.Streams[kind]++
		st.Evaluations++
		if expect != 0 {
			st.Expected[fmt.Sprint(expect)]++
		}
		st.FilesPerProgram[fmt.Sprint(len(input))]++
		if nontrivial(c.Run.Obs) {
			var keys []string
			for k := range c.Run.Files {
				keys = append(keys, k)
			}
			sort.Strings(keys)
			h := sha256.New()
			for _, k := range keys {
				h.Write([]byte(k + "\x00" + c.Run.Files[k] + "\x00"))
			}
			var d [32]byte
			copy(d[:], h.Sum(nil))
			distinct[d] = true
		}
		if len(st.Samples) < 6 && (kind != "corpus" || len(st.Samples) < 2) {
			st.Samples = append(st.Samples, fmt.Sprintf("%s[%s]: %d files, main %q, outcome %s %d", kind, what, len(input), mainName, c.Run.Obs.Stage, c.Run.Obs.Class))
		}
	}

	// ---- corpus
	for _, e := range corpus() {
		p, perr := parseTexts(e.files, e.main)
		if perr != nil {
			fatal(fmt.Errorf("corpus %q: %v", e.name, perr))
		}
		add("corpus", e.name, p, nil, e.expect, 2, false)
	}

	// ---- generated
	nGen, nIdl, nBroken := 32, 8, 40
	if *tier == "thorough" {
		nGen, nIdl, nBroken = 320, 80, 400
	}
	for i := 0; i < nGen; i++ {
		gr := r.Fork()
		p := resgen.Generate(gr, resgen.Options{MaxFiles: 6, Size: 7})
		for k, v := range p.Stats {
			st.Shapes[k] += v
		}
		for _, f := range p.Files {
			for _, s := range f.Syms {
				if s.Chain > st.MaxTypedefChain {
					st.MaxTypedefChain = s.Chain
				}
			}
		}
		exp := p.Expected()
		add("resgen", fmt.Sprintf("#%d", i), p.Input(gr), exp, 0, 2+gr.Intn(2), true)
	}
	for i := 0; i < nIdl; i++ {
		gr := r.Fork()
		p := idlgenSafe(gr)
		if p == nil {
			// the shared generator did not come back: give the stream up (the
			// abandoned goroutine cannot be stopped) and say so in the statistics
			st.Streams["idlgen_generator_gave_up"]++
			break
		}
		add("idlgen", fmt.Sprintf("#%d", i), p.AST(), nil, 0, 2, true)
	}
	for i := 0; i < nBroken; {
		gr := r.Fork()
		p := resgen.Generate(gr, resgen.Options{MaxFiles: 5, Size: 5})
		m := p.Mutate(gr)
		if m == nil {
			continue
		}
		i++
		add("broken", m.What, m.Input, nil, m.Class, 2, true)
	}

	if err := w.Close(); err != nil {
		fatal(err)
	}
	st.DistinctNontrivial = len(distinct)
	st.Rule = "a case is non-trivial when ResolveSymbols ran on it and the program has at least one include-qualified reference or one reference to a typedef or one bound identifier; distinct = distinct text of the main rendering (all files)"
	if err := casefile.WriteMeta(*out, map[string]interface{}{"stats": st, "shards": w.Shards, "total": w.Total()}); err != nil {
		fatal(err)
	}
}

// idlgenSafe calls the shared generator under a watchdog (it is owned by another
// property and has been seen to spin on some seeds).
func idlgenSafe(gr *rng.R) *idlgen.Program {
	ch := make(chan *idlgen.Program, 1)
	go func() {
		defer func() {
			if recover() != nil {
				ch <- nil
			}
		}()
		ch <- idlgen.Generate(gr, idlgen.Options{Envelope: idlgen.Valid, MaxFiles: 5, Size: 6, EnumViaTypedef: true})
	}()
	select {
	case p := <-ch:
		return p
	case <-time.After(5 * time.Second):
		return nil
	}
}

func nontrivial(o Obs) bool {
	if o.input == nil {
		return false
	}
	n := 0
	for _, e := range o.input {
		n += len(e.File.Includes)
		resgen.ForEach(e.File, func(t *idlast.Type) {
			if strings.Contains(string(t.Name), ".") {
				n++
			}
		}, func(c *idlast.ConstValue) {
			if c.Kind == idlast.ConstIdentifier {
				n++
			}
		})
		n += len(e.File.Typedefs)
	}
	return n > 0
}

func blankComments(p idlast.Program) {
	for _, e := range p {
		f := e.File
		for _, x := range f.Typedefs {
			x.Comments = ""
		}
		for _, x := range f.Constants {
			x.Comments = ""
		}
		for _, x := range f.Enums {
			x.Comments = ""
			for _, v := range x.Values {
				v.Comments = ""
			}
		}
		for _, ss := range [][]*idlast.StructLike{f.Structs, f.Unions, f.Exceptions} {
			for _, s := range ss {
				s.Comments = ""
				for _, fl := range s.Fields {
					fl.Comments = ""
				}
			}
		}
		for _, s := range f.Services {
			s.Comments = ""
			for _, fn := range s.Functions {
				fn.Comments = ""
				for _, fl := range fn.Arguments {
					fl.Comments = ""
				}
				for _, fl := range fn.Throws {
					fl.Comments = ""
				}
			}
		}
	}
}

// copyUnionReq gives the union fields of want the requiredness written in the input.
func copyUnionReq(want, input idlast.Program) {
	for i, e := range want {
		for j, u := range e.File.Unions {
			for k, fd := range u.Fields {
				fd.Requiredness = input[i].File.Unions[j].Fields[k].Requiredness
			}
		}
	}
}

// parseTexts parses hand-written texts into the parse-level program (which is then
// rendered again like every other program).
func parseTexts(files map[string]string, main string) (idlast.Program, error) {
	root, err := os.MkdirTemp(scratch, "c")
	if err != nil {
		return nil, err
	}
	defer os.RemoveAll(root)
	for name, text := range files {
		full := filepath.Join(root, filepath.FromSlash(name))
		if err := os.MkdirAll(filepath.Dir(full), 0o755); err != nil {
			return nil, err
		}
		if err := os.WriteFile(full, []byte(text), 0o644); err != nil {
			return nil, err
		}
	}
	if err := os.Chdir(root); err != nil {
		return nil, err
	}
	defer os.Chdir(startDir)
	ast, err := parser.ParseFile(main, nil, true)
	if err != nil {
		return nil, err
	}
	p := astdump.Program(ast)
	blankComments(p)
	return p, nil
}
