package main

import (
	"bufio"
	"encoding/json"
	"fmt"
	"os"
	"path/filepath"
	"sort"
	"strings"

	"verif/harness/casefile"
	"verif/harness/coqfmt"
)

func coqBytes(s string) string { return coqfmt.Bytes(s) }

type stats struct {
	Evaluations            int                       `json:"evaluations"`
	DistinctNontrivial     int                       `json:"distinct_nontrivial"`
	Rule                   string                    `json:"rule"`
	Samples                []string                  `json:"samples"`
	Cases                  int                       `json:"cases"`
	PerStream              map[string]int            `json:"cases_per_stream"`
	PerKind                map[string]int            `json:"cases_per_kind"`
	PerRule                map[string]int            `json:"cases_per_rule"`
	PerSite                map[string]int            `json:"cases_per_site"`
	PerPosition            map[string]int            `json:"cases_per_position"`
	PerDepth               map[string]int            `json:"cases_per_depth"`
	PerRulePosition        map[string]map[string]int `json:"cases_per_rule_and_position"`
	PerStyle               map[string]int            `json:"strict_vs_not"`
	RunsPerConfig          map[string]int            `json:"runs_per_config"`
	ValidPrograms          int                       `json:"valid_programs"`
	FilesPerProgram        map[string]int            `json:"files_per_valid_program"`
	RejectedByImpl         int                       `json:"rejected_by_impl"`
	EditDidNotParse        int                       `json:"edit_did_not_parse"`
	DidNotParseExamples    []string                  `json:"edit_did_not_parse_examples,omitempty"`
	TextEditParsed         int                       `json:"text_edit_parsed_and_dropped"`
	TextEditParsedExamples []string                  `json:"text_edit_parsed_examples,omitempty"`
	Timeouts               int                       `json:"timeouts"`
	Traces                 int                       `json:"traces"`
	AcceptedRuleBreaking   map[string]int            `json:"accepted_rule_breaking"`
	AcceptedExamples       []string                  `json:"accepted_rule_breaking_examples,omitempty"`
	FilesLeftByRejected    map[string]int            `json:"files_left_by_rejecting_runs"`
	EditsEnumerated        int                       `json:"edits_enumerated"`
	EditsCutByBudget       int                       `json:"edits_cut_by_budget"`
	GeneratorGaveUp        int                       `json:"generator_gave_up"`
	BaseUnusable           int                       `json:"base_programs_unusable"`
	CoqBytes               int                       `json:"coq_bytes"`
	WallSeconds            float64                   `json:"wall_seconds"`
	shards                 []string
}

func newStats() *stats {
	return &stats{PerStream: map[string]int{}, PerKind: map[string]int{}, PerRule: map[string]int{}, PerSite: map[string]int{},
		PerPosition: map[string]int{}, PerDepth: map[string]int{}, PerRulePosition: map[string]map[string]int{}, PerStyle: map[string]int{},
		RunsPerConfig: map[string]int{}, FilesPerProgram: map[string]int{}, AcceptedRuleBreaking: map[string]int{}, FilesLeftByRejected: map[string]int{},
		Samples: []string{}}
}

func obsCoq(r *RunRes) string {
	lang := "0%N"
	if r.Lang == "fastgo" {
		lang = "1%N"
	}
	b := coqfmt.Bool
	return fmt.Sprintf("Run %s %s (Obs %s %s %s %s %s)", lang, b(r.Recursive), b(r.Exit0), b(r.Files), b(r.Diag), b(r.Trace), b(r.Timeout))
}

func (pr *producer) caseCoq(c *caseRec) string {
	base := "([] : program)"
	if c.baseIdx >= 0 {
		base = fmt.Sprintf("base_%d", c.baseIdx)
	}
	var runs []string
	for _, r := range c.Runs {
		runs = append(runs, obsCoq(r))
	}
	return fmt.Sprintf("Case %d%%N %d%%N %s %s\n  %s\n  [%s]", c.Kind, c.Rule, coqfmt.Bool(c.Strict), base, c.patch, strings.Join(runs, "; "))
}

const shardTarget = 200_000

type shard struct {
	defs  []string
	have  map[int]bool
	cases []string
	lines [][]byte
	size  int
}

func (pr *producer) flush(dir string, s *shard) error {
	if len(s.cases) == 0 {
		return nil
	}
	name := fmt.Sprintf("cases_%03d", len(pr.st.shards))
	vf, err := os.Create(filepath.Join(dir, name+".v"))
	if err != nil {
		return err
	}
	w := bufio.NewWriterSize(vf, 1<<20)
	fmt.Fprint(w, "From Verif Require Import Base.Bytes Idl.Ast Corr.C04.\nFrom Coq Require Import List NArith ZArith String.\nImport ListNotations.\nOpen Scope string_scope.\n")
	for _, d := range s.defs {
		fmt.Fprint(w, d)
	}
	fmt.Fprint(w, "Definition cases : list case := [\n")
	for i, c := range s.cases {
		if i > 0 {
			fmt.Fprint(w, ";\n")
		}
		fmt.Fprint(w, " ", c)
	}
	fmt.Fprint(w, "\n].\nSet Printing Depth 10000000.\nSet Printing Width 2000.\nDefinition R := Eval vm_compute in (mismatches cases).\nPrint R.\n")
	if err := w.Flush(); err != nil {
		return err
	}
	if fi, serr := vf.Stat(); serr == nil {
		pr.st.CoqBytes += int(fi.Size())
	}
	if err := vf.Close(); err != nil {
		return err
	}
	jf, err := os.Create(filepath.Join(dir, name+".jsonl"))
	if err != nil {
		return err
	}
	jw := bufio.NewWriterSize(jf, 1<<20)
	for _, l := range s.lines {
		jw.Write(l)
		jw.WriteByte('\n')
	}
	if err := jw.Flush(); err != nil {
		return err
	}
	if err := jf.Close(); err != nil {
		return err
	}
	pr.st.shards = append(pr.st.shards, name)
	return nil
}

// write emits the shards: cases in production order (corpus first; the cases of one base
// program are contiguous), a base definition in every shard that uses it.
func (pr *producer) write(dir string) error {
	cur := &shard{have: map[int]bool{}}
	for _, c := range pr.cases {
		term := pr.caseCoq(c)
		cost := len(term) + 4
		if c.baseIdx >= 0 && !cur.have[c.baseIdx] {
			cost += len(pr.bases[c.baseIdx].coq) + 40
		}
		if len(cur.cases) > 0 && cur.size+cost > shardTarget {
			if err := pr.flush(dir, cur); err != nil {
				return err
			}
			cur = &shard{have: map[int]bool{}}
			cost = len(term) + 4
			if c.baseIdx >= 0 {
				cost += len(pr.bases[c.baseIdx].coq) + 40
			}
		}
		if c.baseIdx >= 0 && !cur.have[c.baseIdx] {
			cur.have[c.baseIdx] = true
			cur.defs = append(cur.defs, fmt.Sprintf("Definition base_%d : program :=\n %s.\n", c.baseIdx, pr.bases[c.baseIdx].coq))
		}
		line, err := json.Marshal(c)
		if err != nil {
			return err
		}
		cur.cases = append(cur.cases, term)
		cur.lines = append(cur.lines, line)
		cur.size += cost
		pr.account(c)
	}
	return pr.flush(dir, cur)
}

func outcome(r *RunRes) string {
	var parts []string
	if r.Timeout {
		parts = append(parts, "timeout")
	} else {
		parts = append(parts, fmt.Sprintf("exit %d", r.ExitCode))
	}
	if r.Files {
		parts = append(parts, "files written")
	} else {
		parts = append(parts, "no file")
	}
	if !r.Diag {
		parts = append(parts, "silent")
	}
	if r.Trace {
		parts = append(parts, "Go trace")
	}
	return strings.Join(parts, ", ")
}

func cfgName(r *RunRes) string {
	s := r.Lang
	if r.Recursive {
		s += " -r"
	}
	return s
}

func (pr *producer) account(c *caseRec) {
	st := pr.st
	st.Cases++
	st.PerStream[c.stream]++
	st.PerKind[fmt.Sprint(c.Kind)]++
	accepted := false
	for _, r := range c.Runs {
		st.Evaluations++
		st.RunsPerConfig[cfgName(r)]++
		if r.Timeout {
			st.Timeouts++
		}
		if r.Trace {
			st.Traces++
		}
		if c.Kind != 0 && r.Exit0 {
			accepted = true
		}
		if c.Kind != 0 && !r.Exit0 && r.Files {
			st.FilesLeftByRejected[c.RuleName]++
		}
	}
	if c.Kind == 0 {
		for _, r := range c.Runs {
			if !(r.Exit0 && r.Files) {
				st.RejectedByImpl++
				break
			}
		}
		return
	}
	st.PerRule[c.RuleName]++
	st.PerSite[c.Site]++
	st.PerPosition[c.Position]++
	st.PerDepth[fmt.Sprint(c.Depth)]++
	if st.PerRulePosition[c.RuleName] == nil {
		st.PerRulePosition[c.RuleName] = map[string]int{}
	}
	st.PerRulePosition[c.RuleName][c.Position]++
	switch {
	case c.Kind == 2:
		st.PerStyle["no-ast"]++
	case c.Strict:
		st.PerStyle["strict"]++
	default:
		st.PerStyle["non-strict"]++
	}
	if accepted {
		st.AcceptedRuleBreaking[c.RuleName]++
		if len(st.AcceptedExamples) < 12 {
			var how []string
			for _, r := range c.Runs {
				if r.Exit0 {
					how = append(how, cfgName(r))
				}
			}
			st.AcceptedExamples = append(st.AcceptedExamples, fmt.Sprintf("%s %s %s: %s [exit 0 with: %s]", c.RuleName, c.Site, c.Position, c.What, strings.Join(how, ", ")))
		}
	}
}

func (pr *producer) writeMeta(dir string) error {
	st := pr.st
	triples := map[string]bool{}
	for _, c := range pr.cases {
		if c.Kind != 0 {
			triples[fmt.Sprintf("%d|%s|%s", c.Rule, c.Site, c.Position)] = true
		}
	}
	st.DistinctNontrivial = len(triples)
	st.Rule = "every case is a small valid multi-file program of harness/idlgen with ONE rule-breaking edit of the catalogue of Idl/Rules.v " +
		"(a fresh definition carrying the defect or a change of an existing one, in the main file or any transitively included file; syntax errors, " +
		"missing includes and bad command lines as no-AST cases), run through the real thriftgo binary with the go and fastgo backends, with and without -r; " +
		"distinct_nontrivial counts the distinct (rule, site, position) triples exercised; the unmodified programs and a fixed corpus of minimised triggers run too"
	// samples: the first accepted rule-breaking corpus case, then mutation cases of distinct rules
	seen := map[string]bool{}
	add := func(c *caseRec) {
		if len(st.Samples) >= 6 || len(c.Runs) == 0 {
			return
		}
		key := c.RuleName + "|" + c.Position
		if seen[key] {
			return
		}
		seen[key] = true
		r := c.Runs[len(c.Runs)-1]
		for _, x := range c.Runs { // the run that breaks the property, if any
			if x.Exit0 || x.Files || x.Trace || x.Timeout || !x.Diag {
				r = x
				break
			}
		}
		st.Samples = append(st.Samples, fmt.Sprintf("%s %s %s depth %d (%s) -> %s", c.RuleName, c.Site, c.Position, c.Depth, cfgName(r), outcome(r)))
	}
	for _, c := range pr.cases {
		if c.stream == "corpus" && c.Position == "unused-include" && len(st.Samples) == 0 {
			add(c)
		}
	}
	for _, want := range []string{"used-include", "unused-include", "main"} {
		for _, c := range pr.cases {
			if c.stream == "mutation" && c.Position == want && len(st.Samples) < 6 {
				n := 0
				for k := range seen {
					if strings.HasSuffix(k, "|"+want) {
						n++
					}
				}
				if n < 2 {
					add(c)
				}
			}
		}
	}
	for _, c := range pr.cases {
		if c.stream == "mutation" {
			add(c)
		}
	}
	sort.Strings(st.AcceptedExamples)
	return casefile.WriteMeta(dir, map[string]interface{}{"stats": st, "shards": st.shards, "total": len(pr.cases)})
}
