// Command c10: case producer for property C10 (the fastgo codec agrees with the standard codec and
// BLength is exact).
//
// Per run: the corpus program and seeded schema programs are generated with `thriftgo -g fastgo`,
// compiled once (gendrv + fastdrv) and driven in two phases:
//
//	phase 1  fastwrite: BLength(), FastAppend, FastWrite, the standard Write, and both readers on the
//	         FastAppend bytes, for generated values (inside and outside wt) and the corpus values
//	phase 2  on the bytes the standard Write produced: FastRead next to the standard Read (NewX() and
//	         zero objects, with unknown / retagged / deleted / duplicated / shuffled fields), FastRead of
//	         every proper prefix, FastRead with every type byte replaced by every other type code
//
// Inputs and observations become Coq cases (Corr/C10.v), one set of shards per program.
package main

import (
	"crypto/sha256"
	"encoding/hex"
	"encoding/json"
	"flag"
	"fmt"
	"os"
	"path/filepath"
	"sort"
	"strconv"
	"strings"
	"time"

	"verif/harness/casefile"
	"verif/harness/coqfmt"
	"verif/harness/fastdrv"
	"verif/harness/gendrv"
	"verif/harness/rng"
	"verif/harness/schemagen"
	"verif/harness/valgen"
)

type stats struct {
	Programs       int               `json:"programs"`
	RejectedByImpl int               `json:"rejected_by_impl"`
	RejectedSample []string          `json:"rejected_sample,omitempty"`
	Units          int               `json:"units"`
	Structs        int               `json:"structs"`
	Values         int               `json:"values"`
	Schema         map[string]int    `json:"schema"`
	CaseKinds      map[string]int    `json:"case_kinds"`
	ReadKinds      map[string]int    `json:"read_kinds"`
	ObsFast        map[string]int    `json:"observed_fastread_classes"`
	ObsStd         map[string]int    `json:"observed_std_classes"`
	OptionSets     map[string]string `json:"option_sets"`
	Prefixes       int               `json:"truncation_points"`
	Corruptions    int               `json:"type_byte_corruptions"`
	TypeBytes      int               `json:"type_byte_positions"`
	DriverCrashes  int               `json:"driver_crashes"`
	Evaluations    int               `json:"evaluations"`
	Distinct       int               `json:"distinct_nontrivial"`
	Rule           string            `json:"rule"`
	Samples        []interface{}     `json:"samples"`
}

type vector struct {
	prog   int
	unit   *gendrv.Unit
	S      *schemagen.Struct
	V      *valgen.Value
	Edge   bool
	Corpus bool
	W      *valgen.W
	// phase 1
	cmd    int
	stdOK  bool
	stdHex string
}

type pending struct {
	kind  string // read trunc corrupt
	vec   *vector
	rkind string
	input []byte
	valid bool
	zero  bool
	own   bool
	cmd   int
}

func obsErr(s string) string {
	switch s {
	case "ok":
		return "OOk"
	case "invalid_data":
		return "OInvalidData"
	case "protocol":
		return "OProtocol"
	case "transport":
		return "OTransport"
	case "error":
		return "OError"
	}
	return "OPanic"
}

func fobs(s string) string {
	switch s {
	case "ok", "o":
		return "FOOk"
	case "invalid_data", "i":
		return "FOInvalid"
	case "protocol", "p":
		return "FOProtocol"
	case "error", "e":
		return "FOError"
	case "crash", "C":
		return "FOCrash"
	}
	return "FOPanic"
}

// orderFields puts the fields of an observed struct dump into schema order.
func orderFields(p *schemagen.Program, t *schemagen.Type, v *valgen.Value) {
	switch v.K {
	case "struct":
		if t.Kind != "struct" {
			return
		}
		s := p.Struct(t.Name)
		if s == nil {
			return
		}
		pos := map[int]int{}
		for i, f := range s.Fields {
			pos[f.ID] = i
		}
		sort.SliceStable(v.F, func(a, b int) bool {
			pa, oka := pos[v.F[a].ID]
			pb, okb := pos[v.F[b].ID]
			if !oka {
				pa = 1 << 20
			}
			if !okb {
				pb = 1 << 20
			}
			return pa < pb
		})
		for _, fv := range v.F {
			for _, f := range s.Fields {
				if f.ID == fv.ID {
					orderFields(p, f.Type, fv.V)
				}
			}
		}
	case "some":
		orderFields(p, t, v.P)
	case "list":
		if t.Elem != nil {
			for _, x := range v.L {
				orderFields(p, t.Elem, x)
			}
		}
	case "map":
		if t.Key != nil {
			for _, kv := range v.M {
				orderFields(p, t.Key, kv[0])
				orderFields(p, t.Elem, kv[1])
			}
		}
	}
}

func dumpCoq(p *schemagen.Program, s *schemagen.Struct, raw json.RawMessage) string {
	if len(raw) == 0 || string(raw) == "null" {
		return "VNil"
	}
	v, err := valgen.ParseJSON(string(raw))
	if err != nil {
		return valgen.Bad().Coq()
	}
	d := valgen.RetypeStruct(p, s, v)
	orderFields(p, &schemagen.Type{Kind: "struct", Name: s.QName()}, d)
	return d.Coq()
}

// typeBytePositions walks a well-formed struct encoding and lists the offsets of every type byte:
// field headers at every level, list / set element types, map key and value types.
func typeBytePositions(bs []byte) []int {
	var out []int
	var val func(t byte, off int) int
	str := func(off int) int {
		if off+4 > len(bs) {
			return -1
		}
		n := int(int32(uint32(bs[off])<<24 | uint32(bs[off+1])<<16 | uint32(bs[off+2])<<8 | uint32(bs[off+3])))
		if n < 0 || off+4+n > len(bs) {
			return -1
		}
		return off + 4 + n
	}
	cnt := func(off int) int {
		if off+4 > len(bs) {
			return -1
		}
		return int(int32(uint32(bs[off])<<24 | uint32(bs[off+1])<<16 | uint32(bs[off+2])<<8 | uint32(bs[off+3])))
	}
	val = func(t byte, off int) int {
		if off < 0 || off > len(bs) {
			return -1
		}
		switch t {
		case valgen.TBool, valgen.TByte:
			return off + 1
		case valgen.TI16:
			return off + 2
		case valgen.TI32:
			return off + 4
		case valgen.TI64, valgen.TDouble:
			return off + 8
		case valgen.TString:
			return str(off)
		case valgen.TStruct:
			for {
				if off >= len(bs) {
					return -1
				}
				ft := bs[off]
				out = append(out, off)
				if ft == 0 {
					out = out[:len(out)-1] // the STOP byte is not a type byte of a field
					return off + 1
				}
				off = val(ft, off+3)
				if off < 0 {
					return -1
				}
			}
		case valgen.TList, valgen.TSet:
			if off+5 > len(bs) {
				return -1
			}
			out = append(out, off)
			n := cnt(off + 1)
			et := bs[off]
			off += 5
			for i := 0; i < n; i++ {
				off = val(et, off)
				if off < 0 {
					return -1
				}
			}
			return off
		case valgen.TMap:
			if off+6 > len(bs) {
				return -1
			}
			out = append(out, off, off+1)
			n := cnt(off + 2)
			kt, vt := bs[off], bs[off+1]
			off += 6
			for i := 0; i < n; i++ {
				off = val(kt, off)
				if off < 0 {
					return -1
				}
				off = val(vt, off)
				if off < 0 {
					return -1
				}
			}
			return off
		}
		return -1
	}
	if val(valgen.TStruct, 0) < 0 {
		return nil
	}
	return out
}

var corruptValues = []int{2, 3, 4, 6, 8, 10, 11, 12, 13, 14, 15, 0, 1, 5, 16, 255}

func intsCSV(l []int) string {
	p := make([]string, len(l))
	for i, x := range l {
		p[i] = strconv.Itoa(x)
	}
	return strings.Join(p, ",")
}

func main() {
	seed := flag.Uint64("seed", 1, "")
	tier := flag.String("tier", "quick", "")
	out := flag.String("out", "", "")
	tg := flag.String("thriftgo", "", "thriftgo binary built from VERIF_REPO")
	scratch := flag.String("scratch", "", "scratch directory for the generated module")
	flag.Parse()
	repo := os.Getenv("VERIF_REPO")
	if repo == "" {
		repo = "/repo"
	}
	if *out == "" || *tg == "" || *scratch == "" {
		fmt.Fprintln(os.Stderr, "usage: c10 -seed N -tier quick|thorough -out DIR -thriftgo BIN -scratch DIR")
		os.Exit(2)
	}
	r := rng.New(*seed)
	t0 := time.Now()
	lap := func(what string) {
		fmt.Fprintf(os.Stderr, "c10: %-22s %6.1fs\n", what, time.Since(t0).Seconds())
	}
	thorough := *tier == "thorough"
	nProg, nVal := 3, 3
	maxTruncLen, maxCorruptPos := 300, 16
	if thorough {
		nProg, nVal = 20, 5
		maxTruncLen, maxCorruptPos = 600, 40
	}
	st := &stats{Schema: map[string]int{}, CaseKinds: map[string]int{}, ReadKinds: map[string]int{}, ObsFast: map[string]int{},
		ObsStd: map[string]int{}, OptionSets: map[string]string{"f0": "(defaults)"},
		Rule: "a case is non-trivial when its value has at least 2 fields / its input has more than 8 bytes; distinct = distinct (struct, value or input bytes, perturbation); every truncation point and every corrupted type byte is one evaluation"}
	type optSet struct{ Key, Options string }
	sets := []optSet{{"f0", ""}}
	if thorough {
		sets = append(sets, optSet{"f1", "naming_style=apache,gen_setter,nil_safe,frugal_tag,compatible_names"})
		st.OptionSets["f1"] = sets[1].Options
	}

	// 1. programs and units
	b := gendrv.New(*scratch, *tg, repo)
	var progs []*schemagen.Program
	progs = append(progs, corpusProgram("cp"))
	for i := 0; i < nProg; i++ {
		pp := schemagen.DefaultParams()
		if i%2 == 1 {
			pp.StructKeys = false
		}
		if i%5 == 4 {
			pp.MaxFiles, pp.MaxStructs, pp.MaxFields = 1, 2, 5
		}
		if i%4 == 2 {
			pp.BaseTypedefs = false
		}
		progs = append(progs, schemagen.Generate(r.Fork(), pp, fmt.Sprintf("p%d", i)))
	}
	for pi, p := range progs {
		for si, o := range sets {
			if si > 0 && pi%3 != 0 {
				continue // the second option set on a third of the programs
			}
			b.Add(&gendrv.Unit{Key: o.Key + "/" + p.Key, Prog: p, Options: o.Options})
		}
	}
	st.Programs = len(progs)
	if err := fastdrv.Generate(b); err != nil {
		fmt.Fprintln(os.Stderr, "generate:", err)
		os.Exit(1)
	}
	rejectedProg := map[string]bool{}
	for _, rj := range b.Rejected {
		rejectedProg[rj.Unit.Prog.Key] = true
		if len(st.RejectedSample) < 3 {
			st.RejectedSample = append(st.RejectedSample, rj.Unit.Key+": "+firstLine(rj.Output))
		}
	}
	st.RejectedByImpl = len(rejectedProg)
	if rejectedProg["cp"] {
		// the corpus program is valid IDL: a rejection is a defect of the generator (exit status, not a crash of the producer)
		fmt.Fprintln(os.Stderr, "thriftgo -g fastgo rejected the corpus program (valid IDL):", st.RejectedSample)
	}
	lap("thriftgo -g fastgo")
	if err := b.Build(); err != nil {
		fmt.Fprintln(os.Stderr, "build:", err)
		os.Exit(1)
	}
	lap("go build")
	st.Units = len(b.Units)
	progIndex := map[string]int{}
	for i, p := range progs {
		progIndex[p.Key] = i
	}

	// 2. vectors per program; option sets other than f0 get the first value of every struct only
	var vectors []*vector
	byProg := map[string][]*vector{}
	for pi, p := range progs {
		if rejectedProg[p.Key] {
			continue
		}
		p.Stats(st.Schema)
		gw := &valgen.G{R: r.Fork(), Prog: p, P: valgen.DefaultParams()}
		ge := &valgen.G{R: r.Fork(), Prog: p, P: valgen.DefaultParams()}
		ge.P.Edge = true
		var cv map[string][]*valgen.Value
		if p.Key == "cp" {
			cv = corpusValues(p)
		}
		for _, s := range p.Structs() {
			st.Structs++
			add := func(v *valgen.Value, edge, corpus bool) {
				vec := &vector{prog: pi, S: s, V: v, Edge: edge, Corpus: corpus}
				if w, err := valgen.ToWire(p, s, v); err == nil {
					vec.W = w
				}
				byProg[p.Key] = append(byProg[p.Key], vec)
				st.Values++
			}
			for _, v := range cv[s.QName()] {
				add(v, false, true)
			}
			for k := 0; k < nVal; k++ {
				if k == nVal-1 {
					add(ge.Struct(s, r.Range(0, 3)), true, false)
				} else {
					add(gw.Struct(s, r.Range(0, 3)), false, false)
				}
			}
		}
	}
	var cmds []gendrv.Cmd
	for _, u := range b.Units {
		first := map[string]bool{}
		for _, base := range byProg[u.Prog.Key] {
			if !strings.HasPrefix(u.Key, "f0/") {
				if first[base.S.QName()] {
					continue
				}
				first[base.S.QName()] = true
			}
			vec := *base
			vec.unit = u
			vec.cmd = len(cmds)
			cmds = append(cmds, gendrv.Cmd{Verb: "fastwrite", Args: []string{u.Key, vec.S.QName(), vec.V.JSON()}})
			vectors = append(vectors, &vec)
		}
	}
	lim := fastdrv.DefaultLimits()
	if thorough {
		lim.Timeout = 300 * time.Second
	}
	res1, crashed, err := fastdrv.Run(b, cmds, lim)
	if err != nil {
		fmt.Fprintln(os.Stderr, "run (phase 1):", err)
		os.Exit(1)
	}
	st.DriverCrashes += crashed
	lap("phase 1 (write)")

	type rbT struct {
		Err  string          `json:"err"`
		Off  int             `json:"off"`
		Rest int             `json:"rest"`
		Dump json.RawMessage `json:"dump"`
	}
	type writeObs struct {
		Crash   bool   `json:"crash"`
		Panic   bool   `json:"panic"`
		BLength int    `json:"blength"`
		Append  string `json:"append"`
		FW      struct {
			N     int    `json:"n"`
			Same  bool   `json:"same"`
			Bytes string `json:"bytes"`
			Panic bool   `json:"panic"`
		} `json:"fw"`
		Std struct {
			Err   string `json:"err"`
			Bytes string `json:"bytes"`
		} `json:"std"`
		RS rbT `json:"rs"`
		RF rbT `json:"rf"`
	}

	// 3. phase 2 commands
	var cmds2 []gendrv.Cmd
	var pend []*pending
	add2 := func(pd *pending, verb string, args ...string) {
		pd.cmd = len(cmds2)
		cmds2 = append(cmds2, gendrv.Cmd{Verb: verb, Args: args})
		pend = append(pend, pd)
	}
	wobs := make([]*writeObs, len(vectors))
	for vi, vec := range vectors {
		var o writeObs
		if err := json.Unmarshal(res1[vec.cmd], &o); err != nil {
			fmt.Fprintln(os.Stderr, "phase 1 answer does not parse:", err, string(res1[vec.cmd]))
			os.Exit(1)
		}
		wobs[vi] = &o
		if o.Std.Err != "ok" || o.Crash {
			continue
		}
		vec.stdOK, vec.stdHex = true, o.Std.Bytes
		std, _ := hex.DecodeString(o.Std.Bytes)
		u, s, p := vec.unit, vec.S, progs[vec.prog]
		rr := rng.New(*seed ^ uint64(vi)*7919 ^ 0xc10)
		rd := func(kind string, bs []byte, valid, zero bool) {
			init := "new"
			if zero {
				init = "zero"
			}
			add2(&pending{kind: "read", vec: vec, rkind: kind, input: bs, valid: valid, zero: zero},
				"fastread", u.Key, s.QName(), hex.EncodeToString(bs), init)
		}
		rd("std_write", std, true, false)
		rd("std_write_zero_init", std, true, true)
		full := strings.HasPrefix(u.Key, "f0/")
		if !full {
			continue
		}
		rd("trailing", append(append([]byte{}, std...), 0x7f, 0x00, 0x01), true, false)
		if w := vec.W; w != nil {
			ins := valgen.AllInsertions(rr, s, w)
			for k, x := range ins {
				// quick: first, last and two more positions; thorough: every position
				if thorough || k == 0 || k == len(ins)-1 || k == len(ins)/2 || k == len(ins)/3 {
					rd(valgen.PInsertUnknown, x.Enc(), true, false)
				}
			}
			if len(w.Fields) > 0 {
				i := rr.Intn(len(w.Fields))
				for k, x := range valgen.AllRetags(rr, w, i) {
					if thorough || (k+vi)%3 == 0 {
						rd(valgen.PRetag, x.Enc(), true, false)
					}
				}
				rd(valgen.PDelete, valgen.DeleteAt(w, rr.Intn(len(w.Fields))).Enc(), true, false)
				for i, wf := range w.Fields {
					for _, f := range s.Fields {
						if f.ID == int(wf.ID) && f.Req == "required" {
							rd(valgen.PDeleteReq, valgen.DeleteAt(w, i).Enc(), true, false)
						}
					}
				}
				j := rr.Intn(len(w.Fields))
				rd(valgen.PDuplicate, valgen.InsertAt(w, rr.Intn(len(w.Fields)+1), w.Fields[j]).Enc(), true, false)
				rd(valgen.PShuffle, valgen.Shuffle(rr, w).Enc(), true, false)
			}
			if x := valgen.NestedUnknown(rr, p, s, w); x != nil {
				rd(valgen.PNestedUnknown, x.Enc(), true, false)
			}
			// truncations of one encoding that carries an unknown field (outside the struct's own encodings)
			if len(ins) > 0 && (vec.Corpus || vi%3 == 0) {
				e := ins[rr.Intn(len(ins))].Enc()
				if len(e) <= maxTruncLen {
					add2(&pending{kind: "trunc", vec: vec, rkind: "unknown_field", input: e, own: false},
						"fasttrunc", u.Key, s.QName(), hex.EncodeToString(e))
				}
			}
		}
		if len(std) <= maxTruncLen && (thorough || vec.Corpus || p.Key == "cp" || vi%2 == 0) {
			add2(&pending{kind: "trunc", vec: vec, rkind: "own", input: std, own: true}, "fasttrunc", u.Key, s.QName(), o.Std.Bytes)
		}
		if pos := typeBytePositions(std); len(pos) > 0 {
			st.TypeBytes += len(pos)
			if len(pos) > maxCorruptPos {
				// keep a spread sample (always the first and the last)
				var keep []int
				for i := 0; i < maxCorruptPos; i++ {
					keep = append(keep, pos[i*(len(pos)-1)/(maxCorruptPos-1)])
				}
				pos = keep
			}
			add2(&pending{kind: "corrupt", vec: vec, rkind: "type_byte", input: std}, "fastcorrupt", u.Key, s.QName(), o.Std.Bytes,
				intsCSV(pos), intsCSV(corruptValues))
		}
	}
	// corpus: a reader that does not know a map<string,i64> field, every prefix (the recorded Skip overrun)
	for _, vec := range vectors {
		if vec.S.QName() == "a.Small" && vec.unit.Prog.Key == "cp" && strings.HasPrefix(vec.unit.Key, "f0/") && vec.W != nil {
			unk := valgen.WField{T: valgen.TMap, ID: 7, V: &valgen.W{T: valgen.TMap, KT: valgen.TString, ET: valgen.TI64,
				M: [][2]*valgen.W{{{T: valgen.TString, S: []byte("k")}, {T: valgen.TI64, I: 7}}}}}
			e := valgen.InsertAt(vec.W, len(vec.W.Fields), unk).Enc()
			add2(&pending{kind: "trunc", vec: vec, rkind: "unknown_map_string_i64", input: e, own: false},
				"fasttrunc", vec.unit.Key, vec.S.QName(), hex.EncodeToString(e))
			add2(&pending{kind: "read", vec: vec, rkind: "unknown_map_string_i64", input: e, valid: true},
				"fastread", vec.unit.Key, vec.S.QName(), hex.EncodeToString(e), "new")
			break
		}
	}
	res2, crashed2, err := fastdrv.Run(b, cmds2, lim)
	if err != nil {
		fmt.Fprintln(os.Stderr, "run (phase 2):", err)
		os.Exit(1)
	}
	st.DriverCrashes += crashed2

	// a `fastcorrupt` command whose process died: ask again, one (position, value) per command, so that only
	// the runs that kill the process are reported as such
	for _, pd := range pend {
		if pd.kind != "corrupt" {
			continue
		}
		var g map[string]interface{}
		json.Unmarshal(res2[pd.cmd], &g)
		if g["crash"] != true {
			continue
		}
		args := cmds2[pd.cmd].Args
		l2 := lim
		l2.Chunk = 8
		// stage A: one command per position (all values); stage B: one command per (position, value) of the
		// positions that died
		var posCmds []gendrv.Cmd
		var poss []string
		for _, ps := range strings.Split(args[3], ",") {
			posCmds = append(posCmds, gendrv.Cmd{Verb: "fastcorrupt", Args: []string{args[0], args[1], args[2], ps, args[4]}})
			poss = append(poss, ps)
		}
		ra, cr, err := fastdrv.Run(b, posCmds, l2)
		if err != nil {
			fmt.Fprintln(os.Stderr, "run (crash isolation A):", err)
			os.Exit(1)
		}
		st.DriverCrashes += cr
		type obsT struct {
			Crash bool              `json:"crash"`
			Base  json.RawMessage   `json:"base"`
			Runs  []json.RawMessage `json:"runs"`
		}
		var base json.RawMessage
		var runs []json.RawMessage
		var diags []string
		for pi, r := range ra {
			var o obsT
			json.Unmarshal(r, &o)
			if !o.Crash {
				base = o.Base
				runs = append(runs, o.Runs...)
				continue
			}
			var single []gendrv.Cmd
			var vals []int
			pos, _ := strconv.Atoi(poss[pi])
			for _, vs := range strings.Split(args[4], ",") {
				val, _ := strconv.Atoi(vs)
				if pos < len(pd.input) && int(pd.input[pos]) != val {
					single = append(single, gendrv.Cmd{Verb: "fastcorrupt", Args: []string{args[0], args[1], args[2], poss[pi], vs}})
					vals = append(vals, val)
				}
			}
			rs, cr, err := fastdrv.Run(b, single, l2)
			if err != nil {
				fmt.Fprintln(os.Stderr, "run (crash isolation B):", err)
				os.Exit(1)
			}
			st.DriverCrashes += cr
			for i, r1 := range rs {
				var o1 obsT
				json.Unmarshal(r1, &o1)
				if o1.Crash || len(o1.Runs) != 1 {
					// "C" only for the Go runtime's out-of-memory abort; any other death of the process is
					// reported like a panic the model has to explain
					letter := "P"
					if strings.Contains(string(r1), "out of memory") || strings.Contains(string(r1), "pthread_create failed") {
						letter = "C"
					}
					j, _ := json.Marshal([]interface{}{pos, vals[i], letter, -1, nil})
					runs = append(runs, j)
					diags = append(diags, fmt.Sprintf("%d,%d: %s", pos, vals[i], string(r1)))
					continue
				}
				base = o1.Base
				runs = append(runs, o1.Runs[0])
			}
		}
		if base == nil {
			continue // every single run died: keep the whole case as a crash
		}
		j, _ := json.Marshal(map[string]interface{}{"base": base, "runs": runs, "isolated": true, "diags": diags})
		res2[pd.cmd] = j
	}

	// corpus: a list header that claims 2^31-1 elements and nothing behind it. make(IdList, 2147483647) is
	// 16 GiB: under a ulimit of 8 GiB the Go runtime aborts the process (recorded finding); run alone. (The other
	// driver processes get 56 GiB of address space: most hostile sizes then cost nothing, the pages are never touched.)
	for _, vec := range vectors {
		if vec.S.QName() == "a.Tdefs" && vec.unit.Prog.Key == "cp" && strings.HasPrefix(vec.unit.Key, "f0/") {
			in := []byte{0x0f, 0x00, 0x02, 0x0a, 0x7f, 0xff, 0xff, 0xff}
			pd := &pending{kind: "read", vec: vec, rkind: "hostile_list_size", input: in, valid: false}
			c := gendrv.Cmd{Verb: "fastread", Args: []string{vec.unit.Key, vec.S.QName(), hex.EncodeToString(in), "new"}}
			lh := lim
			lh.VirtualKB = 8 << 20 // 8 GiB: the 16 GiB slice cannot be allocated, on any machine
			rs, cr, err := fastdrv.Run(b, []gendrv.Cmd{c}, lh)
			if err != nil {
				fmt.Fprintln(os.Stderr, "run (hostile size):", err)
				os.Exit(1)
			}
			st.DriverCrashes += cr
			pd.cmd = len(res2)
			res2 = append(res2, rs[0])
			cmds2 = append(cmds2, c)
			pend = append(pend, pd)
			break
		}
	}
	lap("phase 2 (read)")

	// 4. cases, one writer per program
	writers := make([]*casefile.Writer, len(progs))
	getW := func(pi int) *casefile.Writer {
		if writers[pi] == nil {
			p := progs[pi]
			dir := filepath.Join(*out, p.Key)
			os.MkdirAll(dir, 0o755)
			pre := "From Verif Require Import Base.Bytes Base.BE Wire.TType Wire.WVal Wire.Codec Wire.Schema Wire.Value Wire.Std Wire.Fast Corr.C02 Corr.C10.\n" +
				"From Coq Require Import List NArith ZArith String.\nImport ListNotations.\nOpen Scope string_scope.\n" +
				coqfmt.FastPreamble +
				"Definition E : env := " + p.Coq() + ".\n" +
				"Definition mismatches := mismatches_from E N0.\n"
			writers[pi] = casefile.New(dir, pre, 250)
		}
		return writers[pi]
	}
	distinct := map[[32]byte]bool{}
	for vi, vec := range vectors {
		o := wobs[vi]
		p, s := progs[vec.prog], vec.S
		w := getW(vec.prog)
		desc := map[string]interface{}{"kind": "write", "unit": vec.unit.Key, "options": vec.unit.Options, "struct": s.QName(),
			"value": vec.V, "edge": vec.Edge, "corpus": vec.Corpus, "observed": json.RawMessage(res1[vec.cmd]), "idl": p.Render()}
		app, _ := hex.DecodeString(o.Append)
		fwb := "None"
		if !o.FW.Same {
			x, _ := hex.DecodeString(o.FW.Bytes)
			fwb = "(Some " + coqfmt.BytesF(string(x)) + ")"
		}
		rfErr := fobs(o.RF.Err)
		if o.Crash {
			o.Panic = true
		}
		term := fmt.Sprintf("(CWrite %s %s %s %s %s %s %s %s %s %s %s %s %s)", coqfmt.BytesF(s.QName()), vec.V.Coq(),
			coqfmt.ZF(int64(o.BLength)), coqfmt.BytesF(string(app)), coqfmt.Bool(o.Panic),
			coqfmt.ZF(int64(o.FW.N)), fwb, coqfmt.Bool(o.FW.Panic),
			obsErr(o.RS.Err), dumpCoq(p, s, o.RS.Dump),
			rfErr, coqfmt.ZF(int64(o.RF.Off)), dumpCoq(p, s, o.RF.Dump))
		w.Add(term, desc)
		st.CaseKinds["write"]++
		st.ObsFast["readback:"+o.RF.Err]++
		distinct[sha256.Sum256([]byte("w"+s.QName()+vec.unit.Key+vec.V.JSON()))] = len(vec.V.F) >= 2
	}
	for _, pd := range pend {
		vec := pd.vec
		p, s := progs[vec.prog], vec.S
		w := getW(vec.prog)
		res := res2[pd.cmd]
		desc := map[string]interface{}{"kind": pd.kind, "perturbation": pd.rkind, "unit": vec.unit.Key, "options": vec.unit.Options,
			"struct": s.QName(), "input": hex.EncodeToString(pd.input), "source_value": vec.V, "observed": json.RawMessage(res), "idl": p.Render()}
		var generic map[string]interface{}
		json.Unmarshal(res, &generic)
		crash := generic["crash"] == true
		switch pd.kind {
		case "read":
			var o struct {
				Fast rbT `json:"fast"`
				Std  rbT `json:"std"`
			}
			json.Unmarshal(res, &o)
			if crash {
				o.Fast.Err, o.Std.Err = "crash", "panic"
			}
			term := fmt.Sprintf("(CRead %s %s %s %s %s %s %s %s %s)", coqfmt.BytesF(s.QName()), coqfmt.Bool(pd.valid), coqfmt.Bool(pd.zero),
				coqfmt.BytesF(string(pd.input)), fobs(o.Fast.Err), coqfmt.ZF(int64(o.Fast.Off)), dumpCoq(p, s, o.Fast.Dump),
				obsErr(o.Std.Err), dumpCoq(p, s, o.Std.Dump))
			w.Add(term, desc)
			st.CaseKinds["read"]++
			st.ReadKinds[pd.rkind]++
			st.ObsFast["read:"+o.Fast.Err]++
			st.ObsStd["read:"+o.Std.Err]++
			distinct[sha256.Sum256([]byte("r"+s.QName()+pd.rkind+string(pd.input)))] = len(pd.input) > 8
		case "trunc":
			var o struct {
				Classes string `json:"classes"`
			}
			json.Unmarshal(res, &o)
			var obs []string
			if crash || len(o.Classes) != len(pd.input) {
				for range pd.input {
					obs = append(obs, "FOCrash")
				}
			} else {
				for _, c := range o.Classes {
					obs = append(obs, fobs(string(c)))
					st.ObsFast["trunc:"+string(c)]++
				}
			}
			term := fmt.Sprintf("(CTrunc %s %s %s %s)", coqfmt.BytesF(s.QName()), coqfmt.Bool(pd.own), coqfmt.BytesF(string(pd.input)), coqfmt.List(obs))
			w.Add(term, desc)
			st.CaseKinds["trunc:"+pd.rkind]++
			st.Prefixes += len(pd.input)
			distinct[sha256.Sum256([]byte("t"+s.QName()+pd.rkind+string(pd.input)))] = len(pd.input) > 8
		case "corrupt":
			var o struct {
				Base rbT               `json:"base"`
				Runs []json.RawMessage `json:"runs"`
			}
			json.Unmarshal(res, &o)
			var runs []string
			if crash {
				// the process died on one of the runs: report the whole case as a crash at the first position
				o.Base.Err = "crash"
			}
			for _, rraw := range o.Runs {
				var tup []json.RawMessage
				json.Unmarshal(rraw, &tup)
				if len(tup) != 5 {
					continue
				}
				var pos, val, off int
				var letter string
				json.Unmarshal(tup[0], &pos)
				json.Unmarshal(tup[1], &val)
				json.Unmarshal(tup[2], &letter)
				json.Unmarshal(tup[3], &off)
				od := "None"
				if string(tup[4]) != "null" {
					od = "(Some " + dumpCoq(p, s, tup[4]) + ")"
				}
				runs = append(runs, fmt.Sprintf("(%s, %s, %s, %s, %s)", coqfmt.ZF(int64(pos)), coqfmt.ZF(int64(val)), fobs(letter), coqfmt.ZF(int64(off)), od))
				st.ObsFast["corrupt:"+letter]++
			}
			term := fmt.Sprintf("(CCorrupt %s %s %s %s %s %s)", coqfmt.BytesF(s.QName()), coqfmt.BytesF(string(pd.input)), fobs(o.Base.Err),
				coqfmt.ZF(int64(o.Base.Off)), dumpCoq(p, s, o.Base.Dump), coqfmt.List(runs))
			w.Add(term, desc)
			st.CaseKinds["corrupt"]++
			st.Corruptions += len(runs)
			distinct[sha256.Sum256([]byte("c"+s.QName()+string(pd.input)))] = len(pd.input) > 8
		}
	}
	// the required-field bit set generator, observed directly (corpus program's shards)
	for n := 0; n <= 72; n++ {
		term, desc := bitsetCase(n)
		getW(0).Add(term, desc)
		st.CaseKinds["bitset"]++
	}
	var shards []string
	total := 0
	for pi, w := range writers {
		if w == nil {
			continue
		}
		if err := w.Close(); err != nil {
			fmt.Fprintln(os.Stderr, err)
			os.Exit(1)
		}
		for _, sh := range w.Shards {
			shards = append(shards, progs[pi].Key+"/"+sh)
		}
		total += w.Total()
	}
	st.Evaluations = st.CaseKinds["write"] + st.CaseKinds["read"] + st.Prefixes + st.Corruptions + st.CaseKinds["corrupt"] + st.CaseKinds["bitset"]
	for _, nt := range distinct {
		if nt {
			st.Distinct++
		}
	}
	for i, p := range progs {
		if i < 2 {
			st.Samples = append(st.Samples, map[string]interface{}{"program": p.Key, "idl": p.Render()})
		}
	}
	for _, pd := range pend {
		if pd.kind == "corrupt" && len(st.Samples) < 4 {
			st.Samples = append(st.Samples, map[string]interface{}{"struct": pd.vec.S.QName(), "kind": "type-byte corruption of", "input": hex.EncodeToString(pd.input)})
		}
	}
	if err := casefile.WriteMeta(*out, map[string]interface{}{"stats": st, "shards": shards, "total": total}); err != nil {
		fmt.Fprintln(os.Stderr, err)
		os.Exit(1)
	}
	lap("cases written")
	if rejectedProg["cp"] {
		os.Exit(3)
	}
}

func firstLine(s string) string {
	s = strings.TrimSpace(s)
	if i := strings.IndexByte(s, '\n'); i >= 0 {
		s = s[:i]
	}
	if len(s) > 300 {
		s = s[:300]
	}
	return s
}
