(* Props/C16.v — property C16 "Trimming keeps exactly what kept services need; meaning is
   unchanged", stated about the model Idl/Trim.v of /repo/tool/trimmer/trim against the
   specification Idl/TrimSpec.v.  Statements only; every proof is [exact lemma]
   (Idl/TrimFacts.v) and is followed by Print Assumptions.

   Reading guide
     trim matches compiles cp c p   markAST + traversal on the resolved program p under the
                                    configuration c; [matches] / [compiles] / [cp] are the
                                    regexp engines (regexp2 for -m, Go regexp for @preserve)
     Trimmed q                      the files traversal reaches, trimmed (other outcomes:
                                    BadPattern, OutOfFuel, Panics)
     marks_of ... fin               fin = the mark state markAST ends in
     kept_methods c fin             the kept services / methods: [] without a filter (the
                                    specification then starts from every service of the main
                                    file), the marked services and functions with -m
     needed cp c p K n              the specification: n is a root or reached over the edges
                                    of the property text (TrimSpec.v)
     wf p                           p is a resolved program as the parser + semantic pass
                                    deliver it; decided by [wf_program] (checked on every
                                    correspondence case)

   Not proved (checked on every run by the correspondence oracles instead):
     - trim_idempotent for all programs WITHOUT a method filter.  Missing: that [needed] is
       stable under trimming (a simulation between the run on p and the run on the
       renumbered output: positions of definitions and includes shift, lookups by name must
       find the corresponding definition, and the second resolution must reproduce Used /
       Name2Category).  With a filter the statement is false:
       [C16_trim_not_idempotent_with_filter_refuted].
     - (trim_resolves is now proved for every configuration: [C16_trim_resolves_all], and for
       the output of C05's resolver without assuming its recorded resolution:
       [C16_trim_resolves_of_resolved]; its
       hypotheses are all on the INPUT: resolvable, recorded resolution as C05's specification
       prescribes for types ([occ_good]) and base services, struct-like lists by kind.)
     - the method filter: both halves are proved ([..._only_matching_partial],
       [..._complete_partial]) but they differ (plain match vs. markService's prefix rule,
       raw vs. Go names), which is the known finding; termination / absence of Go panics on
       well-formed programs is not proved (the theorems assume the outcome [Trimmed]; the
       correspondence check reports OutOfFuel as code 9 and has never seen it). *)
From Coq Require Import List Bool Arith ZArith.
From Verif Require Import Base.Bytes Idl.Ast Idl.AstUtil Idl.Trim Idl.TrimSpec Idl.TrimWitness Idl.TrimFacts.
From Verif Require Idl.Resolve Idl.ResolveSpec Idl.ResolveInv Idl.ResolvableSpec Idl.ResolvableConst Idl.TrimResolves Idl.TrimResolved.
Import ListNotations.

(* The closure computed for the correspondence oracles is exactly the inductive
   specification. *)
Theorem C16_needed_nodes_spec :
  forall cp c p K l, needed_nodes cp c p K = Some l -> forall n, In n l <-> needed cp c p K n.
Proof. exact needed_nodes_spec. Qed.
Print Assumptions C16_needed_nodes_spec.

(* The hypotheses on the input are decidable and tested on every correspondence case. *)
Theorem C16_wf_program_sound : forall p, wf_program p = true -> wf p.
Proof. exact wf_program_sound. Qed.
Print Assumptions C16_wf_program_sound.

(* trim_sound: every needed struct / union / exception is in the trimmed program, in its
   file, as the very same definition — all programs, all configurations (with or without a
   method filter, preserve on or off). *)
Theorem C16_trim_sound :
  forall matches compiles cp c p, wf p ->
  forall q fin F k i pf s,
    trim matches compiles cp c p = Trimmed q -> marks_of matches cp c p fin ->
    needed cp c p (kept_methods c fin) (NStructLike F k i) ->
    prog_file p F = Some pf -> nth_error (sl_list k pf) i = Some s ->
    exists qf, In (F, qf) q /\ In s (sl_list k qf).
Proof. exact trim_sound_struct_like. Qed.
Print Assumptions C16_trim_sound.

(* the core of it: whatever the specification needs is marked (services, methods,
   struct-likes, includes); with a filter the includes of base services are exempt *)
Theorem C16_needed_is_marked :
  forall matches cp c p, types_wf p -> NoDup (map fst p) ->
  (forall F f, prog_file p F = Some f -> below p (main_name p) F) ->
  forall fuel fin, mark_ast matches cp c p fuel = Ok fin ->
  forall n, needed cp c p (kept_methods c fin) n -> needs_mark n = true ->
    marked fin n = true \/ (no_filter c = false /\ exists F i, n = NInclude F i).
Proof. exact needed_marked. Qed.
Print Assumptions C16_needed_is_marked.

(* ... and the file of every marked definition is reached from the main file over marked
   includes, so traversal keeps it *)
Theorem C16_marked_files_connected :
  forall matches cp c p fuel fin, mark_ast matches cp c p fuel = Ok fin ->
  forall x, def_kind x = true -> marked fin x = true -> pathm p fin (main_name p) (node_file x).
Proof. exact marks_connected. Qed.
Print Assumptions C16_marked_files_connected.

(* trim_minimal: a struct / union / exception left in the output is needed ... *)
Theorem C16_trim_minimal :
  forall matches compiles cp c p, wf p ->
  forall q fin F qf k s,
    trim matches compiles cp c p = Trimmed q -> marks_of matches cp c p fin ->
    In (F, qf) q -> In s (sl_list k qf) ->
    exists pf i, prog_file p F = Some pf /\ nth_error (sl_list k pf) i = Some s /\
                 needed cp c p (kept_methods c fin) (NStructLike F k i).
Proof. exact trim_minimal_struct_like. Qed.
Print Assumptions C16_trim_minimal.

(* ... and, without a method filter, an include left in the output is needed: something
   needed is written through it, or the files behind it hold constants, typedefs, enums
   or preserved struct-likes.  (Full statement = the same without [no_filter c = true];
   it is false: C16_trim_include_not_minimal_with_filter.) *)
Theorem C16_trim_minimal_include_partial :
  forall matches compiles cp c p, wf p ->
  forall q fin F qf inc,
    trim matches compiles cp c p = Trimmed q -> marks_of matches cp c p fin -> no_filter c = true ->
    In (F, qf) q -> In inc (f_includes qf) ->
    exists pf i inc0, prog_file p F = Some pf /\ nth_error (f_includes pf) i = Some inc0 /\
                      in_path inc = in_path inc0 /\ in_ref inc = in_ref inc0 /\
                      include_needed cp c p (kept_methods c fin) F i.
Proof. exact trim_minimal_include. Qed.
Print Assumptions C16_trim_minimal_include_partial.

(* every mark is justified (the invariant behind the two statements above) *)
Theorem C16_marks_are_needed :
  forall matches cp c p fuel fin, extends_resolved p -> mark_ast matches cp c p fuel = Ok fin ->
  all_good cp c p (kept_methods c fin) fin.
Proof. exact final_marks_good. Qed.
Print Assumptions C16_marks_are_needed.

(* trim_keeps_all_consts_typedefs_enums: a file with constants, typedefs or enums is in
   the output with all of them (repaired code: enums count, C16-2), and every file of the
   output has all its constants, typedefs, enums and namespaces. *)
Theorem C16_trim_keeps_all_consts_typedefs_enums :
  forall matches compiles cp c p, wf p ->
  forall q F pf,
    trim matches compiles cp c p = Trimmed q -> prog_file p F = Some pf -> has_enum_const_typedef pf = true ->
    exists qf, In (F, qf) q /\
      f_constants qf = f_constants pf /\ f_typedefs qf = f_typedefs pf /\ f_enums qf = f_enums pf.
Proof. exact trim_keeps_consts_typedefs_enums. Qed.
Print Assumptions C16_trim_keeps_all_consts_typedefs_enums.

Theorem C16_trim_output_files_keep_all :
  forall matches compiles cp c p q F qf,
    trim matches compiles cp c p = Trimmed q -> In (F, qf) q ->
    exists pf, prog_file p F = Some pf /\
      f_constants qf = f_constants pf /\ f_typedefs qf = f_typedefs pf /\ f_enums qf = f_enums pf /\
      f_namespaces qf = f_namespaces pf /\ f_filename qf = f_filename pf.
Proof. exact trim_output_file_keeps_all. Qed.
Print Assumptions C16_trim_output_files_keep_all.

(* trim_schema_preserved: a kept definition is the original one: struct-likes, typedefs,
   enums, constants and the kept functions are elements of the input's lists (field ids,
   types, requiredness, defaults, annotations untouched); hence, by C02, the same wire
   behaviour.  The second resolution pass only renumbers include indices
   ([Trim.reresolve_file], compared field by field with the real AST on every run). *)
Theorem C16_trim_schema_preserved :
  forall matches compiles cp c p q F qf,
    trim matches compiles cp c p = Trimmed q -> In (F, qf) q ->
    exists pf, prog_file p F = Some pf /\
      (forall k s, In s (sl_list k qf) -> In s (sl_list k pf)) /\
      f_typedefs qf = f_typedefs pf /\ f_enums qf = f_enums pf /\ f_constants qf = f_constants pf /\
      (forall sv, In sv (f_services qf) -> exists sv0, In sv0 (f_services pf) /\ sv_name sv = sv_name sv0 /\
                  forall fn, In fn (sv_functions sv) -> In fn (sv_functions sv0)).
Proof. exact trim_schema_preserved. Qed.
Print Assumptions C16_trim_schema_preserved.

(* method_filter_exact, the "only" half: with -m every method left in the output matches a
   pattern under the name of its own service or of a service that (transitively) extends
   it.  (The "if" half for markService's own rule is not proved; the two halves differ by
   the prefix rule traceExtendMethod does not apply: see the notes.) *)
Theorem C16_method_filter_only_matching_partial :
  forall matches compiles cp c p, filtering c = true ->
  forall q F qf sv fn,
    trim matches compiles cp c p = Trimmed q -> In (F, qf) q -> In sv (f_services qf) -> In fn (sv_functions sv) ->
    exists si s0, service_at p F si s0 /\ sv_name sv = sv_name s0 /\ In fn (sv_functions s0) /\
                  fn_selected matches c p F si s0 fn.
Proof. exact method_filter_only_matching. Qed.
Print Assumptions C16_method_filter_only_matching_partial.

(* method_filter_exact, the "if" half (match_go_name off): after marking, every service of the
   main file is COMPLETE: each of its methods selected by markService's rule
   (MatchString && (name == pattern || !HasPrefix(name, pattern))) is marked with its service, and
   when it extends another service every method of every service reached through `extends`
   (itself included) whose name qualified with the MAIN service's name matches a pattern is
   marked with its service.  With match_go_name the statement is false for services first
   reached by traceExtendMethod (it matches raw names); see the known finding. *)
Theorem C16_method_filter_complete_partial :
  forall matches cp c p, filtering c = true -> c_go_name c = false ->
  forall fuel fin f i s,
    mark_ast matches cp c p fuel = Ok fin -> prog_main p = Some f -> nth_error (f_services f) i = Some s ->
    complete matches c p fin (main_name p) i s.
Proof. exact method_filter_complete. Qed.
Print Assumptions C16_method_filter_complete_partial.

(* ... and a method marked together with its service is in the trimmed program *)
Theorem C16_marked_function_in_output :
  forall matches compiles cp c p, filtering c = true ->
  forall q fin T j ts g,
    trim matches compiles cp c p = Trimmed q -> marks_of matches cp c p fin ->
    both_marked fin T j -> fn_at p T j ts g ->
    exists qf sv, In (fst T, qf) q /\ In sv (f_services qf) /\ sv_name sv = sv_name ts /\ In g (sv_functions sv).
Proof. exact marked_function_in_output. Qed.
Print Assumptions C16_marked_function_in_output.

(* trim_resolves, the part that does not depend on a model of the resolver (all
   configurations): no reference of the trimmed program dangles.  For every definition left
   in the output, every definition its types denote in the input (struct-like, enum, typedef,
   through container element and key types) and every include they are written through is left
   in the output.  The full statement `resolve_program (strip (trim p)) = Ok (trim_resolved p)`
   additionally needs COMPLETENESS of C05's resolver model (that a program whose every
   reference denotes an existing definition of the right category, with distinct global
   names per file, is accepted): Idl/ResolveFacts.v proves properties of successful results
   only.  Checked instead on every case (oracle 5: [Resolve.resolve_program] on the stripped
   observed output gives the observed output). *)
Theorem C16_trim_resolves_partial :
  forall matches cp c p, wf p ->
  forall q fin,
    mark_ast matches cp c p (prog_size p) = Ok fin ->
    reach cp c p false (prog_size p) fin (main_name p) [] = Ok q ->
  forall F qf, In (F, qf) q ->
    (forall k s m, In s (sl_list k qf) -> In m (tys_nodes p F (map fd_type (sl_fields s))) -> node_survives p q m) /\
    (forall m, In m (tys_nodes p F (map td_type (f_typedefs qf))) -> node_survives p q m) /\
    (forall m, In m (tys_nodes p F (map co_type (f_constants qf))) -> node_survives p q m) /\
    (forall sv fn m, In sv (f_services qf) -> In fn (sv_functions sv) ->
                     In m (tys_nodes p F (function_types fn)) -> node_survives p q m).
Proof. exact references_survive. Qed.
Print Assumptions C16_trim_resolves_partial.

(* trim_resolves against C05's completeness theorem ([resolve_complete]): the trimmed program is
   [resolvable], hence [Resolve.resolve_program] succeeds on it — every configuration.
   Hypotheses on the INPUT: it is resolvable; its recorded resolution is the one C05's
   specification prescribes ([ResolveInv.occ_good] for every type occurrence: what
   [resolve_program_good] proves of every result of the resolver); the parser's three
   struct-like lists hold what their names say.
   Hypotheses on the OUTPUT in THIS statement (decidable): its base services resolve
   ([base_ok]: discharged in C16_trim_resolves_no_filter_partial and, with a method filter, in C16_trim_resolves_all),
   every identifier used as a value keeps exactly one explanation ([ident_ok]: discharged for
   every configuration in C16_trim_resolves_given_bases), and the include tree of the output is lower than its number of files
   (discharged for every configuration: C16_trimmed_includes_ok,
   C16_trim_resolves_given_bases_and_idents).  Proved: distinct plain global names, every type of every kept definition is
   accepted (typedef chains across files, qualified names after includes were deleted), void
   functions. *)
Theorem C16_trim_resolves :
  forall matches cp c p q fin, wf p ->
    mark_ast matches cp c p (prog_size p) = Ok fin ->
    reach cp c p false (prog_size p) fin (main_name p) [] = Ok q ->
    Idl.ResolvableConst.resolvable p = true ->
    (forall fn f, prog_file p fn = Some f -> forall t, In t (Idl.ResolveSpec.file_occs f) -> Idl.ResolveInv.occ_good p fn f t) ->
    (forall fn f k s, prog_file p fn = Some f -> In s (sl_list k f) -> sl_category s = k) ->
    (match q with [] => true | (mn, _) :: _ => Idl.ResolvableSpec.includes_ok (S (List.length q)) q mn end = true) ->
    (forall F qf, In (F, qf) q -> forallb (Idl.ResolvableSpec.base_ok q F qf) (f_services qf) = true) ->
    (forall F qf, In (F, qf) q ->
       forallb (Idl.ResolvableSpec.cv_idents_ok (Idl.ResolvableConst.ident_ok q F)) (file_top_const_values qf) = true) ->
    Idl.ResolvableConst.resolvable q = true /\ exists r, Idl.Resolve.resolve_program q = Idl.Resolve.Ok r.
Proof. exact Idl.TrimResolves.trim_resolves_with. Qed.
Print Assumptions C16_trim_resolves.

(* ... with the include-depth hypothesis discharged (every configuration): the include tree of
   the output lies inside the input's acyclic one and is closed, and an acyclic tree on n files
   is lower than n (pigeonhole) *)
Theorem C16_trimmed_includes_ok :
  forall (matches : bytes -> bytes -> bool) cp c p q fin,
    reach cp c p false (prog_size p) fin (main_name p) [] = Ok q ->
    Idl.ResolvableConst.resolvable p = true ->
    match q with [] => true | (mn, _) :: _ => Idl.ResolvableSpec.includes_ok (S (List.length q)) q mn end = true.
Proof. exact Idl.TrimResolves.trimmed_includes_ok. Qed.
Print Assumptions C16_trimmed_includes_ok.

Theorem C16_trim_resolves_given_bases_and_idents :
  forall matches cp c p q fin, wf p ->
    mark_ast matches cp c p (prog_size p) = Ok fin ->
    reach cp c p false (prog_size p) fin (main_name p) [] = Ok q ->
    Idl.ResolvableConst.resolvable p = true ->
    (forall fn f, prog_file p fn = Some f -> forall t, In t (Idl.ResolveSpec.file_occs f) -> Idl.ResolveInv.occ_good p fn f t) ->
    (forall fn f k s, prog_file p fn = Some f -> In s (sl_list k f) -> sl_category s = k) ->
    (forall F qf, In (F, qf) q -> forallb (Idl.ResolvableSpec.base_ok q F qf) (f_services qf) = true) ->
    (forall F qf, In (F, qf) q ->
       forallb (Idl.ResolvableSpec.cv_idents_ok (Idl.ResolvableConst.ident_ok q F)) (file_top_const_values qf) = true) ->
    Idl.ResolvableConst.resolvable q = true /\ exists r, Idl.Resolve.resolve_program q = Idl.Resolve.Ok r.
Proof. exact Idl.TrimResolves.trim_resolves_given_bases_and_idents. Qed.
Print Assumptions C16_trim_resolves_given_bases_and_idents.

(* trim_resolves WITHOUT a method filter: base services are discharged too.  Additional
   hypothesis on the input: the recorded reference of every base service is the include C05's
   specification chooses ([spec_include is_service_kind]; C05 proves the analogous fact for
   types, not for services).  The only hypothesis left on the output: every identifier used as a
   value keeps exactly one explanation. *)
Theorem C16_trim_resolves_no_filter_partial :
  forall matches cp c p q fin, wf p ->
    mark_ast matches cp c p (prog_size p) = Ok fin ->
    reach cp c p false (prog_size p) fin (main_name p) [] = Ok q ->
    Idl.ResolvableConst.resolvable p = true ->
    (forall fn f, prog_file p fn = Some f -> forall t, In t (Idl.ResolveSpec.file_occs f) -> Idl.ResolveInv.occ_good p fn f t) ->
    (forall fn f k s, prog_file p fn = Some f -> In s (sl_list k f) -> sl_category s = k) ->
    filtering c = false ->
    (forall fn f s, prog_file p fn = Some f -> In s (f_services f) ->
       match split_type (sv_extends s) with
       | [pre; m] => exists i gn, Idl.ResolveSpec.spec_include p Idl.ResolveSpec.is_service_kind pre m
                                    (Idl.ResolveSpec.file_incs f) 0 = Some (i, gn) /\
                                  sv_ref s = Some (Ref m (Z.of_nat i))
       | _ => sv_ref s = None
       end) ->
    (forall F qf, In (F, qf) q ->
       forallb (Idl.ResolvableSpec.cv_idents_ok (Idl.ResolvableConst.ident_ok q F)) (file_top_const_values qf) = true) ->
    Idl.ResolvableConst.resolvable q = true /\ exists r, Idl.Resolve.resolve_program q = Idl.Resolve.Ok r.
Proof. exact Idl.TrimResolves.trim_resolves_no_filter. Qed.
Print Assumptions C16_trim_resolves_no_filter_partial.

(* ... and with the identifier hypothesis discharged as well (every configuration): for a
   file of the output an identifier used as a value has the same number of explanations in
   both programs.  What is left on the output is [base_ok] for its services, which matters
   only with a method filter: *)
Theorem C16_trim_resolves_given_bases :
  forall matches cp c p q fin, wf p ->
    mark_ast matches cp c p (prog_size p) = Ok fin ->
    reach cp c p false (prog_size p) fin (main_name p) [] = Ok q ->
    Idl.ResolvableConst.resolvable p = true ->
    (forall fn f, prog_file p fn = Some f -> forall t, In t (Idl.ResolveSpec.file_occs f) -> Idl.ResolveInv.occ_good p fn f t) ->
    (forall fn f k s, prog_file p fn = Some f -> In s (sl_list k f) -> sl_category s = k) ->
    (forall F qf, In (F, qf) q -> forallb (Idl.ResolvableSpec.base_ok q F qf) (f_services qf) = true) ->
    Idl.ResolvableConst.resolvable q = true /\ exists r, Idl.Resolve.resolve_program q = Idl.Resolve.Ok r.
Proof. exact Idl.TrimResolves.trim_resolves_given_bases. Qed.
Print Assumptions C16_trim_resolves_given_bases.

(* trim_resolves WITHOUT a method filter, no hypothesis on the output left: a resolvable,
   well-formed resolved program whose recorded resolution is the one C05's specification
   prescribes (types: [occ_good]; base services: the include [spec_include is_service_kind]
   chooses) is, after trimming, again resolvable, and [Resolve.resolve_program] succeeds on it. *)
Theorem C16_trim_resolves_without_filter :
  forall matches cp c p q fin, wf p ->
    mark_ast matches cp c p (prog_size p) = Ok fin ->
    reach cp c p false (prog_size p) fin (main_name p) [] = Ok q ->
    Idl.ResolvableConst.resolvable p = true ->
    (forall fn f, prog_file p fn = Some f -> forall t, In t (Idl.ResolveSpec.file_occs f) -> Idl.ResolveInv.occ_good p fn f t) ->
    (forall fn f k s, prog_file p fn = Some f -> In s (sl_list k f) -> sl_category s = k) ->
    filtering c = false ->
    (forall fn f s, prog_file p fn = Some f -> In s (f_services f) ->
       match split_type (sv_extends s) with
       | [pre; m] => exists i gn, Idl.ResolveSpec.spec_include p Idl.ResolveSpec.is_service_kind pre m
                                    (Idl.ResolveSpec.file_incs f) 0 = Some (i, gn) /\
                                  sv_ref s = Some (Ref m (Z.of_nat i))
       | _ => sv_ref s = None
       end) ->
    Idl.ResolvableConst.resolvable q = true /\ exists r, Idl.Resolve.resolve_program q = Idl.Resolve.Ok r.
Proof. exact Idl.TrimResolves.trim_resolves_without_filter. Qed.
Print Assumptions C16_trim_resolves_without_filter.

(* trim_resolves — EVERY configuration (with and without a method filter), no hypothesis on the
   output.  With -m the missing piece was that a kept service whose `extends` is not cleared
   has its base service and the include marked (Idl/TrimResolves.marked_services_good). *)
Theorem C16_trim_resolves_all :
  forall matches cp c p q fin, wf p ->
    mark_ast matches cp c p (prog_size p) = Ok fin ->
    reach cp c p false (prog_size p) fin (main_name p) [] = Ok q ->
    Idl.ResolvableConst.resolvable p = true ->
    (forall fn f, prog_file p fn = Some f -> forall t, In t (Idl.ResolveSpec.file_occs f) -> Idl.ResolveInv.occ_good p fn f t) ->
    (forall fn f k s, prog_file p fn = Some f -> In s (sl_list k f) -> sl_category s = k) ->
    (forall fn f s, prog_file p fn = Some f -> In s (f_services f) ->
       match split_type (sv_extends s) with
       | [pre; m] => exists i gn, Idl.ResolveSpec.spec_include p Idl.ResolveSpec.is_service_kind pre m
                                    (Idl.ResolveSpec.file_incs f) 0 = Some (i, gn) /\
                                  sv_ref s = Some (Ref m (Z.of_nat i))
       | _ => sv_ref s = None
       end) ->
    Idl.ResolvableConst.resolvable q = true /\ exists r, Idl.Resolve.resolve_program q = Idl.Resolve.Ok r.
Proof. exact Idl.TrimResolves.trim_resolves. Qed.
Print Assumptions C16_trim_resolves_all.

(* trim_resolves for the OUTPUT of the resolver: the hypotheses of C16_trim_resolves_all about
   the recorded resolution (type occurrences, base-service References) are no longer assumed
   but derived from C05 (resolved_occ, resolve_service_ref) and moved from the parsed program
   p0 to its resolution r with C05's resolution_preserves_definitions.  Left: r is resolvable
   and well formed (decidable, checked on every case), every file of r was resolved, the
   parser's struct-like lists hold what their names say. *)
Theorem C16_trim_resolves_of_resolved :
  forall matches cp c p0 r q fin,
    Idl.ResolveSpec.parsed_program p0 = true ->
    Idl.Resolve.resolve_program p0 = Idl.Resolve.Ok r ->
    (forall fn f', prog_file r fn = Some f' -> f_name2cat f' <> None) ->
    Idl.ResolvableConst.resolvable r = true ->
    wf r ->
    (forall fn f k s, prog_file r fn = Some f -> In s (sl_list k f) -> sl_category s = k) ->
    mark_ast matches cp c r (prog_size r) = Ok fin ->
    reach cp c r false (prog_size r) fin (main_name r) [] = Ok q ->
    Idl.ResolvableConst.resolvable q = true /\ exists r', Idl.Resolve.resolve_program q = Idl.Resolve.Ok r'.
Proof. exact Idl.TrimResolved.trim_resolves_of_resolved. Qed.
Print Assumptions C16_trim_resolves_of_resolved.

(* the part of it that needs no hypothesis on the output: types *)
Theorem C16_trimmed_types_resolve :
  forall matches cp c p q fin, wf p ->
    mark_ast matches cp c p (prog_size p) = Ok fin ->
    reach cp c p false (prog_size p) fin (main_name p) [] = Ok q ->
    Idl.ResolvableConst.resolvable p = true ->
    (forall fn f, prog_file p fn = Some f -> forall t, In t (Idl.ResolveSpec.file_occs f) -> Idl.ResolveInv.occ_good p fn f t) ->
    (forall fn f k s, prog_file p fn = Some f -> In s (sl_list k f) -> sl_category s = k) ->
    forall F qf, In (F, qf) q -> forallb (Idl.ResolvableSpec.ty_ok q F) (Idl.ResolveSpec.file_top_occs qf) = true.
Proof. exact Idl.TrimResolves.trimmed_types_ok. Qed.
Print Assumptions C16_trimmed_types_resolve.

(* without a method filter the base service of a kept service and the include it is written
   through are left in the output as well *)
Theorem C16_base_service_survives_partial :
  forall matches cp c p, wf p ->
  forall q fin,
    mark_ast matches cp c p (prog_size p) = Ok fin ->
    reach cp c p false (prog_size p) fin (main_name p) [] = Ok q ->
  forall F qf i s0 b via,
    filtering c = false -> In (F, qf) q -> service_at p F i s0 -> marked fin (NService F i) = true ->
    base_of p F s0 = Some (b, via) ->
    node_survives p q b /\ forall m, In m via -> node_survives p q m.
Proof. exact base_service_survives. Qed.
Print Assumptions C16_base_service_survives_partial.

(* trim_idempotent, the half that is proved: a file in which traversal keeps every include,
   every struct-like, every service with all its functions (and clears no `extends`) comes out
   unchanged except that Include.Used and Name2Category are reset (and recomputed by the second
   resolution).  So trimming the trimmed program changes nothing as soon as the second run
   keeps everything, which by C16_trim_sound applied to the trimmed program means: every
   definition and include of the trimmed program is needed IN the trimmed program.  That
   stability of [needed] under trimming is the part not proved (see the header). *)
Theorem C16_trim_idempotent_partial :
  forall cp c p st F f, everything_kept cp c p st F f -> trim_file cp c p st F f = Ok (reset_file f).
Proof. exact trim_file_fixpoint. Qed.
Print Assumptions C16_trim_idempotent_partial.

(* trim_idempotent is FALSE with a method filter (known finding): on the real resolved AST of
     main.thrift: include "a.thrift"  service S extends a.Base { void f()  void fooBar() }
     a.thrift:    struct BR {1: i32 x}  service Base { BR g() }          -m S.f
   the first trim keeps f and fooBar and the (now empty) a.thrift, the second drops fooBar
   and the include. *)
Theorem C16_trim_not_idempotent_with_filter_refuted :
  exists q q2, w_first = Trimmed q /\ w_second = Trimmed q2 /\ program_eqb q q2 = false /\
               List.length q = 2 /\ List.length q2 = 1.
Proof. exact trim_not_idempotent_with_filter. Qed.
Print Assumptions C16_trim_not_idempotent_with_filter_refuted.

(* "every include no longer needed is removed" is FALSE with a method filter (known
   finding), same witness: include 0 of main.thrift stays and is not needed. *)
Theorem C16_trim_include_not_minimal_with_filter_refuted :
  trim w_matches w_compiles w_preserves w_cfg w_program = Trimmed w_q /\
  mark_ast w_matches w_preserves w_cfg w_program (prog_size w_program) = Ok w_fin /\
  In (main_name w_program, w_qf) w_q /\ In w_inc (f_includes w_qf) /\
  (exists pf, prog_file w_program (main_name w_program) = Some pf /\
              nth_error (f_includes pf) 0 = Some (Include (in_path w_inc) (in_ref w_inc) (Some true))) /\
  ~ include_needed w_preserves w_cfg w_program (kept_methods w_cfg w_fin) (main_name w_program) 0.
Proof. exact trim_include_not_minimal_with_filter. Qed.
Print Assumptions C16_trim_include_not_minimal_with_filter_refuted.

(* the hypotheses are satisfiable: the witness is a well-formed resolved program and the
   model terminates on it *)
Example C16_witness_wf : wf_program w_program = true.
Proof. exact w_program_wf. Qed.
