(* Props/C06.v — property C06 "Constants and default values in Go equal the values written in
   the IDL", stated about the model Idl/Consts.v of generator/golang/resolver.go and of the
   NewX / InitDefault / getter / IsSet templates.  Statements only; every proof is
   [exact lemma] (Idl/ConstsFacts.v) and is followed by Print Assumptions.

   Reading guide.  [eval q n p vf tf t c] is the Go value the compiled package holds for the
   initializer c written in file vf at a position of type t (type written in file tf) of the
   resolved program p; q = go_rules is the pinned generator, q = idl_rules the IDL's own
   reading (the two differ on -0.0, on containers written with a value of another kind, and
   on the fields a struct literal does not mention: see C06_eval_negative_zero_refuted,
   C06_container_kind_mismatch, C06_struct_literal_unmentioned_is_zero_not_default).  The
   theorems hold for EVERY q, so for both readings, unless they name one. *)
From Coq.Strings Require Import String.
From Coq Require Import List Bool ZArith NArith.
From Coq.Strings Require Import Byte.
From Verif Require Import Base.Bytes Idl.Ast Idl.AstUtil Idl.Consts Idl.ConstsFacts Idl.ConstsFuel.
Import ListNotations.
Local Open Scope Z_scope.
Local Open Scope consts_scope.

(* ------------------------------------------------------------------ typing *)

(* Whatever the evaluator produces — for any program, any nesting, any chain of references —
   is a Go value of the declared type: scalars of the right kind and range, containers of
   typed elements, struct values whose slots follow the Go field representation. *)
Theorem C06_eval_typed :
  forall q n p vf tf t c v, eval q n p vf tf t c = Ok v -> exists m, has_type m p tf t v = true.
Proof. exact eval_typed. Qed.
Print Assumptions C06_eval_typed.

(* ------------------------------------------------------------------ eval_literal_kinds: one statement per way of writing a value *)

(* number *)
Theorem C06_eval_int_literal :
  forall q n p vf tf t z, int_category (ty_category t) = true -> in_int_range (ty_category t) z = true ->
  eval q (S n) p vf tf t (CInt z) = Ok (VInt z).
Proof. exact eval_int_literal. Qed.
Print Assumptions C06_eval_int_literal.

(* string: the documented literal rule — the text is copied between double quotes with only the
   double quote re-escaped, and Go reads the result *)
Theorem C06_eval_string_literal :
  forall q n p vf tf t s, ty_category t = CatString ->
  eval q (S n) p vf tf t (CLiteral s) = (b <- go_unquote (go_escape_dq s) ;; Ok (VStr b)).
Proof. exact eval_string_literal. Qed.
Print Assumptions C06_eval_string_literal.

(* ... so a text without backslash and control bytes (quotes of either kind allowed) is its own value *)
Theorem C06_eval_string_plain :
  forall q n p vf tf t s, ty_category t = CatString -> forallb plain_byte s = true ->
  eval q (S n) p vf tf t (CLiteral s) = Ok (VStr s).
Proof. exact eval_string_plain. Qed.
Print Assumptions C06_eval_string_plain.

(* ... and the escapes are Go's *)
Theorem C06_go_unquote_escapes :
  forall r,
  go_unquote (c_bs :: c_bs :: r) = (t <- go_unquote r ;; Ok (c_bs :: t)) /\
  go_unquote (c_bs :: c_dq :: r) = (t <- go_unquote r ;; Ok (c_dq :: t)) /\
  go_unquote (c_bs :: x6e :: r) = (t <- go_unquote r ;; Ok (x0a :: t)) /\
  go_unquote (c_bs :: x74 :: r) = (t <- go_unquote r ;; Ok (x09 :: t)) /\
  go_unquote (c_bs :: x72 :: r) = (t <- go_unquote r ;; Ok (x0d :: t)) /\
  (forall h1 h2 a b, hexv h1 = Some a -> hexv h2 = Some b ->
     go_unquote (c_bs :: x78 :: h1 :: h2 :: r) = (t <- go_unquote r ;; Ok (byte_of_Z (a * 16 + b) :: t))) /\
  (forall h1 h2 h3 h4 a b c d enc, hexv h1 = Some a -> hexv h2 = Some b -> hexv h3 = Some c -> hexv h4 = Some d ->
     utf8 (((a * 16 + b) * 16 + c) * 16 + d) = Some enc ->
     go_unquote (c_bs :: x75 :: h1 :: h2 :: h3 :: h4 :: r) = (t <- go_unquote r ;; Ok (enc ++ t))) /\
  (forall e, known_escape e = false -> go_unquote (c_bs :: e :: r) = Error EUnsupportedEscape).
Proof.
  exact (fun r => conj (go_unquote_bs r) (conj (go_unquote_dq r) (conj (go_unquote_n r) (conj (go_unquote_t r)
         (conj (go_unquote_r r) (conj (fun h1 h2 a b => go_unquote_x h1 h2 a b r)
         (conj (fun h1 h2 h3 h4 a b c d enc => go_unquote_u h1 h2 h3 h4 a b c d enc r)
               (fun e => go_unquote_unsupported e r)))))))).
Qed.
Print Assumptions C06_go_unquote_escapes.

(* boolean: true / false ... *)
Theorem C06_eval_bool_word :
  forall q n p vf tf t s ex, ty_category t = CatBool -> is_true s || is_false s = true ->
  eval q (S n) p vf tf t (CIdent s ex) = Ok (VBool (is_true s)).
Proof. exact eval_bool_word. Qed.
Print Assumptions C06_eval_bool_word.

(* ... and 0 / 1 (any integer: positive means true) *)
Theorem C06_eval_bool_int :
  forall q n p vf tf t z, ty_category t = CatBool -> eval q (S n) p vf tf t (CInt z) = Ok (VBool (0 <? z)).
Proof. exact eval_bool_int. Qed.
Print Assumptions C06_eval_bool_int.

(* true / false for an integer type: 1 / 0 *)
Theorem C06_eval_int_true_false :
  forall q n p vf tf t s ex, int_category (ty_category t) = true -> is_true s || is_false s = true ->
  eval q (S n) p vf tf t (CIdent s ex) = Ok (VInt (if is_true s then 1 else 0)).
Proof. exact eval_int_true_false. Qed.
Print Assumptions C06_eval_int_true_false.

(* enum member by name (local: index -1, or through the include the identifier names) *)
Theorem C06_eval_enum_by_name :
  forall q n p vf tf t s ex g en ev, ty_category t = CatEnum -> ex_is_enum ex = true ->
  hop p vf (ex_index ex) = Ok g -> find_enum g (ex_sel ex) = Some en -> find_enum_value en (ex_name ex) = Some ev ->
  eval q (S n) p vf tf t (CIdent s (Some ex)) = Ok (VInt (ev_value ev)).
Proof. exact eval_enum_by_name. Qed.
Print Assumptions C06_eval_enum_by_name.

(* enum member by number: copied *)
Theorem C06_eval_enum_by_number :
  forall q n p vf tf t z, ty_category t = CatEnum -> eval q (S n) p vf tf t (CInt z) = Ok (VInt z).
Proof. exact eval_enum_by_number. Qed.
Print Assumptions C06_eval_enum_by_number.

(* int for double: the float64 nearest to the integer ... *)
Theorem C06_eval_int_for_double :
  forall q n p vf tf t z, ty_category t = CatDouble -> eval q (S n) p vf tf t (CInt z) = Ok (VDbl (z_to_double z)).
Proof. exact eval_int_for_double. Qed.
Print Assumptions C06_eval_int_for_double.

(* ... which below 2^53 is the integer itself: mantissa * 2^(exponent - 52) = z *)
Theorem C06_z_to_double_exact :
  forall z, 0 < z < 2 ^ 53 ->
  let b := z_to_double z in
  let e := b / two52 - 1023 in
  0 <= e <= 52 /\ (two52 + b mod two52) * 2 ^ e = z * two52.
Proof. exact z_to_double_exact. Qed.
Print Assumptions C06_z_to_double_exact.

(* double: its own bit pattern (under go_rules: unless it is a zero, see the refutation) *)
Theorem C06_eval_double_literal :
  forall q n p vf tf t b, ty_category t = CatDouble -> dbl_finite (Z.of_N b) = true ->
  q_negzero_lost q && dbl_is_zero (Z.of_N b) = false ->
  eval q (S n) p vf tf t (CDouble b) = Ok (VDbl (Z.of_N b)).
Proof. exact eval_double_literal. Qed.
Print Assumptions C06_eval_double_literal.

(* ------------------------------------------------------------------ references *)

(* An identifier evaluates to what the constant it denotes evaluates to — in that constant's
   own file, at its own type — checked against the position it is written in. *)
Theorem C06_eval_ref_transparent :
  forall q n p vf tf t s ex g co,
  value_category (ty_category t) = true -> bool_word (ty_category t) s = None ->
  denotes p vf ex = Ok (DConst g co) ->
  eval q (S n) p vf tf t (CIdent s (Some ex)) =
  (v <- eval_top q n p g (co_type co) (co_value co) ;; expect n p tf t v).
Proof. exact eval_ref_transparent. Qed.
Print Assumptions C06_eval_ref_transparent.

(* ... where a scalar of the same kind passes the check unchanged *)
Theorem C06_expect_scalar_id :
  forall k p tf t v,
  match ty_category t, v with
  | CatBool, VBool _ | CatDouble, VDbl _ | CatString, VStr _ | CatBinary, VBin _ | CatEnum, VInt _ => True
  | (CatByte | CatI16 | CatI32 | CatI64), VInt z => in_int_range (ty_category t) z = true
  | _, _ => False
  end -> expect k p tf t v = Ok v.
Proof. exact expect_scalar_id. Qed.
Print Assumptions C06_expect_scalar_id.

(* what an identifier denotes: a constant of the file itself ... *)
Theorem C06_denotes_local_const :
  forall p vf ex co, ex_index ex = -1 -> ex_is_enum ex = false -> find_constant vf (ex_name ex) = Some co ->
  denotes p vf ex = Ok (DConst vf co).
Proof. exact denotes_local_const. Qed.
Print Assumptions C06_denotes_local_const.

(* ... or of the include its index names *)
Theorem C06_denotes_included_const :
  forall p vf ex inc g co,
  ex_index ex <> -1 -> nth_include vf (ex_index ex) = Some inc -> include_target p inc = Some g ->
  ex_is_enum ex = false -> find_constant g (ex_name ex) = Some co ->
  denotes p vf ex = Ok (DConst g co).
Proof. exact denotes_included_const. Qed.
Print Assumptions C06_denotes_included_const.

(* ------------------------------------------------------------------ containers *)

Theorem C06_eval_container_pointwise_list :
  forall q n p vf tf t et l vs,
  (ty_category t = CatList \/ ty_category t = CatSet) -> ty_value t = Some et -> l <> [] ->
  (eval q (S n) p vf tf t (CList l) = Ok (VList vs) <->
   Forall2 (fun c v => eval q n p vf tf et c = Ok v) l vs).
Proof. exact eval_list_forall2. Qed.
Print Assumptions C06_eval_container_pointwise_list.

Theorem C06_eval_container_pointwise_map :
  forall q n p vf tf t kt vt l kvs,
  ty_category t = CatMap -> ty_key t = Some kt -> ty_value t = Some vt -> l <> [] ->
  Forall2 (fun kv ab => eval q n p vf tf (bin2str kt) (fst kv) = Ok (fst ab) /\
                        eval q n p vf tf vt (snd kv) = Ok (snd ab)) l kvs ->
  eval q (S n) p vf tf t (CMap l) = Ok (VMap (collapse_empty kvs)).
Proof. exact eval_map_forall2. Qed.
Print Assumptions C06_eval_container_pointwise_map.

(* entries are kept as written unless keys are pointers to field-less structs *)
Theorem C06_collapse_empty_id :
  forall kvs, forallb (fun kv => negb (is_empty_struct (fst kv))) kvs = true -> collapse_empty kvs = kvs.
Proof. exact collapse_empty_id. Qed.
Print Assumptions C06_collapse_empty_id.

(* ------------------------------------------------------------------ struct literals *)

(* Each field the literal mentions holds the value of what was written for it at the field's
   type (types read in the struct's file g, identifiers in the file vf of the literal), stored
   the way the Go field stores it; each field it does not mention is Go zero under go_rules
   and unconstrained under idl_rules. *)
Theorem C06_eval_struct_literal_fields :
  forall q n p vf tf t l g s fs fd,
  is_struct_like_category (ty_category t) = true ->
  get_struct_like p tf t = Ok (g, s) ->
  eval q (S n) p vf tf t (CMap l) = Ok (VStruct fs) ->
  In fd (sl_fields s) ->
  (forall kv, filter (key_names fd) l = [kv] ->
     exists v sl, eval q n p vf g (fd_type fd) (snd kv) = Ok v /\ mention_slot fd (snd kv) v = Ok sl /\
                  In (fd_id fd, sl) fs) /\
  (filter (key_names fd) l = [] ->
     In (fd_id fd, if q_unmentioned_any q then VAny else zero_slot fd) fs).
Proof. exact eval_struct_literal_fields. Qed.
Print Assumptions C06_eval_struct_literal_fields.

Theorem C06_struct_literal_unmentioned_is_zero_not_default :
  eval_top go_rules 3 [(B "m.thrift", lit_file)] lit_file lit_ty (CMap []) = Ok (VStruct [(1, VInt 0)]) /\
  new_struct go_rules 3 [(B "m.thrift", lit_file)] lit_file (StructLike SKStruct (B "S") [lit_field (Some (CInt 7))] [] [])
  = Ok (VStruct [(1, VInt 7)]).
Proof. exact struct_literal_unmentioned_is_zero_not_default. Qed.
Print Assumptions C06_struct_literal_unmentioned_is_zero_not_default.

(* ------------------------------------------------------------------ NewX, InitDefault *)

(* A freshly constructed struct: a field with a declared default holds the value of that
   default, every other field is zero / nil. *)
Theorem C06_new_struct_defaults :
  forall q n p f s x fd,
  new_struct q n p f s = Ok x -> NoDup (map fd_id (sl_fields s)) -> In fd (sl_fields s) ->
  (forall c, fd_default fd = Some c ->
     exists v, eval_top q n p f (fd_type fd) c = Ok v /\ get_slot x (fd_id fd) = Some v) /\
  (fd_default fd = None -> get_slot x (fd_id fd) = Some (zero_slot fd)).
Proof. exact new_struct_defaults. Qed.
Print Assumptions C06_new_struct_defaults.

Theorem C06_init_default_on_zero :
  forall q n p f s, init_default q n p f s (zero_struct s) = new_struct q n p f s.
Proof. exact init_default_on_zero. Qed.
Print Assumptions C06_init_default_on_zero.

(* InitDefault() on ANY object assigns the defaults and touches nothing else *)
Theorem C06_init_default_slots :
  forall q n p f fds slots fs,
  init_fields q n p f fds slots = Ok fs ->
  Forall2 (fun fd_slot e =>
             match fd_default (fst fd_slot) with
             | Some c => exists v, eval_top q n p f (fd_type (fst fd_slot)) c = Ok v /\ e = (fd_id (fst fd_slot), v)
             | None => e = snd fd_slot
             end) (combine fds slots) fs.
Proof. exact init_default_slots. Qed.
Print Assumptions C06_init_default_slots.

(* ------------------------------------------------------------------ getters, IsSet *)

(* the getter of an unset field returns the DEFAULT variable: the declared default, or the
   zero value of the plain type *)
Theorem C06_getter_unset_is_default :
  forall fd dv slot, support_isset fd = true -> is_set fd dv slot = false -> getter fd dv slot = default_var fd dv.
Proof. exact getter_unset_is_default. Qed.
Print Assumptions C06_getter_unset_is_default.

(* in particular on a fresh struct: the optional field holds its default, is unset, and its
   getter returns the default *)
Theorem C06_getter_new_struct_default :
  forall q n p f s x fd c,
  new_struct q n p f s = Ok x -> NoDup (map fd_id (sl_fields s)) -> In fd (sl_fields s) ->
  is_optional fd = true -> fd_default fd = Some c ->
  exists v, eval_top q n p f (fd_type fd) c = Ok v /\ get_slot x (fd_id fd) = Some v /\
            (base_scalar (fd_cat fd) = true -> self_equal v = true -> getter fd (Some v) v = v).
Proof. exact getter_new_struct_default. Qed.
Print Assumptions C06_getter_new_struct_default.

(* an optional scalar field holding a value different from its default reports itself as set *)
Theorem C06_isset_when_differs :
  forall fd d v, base_scalar (fd_cat fd) = true -> go_neq v d = true -> is_set fd (Some d) v = true.
Proof. exact isset_when_differs. Qed.
Print Assumptions C06_isset_when_differs.

Theorem C06_isset_when_differs_binary :
  forall fd d v, is_binary (fd_cat fd) = true -> bin_bytes v <> bin_bytes d -> is_set fd (Some d) v = true.
Proof. exact isset_when_differs_binary. Qed.
Print Assumptions C06_isset_when_differs_binary.

(* on an object: store a differing value; IsSet is true and the getter returns what was stored *)
Theorem C06_isset_after_set :
  forall fs fd d v slot,
  is_optional fd = true -> base_scalar (fd_cat fd) = true -> fd_default fd <> None ->
  In (fd_id fd) (map fst fs) -> go_neq v d = true ->
  get_slot (set_slot (VStruct fs) (fd_id fd) v) (fd_id fd) = Some slot ->
  is_set fd (Some d) slot = true /\ getter fd (Some d) slot = v.
Proof. exact isset_after_set. Qed.
Print Assumptions C06_isset_after_set.

(* containers, struct-likes and optional fields without default: set = not nil *)
Theorem C06_isset_pointer :
  forall fd dv v, (dv = None \/ is_base_or_enum (fd_cat fd) = false) -> is_set fd dv v = negb (is_nil v).
Proof. exact isset_pointer. Qed.
Print Assumptions C06_isset_pointer.

(* ------------------------------------------------------------------ kind mismatches *)

(* scalar and struct-like positions: an initializer of another kind is an error *)
Theorem C06_kind_mismatch_is_error :
  forall q n p vf tf t c,
  scalar_or_struct (ty_category t) = true -> kind_ok (ty_category t) c = false ->
  eval q (S n) p vf tf t c = Error EKind.
Proof. exact kind_mismatch_is_error. Qed.
Print Assumptions C06_kind_mismatch_is_error.

Theorem C06_struct_literal_bad_key :
  forall q n p vf tf t l g s,
  is_struct_like_category (ty_category t) = true -> get_struct_like p tf t = Ok (g, s) ->
  keys_ok s l = false -> eval q (S n) p vf tf t (CMap l) = Error EField.
Proof. exact struct_literal_bad_key. Qed.
Print Assumptions C06_struct_literal_bad_key.

Theorem C06_int_out_of_range_is_error :
  forall q n p vf tf t z, int_category (ty_category t) = true -> in_int_range (ty_category t) z = false ->
  eval q (S n) p vf tf t (CInt z) = Error ERange.
Proof. exact eval_int_out_of_range. Qed.
Print Assumptions C06_int_out_of_range_is_error.

(* containers: the generator tolerates a value of another kind (empty literal); by the IDL's
   rules it is an error *)
Theorem C06_container_kind_mismatch :
  forall q n p vf tf t c,
  is_container_category (ty_category t) = true ->
  match c with CInt _ | CDouble _ | CLiteral _ => True | CList _ => ty_category t = CatMap | _ => False end ->
  eval q (S n) p vf tf t c =
  if q_fault_tolerant q then Ok (empty_container (ty_category t)) else Error EKind.
Proof. exact container_kind_mismatch. Qed.
Print Assumptions C06_container_kind_mismatch.

(* shapes the semantic pass accepts and the backend refuses (kept out of the main stream) *)
Theorem C06_enum_via_typedef_is_error :
  forall q n p vf tf t s ex g,
  ty_category t = CatEnum -> ex_is_enum ex = true -> hop p vf (ex_index ex) = Ok g ->
  find_enum g (ex_sel ex) = None ->
  eval q (S n) p vf tf t (CIdent s (Some ex)) = Error EUndefined.
Proof. exact enum_via_typedef_is_error. Qed.
Print Assumptions C06_enum_via_typedef_is_error.

Theorem C06_typedef_container_is_error :
  forall q n p vf tf t c l,
  (ty_category t = CatList \/ ty_category t = CatSet) -> ty_value t = None ->
  eval q (S n) p vf tf t (CList (c :: l)) = Error EInternal.
Proof. exact typedef_container_is_error. Qed.
Print Assumptions C06_typedef_container_is_error.

(* ------------------------------------------------------------------ where the pinned code violates the property *)

(* -0.0 loses its sign: the generator's value and the IDL's value differ (known finding) *)
Theorem C06_eval_negative_zero_refuted :
  exists f c, eval_top go_rules 1 [] f double_ty c = Ok (VDbl 0) /\
              eval_top idl_rules 1 [] f double_ty c = Ok (VDbl two63) /\ two63 <> 0.
Proof. exact eval_negative_zero_refuted. Qed.
Print Assumptions C06_eval_negative_zero_refuted.

(* every other double reads the same under both rules *)
Theorem C06_go_double_agree :
  forall b, dbl_is_zero b = false -> go_double go_rules b = go_double idl_rules b.
Proof. exact go_double_agree. Qed.
Print Assumptions C06_go_double_agree.

(* ------------------------------------------------------------------ fuel *)

(* The fuel is only a termination device: once the evaluator answers with a value, every
   larger fuel gives the same value, so the value of an initializer is a function of the
   program alone (the theorems above that speak of [S n] hold for every sufficient fuel). *)
Theorem C06_eval_fuel_mono :
  forall q n m p vf tf t c v, (n <= m)%nat -> eval q n p vf tf t c = Ok v -> eval q m p vf tf t c = Ok v.
Proof. exact eval_fuel_mono. Qed.
Print Assumptions C06_eval_fuel_mono.

Theorem C06_eval_fuel_irrelevant :
  forall q n m p vf tf t c v w, eval q n p vf tf t c = Ok v -> eval q m p vf tf t c = Ok w -> v = w.
Proof. exact eval_fuel_irrelevant. Qed.
Print Assumptions C06_eval_fuel_irrelevant.

Theorem C06_new_struct_fuel_mono :
  forall q n m p f s x, (n <= m)%nat -> new_struct q n p f s = Ok x -> new_struct q m p f s = Ok x.
Proof. exact new_struct_fuel_mono. Qed.
Print Assumptions C06_new_struct_fuel_mono.

(* ------------------------------------------------------------------ the hypotheses are satisfiable *)

Example C06_ex_string :
  eval go_rules 1 [] (empty_file []) (empty_file []) (Ty (B "string") None None [] [] CatString None None)
       (CLiteral (B "say ""hi"" \t")) = Ok (VStr (B "say ""hi"" " ++ [x09])).
Proof. vm_compute. reflexivity. Qed.

Example C06_ex_int_for_double :
  eval go_rules 1 [] (empty_file []) (empty_file []) double_ty (CInt 3) = Ok (VDbl 4613937818241073152).
Proof. vm_compute. reflexivity. Qed.

Example C06_ex_rounding :
  z_to_double 9007199254740993 = z_to_double 9007199254740992.
Proof. vm_compute. reflexivity. Qed.
